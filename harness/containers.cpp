// C02 / C04 driver for option containers: histories of add / add-with-spoofed-length / remove / serialize / reparse
// (exported by TLC from spec/wire/ContainerGen) are applied to every class that keeps a list of options, extension
// headers, tags or similar: TCP, IPv4, IPv6, ICMPv6, DHCP, DHCPv6, 802.11 management frames, PPPoE, RTP; plus two
// setter-order kinds (LLC frame formats, ICMPv6 MLDv2 records with auxiliary data).  After every operation the
// driver logs the option list as the getters show it, the look-up result for the touched code, header_size(), size(),
// a serialisation with the region monitor registered (the object always carries a payload so that a layer writing
// past its header is seen), and the list read back from the re-parsed serialisation.
#include "vh.h"
#include <tins/tins.h>
#include <tins/pppoe.h>
#include <tins/rtp.h>
using namespace Tins;
typedef std::vector<uint8_t> Bytes;

static std::vector<std::pair<int, long> > OVERWRITES;
static void region_hook(int type, long off) { OVERWRITES.push_back(std::make_pair(type, off)); }
static const char PAYLOAD[] = "PAYLOAD-PAYLOAD!";

struct Item { long code; Bytes data; long lenfield; };
static long VARIANT = 0;       // scenario id parity: the second concretisation of a kind (see KIP, KDHCP6)
static unsigned ALT = 0;      // alternates between the rvalue and the const& overload of add_option / add_tag
struct Kind {
    virtual ~Kind() {}
    virtual PDU* root() = 0;                                  // the whole packet (for serialisation)
    virtual bool add(long code, const Bytes& data, long spoof) = 0;     // spoof < 0: normal
    virtual int remove(long code) { return -1; }              // 1 removed, 0 not found, -1 unsupported
    virtual std::vector<Item> list() = 0;
    virtual bool find(long code, Item& out) = 0;
    virtual std::vector<Item> list_of(PDU& parsed) = 0;       // the same list from a re-parsed packet
    virtual PDU* parse(const Bytes& b) = 0;
    virtual long concrete(long abstract_code) = 0;            // A=0, B=1, N=2 (single-octet / padding-like) -> real code
};
template <class OPT> static Item item_of(const OPT& o, long code) { Item i; i.code = code; i.data.assign(o.data_ptr(), o.data_ptr() + o.data_size()); i.lenfield = (long)o.length_field(); return i; }

struct KTCP : Kind { EthernetII pkt; TCP* t; KTCP() { pkt = EthernetII() / IP("1.2.3.4", "4.3.2.1") / TCP(1, 2) / RawPDU(PAYLOAD); t = pkt.find_pdu<TCP>(); }
    PDU* root() { return &pkt; } long concrete(long c) { return c == 0 ? 253 : c == 1 ? 254 : 1; }
    bool add(long c, const Bytes& d, long sp) { if (sp >= 0) t->add_option(TCP::option((TCP::OptionTypes)c, (uint16_t)sp, d.begin(), d.end())); else { if (ALT++ % 2) t->add_option(TCP::option((TCP::OptionTypes)c, d.begin(), d.end())); else { TCP::option named((TCP::OptionTypes)c, d.begin(), d.end()); t->add_option(named); } }; return true; }
    int remove(long c) { return t->remove_option((TCP::OptionTypes)c) ? 1 : 0; }
    std::vector<Item> lst(TCP* x) { std::vector<Item> r; TCP::options_type opts_copy = x->options(); for (TCP::options_type::const_iterator it = opts_copy.begin(); it != opts_copy.end(); ++it) r.push_back(item_of(*it, it->option())); return r; }
    std::vector<Item> list() { return lst(t); }
    bool find(long c, Item& o) { const TCP::option* x = t->search_option((TCP::OptionTypes)c); if (!x) return false; o = item_of(*x, x->option()); return true; }
    PDU* parse(const Bytes& b) { return new EthernetII(&b[0], (uint32_t)b.size()); }
    std::vector<Item> list_of(PDU& p) { return lst(&p.rfind_pdu<TCP>()); } };
struct KIP : Kind { EthernetII pkt; IP* t; KIP() { pkt = EthernetII() / IP("1.2.3.4", "4.3.2.1") / UDP(1, 2) / RawPDU(PAYLOAD); t = pkt.find_pdu<IP>(); }
    PDU* root() { return &pkt; } long concrete(long c) { if (VARIANT) return c == 0 ? 0x07 : c == 1 ? 0x87 : 1;      /* same number and class, only the copied flag differs */
                                                        return c == 0 ? 0x88 : c == 1 ? 0x94 : 1; }
    static long code_of(const IP::option& o) { const IP::option_identifier& id = o.option(); return (id.copied << 7) | (id.op_class << 5) | id.number; }
    bool add(long c, const Bytes& d, long sp) { if (sp >= 0) t->add_option(IP::option(IP::option_identifier((uint8_t)c), (uint16_t)sp, d.begin(), d.end())); else { if (ALT++ % 2) t->add_option(IP::option(IP::option_identifier((uint8_t)c), d.begin(), d.end())); else { IP::option named(IP::option_identifier((uint8_t)c), d.begin(), d.end()); t->add_option(named); } }; return true; }
    int remove(long c) { return t->remove_option(IP::option_identifier((uint8_t)c)) ? 1 : 0; }
    std::vector<Item> lst(IP* x) { std::vector<Item> r; IP::options_type opts_copy = x->options(); for (IP::options_type::const_iterator it = opts_copy.begin(); it != opts_copy.end(); ++it) r.push_back(item_of(*it, code_of(*it))); return r; }
    std::vector<Item> list() { return lst(t); }
    bool find(long c, Item& o) { const IP::option* x = t->search_option(IP::option_identifier((uint8_t)c)); if (!x) return false; o = item_of(*x, code_of(*x)); return true; }
    PDU* parse(const Bytes& b) { return new EthernetII(&b[0], (uint32_t)b.size()); }
    std::vector<Item> list_of(PDU& p) { return lst(&p.rfind_pdu<IP>()); } };
struct KIP6 : Kind { EthernetII pkt; IPv6* t; KIP6() { pkt = EthernetII() / IPv6("2001:db8::1", "2001:db8::2") / UDP(1, 2) / RawPDU(PAYLOAD); t = pkt.find_pdu<IPv6>(); }
    PDU* root() { return &pkt; } long concrete(long c) { return c == 0 ? 60 : c == 1 ? 43 : 0; }
    bool add(long c, const Bytes& d, long sp) { if (sp >= 0) return false; t->add_header(IPv6::ext_header((uint8_t)c, d.begin(), d.end())); return true; }
    std::vector<Item> lst(IPv6* x) { std::vector<Item> r; IPv6::headers_type opts_copy = x->headers(); for (IPv6::headers_type::const_iterator it = opts_copy.begin(); it != opts_copy.end(); ++it) r.push_back(item_of(*it, it->option())); return r; }
    std::vector<Item> list() { return lst(t); }
    bool find(long c, Item& o) { const IPv6::ext_header* x = t->search_header((IPv6::ExtensionHeader)c); if (!x) return false; o = item_of(*x, x->option()); return true; }
    PDU* parse(const Bytes& b) { return new EthernetII(&b[0], (uint32_t)b.size()); }
    std::vector<Item> list_of(PDU& p) { return lst(&p.rfind_pdu<IPv6>()); } };
struct KICMP6 : Kind { EthernetII pkt; ICMPv6* t; KICMP6() { pkt = EthernetII() / IPv6("2001:db8::1", "2001:db8::2") / ICMPv6(ICMPv6::ROUTER_ADVERT); t = pkt.find_pdu<ICMPv6>(); /* everything after an RA header is options: no payload */ }
    PDU* root() { return &pkt; } long concrete(long c) { return c == 0 ? 200 : c == 1 ? 201 : 202; }
    bool add(long c, const Bytes& d, long sp) { if (sp >= 0) t->add_option(ICMPv6::option((uint8_t)c, (uint16_t)sp, d.begin(), d.end())); else { if (ALT++ % 2) t->add_option(ICMPv6::option((uint8_t)c, d.begin(), d.end())); else { ICMPv6::option named((uint8_t)c, d.begin(), d.end()); t->add_option(named); } }; return true; }
    int remove(long c) { return t->remove_option((ICMPv6::OptionTypes)c) ? 1 : 0; }
    std::vector<Item> lst(ICMPv6* x) { std::vector<Item> r; ICMPv6::options_type opts_copy = x->options(); for (ICMPv6::options_type::const_iterator it = opts_copy.begin(); it != opts_copy.end(); ++it) r.push_back(item_of(*it, it->option())); return r; }
    std::vector<Item> list() { return lst(t); }
    bool find(long c, Item& o) { const ICMPv6::option* x = t->search_option((ICMPv6::OptionTypes)c); if (!x) return false; o = item_of(*x, x->option()); return true; }
    PDU* parse(const Bytes& b) { return new EthernetII(&b[0], (uint32_t)b.size()); }
    std::vector<Item> list_of(PDU& p) { return lst(&p.rfind_pdu<ICMPv6>()); } };
struct KDHCP : Kind { DHCP pkt; bool single; KDHCP(bool single_octet_codes = false) : single(single_octet_codes) { pkt.chaddr(HWAddress<6>("00:11:22:33:44:55")); }
    PDU* root() { return &pkt; } long concrete(long c) { if (single && c < 2) return (c == 0) != (VARIANT != 0) ? 255 : 0;      /* End and Pad: one octet on the wire */
                                                        return c == 0 ? 224 : c == 1 ? 225 : 226; }
    bool add(long c, const Bytes& d, long sp) { if (sp >= 0) pkt.add_option(DHCP::option((uint8_t)c, (uint16_t)sp, d.begin(), d.end())); else { if (ALT++ % 2) pkt.add_option(DHCP::option((uint8_t)c, d.begin(), d.end())); else { DHCP::option named((uint8_t)c, d.begin(), d.end()); pkt.add_option(named); } }; return true; }
    int remove(long c) { return pkt.remove_option((DHCP::OptionTypes)c) ? 1 : 0; }
    std::vector<Item> lst(const DHCP* x) { std::vector<Item> r; DHCP::options_type opts_copy = x->options(); for (DHCP::options_type::const_iterator it = opts_copy.begin(); it != opts_copy.end(); ++it) r.push_back(item_of(*it, it->option())); return r; }
    std::vector<Item> list() { return lst(&pkt); }
    bool find(long c, Item& o) { const DHCP::option* x = pkt.search_option((DHCP::OptionTypes)c); if (!x) return false; o = item_of(*x, x->option()); return true; }
    PDU* parse(const Bytes& b) { return new DHCP(&b[0], (uint32_t)b.size()); }
    std::vector<Item> list_of(PDU& p) { return lst(static_cast<DHCP*>(&p)); } };
struct KDHCP6 : Kind { DHCPv6 pkt; KDHCP6() { if (VARIANT) { pkt.msg_type(DHCPv6::RELAY_FORWARD); pkt.hop_count(3); pkt.link_address("2001:db8::1"); pkt.peer_address("fe80::2"); }      /* a relay message: 34-octet fixed part */
                                               else { pkt.msg_type(DHCPv6::SOLICIT); pkt.transaction_id(7); } }
    PDU* root() { return &pkt; } long concrete(long c) { return c == 0 ? 1000 : c == 1 ? 1001 : 1002; }
    bool add(long c, const Bytes& d, long sp) { if (sp >= 0) pkt.add_option(DHCPv6::option((uint16_t)c, (uint16_t)sp, d.begin(), d.end())); else { if (ALT++ % 2) pkt.add_option(DHCPv6::option((uint16_t)c, d.begin(), d.end())); else { DHCPv6::option named((uint16_t)c, d.begin(), d.end()); pkt.add_option(named); } }; return true; }
    int remove(long c) { return pkt.remove_option((DHCPv6::OptionTypes)c) ? 1 : 0; }
    std::vector<Item> lst(const DHCPv6* x) { std::vector<Item> r; DHCPv6::options_type opts_copy = x->options(); for (DHCPv6::options_type::const_iterator it = opts_copy.begin(); it != opts_copy.end(); ++it) r.push_back(item_of(*it, it->option())); return r; }
    std::vector<Item> list() { return lst(&pkt); }
    bool find(long c, Item& o) { const DHCPv6::option* x = pkt.search_option((DHCPv6::OptionTypes)c); if (!x) return false; o = item_of(*x, x->option()); return true; }
    PDU* parse(const Bytes& b) { return new DHCPv6(&b[0], (uint32_t)b.size()); }
    std::vector<Item> list_of(PDU& p) { return lst(static_cast<DHCPv6*>(&p)); } };
struct KDOT11 : Kind { Dot11ProbeRequest pkt; KDOT11() { pkt.addr1("ff:ff:ff:ff:ff:ff"); pkt.addr2("00:01:02:03:04:05"); }
    PDU* root() { return &pkt; } long concrete(long c) { return c == 0 ? 200 : c == 1 ? 201 : 202; }
    bool add(long c, const Bytes& d, long sp) { if (sp >= 0) pkt.add_option(Dot11::option((uint8_t)c, (uint16_t)sp, d.begin(), d.end())); else { if (ALT++ % 2) pkt.add_option(Dot11::option((uint8_t)c, d.begin(), d.end())); else { Dot11::option named((uint8_t)c, d.begin(), d.end()); pkt.add_option(named); } }; return true; }
    int remove(long c) { return pkt.remove_option((Dot11::OptionTypes)c) ? 1 : 0; }
    std::vector<Item> lst(const Dot11* x) { std::vector<Item> r; Dot11::options_type opts_copy = x->options(); for (Dot11::options_type::const_iterator it = opts_copy.begin(); it != opts_copy.end(); ++it) r.push_back(item_of(*it, it->option())); return r; }
    std::vector<Item> list() { return lst(&pkt); }
    bool find(long c, Item& o) { const Dot11::option* x = pkt.search_option((Dot11::OptionTypes)c); if (!x) return false; o = item_of(*x, x->option()); return true; }
    PDU* parse(const Bytes& b) { return Dot11::from_bytes(&b[0], (uint32_t)b.size()); }
    std::vector<Item> list_of(PDU& p) { return lst(static_cast<Dot11*>(&p)); } };
struct KPPPOE : Kind { EthernetII pkt; PPPoE* t; KPPPOE() { PPPoE p; p.code(0x09); pkt = EthernetII() / p; t = pkt.find_pdu<PPPoE>(); }
    PDU* root() { return &pkt; } long concrete(long c) { return c == 0 ? 0x0201 : c == 1 ? 0x0202 : 0x0203; }
    bool add(long c, const Bytes& d, long sp) { if (sp >= 0) t->add_tag(PPPoE::tag((PPPoE::TagTypes)Endian::host_to_be<uint16_t>((uint16_t)c), (uint16_t)sp, d.begin(), d.end())); else { if (ALT++ % 2) t->add_tag(PPPoE::tag((PPPoE::TagTypes)Endian::host_to_be<uint16_t>((uint16_t)c), d.begin(), d.end())); else { PPPoE::tag named((PPPoE::TagTypes)Endian::host_to_be<uint16_t>((uint16_t)c), d.begin(), d.end()); t->add_tag(named); } }; return true; }
    std::vector<Item> lst(PPPoE* x) { std::vector<Item> r; PPPoE::tags_type opts_copy = x->tags(); for (PPPoE::tags_type::const_iterator it = opts_copy.begin(); it != opts_copy.end(); ++it) r.push_back(item_of(*it, Endian::be_to_host<uint16_t>((uint16_t)it->option()))); return r; }
    std::vector<Item> list() { return lst(t); }
    bool find(long c, Item& o) { const PPPoE::tag* x = t->search_tag((PPPoE::TagTypes)Endian::host_to_be<uint16_t>((uint16_t)c)); if (!x) return false; o = item_of(*x, Endian::be_to_host<uint16_t>((uint16_t)x->option())); return true; }
    PDU* parse(const Bytes& b) { return new EthernetII(&b[0], (uint32_t)b.size()); }
    std::vector<Item> list_of(PDU& p) { return lst(&p.rfind_pdu<PPPoE>()); } };
struct KRTP : Kind { RTP pkt; KRTP() { pkt.payload_type(96); pkt /= RawPDU(PAYLOAD); }
    PDU* root() { return &pkt; } long concrete(long c) { return 0x01020300 + c; }
    bool add(long c, const Bytes& d, long sp) { if (sp >= 0) return false; pkt.add_csrc_id((uint32_t)c); return true; }
    int remove(long c) { return pkt.remove_csrc_id((uint32_t)c) ? 1 : 0; }
    std::vector<Item> lst(const RTP* x) { std::vector<Item> r; for (size_t i = 0; i < x->csrc_ids().size(); ++i) { Item it; it.code = Endian::be_to_host(x->csrc_ids()[i]);   /* the getter exposes the stored (network order) form, as libtins' own tests document */ it.lenfield = 0; r.push_back(it); } return r; }
    std::vector<Item> list() { return lst(&pkt); }
    bool find(long c, Item& o) { if (!pkt.search_csrc_id((uint32_t)c)) return false; o.code = c; o.data.clear(); o.lenfield = 0; return true; }
    PDU* parse(const Bytes& b) { return new RTP(&b[0], (uint32_t)b.size()); }
    std::vector<Item> list_of(PDU& p) { return lst(static_cast<RTP*>(&p)); } };

static Kind* make_kind(const std::string& k) {
    if (k == "tcp") return new KTCP(); if (k == "ip4") return new KIP(); if (k == "ip6") return new KIP6(); if (k == "icmp6") return new KICMP6();
    if (k == "dhcp") return new KDHCP(); if (k == "dhcp1") return new KDHCP(true); if (k == "dhcp6") return new KDHCP6(); if (k == "dot11") return new KDOT11(); if (k == "pppoe") return new KPPPOE(); if (k == "rtp") return new KRTP();
    return 0;
}
static void items_json(vh::W& w, const char* key, const std::vector<Item>& v) { w.key(key).A(); for (size_t i = 0; i < v.size(); ++i) { w.A().v(v[i].code).bytes(v[i].data.begin(), v[i].data.end()).v(v[i].lenfield).E(); } w.E(); }

// serialise with the region monitor; payload must come through untouched
static void ser_json(vh::W& w, PDU* root, Bytes& bytes) {
    std::string thrown; long size = -1; bytes.clear(); OVERWRITES.clear(); Internals::verif_region_hook = &region_hook;
    try { size = (long)root->size(); bytes = root->serialize(); } catch (std::exception& e) { thrown = std::string(typeid(e).name()) + ": " + e.what(); }
    Internals::verif_region_hook = 0;
    long hsum = 0; for (PDU* p = root; p; p = p->inner_pdu()) hsum += p->header_size() + p->trailer_size();
    bool payload_ok = true; const RawPDU* r = root->find_pdu<RawPDU>();
    if (r && thrown.empty()) { const std::string pl(PAYLOAD); payload_ok = std::search(bytes.begin(), bytes.end(), pl.begin(), pl.end()) != bytes.end(); }
    w.key("ser").O().kv("thrown", thrown).kv("size", size).kv("len", (long)bytes.size()).kv("hsum", hsum).kv("payload_ok", payload_ok);
    w.key("overwrite").A(); for (size_t i = 0; i < OVERWRITES.size(); ++i) w.A().v(OVERWRITES[i].first).v(OVERWRITES[i].second).E(); w.E(); w.E();
}

static void special_kind(const std::string& kind, const vh::Json& ops, vh::Out& out, vh::Rng& rng) {
    // setter-order kinds: only the universal serialisation clauses apply (no option list)
    LLC llc(0x10, 0x20); Dot3 d3("00:11:22:33:44:55", "66:77:88:99:aa:bb"); PDU* root = 0; EthernetII eth;
    ICMPv6::multicast_address_records_list recs;
    if (kind == "llc") { d3 /= llc; d3 /= RawPDU(PAYLOAD); root = &d3; }
    else { eth = EthernetII() / IPv6("2001:db8::1", "ff02::16") / ICMPv6(ICMPv6::MLD2_REPORT) / RawPDU(PAYLOAD); root = &eth; }
    for (size_t i = 0; i < ops.size(); ++i) {
        const std::string op = ops[i]["op"].str(); long c = ops[i]["code"].num(), sz = ops[i]["size"].num(); std::string thrown;
        try {
            if (kind == "llc" && op == "add") { LLC* l = d3.find_pdu<LLC>(); l->type(c == 0 ? LLC::INFORMATION : c == 1 ? LLC::SUPERVISORY : LLC::UNNUMBERED); if (c == 0) { l->send_seq_number((uint8_t)(sz & 0x7f)); l->receive_seq_number(3); } }
            if (kind == "mld2" && op == "add") { ICMPv6::multicast_address_record r; r.type = (uint8_t)(1 + c); r.multicast_address = "ff02::1:3"; for (long k = 0; k < c; ++k) r.sources.push_back("2001:db8::5"); r.aux_data.assign((size_t)sz, 0xab); recs.push_back(r); eth.find_pdu<ICMPv6>()->multicast_address_records(recs); }
        } catch (std::exception& e) { thrown = std::string(typeid(e).name()) + ": " + e.what(); }
        vh::W w; w.O().kv("e", "op").kv("op", op).kv("code", c).kv("size", sz).kv("spoof", -1L).kv("applied", true).kv("removed", -1L).kv("thrown", thrown).kraw("data", "[]")
            .kraw("list", "[]").kv("found", false).kraw("fitem", "[0,[],0]").kv("listed", false).kv("wired", true);
        Bytes b; ser_json(w, root, b); w.key("rt").O().kv("ok", true).kv("listed", false).kraw("list", "[]").E(); w.E(); out.event(w);
    }
}

static void scenario(const vh::Json& sc, vh::Out& out, vh::Rng& rng, const vh::Args&) {
    const std::string kind = sc["kind"].str();
    out.begin("\"kind\":\"" + kind + "\"");
    if (kind == "llc" || kind == "mld2") { special_kind(kind, sc["ops"], out, rng); out.end(); return; }
    VARIANT = out.sid % 2; ALT = (unsigned)(out.sid / 2);      // both depend on the scenario id only (a scenario replayed alone behaves as in its batch)
    Kind* K = make_kind(kind); if (!K) { out.discard(); return; }
    const vh::Json& ops = sc["ops"]; const bool lazy = sc["lazy"].truth();
    for (size_t i = 0; i < ops.size(); ++i) {
        const std::string op = ops[i]["op"].str(); long ac = ops[i]["code"].num(), sz = ops[i]["size"].num(), spoof = ops[i]["spoof"].num();
        long c = K->concrete(ac); Bytes data; for (long k = 0; k < sz; ++k) data.push_back((uint8_t)(1 + rng.below(255)));
        bool applied = true; long removed = -1; std::string thrown;
        try {
            if (op == "add") applied = K->add(c, data, -1);
            else if (op == "addspoof") applied = K->add(c, data, spoof);
            else if (op == "remove") { removed = K->remove(c); applied = removed >= 0; }
        } catch (std::exception& e) { thrown = std::string(typeid(e).name()) + ": " + e.what(); }
        vh::W w; w.O().kv("e", "op").kv("op", op).kv("code", c).kv("size", sz).kv("spoof", spoof).kv("applied", applied).kv("removed", removed).kv("thrown", thrown).kbytes("data", data);
        items_json(w, "list", K->list());
        Item f; bool found = false; try { found = K->find(c, f); } catch (std::exception&) {}
        w.kv("found", found); w.key("fitem").A(); if (found) w.v(f.code).bytes(f.data.begin(), f.data.end()).v(f.lenfield); else w.v(0).A().E().v(0); w.E();
        w.kv("listed", true);
        // lazy histories serialise only where the history says so: edits made BETWEEN two serialisations must show up in the
        // second one (anything a layer caches at serialisation time has to notice them)
        bool wired = !lazy || op == "ser";
        w.kv("wired", wired);
        if (!wired) { w.key("ser").O().kv("thrown", "").kv("size", 0).kv("len", 0).kv("hsum", 0).kv("payload_ok", true).kraw("overwrite", "[]").E();
                      w.key("rt").O().kv("ok", true).kv("listed", true).kraw("list", "[]").E(); w.E(); out.event(w); continue; }
        Bytes bytes; ser_json(w, K->root(), bytes);
        w.key("rt").O();
        if (bytes.empty()) w.kv("ok", false).kv("listed", true).kraw("list", "[]");
        else { try { PDU* p = K->parse(bytes); std::vector<Item> l2 = K->list_of(*p); delete p; w.kv("ok", true).kv("listed", true); items_json(w, "list", l2); }
               catch (std::exception& e) { w.kv("ok", false).kv("listed", true).kraw("list", "[]"); } }
        w.E(); w.E(); out.event(w);
    }
    delete K; out.end();
}
int main(int argc, char** argv) { return vh::run(argc, argv, scenario); }
