// C01 driver: structured hostile inputs.  A well-formed base packet (catalogue entry, WireGen shape, packet of the
// independent encoder, or a PPI / PKTAP sample capture) is damaged by the faults TLC enumerated (spec/wire/Faults.tla):
// truncation at every length, a lie in every header byte.  The damaged bytes are handed, in an exact-size heap block,
// to the base's link-layer entry point and - at every layer boundary of the intact packet - to the constructor of
// the class that parsed that layer; every accepted packet then gets every read accessor (harness/touch.h).
#include "wirebuild.h"
#include "catalogue.h"
#include "touch.h"
#include "samples.h"
#include <tins/ppi.h>
#include <tins/pktap.h>
#include <tins/detail/pdu_helpers.h>

static long OVERWRITES = 0; static int OVERWRITE_TYPE = 0;
static void count_overwrite(int type, long) { ++OVERWRITES; OVERWRITE_TYPE = type; }
struct Res { std::string outcome, what; TouchStat ts; };
static Res run_parse(std::function<PDU*(const uint8_t*, uint32_t)> parse, const Bytes& b, bool serializable) {
    Res r; uint8_t* blk = new uint8_t[b.size() ? b.size() : 1]; if (!b.empty()) memcpy(blk, &b[0], b.size());
    PDU* p = 0;
    try { p = parse(blk, (uint32_t)b.size()); r.outcome = p ? "packet" : "null"; }
    catch (malformed_packet&) { r.outcome = "malformed"; }
    catch (exception_base& e) { r.outcome = "foreign"; r.what = std::string("libtins exception other than malformed_packet escaped the parser: ") + typeid(e).name(); }
    catch (std::exception& e) { r.outcome = "foreign"; r.what = std::string(typeid(e).name()) + ": " + e.what(); }
    delete[] blk;       // accessors must not depend on the caller's buffer
    if (p) {
        // C02 on parsed packets: the region monitor (hook H1) watches the serialize() call that touch_all makes
        OVERWRITES = 0; Internals::verif_region_hook = &count_overwrite;
        touch_all(p, r.ts, serializable);
        Internals::verif_region_hook = 0;
        if (OVERWRITES) { r.ts.ser_fail += 1; if (r.ts.ser_what.empty()) r.ts.ser_what = "serialize(): a layer wrote into the bytes of its inner layers (type " + std::to_string(OVERWRITE_TYPE) + ")"; }
        delete p;
    }
    return r;
}

static void scenario(const vh::Json& sc, vh::Out& out, vh::Rng& rng, const vh::Args&) {
    const vh::Json& base = sc["base"];
    std::vector<std::pair<long, PDU::PDUType> > built_layers;
    Entry entry = E_ETH; Bytes b0; std::string bname; bool serializable = true; int special = 0;   // 1 = PPI, 2 = PKTAP
    if (base.has("raw")) { for (size_t i = 0; i < base["raw"].size(); ++i) b0.push_back((uint8_t)base["raw"][i].num()); bname = "golden:" + base["name"].str();
                           if (base.has("entry")) { const std::string en = base["entry"].str(); for (int q = 0; q < 8; ++q) if (en == entry_name((Entry)q)) entry = (Entry)q; }
                           if (base.has("special") && base["special"].str() == "ppi") { special = 1; serializable = false; } }
    else if (base.has("sample")) { if (base["sample"].str() == "ppi") { b0.assign(SAMPLE_PPI, SAMPLE_PPI + sizeof(SAMPLE_PPI)); special = 1; } else { b0.assign(SAMPLE_PKTAP, SAMPLE_PKTAP + sizeof(SAMPLE_PKTAP)); special = 2; } bname = "sample:" + base["sample"].str(); serializable = false; }
    else { PDU* built = 0; if (base.has("cat")) { built = catalogue((int)base["cat"].num(), rng, entry); bname = "cat" + std::to_string(base["cat"].num()); }
           else { Vals v; int nt; built = build_packet(base, rng, v, nt); bname = "wire"; }
           if (!built) return; try { b0 = built->serialize(); } catch (std::exception&) {}
           // the classes the BUILDER stacked (application layers such as DNS or DHCP are not dissected automatically)
           { long off = 0; for (PDU* p = built; p; off += p->header_size(), p = p->inner_pdu()) if (p != built && !dynamic_cast<RawPDU*>(p)) built_layers.push_back(std::make_pair(off, p->pdu_type())); }
           delete built; }
    if (b0.empty()) return;
    // "mode switch" lies applied before the enumerated faults (double faults): e.g. IPv6 payload length 0 (jumbogram path),
    // IPv4 total length 0 (segmentation-offload path)
    if (sc.has("pre")) for (size_t i = 0; i < sc["pre"].size(); ++i) { long pp = sc["pre"][i][0].num(); if (pp < (long)b0.size()) b0[pp] = (uint8_t)sc["pre"][i][1].num(); }
    std::function<PDU*(const uint8_t*, uint32_t)> top = [&](const uint8_t* p, uint32_t n) -> PDU* { return special == 1 ? (PDU*)new PPI(p, n) : special == 2 ? (PDU*)new PKTAP(p, n) : parse_entry(entry, p, n); };
    // layer boundaries and classes of the intact packet
    std::vector<std::pair<long, PDU::PDUType> > layers = built_layers;
    try { PDU* p0 = top(&b0[0], (uint32_t)b0.size()); long off = 0;
          for (PDU* p = p0; p; off += p->header_size(), p = p->inner_pdu()) {
              if (p != p0 && !dynamic_cast<RawPDU*>(p) && built_layers.empty()) layers.push_back(std::make_pair(off, p->pdu_type()));
              // whatever rides on UDP is handed to every application-layer class (none of them is dissected automatically)
              if (p->pdu_type() == PDU::UDP) { static const PDU::PDUType app[] = {PDU::DNS, PDU::DHCP, PDU::BOOTP, PDU::DHCPv6, PDU::RTP, PDU::VXLAN};
                  for (size_t a = 0; a < sizeof(app) / sizeof(app[0]); ++a) { bool have = false; for (size_t q = 0; q < layers.size(); ++q) if (layers[q].first == off + 8 && layers[q].second == app[a]) have = true; if (!have) layers.push_back(std::make_pair(off + 8, app[a])); } }
          }
          delete p0; } catch (std::exception&) {}
    out.begin("\"base\":\"" + bname + "\",\"len\":" + std::to_string(b0.size()));
    const vh::Json& faults = sc["faults"];
    for (size_t f = 0; f < faults.size(); ++f) {
        const std::string k = faults[f]["k"].str(); long n = faults[f]["n"].num(), pos = faults[f]["p"].num(), val = faults[f]["v"].num();
        Bytes b = b0; bool applied = true;
        if (k == "none") { }
        else if (k == "trunc") { if (n >= (long)b0.size()) applied = false; else b.resize(n); }
        else if (k == "byte") { if (pos >= (long)b0.size()) applied = false; else { uint8_t old = b[pos]; uint8_t nv = val == -1 ? (uint8_t)(old - 1) : val == -2 ? (uint8_t)(old + 1) : val == -3 ? (uint8_t)(old ^ 0x80) : (uint8_t)val; if (nv == old) applied = false; b[pos] = nv; } }
        vh::W w; w.O().kv("e", "f").kv("k", k).kv("n", n).kv("p", pos).kv("v", val).kv("applied", applied);
        if (applied) {
            Res r = run_parse(top, b, serializable);
            long foreign = r.ts.foreign, tins = r.ts.tins, calls = r.ts.calls, ser_fail = r.ts.ser_fail; std::string what = r.what.empty() ? r.ts.what : r.what, ser_what = r.ts.ser_what; std::string outcome = r.outcome;
            // the class constructors at every layer boundary that still lies inside the damaged buffer
            for (size_t i = 0; i < layers.size(); ++i) {
                if (layers[i].first > (long)b.size()) continue;
                Bytes sub(b.begin() + layers[i].first, b.end()); PDU::PDUType t = layers[i].second;
                Res r2 = run_parse([t](const uint8_t* p, uint32_t n2) { return construct(t, p, n2); }, sub, serializable);
                if (r2.outcome == "foreign" && outcome != "foreign") { outcome = "foreign"; what = "layer ctor: " + r2.what; }
                foreign += r2.ts.foreign; tins += r2.ts.tins; calls += r2.ts.calls; if (what.empty()) what = r2.ts.what; ser_fail += r2.ts.ser_fail; if (ser_what.empty()) ser_what = r2.ts.ser_what;
            }
            w.kv("outcome", outcome).kv("acc_foreign", foreign).kv("acc_tins", tins).kv("calls", calls).kv("what", what).kv("ser_fail", ser_fail).kv("ser_what", ser_what);
        } else w.kv("outcome", "none").kv("acc_foreign", 0).kv("acc_tins", 0).kv("calls", 0).kv("what", "").kv("ser_fail", 0).kv("ser_what", "");
        w.E(); out.event(w);
    }
    out.end();
}
int main(int argc, char** argv) { return vh::run(argc, argv, scenario); }
