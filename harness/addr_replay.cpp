// C16 replay driver: address ranges, ordering/equality/hash, text round trips and near-valid address strings,
// executed on the real IPv4Address / IPv6Address / HWAddress<6> / AddressRange<> classes.
// The driver contains no oracle: it builds the objects the scenario describes, calls the public API and logs what
// came back as small integers (offsets inside a window), byte lists and character lists.  spec/addr/AddrTrace.tla decides.
//
// scenario kinds
//   {"kind":"range","W":w,"k":"prefix|mask|pair","a":..,"b":..}   a model range of the w-bit space (from AddrRangeGen);
//        embedded into each address type at the windows bot (0...), mid (just below 0x80..0), top (...ff, all-ones
//        is real) and -- explicit pairs only -- carry (straddling 0x7f..f/0x80..0, a carry through every byte)
//   {"kind":"postinc","t":..}                   the same iteration written with it++ (forward-iterator post-increment)
//   {"kind":"cmp","t":..,"i":i,"addrs":[[bytes]..]}   addrs[i] against every address: == != < <= > >= and std::hash
//   {"kind":"rt","t":..,"addrs":[[bytes]..]}          to_string() then parse
//   {"toks":[[chars]..],"types":[..]}                 a near-valid string (from AddrTextGen) given to each parser
//   {"kind":"wide","t":..,"a":[bytes],"p":p,"base":[bytes],"probes":[[bytes]..],"size":n,"iterate":bool}  real-width prefix range
#include "vh.h"
#include <tins/ip_address.h>
#include <tins/ipv6_address.h>
#include <tins/hw_address.h>
#include <tins/address_range.h>
#include <tins/exceptions.h>
#include <sstream>
using namespace Tins;
typedef std::vector<uint8_t> Bytes;

// ---------------------------------------------------------------- big-endian byte arithmetic (scenario rendering only)
static bool add(Bytes& v, long d) {      // v += d; false if the result leaves the address space
    long carry = d;
    for (int i = (int)v.size() - 1; i >= 0 && carry != 0; --i) {
        long x = (long)v[i] + carry; long nb = ((x % 256) + 256) % 256; carry = (x - nb) / 256; v[i] = (uint8_t)nb; }
    return carry == 0;
}
static long diff(const Bytes& a, const Bytes& base, long limit) {   // a - base if it lies in [0, limit), else -1 ("outside the window")
    long acc = 0;                                                   // most significant byte first; once |acc| exceeds the
    for (size_t i = 0; i < a.size(); ++i) {                         // limit the lower bytes cannot bring it back
        acc = acc * 256 + ((long)a[i] - (long)base[i]);
        if (acc > limit * 4 || acc < -limit * 4) return -1; }
    return acc >= 0 && acc < limit ? acc : -1;
}
static Bytes to_bytes(const vh::Json& j) { Bytes b; for (size_t i = 0; i < j.size(); ++i) b.push_back((uint8_t)j[i].num()); return b; }

// ---------------------------------------------------------------- per-type glue: only public API
template <class A> struct Tr;
template <> struct Tr<IPv4Address> {
    enum { N = 4 }; static const char* name() { return "v4"; }
    static IPv4Address make(const Bytes& b) { uint32_t v; memcpy(&v, &b[0], 4); return IPv4Address(v); }   // network byte order, as in in_addr
    static Bytes bytes(const IPv4Address& a) { uint32_t v = a; Bytes b(4); memcpy(&b[0], &v, 4); return b; }
    static AddressRange<IPv4Address> slash(const IPv4Address& a, int p) { return a / p; }
};
template <> struct Tr<IPv6Address> {
    enum { N = 16 }; static const char* name() { return "v6"; }
    static IPv6Address make(const Bytes& b) { return IPv6Address(&b[0]); }
    static Bytes bytes(const IPv6Address& a) { return Bytes(a.begin(), a.end()); }
    static AddressRange<IPv6Address> slash(const IPv6Address& a, int p) { return a / p; }
};
template <> struct Tr<HWAddress<6> > {
    enum { N = 6 }; static const char* name() { return "hw"; }
    static HWAddress<6> make(const Bytes& b) { return HWAddress<6>(&b[0]); }
    static Bytes bytes(const HWAddress<6>& a) { return Bytes(a.begin(), a.end()); }
    static AddressRange<HWAddress<6> > slash(const HWAddress<6>& a, int p) { return a / p; }
};

// the short hardware addresses (whole address spaces of 2^8 and 2^16 elements: explicit ranges over ALL of it can be iterated)
template <> struct Tr<HWAddress<1> > {
    enum { N = 1 }; static const char* name() { return "hw1"; }
    static HWAddress<1> make(const Bytes& b) { return HWAddress<1>(&b[0]); }
    static Bytes bytes(const HWAddress<1>& a) { return Bytes(a.begin(), a.end()); }
};
template <> struct Tr<HWAddress<2> > {
    enum { N = 2 }; static const char* name() { return "hw2"; }
    static HWAddress<2> make(const Bytes& b) { return HWAddress<2>(&b[0]); }
    static Bytes bytes(const HWAddress<2>& a) { return Bytes(a.begin(), a.end()); }
};

static Bytes window_base(int N, int W, const std::string& win) {
    Bytes b(N, 0);
    if (win == "bot") return b;
    for (int i = 0; i < N; ++i) b[i] = 0xff;
    if (win == "mid" || win == "carry") b[0] = 0x7f;
    int clear = win == "carry" ? W - 1 : W;            // low bits cleared: the window starts at an aligned address
    for (int k = 0; k < clear; ++k) b[N - 1 - k / 8] &= (uint8_t)~(1u << (k % 8));
    return b;
}
static Bytes at(const Bytes& base, long off) { Bytes v = base; add(v, off); return v; }

template <class A> static void iterate(const AddressRange<A>& r, const Bytes& base, long limit, long budget, bool post, vh::W& w) {
    std::vector<long> visited; bool terminated = false; long steps = 0;
    typename AddressRange<A>::const_iterator it = r.begin(), e = r.end();
    for (;;) {
        if (!(it != e)) { terminated = true; break; }
        if (steps == budget) break;
        visited.push_back(diff(Tr<A>::bytes(*it), base, limit)); ++steps;
        if (post) it++; else ++it;
    }
    w.kv("terminated", terminated).key("visited").A(); for (size_t i = 0; i < visited.size(); ++i) w.v(visited[i]); w.E();
}

template <class A> static void range_exec(const vh::Json& sc, const std::string& win, vh::Out& out, bool post) {
    typedef Tr<A> T; const int N = T::N; int W = (int)sc["W"].num(); long size = 1L << W;
    std::string k = sc["k"].str(); long a = sc["a"].num(), b = sc["b"].num();
    Bytes base = window_base(N, W, win);
    out.begin(std::string("\"t\":\"") + T::name() + "\",\"win\":\"" + win + "\",\"W\":" + std::to_string(W));
    vh::W w; w.O().kv("e", post ? "postinc" : "range").kv("k", k).kv("a", a).kv("b", b);
    bool threw = false; std::string what;
    try {
        AddressRange<A> r = k == "prefix" ? T::slash(T::make(at(base, a)), 8 * N - W + (int)b)
                          : k == "mask" ? AddressRange<A>::from_mask(T::make(at(base, a)), T::make(at(window_base(N, W, "top"), b)))
                          : k == "pairhosts" ? AddressRange<A>(T::make(at(base, a)), T::make(at(base, b)), true)
                          : AddressRange<A>(T::make(at(base, a)), T::make(at(base, b)));
        w.kv("threw", false);
        w.key("contains").A(); for (long x = 0; x < size; ++x) w.v(r.contains(T::make(at(base, x)))); w.E();
        w.key("outside").A();
        { Bytes v = base; if (add(v, -1)) w.v(r.contains(T::make(v))); }
        { Bytes v = base; if (add(v, size)) w.v(r.contains(T::make(v))); }
        if (win != "bot") w.v(r.contains(T::make(Bytes(N, 0))));
        if (win != "top") w.v(r.contains(T::make(Bytes(N, 0xff))));
        w.E();
        w.kv("iterable", r.is_iterable());
        iterate<A>(r, base, size, 2 * size + 4, post, w);
    } catch (std::exception& ex) { threw = true; what = ex.what(); }
    if (threw) { w.kv("threw", true).key("contains").A().E().key("outside").A().E().kv("iterable", false).kv("terminated", false).key("visited").A().E(); }
    w.E(); out.event(w); out.end();
}
template <class A> static void range_all(const vh::Json& sc, vh::Out& out, bool post) {
    const char* wins[] = {"bot", "mid", "top", "carry"};
    for (int i = 0; i < 4; ++i) { if (i == 3 && sc["k"].str() != "pair" && sc["k"].str() != "pairhosts") continue; range_exec<A>(sc, wins[i], out, post); }
}

template <class A> static void cmp_exec(const vh::Json& sc, vh::Out& out) {
    typedef Tr<A> T; size_t i = (size_t)sc["i"].num(); const vh::Json& ad = sc["addrs"];
    out.begin(std::string("\"t\":\"") + T::name() + "\",\"i\":" + std::to_string(i));
    Bytes ab = to_bytes(ad[i]);
    for (size_t j = 0; j < ad.size(); ++j) {
        Bytes bb = to_bytes(ad[j]);
        A x = T::make(ab), y = T::make(bb);      // two separately constructed objects, also when i == j
        vh::W w; w.O().kv("e", "cmp").kbytes("a", ab).kbytes("b", bb).kbytes("ra", T::bytes(x)).kbytes("rb", T::bytes(y))
            .kv("eq", x == y).kv("ne", x != y).kv("lt", x < y).kv("le", x <= y).kv("gt", x > y).kv("ge", x >= y)
            .kv("heq", std::hash<A>()(x) == std::hash<A>()(y)).E();
        out.event(w);
    }
    out.end();
}

static void chars(vh::W& w, const char* key, const std::string& s) { w.key(key).A(); for (size_t i = 0; i < s.size(); ++i) w.v(std::string(1, s[i])); w.E(); }

template <class A> static void rt_exec(const vh::Json& sc, vh::Out& out) {
    typedef Tr<A> T; const vh::Json& ad = sc["addrs"];
    out.begin(std::string("\"t\":\"") + T::name() + "\"");
    for (size_t j = 0; j < ad.size(); ++j) {
        Bytes ab = to_bytes(ad[j]); A x = T::make(ab);
        std::string txt = x.to_string(); std::ostringstream os; os << x;
        vh::W w; w.O().kv("e", "rt").kv("t", T::name()).kbytes("a", ab); chars(w, "txt", txt); w.kv("same_os", os.str() == txt);
        try { A y(txt); w.kv("ok", true).kbytes("back", T::bytes(y)); }
        catch (std::exception&) { w.kv("ok", false).key("back").A().E(); }
        w.E(); out.event(w);
    }
    out.end();
}

template <class A> static void text_exec(const std::string& s, vh::Out& out) {
    typedef Tr<A> T;
    out.begin(std::string("\"t\":\"") + T::name() + "\"");
    vh::W w; w.O().kv("e", "parse").kv("t", T::name()); chars(w, "s", s);
    bool ok = false; std::string ex; Bytes val, back;
    // half of the strings go through the std::string constructor, half through the const char* one (both are the public way in)
    try { A x = (s.size() % 2) ? A(s) : A(s.c_str()); ok = true; val = T::bytes(x);
          try { A y(x.to_string()); back = T::bytes(y); } catch (std::exception&) { } }
    catch (invalid_address&) { ex = "invalid_address"; }
    catch (exception_base&) { ex = "exception_base"; }
    catch (std::exception&) { ex = "std::exception"; }
    w.kv("ok", ok).kv("ex", ex).kbytes("val", val).kbytes("back", back).E();
    out.event(w); out.end();
}

template <class A> static void wide_exec(const vh::Json& sc, vh::Out& out) {
    typedef Tr<A> T; Bytes a = to_bytes(sc["a"]), base = to_bytes(sc["base"]); int p = (int)sc["p"].num(); long size = sc["size"].num();
    out.begin(std::string("\"t\":\"") + T::name() + "\"");
    vh::W w; w.O().kv("e", "wide").kv("t", T::name()).kbytes("a", a).kv("p", p).kbytes("base", base);
    try {
        AddressRange<A> r = T::slash(T::make(a), p);
        w.kv("threw", false);
        const vh::Json& pr = sc["probes"];
        w.key("probes").A(); for (size_t i = 0; i < pr.size(); ++i) { Bytes t = to_bytes(pr[i]); w.bytes(t.begin(), t.end()); } w.E();
        w.key("contains").A(); for (size_t i = 0; i < pr.size(); ++i) w.v(r.contains(T::make(to_bytes(pr[i])))); w.E();
        w.kv("iterable", r.is_iterable());
        bool it = sc["iterate"].truth(); w.kv("iterated", it);
        if (it) iterate<A>(r, base, size + 8, 2 * size + 4, false, w);
        else w.kv("terminated", false).key("visited").A().E();
    } catch (std::exception&) {
        w.kv("threw", true).key("probes").A().E().key("contains").A().E().kv("iterable", false).kv("iterated", false).kv("terminated", false).key("visited").A().E();
    }
    w.E(); out.event(w); out.end();
}

// real-width EXPLICIT range [first, last] (two-address constructor) of at most 2^16 elements, anywhere in the address space - also
// all of it for the one- and two-octet hardware addresses: membership at and around the ends, the complete iteration
template <class A> static void widepair_exec(const vh::Json& sc, vh::Out& out) {
    typedef Tr<A> T; Bytes first = to_bytes(sc["first"]), last = to_bytes(sc["last"]); long count = sc["count"].num(); bool post = sc["post"].truth();
    out.begin("\"W\":0,\"what\":\"widepair\",\"t\":\"" + std::string(T::name()) + "\"");
    vh::W w; w.O().kv("e", "widepair").kv("t", T::name()).kbytes("first", first).kbytes("last", last).kv("count", count);
    try {
        AddressRange<A> r(T::make(first), T::make(last));
        w.kv("threw", false);
        const vh::Json& pr = sc["probes"];
        w.key("probes").A(); for (size_t i = 0; i < pr.size(); ++i) { Bytes t = to_bytes(pr[i]); w.bytes(t.begin(), t.end()); } w.E();
        w.key("contains").A(); for (size_t i = 0; i < pr.size(); ++i) w.v(r.contains(T::make(to_bytes(pr[i])))); w.E();
        w.kv("iterable", r.is_iterable());
        iterate<A>(r, first, count + 8, 2 * count + 4, post, w);
    } catch (std::exception&) { w.kv("threw", true).key("probes").A().E().key("contains").A().E().kv("iterable", false).kv("terminated", false).key("visited").A().E(); }
    w.E(); out.event(w); out.end();
}

// real-width range from an address and an ARBITRARY mask (wildcard masks, masks with zero octets in the middle): ends and membership
template <class A> static void widemask_exec(const vh::Json& sc, vh::Out& out) {
    typedef Tr<A> T; Bytes a = to_bytes(sc["a"]), m = to_bytes(sc["m"]);
    out.begin("\"W\":0,\"what\":\"widemask\",\"t\":\"" + std::string(T::name()) + "\"");
    vh::W w; w.O().kv("e", "widemask").kv("t", T::name()).kbytes("a", a).kbytes("m", m);
    try {
        AddressRange<A> r = AddressRange<A>::from_mask(T::make(a), T::make(m));
        w.kv("threw", false);
        const vh::Json& pr = sc["probes"];
        w.key("probes").A(); for (size_t i = 0; i < pr.size(); ++i) { Bytes t = to_bytes(pr[i]); w.bytes(t.begin(), t.end()); } w.E();
        w.key("contains").A(); for (size_t i = 0; i < pr.size(); ++i) w.v(r.contains(T::make(to_bytes(pr[i])))); w.E();
    } catch (std::exception&) { w.kv("threw", true).key("probes").A().E().key("contains").A().E(); }
    w.E(); out.event(w); out.end();
}

#define DISPATCH(t, CALL) do { if (t == "v4") { typedef IPv4Address A; CALL; } else if (t == "v6") { typedef IPv6Address A; CALL; } else { typedef HWAddress<6> A; CALL; } } while (0)

static void scenario(const vh::Json& sc, vh::Out& out, vh::Rng&, const vh::Args&) {
    if (sc.has("toks")) {
        std::string s; for (size_t i = 0; i < sc["toks"].size(); ++i) for (size_t j = 0; j < sc["toks"][i].size(); ++j) s += sc["toks"][i][j].str();
        const vh::Json& ty = sc["types"];
        for (size_t i = 0; i < ty.size(); ++i) { std::string t = ty[i].str(); DISPATCH(t, text_exec<A>(s, out)); }
        return;
    }
    std::string kind = sc["kind"].str();
    if (kind == "range" || kind == "postinc") {
        bool post = kind == "postinc";
        if (sc.has("t")) { std::string t = sc["t"].str(); DISPATCH(t, range_all<A>(sc, out, post)); }
        else { range_all<IPv4Address>(sc, out, post); range_all<IPv6Address>(sc, out, post); range_all<HWAddress<6> >(sc, out, post); }
    } else if (kind == "cmp") { std::string t = sc["t"].str(); DISPATCH(t, cmp_exec<A>(sc, out)); }
    else if (kind == "rt") { std::string t = sc["t"].str(); DISPATCH(t, rt_exec<A>(sc, out)); }
    else if (kind == "wide") { std::string t = sc["t"].str(); DISPATCH(t, wide_exec<A>(sc, out)); }
    else if (kind == "widepair") { std::string t = sc["t"].str();
        if (t == "hw1") widepair_exec<HWAddress<1> >(sc, out); else if (t == "hw2") widepair_exec<HWAddress<2> >(sc, out); else DISPATCH(t, widepair_exec<A>(sc, out)); }
    else if (kind == "widemask") { std::string t = sc["t"].str(); DISPATCH(t, widemask_exec<A>(sc, out)); }
}
int main(int argc, char** argv) { return vh::run(argc, argv, scenario); }
