// Start-up validation of the independent encryptor (wifi_enc.h) before it is trusted (DESIGN.md section 4, C09):
//  * check values of the primitives: CRC-32("123456789") = cbf43926, RC4 key streams of RFC 6229, the Michael test
//    vectors and the TKIP key-mixing test vectors of IEEE 802.11 (Annex M), the AES S-box corner values;
//  * the captured frames of libtins' own tests: from the tests' WEP key / passphrase + SSID the encryptor derives the
//    keys (PBKDF2, PRF), verifies the EAPOL-Key MICs of messages 2-4, opens the protected data frames (ICV, Michael,
//    CCM tag all verify) and, re-encrypting the recovered plaintext with the frame's IV / TSC / PN, reproduces the
//    captured ciphertext bit for bit.
// No libtins code is involved.
#ifndef VERIF_WIFI_SELFTEST_H
#define VERIF_WIFI_SELFTEST_H
#include "wifi_enc.h"
#include "wifi_testvec.h"
#include <map>

namespace wself {
using wenc::Bytes;

struct Result { std::map<std::string, bool> ok; bool all() const { for (std::map<std::string, bool>::const_iterator i = ok.begin(); i != ok.end(); ++i) if (!i->second) return false; return true; } };

inline Bytes hex(const char* s) { Bytes b; while (s[0] && s[1]) { unsigned v; sscanf(s, "%2x", &v); b.push_back((uint8_t)v); s += 2; while (*s == ' ') ++s; } return b; }

// strip the RadioTap header (and the FCS if the RadioTap flags say one is present)
inline Bytes dot11_of(const uint8_t* p, size_t n) {
    size_t rl = (size_t)(p[2] | (p[3] << 8)); uint32_t present = (uint32_t)p[4] | ((uint32_t)p[5] << 8) | ((uint32_t)p[6] << 16) | ((uint32_t)p[7] << 24);
    bool fcs = false;
    if (present & 2) { size_t off = 8 + ((present & 1) ? 8 : 0); fcs = p[off] & 0x10; }
    return Bytes(p + rl, p + n - (fcs ? 4 : 0));
}
struct Eapol { int msg; unsigned ver; Bytes frame; const uint8_t* nonce() const { return frame.data() + 17; } };
// classify an EAPOL-Key frame carried in a data frame (returns msg = 0 if it is none)
inline Eapol eapol_of(const Bytes& f) {
    Eapol e; e.msg = 0; e.ver = 0; wenc::Hdr h; size_t o = wenc::parse_hdr(f.data(), f.size(), h);
    if (!o || f.size() < o + 8 + 99 || memcmp(f.data() + o, wenc::LLC_EAPOL, 8)) return e;
    const uint8_t* p = f.data() + o + 8; size_t len = 4 + (size_t)((p[2] << 8) | p[3]);
    if (o + 8 + len > f.size() || p[1] != 3) return e;
    e.frame.assign(p, p + len); uint16_t ki = (uint16_t)((p[5] << 8) | p[6]); e.ver = ki & 7;
    bool ack = ki & wenc::KI_ACK, mic = ki & wenc::KI_MIC, inst = ki & wenc::KI_INSTALL, sec = ki & wenc::KI_SECURE;
    e.msg = (ack && !mic) ? 1 : (ack && mic && inst) ? 3 : (!ack && mic && !sec) ? 2 : (!ack && mic && sec) ? 4 : 0;
    return e;
}

// one captured WPA2 session: frames[first_hs .. first_hs+3] = messages 1-4, data frames after them
inline bool wpa2_session(const uint8_t* const* frames, const size_t* sizes, size_t count, size_t first_hs, const char* pass, const char* ssid, bool ccmp, bool& michael_seen) {
    Bytes pmk = wenc::pmk_from_passphrase(pass, ssid);
    Eapol m[5]; Bytes f[5];
    for (int i = 1; i <= 4; ++i) { f[i] = dot11_of(frames[first_hs + i - 1], sizes[first_hs + i - 1]); m[i] = eapol_of(f[i]); if (m[i].msg != i) return false; }
    wenc::Hdr h1; wenc::parse_hdr(f[1].data(), f[1].size(), h1);      // message 1: AP -> station (fromDS): a1 = station, a2 = BSSID
    const uint8_t* sta = h1.a1; const uint8_t* ap = h1.a2;
    Bytes ptk = wenc::ptk(pmk, ap, sta, m[1].nonce(), m[2].nonce(), 64);
    if (memcmp(m[1].nonce(), m[3].nonce(), 32)) return false;
    if ((m[4].ver == 2) != ccmp) return false;
    for (int i = 2; i <= 4; ++i) {                                       // the MICs of messages 2-4 verify under the derived KCK
        uint8_t mic[16]; Bytes fr = m[i].frame; wenc::eapol_mic(fr, m[i].ver, ptk.data(), mic);
        if (memcmp(mic, m[i].frame.data() + 81, 16)) return false;
        // and the frame builder reproduces the MIC when asked to write it
        Bytes again = m[i].frame; std::fill(again.begin() + 81, again.begin() + 97, 0); wenc::eapol_mic(again, m[i].ver, ptk.data());
        if (again != m[i].frame) return false;
    }
    size_t opened = 0;
    for (size_t k = first_hs + 4; k < count; ++k) {
        Bytes fr = dot11_of(frames[k], sizes[k]); wenc::Hdr h; size_t o = wenc::parse_hdr(fr.data(), fr.size(), h);
        if (!o || !(h.fc1 & 0x40)) return false;
        Bytes body(fr.begin() + o, fr.end()), plain, again;
        if (ccmp) {
            if (!wenc::ccmp_open(ptk.data() + 32, h, body, plain)) return false;
            uint8_t pn[6] = {body[0], body[1], body[4], body[5], body[6], body[7]};
            again = wenc::ccmp_body(ptk.data() + 32, h, pn, body[3] >> 6, plain);
        } else {
            // Michael key: bytes 48-55 for frames sent by the authenticator, 56-63 for frames sent by the supplicant
            const uint8_t* mk = ptk.data() + (h.from_ds() ? 48 : 56); bool mok = false;
            if (!wenc::tkip_open(ptk.data() + 32, mk, h.a2, h.da(), h.sa(), h.priority(), body, plain, mok) || !mok) return false;
            michael_seen = true;
            uint8_t tsc[6] = {body[2], body[0], body[4], body[5], body[6], body[7]};
            again = wenc::tkip_body(ptk.data() + 32, mk, h.a2, h.da(), h.sa(), h.priority(), tsc, body[3] >> 6, plain);
        }
        if (again != body) return false;
        if (plain.size() < 8 || plain[0] != 0xaa || plain[1] != 0xaa || plain[2] != 3) return false;   // LLC/SNAP
        ++opened;
    }
    return opened >= 1;
}

inline Result run() {
    Result r;
    // --- primitives
    r.ok["crc32"] = wenc::crc32((const uint8_t*)"123456789", 9) == 0xCBF43926u;
    {   // RFC 6229: key 0102030405 -> b2 39 63 05 f0 3d c0 27 cc c3 52 4a 0a 11 18 a8 ; key 0102..10 -> 9a c7 cc 9a 60 9d 1e f7 b2 93 28 99 cd e4 1b 97
        Bytes k5 = hex("0102030405"), k16 = hex("0102030405060708090a0b0c0d0e0f10"), z(16, 0), o(16);
        wenc::RC4 a(k5.data(), 5); a.crypt(z.data(), o.data(), 16); bool ok = o == hex("b2396305f03dc027ccc3524a0a1118a8");
        wenc::RC4 b(k16.data(), 16); b.crypt(z.data(), o.data(), 16); ok &= o == hex("9ac7cc9a609d1ef7b2932899cde41b97");
        r.ok["rc4"] = ok;
    }
    r.ok["aes_sbox"] = wenc::aes_sbox(0x00) == 0x63 && wenc::aes_sbox(0x01) == 0x7c && wenc::aes_sbox(0x53) == 0xed && wenc::aes_sbox(0xff) == 0x16
                       && wenc::tkip_sbox().t[0] == 0xC6A5 && wenc::tkip_sbox().t[255] == 0x2C3A;
    {   // Michael test vectors (IEEE 802.11-2012 M.6.1): each MIC is the key of the next line
        const char* msg[] = {"", "M", "Mi", "Mic", "Mich", "Michael"};
        const char* mic[] = {"82925c1ca1d130b8", "434721ca40639b3f", "e8f9becae97e5d29", "90038fc6cf13c1db", "d55e100510128986", "0a942b124ecaa546"};
        uint8_t key[8] = {0}; bool ok = true;
        for (int i = 0; i < 6; ++i) { wenc::Michael m(key); m.update((const uint8_t*)msg[i], strlen(msg[i])); uint8_t out[8]; m.finish(out); ok &= Bytes(out, out + 8) == hex(mic[i]); memcpy(key, out, 8); }
        r.ok["michael"] = ok;
    }
    {   // TKIP key mixing test vectors (IEEE 802.11-2012 M.6.3, vectors 1, 2 and 8)
        struct V { const char* tk; const char* ta; uint32_t iv32; uint16_t iv16; const char* p1k; const char* rc4; };
        const V v[] = {
            {"000102030405060708090a0b0c0d0e0f", "102233445566", 0x00000000u, 0x0000, "3dd2016e76f48697b2e8", "002000 33ea8d2f60ca6d1374234a660b"},
            {"000102030405060708090a0b0c0d0e0f", "102233445566", 0x00000000u, 0x0001, "3dd2016e76f48697b2e8", "002001 90ffdc314389a9d9d074fd20aa"},
            {"63893b250840b8ae0bd0fa7e61d2783e", "64f2eaeddc25", 0x20dcfd43u, 0xffff, "7c6749d79724b5e9b4f1", "ff7fff 93810fc6e58f5dd326251544ce"},
        };
        bool ok = true;
        for (size_t i = 0; i < 3; ++i) {
            Bytes tk = hex(v[i].tk), ta = hex(v[i].ta); uint16_t p1k[5]; uint8_t k[16];
            wenc::tkip_phase1(tk.data(), ta.data(), v[i].iv32, p1k); wenc::tkip_phase2(p1k, tk.data(), v[i].iv16, k);
            Bytes p; for (int j = 0; j < 5; ++j) { p.push_back((uint8_t)(p1k[j] >> 8)); p.push_back((uint8_t)p1k[j]); }
            ok &= p == hex(v[i].p1k) && Bytes(k, k + 16) == hex(v[i].rc4);
        }
        r.ok["tkip_mix"] = ok;
    }
    // --- libtins' captured frames
    {   // WEP-40, key 1f1f1f1f1f, fromDS frame with a 24-byte header
        const uint8_t* p = wtv::wep_packets[0]; size_t n = wtv::wep_packets_size[0]; Bytes key(5, 0x1f), plain;
        Bytes body(p + 24, p + n); bool ok = wenc::wep_open(key, body, plain);
        ok = ok && plain.size() > 8 && plain[0] == 0xaa && plain[6] == 0x08 && plain[7] == 0x06;        // LLC/SNAP + ARP
        ok = ok && wenc::wep_body(key, body.data(), body[3] >> 6, plain) == body;
        Bytes bad(5, 0x1f); bad[4] = 0x1e; Bytes tmp; ok = ok && !wenc::wep_open(bad, body, tmp);
        r.ok["wep_frames"] = ok;
    }
    bool mich = false, dummy = false;
    r.ok["ccmp_frames"] = wpa2_session(wtv::ccmp_packets, wtv::ccmp_packets_size, wtv::ccmp_packets_count, 1, "Induction", "Coherer", true, dummy);
    r.ok["ccmp_qos_frames"] = wpa2_session(wtv::ccmp_qos_packets, wtv::ccmp_qos_packets_size, wtv::ccmp_qos_packets_count, 1, "password1", "Testing", true, dummy);
    r.ok["tkip_frames"] = wpa2_session(wtv::tkip_packets, wtv::tkip_packets_size, wtv::tkip_packets_count, 1, "libtinstest", "NODO", false, mich);
    r.ok["tkip_michael_frames"] = mich;
    return r;
}
}  // namespace wself
#endif
