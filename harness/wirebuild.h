// Packet builder shared by the wire-format drivers: builds the packet a WireGen shape describes through the public
// libtins API and records the values that were set.
#ifndef VERIF_WIREBUILD_H
#define VERIF_WIREBUILD_H
#include "vh.h"
#include <tins/tins.h>
using namespace Tins;
typedef std::vector<uint8_t> Bytes;
struct Opt { int kind; Bytes data; };
struct Vals {
    Bytes eth_dst, eth_src; std::vector<long> vid, pcp;
    Bytes ip_src, ip_dst; long ttl, tos, ipid, df, flow, sport, dport, win, flags, icmp_id, icmp_seq; Bytes seq, ack;
    std::vector<Opt> ip4opts, tcpopts, ext; Bytes payload;
    Vals() : ttl(0), tos(0), ipid(0), df(0), flow(0), sport(0), dport(0), win(0), flags(0), icmp_id(0), icmp_seq(0) {}
};
static void be32(Bytes& b, uint32_t v) { b.push_back(v >> 24); b.push_back(v >> 16); b.push_back(v >> 8); b.push_back(v); }
static uint32_t rd32(const Bytes& b) { return ((uint32_t)b[0] << 24) | (b[1] << 16) | (b[2] << 8) | b[3]; }
static void opts_json(vh::W& w, const char* key, const std::vector<Opt>& o) { w.key(key).A(); for (size_t i = 0; i < o.size(); ++i) { w.A().v(o[i].kind).bytes(o[i].data.begin(), o[i].data.end()).E(); } w.E(); }
static void vals_json(vh::W& w, const Vals& v) {
    w.O().kbytes("eth_dst", v.eth_dst).kbytes("eth_src", v.eth_src);
    w.key("vid").A(); for (size_t i = 0; i < v.vid.size(); ++i) w.v(v.vid[i]); w.E();
    w.key("pcp").A(); for (size_t i = 0; i < v.pcp.size(); ++i) w.v(v.pcp[i]); w.E();
    w.kbytes("ip_src", v.ip_src).kbytes("ip_dst", v.ip_dst).kv("ttl", v.ttl).kv("tos", v.tos).kv("ipid", v.ipid).kv("df", v.df).kv("flow", v.flow)
     .kv("sport", v.sport).kv("dport", v.dport).kv("win", v.win).kv("flags", v.flags).kv("icmp_id", v.icmp_id).kv("icmp_seq", v.icmp_seq).kbytes("seq", v.seq).kbytes("ack", v.ack);
    opts_json(w, "ip4opts", v.ip4opts); opts_json(w, "tcpopts", v.tcpopts); opts_json(w, "ext", v.ext);
    w.kbytes("payload", v.payload).E();
}

// payload classes: sizes and one's-complement corner cases
static Bytes make_payload(const std::string& cls, vh::Rng& rng) {
    Bytes p;
    if (cls == "empty") return p;
    if (cls == "one") { p.push_back((uint8_t)rng.below(256)); return p; }
    size_t n = cls == "odd" ? 2 * rng.range(1, 40) + 1 : cls == "even" ? 2 * rng.range(1, 40) : cls == "big" ? (size_t)rng.range(1300, 1472) : cls == "huge" ? (size_t)rng.range(60000, 65000) : cls == "cksum0" ? (size_t)(2 * rng.range(2, 20)) : (size_t)(2 * rng.range(2, 30));
    for (size_t i = 0; i < n; ++i) p.push_back((uint8_t)rng.below(256));
    if (cls == "ones") for (size_t i = 0; i < n; ++i) p[i] = 0xff;          // every word 0xffff: the sum saturates
    if (cls == "zeros") for (size_t i = 0; i < n; ++i) p[i] = 0;
    if (cls == "carry") for (size_t i = 0; i < n; ++i) p[i] = (i % 2) ? 0xfe : 0xff;   // many end-around carries
    if (cls == "cksum0") { p[n - 2] = 0; p[n - 1] = 0; }      // last word chosen by build_packet so that the transport checksum computes to ZERO
    return p;
}
static Bytes rnd(vh::Rng& rng, size_t n) { Bytes b; for (size_t i = 0; i < n; ++i) b.push_back((uint8_t)rng.below(256)); return b; }

// read a libtins object back through its getters
static void read_back(PDU& root, Vals& v) {
    for (PDU* p = &root; p; p = p->inner_pdu()) {
        switch (p->pdu_type()) {
        case PDU::ETHERNET_II: { EthernetII* e = static_cast<EthernetII*>(p); EthernetII::address_type da = e->dst_addr(), sa = e->src_addr(); v.eth_dst.assign(da.begin(), da.end()); v.eth_src.assign(sa.begin(), sa.end()); break; }
        case PDU::DOT1Q: case PDU::DOT1AD: { Dot1Q* q = static_cast<Dot1Q*>(p); v.vid.push_back(q->id()); v.pcp.push_back(q->priority()); break; }
        case PDU::IP: { IP* ip = static_cast<IP*>(p); uint32_t s = Endian::be_to_host((uint32_t)ip->src_addr()), d = Endian::be_to_host((uint32_t)ip->dst_addr()); be32(v.ip_src, s); be32(v.ip_dst, d);
            v.ttl = ip->ttl(); v.tos = ip->tos(); v.ipid = ip->id(); v.df = (ip->flags() & IP::DONT_FRAGMENT) ? 1 : 0;
            for (IP::options_type::const_iterator it = ip->options().begin(); it != ip->options().end(); ++it) { Opt o; const IP::option_identifier& id = it->option(); o.kind = (id.copied << 7) | (id.op_class << 5) | id.number; o.data.assign(it->data_ptr(), it->data_ptr() + it->data_size()); v.ip4opts.push_back(o); } break; }
        case PDU::IPv6: { IPv6* ip = static_cast<IPv6*>(p); IPv6Address sa6 = ip->src_addr(), da6 = ip->dst_addr(); v.ip_src.assign(sa6.begin(), sa6.end()); v.ip_dst.assign(da6.begin(), da6.end());
            v.ttl = ip->hop_limit(); v.tos = ip->traffic_class(); v.flow = ip->flow_label();
            for (IPv6::headers_type::const_iterator it = ip->headers().begin(); it != ip->headers().end(); ++it) { Opt o; o.kind = it->option(); o.data.assign(it->data_ptr(), it->data_ptr() + it->data_size()); v.ext.push_back(o); } break; }
        case PDU::TCP: { TCP* t = static_cast<TCP*>(p); v.sport = t->sport(); v.dport = t->dport(); be32(v.seq, t->seq()); be32(v.ack, t->ack_seq()); v.win = t->window(); v.flags = t->flags();
            for (TCP::options_type::const_iterator it = t->options().begin(); it != t->options().end(); ++it) { Opt o; o.kind = it->option(); o.data.assign(it->data_ptr(), it->data_ptr() + it->data_size()); v.tcpopts.push_back(o); } break; }
        case PDU::UDP: { UDP* u = static_cast<UDP*>(p); v.sport = u->sport(); v.dport = u->dport(); break; }
        case PDU::ICMP: { ICMP* i = static_cast<ICMP*>(p); v.icmp_id = i->id(); v.icmp_seq = i->sequence(); v.flags = i->type(); break; }
        case PDU::ICMPv6: { ICMPv6* i = static_cast<ICMPv6*>(p); v.icmp_id = i->identifier(); v.icmp_seq = i->sequence(); v.flags = i->type(); break; }
        case PDU::RAW: { RawPDU* r = static_cast<RawPDU*>(p); v.payload = r->payload(); break; }
        default: break;
        }
    }
}
static void types_json(vh::W& w, const char* key, PDU& root) { w.key(key).A(); for (PDU* p = &root; p; p = p->inner_pdu()) w.v((long)p->pdu_type()); w.E(); }

static std::string ip4s(const Bytes& b) { return std::to_string(b[0]) + "." + std::to_string(b[1]) + "." + std::to_string(b[2]) + "." + std::to_string(b[3]); }
// builds the packet a WireGen shape describes; fills `v` with the values that were set; ntags = number of VLAN tags
static EthernetII* build_packet(const vh::Json& sc, vh::Rng& rng, Vals& v, int& ntags_out) {
    const std::string link = sc["link"].str(), net = sc["net"].str(), tr = sc["tr"].str();
    // ---- build through the API ----
    v.eth_dst = rnd(rng, 6); v.eth_src = rnd(rng, 6); v.eth_dst[0] &= 0xfe;
    EthernetII* ethp = new EthernetII(); EthernetII& eth = *ethp; eth.dst_addr(EthernetII::address_type(&v.eth_dst[0])); eth.src_addr(EthernetII::address_type(&v.eth_src[0]));
    PDU* tail = &eth;
    int ntags = link == "vlan" ? 1 : link == "qinq" ? 2 : 0;
    for (int i = 0; i < ntags; ++i) { long vid = rng.below(4) == 0 ? (rng.coin() ? 0 : 4095) : rng.below(4096), pcp = rng.below(8); v.vid.push_back(vid); v.pcp.push_back(pcp); Dot1Q* q = new Dot1Q((small_uint<12>)(uint16_t)vid); q->priority((small_uint<3>)(uint8_t)pcp); tail->inner_pdu(q); tail = q; }
    if (net == "ip4") {
        v.ip_src = rnd(rng, 4); v.ip_dst = rnd(rng, 4); if (v.ip_src[0] == 0) v.ip_src[0] = 10;
        IP* ip = new IP(IPv4Address(ip4s(v.ip_dst)), IPv4Address(ip4s(v.ip_src)));
        v.ttl = rng.range(1, 255); v.tos = rng.below(256); v.ipid = rng.below(65536); v.df = rng.coin();
        ip->ttl((uint8_t)v.ttl); ip->tos((uint8_t)v.tos); ip->id((uint16_t)v.ipid); if (v.df) ip->flags(IP::DONT_FRAGMENT);
        const std::string sh = sc["ip4opts"].str();
        std::vector<std::pair<int, int> > plan;      // (type byte, data size)
        if (sh == "nop") plan.push_back(std::make_pair(1, 0));
        else if (sh == "rr") plan.push_back(std::make_pair(7, 7));
        else if (sh == "sec") plan.push_back(std::make_pair(130, 9));
        else if (sh == "nopnop_ts") { plan.push_back(std::make_pair(1, 0)); plan.push_back(std::make_pair(1, 0)); plan.push_back(std::make_pair(68, 6)); }
        else if (sh == "odd") { plan.push_back(std::make_pair(148, 2)); plan.push_back(std::make_pair(136, 2)); plan.push_back(std::make_pair(1, 0)); }
        else if (sh == "max") plan.push_back(std::make_pair(131, 38));
        for (size_t i = 0; i < plan.size(); ++i) { Opt o; o.kind = plan[i].first; o.data = rnd(rng, plan[i].second); if (plan[i].first == 7 || plan[i].first == 131 || plan[i].first == 68) o.data[0] = 4; v.ip4opts.push_back(o);
            ip->add_option(IP::option(IP::option_identifier((uint8_t)o.kind), o.data.begin(), o.data.end())); }
        tail->inner_pdu(ip); tail = ip;
    } else {
        v.ip_src = rnd(rng, 16); v.ip_dst = rnd(rng, 16); v.ip_src[0] = 0x20; v.ip_dst[0] = 0x20;
        IPv6* ip = new IPv6(IPv6Address(&v.ip_dst[0]), IPv6Address(&v.ip_src[0]));
        v.ttl = rng.range(1, 255); v.tos = rng.below(256); v.flow = rng.below(1 << 20);
        ip->hop_limit((uint8_t)v.ttl); ip->traffic_class((uint8_t)v.tos); ip->flow_label((small_uint<20>)(uint32_t)v.flow);
        const std::string sh = sc["ext"].str();
        std::vector<std::pair<int, int> > plan;
        if (sh == "hbh") plan.push_back(std::make_pair(0, 6));
        else if (sh == "dst") plan.push_back(std::make_pair(60, 14));
        else if (sh == "hbh_dst") { plan.push_back(std::make_pair(0, 6)); plan.push_back(std::make_pair(60, 6)); }
        else if (sh == "rt") plan.push_back(std::make_pair(43, 22));
        else if (sh == "hbh7") plan.push_back(std::make_pair(0, 7));            // data sizes that are not 6 mod 8: padding needed
        else if (sh == "dst3") plan.push_back(std::make_pair(60, 3));
        else if (sh == "hbh7_dst3") { plan.push_back(std::make_pair(0, 7)); plan.push_back(std::make_pair(60, 3)); }      // two paddings that add up to more than 8
        else if (sh == "hbh1_dst1_dst9") { plan.push_back(std::make_pair(0, 1)); plan.push_back(std::make_pair(60, 1)); plan.push_back(std::make_pair(60, 9)); }
        else if (sh == "dst15_hbh") { plan.push_back(std::make_pair(0, 6)); plan.push_back(std::make_pair(60, 15)); }
        else if (sh == "hbh_rt_dst") { plan.push_back(std::make_pair(0, 14)); plan.push_back(std::make_pair(43, 6)); plan.push_back(std::make_pair(60, 30)); }
        for (size_t i = 0; i < plan.size(); ++i) { Opt o; o.kind = plan[i].first; o.data = rnd(rng, plan[i].second);
            // keep option TLVs inside hop-by-hop / destination headers well formed: one PadN covering the data
            if (o.kind != 43 && plan[i].second == 1) o.data[0] = 0;      /* Pad1 */
            else if (o.kind != 43) { o.data[0] = 1; o.data[1] = (uint8_t)(plan[i].second - 2); for (size_t k = 2; k < o.data.size(); ++k) o.data[k] = 0; } else { o.data[0] = 0; o.data[1] = 0; }
            v.ext.push_back(o); ip->add_header(IPv6::ext_header((uint8_t)o.kind, o.data.begin(), o.data.end())); }
        tail->inner_pdu(ip); tail = ip;
    }
    v.payload = make_payload(sc["pay"].str(), rng);
    if (tr == "tcp") {
        v.sport = rng.below(65536); v.dport = rng.below(65536); v.seq = rnd(rng, 4); v.ack = rnd(rng, 4); v.win = rng.below(65536); v.flags = rng.below(512);
        TCP* t = new TCP((uint16_t)v.dport, (uint16_t)v.sport); t->seq(rd32(v.seq)); t->ack_seq(rd32(v.ack)); t->window((uint16_t)v.win); t->flags((small_uint<12>)(uint16_t)v.flags);
        const std::string sh = sc["tcpopts"].str();
        if (sh == "mss" || sh == "mss_ws" || sh == "typical") { uint16_t m = (uint16_t)rng.below(65536); t->mss(m); Opt o; o.kind = 2; o.data.push_back(m >> 8); o.data.push_back(m & 255); v.tcpopts.push_back(o); }
        if (sh == "typical") { t->sack_permitted(); Opt o; o.kind = 4; v.tcpopts.push_back(o); }
        if (sh == "ts" || sh == "typical") { uint32_t a = rng.u32(), b = rng.u32(); t->timestamp(a, b); Opt o; o.kind = 8; be32(o.data, a); be32(o.data, b); v.tcpopts.push_back(o); }
        if (sh == "mss_ws" || sh == "typical") { uint8_t s = (uint8_t)rng.below(15); t->winscale(s); Opt o; o.kind = 3; o.data.push_back(s); v.tcpopts.push_back(o); }
        if (sh == "sack") { TCP::sack_type e; Opt o; o.kind = 5; for (int k = 0; k < 2 * rng.range(1, 3); ++k) { uint32_t x = rng.u32(); e.push_back(x); be32(o.data, x); } t->sack(e); v.tcpopts.push_back(o); }
        if (sh == "empty_opt") { t->add_option(TCP::option((TCP::OptionTypes)34)); Opt o; o.kind = 34; v.tcpopts.push_back(o); }   // a kind > 1 option without data
        if (sh == "nop_raw") { t->add_option(TCP::option(TCP::NOP)); Opt n; n.kind = 1; v.tcpopts.push_back(n); Opt o; o.kind = 253; o.data = rnd(rng, rng.range(1, 9)); t->add_option(TCP::option((TCP::OptionTypes)253, o.data.begin(), o.data.end())); v.tcpopts.push_back(o); }
        tail->inner_pdu(t); tail = t;
    } else if (tr == "udp") {
        v.sport = rng.below(65536); v.dport = rng.below(65536);
        UDP* u = new UDP((uint16_t)v.dport, (uint16_t)v.sport); tail->inner_pdu(u); tail = u;
    } else if (tr == "icmp") {
        v.icmp_id = rng.below(65536); v.icmp_seq = rng.below(65536); v.flags = rng.coin() ? 8 : 0;
        ICMP* i = new ICMP((ICMP::Flags)v.flags); i->id((uint16_t)v.icmp_id); i->sequence((uint16_t)v.icmp_seq); tail->inner_pdu(i); tail = i;
    } else {
        v.icmp_id = rng.below(65536); v.icmp_seq = rng.below(65536); v.flags = rng.coin() ? 128 : 129;
        ICMPv6* i = new ICMPv6((ICMPv6::Types)v.flags); i->identifier((uint16_t)v.icmp_id); i->sequence((uint16_t)v.icmp_seq); tail->inner_pdu(i); tail = i;
    }
    // the payload layer gets its bytes through the constructor, through the vector setter or through the iterator setter (over a
    // layer that held something else before)
    if (!v.payload.empty()) { int how = (int)rng.below(3); RawPDU* r = how == 0 ? new RawPDU(v.payload.begin(), v.payload.end()) : new RawPDU("previous contents");
        if (how == 1) r->payload(v.payload); else if (how == 2) r->payload(v.payload.begin(), v.payload.end());
        tail->inner_pdu(r); }
    if (sc["pay"].str() == "cksum0") {
        // the one's-complement sum of everything the checksum covers comes out as 0xffff, i.e. the computed checksum is 0
        // (RFC 768: UDP then transmits 0xffff): with the last payload word 0 the field reads C, so the word that makes it 0 is C
        Bytes b = ethp->serialize(); size_t off = b.size() - v.payload.size();   // padded frames are longer than 60 here? no: payload >= 4 and headers >= 42
        if (b.size() >= 60 + 4 * (size_t)ntags) {                                  // no Ethernet padding behind the payload
            size_t l4 = off - (tr == "tcp" ? tail->header_size() : 8);
            size_t coff = l4 + (tr == "tcp" ? 16 : tr == "udp" ? 6 : 2);
            uint8_t c0 = b[coff], c1 = b[coff + 1];
            if (!(tr == "udp" && c0 == 0xff && c1 == 0xff)) { v.payload[v.payload.size() - 2] = c0; v.payload[v.payload.size() - 1] = c1;
                tail->inner_pdu(new RawPDU(v.payload.begin(), v.payload.end())); }
        }
    }

    ntags_out = ntags;
    return ethp;
}
#endif
