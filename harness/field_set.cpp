// C15 replay driver: header field accessors are exact inverses and do not disturb neighbours.
//
// A registry (macro table below) binds (layout class, field name) pairs of spec/layout/Layouts.tla to the setter and
// getter of the real libtins class, together with the capacity of the setter's parameter type ("carrier").  Widths,
// header sizes and byte/bit orders are NOT stored here: they come from the table TLC exported (--layouts FILE); the
// width written in the registry is only cross-checked against it (a mismatch aborts: exit 3 = tool failure).
//
// scenario {"cls","field","mode":"set"|"range"|"sweep", "exh":W, "nseed":N, "sample":K}
//   set    boundary values (0, 1, max, max-1, 0101.., 1010.., every single bit) + N seeded values (all 2^w values when
//          w <= exh): for each, from a seeded random prior state: every registered getter before, the setter (exceptions
//          caught: "rej"), every getter after, and the class's own header bytes of serialize() before/after
//   range  out-of-range probes (2^w, 2^w+1, 2^w+seeded low bits, half and all-ones of the carrier type) for fields whose
//          width is not 8/16/32/64 and whose parameter type can carry the value; small_uint<N> parameters are constructed
//          from the integer INSIDE the try block (that constructor is libtins' range check)
//   sweep  all 2^w values (w <= 16), pre-filtered by a small interpreter of the SAME exported table; every disagreement
//          and every K-th event is logged in full so that TLC (FieldTrace.tla) decides; agreeing events are only counted
// events {"e":"set","v":[BE octets],"rej":bool,"gb":[[..],..],"ga":[[..],..],"hb":[..],"ha":[..]}
//        {"e":"probe","v":[carrier octets],"rej":bool}   {"e":"unbound"}   {"e":"noprobe"}
#include "vh.h"
#include "catalogue.h"
#include <tins/tins.h>
#include <tins/loopback.h>
#include <tins/vxlan.h>
#include <tins/rtp.h>
#include <tins/stp.h>
#include <tins/mpls.h>
#include <tins/dot1q.h>
#include <tins/ipsec.h>
#include <tins/pppoe.h>
#include <memory>
using namespace Tins;
typedef std::vector<uint8_t> Bytes;

// ------------------------------------------------------------------------------------------------ registry
struct Field {
    std::string name; int w; int carrier;   // carrier = bits the setter's parameter can hold (0: getter only)
    bool bytes;                             // value is an octet string (addresses, opaque arrays)
    bool fixed;                             // selects the variant (message type ...): never varied
    bool nonzero;                           // the all-zero value is a documented sentinel ("fill in at serialisation"): not offered
    std::function<void(PDU&, uint64_t)> set; std::function<uint64_t(PDU&)> get;
    std::function<void(PDU&, const Bytes&)> setb; std::function<Bytes(PDU&)> getb;
};
struct Class { std::string name; bool raw_child; std::function<PDU*()> make; std::vector<Field> fields; };
static std::vector<Class> REG;
static Class& cur() { return REG.back(); }
static void cls(const char* n, bool raw_child, std::function<PDU*()> mk) { Class c; c.name = n; c.raw_child = raw_child; c.make = mk; REG.push_back(c); }
static void addn(const char* n, int w, int carrier, std::function<void(PDU&, uint64_t)> s, std::function<uint64_t(PDU&)> g) {
    Field f; f.name = n; f.w = w; f.carrier = carrier; f.bytes = false; f.fixed = false; f.nonzero = false; f.set = s; f.get = g; cur().fields.push_back(f); }
static void addb(const char* n, int w, std::function<void(PDU&, const Bytes&)> s, std::function<Bytes(PDU&)> g) {
    Field f; f.name = n; f.w = w; f.carrier = w; f.bytes = true; f.fixed = false; f.nonzero = false; f.setb = s; f.getb = g; cur().fields.push_back(f); }
static void fix_last() { cur().fields.back().fixed = true; }
static void nonzero_last() { cur().fields.back().nonzero = true; }

template <class A> static Bytes addr_bytes(const A& a) { return Bytes(a.begin(), a.end()); }
static Bytes v4_bytes(const IPv4Address& a) {       // through the text form: independent of the in-memory representation
    std::string s = a.to_string(); Bytes b; unsigned x = 0; for (size_t i = 0; i <= s.size(); ++i) { if (i == s.size() || s[i] == '.') { b.push_back((uint8_t)x); x = 0; } else x = x * 10 + (s[i] - '0'); } return b; }
static IPv4Address v4_from(const Bytes& b) { char t[32]; snprintf(t, sizeof t, "%u.%u.%u.%u", b[0], b[1], b[2], b[3]); return IPv4Address(std::string(t)); }
static IPv6Address v6_from(const Bytes& b) { return IPv6Address(&b[0]); }
template <size_t n> static HWAddress<n> hw_from(const Bytes& b) { return HWAddress<n>(&b[0]); }
static Bytes ptr_bytes(const uint8_t* p, size_t n) { return Bytes(p, p + n); }

#define O_ T& o = static_cast<T&>(p)
// numeric field: NAME in Layouts, width, carrier C type, setter expression using v (of type CT), getter expression
#define NUM(NAME, W, CT, SETX, GETX) addn(NAME, W, (int)sizeof(CT) * 8, [](PDU& p, uint64_t x) { O_; CT v = (CT)x; SETX; }, [](PDU& p) -> uint64_t { O_; return (uint64_t)(GETX); })
#define U(NAME, W, CT, M) NUM(NAME, W, CT, o.M(v), o.M())
// small_uint<N> parameter: the small_uint is constructed from the raw integer inside the (try-guarded) setter call
#define SU(NAME, W, N, M) NUM(NAME, W, small_uint<N>::repr_type, o.M(small_uint<N>(v)), o.M())
#define EN(NAME, W, CT, E, M) NUM(NAME, W, CT, o.M((E)v), o.M())
// enumeration parameter whose value range (C++11 [dcl.enum]/7: the smallest bit-field holding all enumerators) is CB bits:
// a larger integer is not a value the parameter type can carry, so no out-of-range probe is offered
#define ENB(NAME, W, CB, E, M) addn(NAME, W, CB, [](PDU& p, uint64_t x) { O_; o.M((E)x); }, [](PDU& p) -> uint64_t { O_; return (uint64_t)(o.M()); })
#define BOOLF(NAME, M) addn(NAME, 1, 1, [](PDU& p, uint64_t x) { O_; o.M(x != 0); }, [](PDU& p) -> uint64_t { O_; return o.M() ? 1 : 0; })
#define GETONLY(NAME, W, GETX) addn(NAME, W, 0, std::function<void(PDU&, uint64_t)>(), [](PDU& p) -> uint64_t { O_; return (uint64_t)(GETX); })
#define V4(NAME, M) addb(NAME, 32, [](PDU& p, const Bytes& b) { O_; o.M(v4_from(b)); }, [](PDU& p) -> Bytes { O_; return v4_bytes(o.M()); })
#define V6(NAME, M) addb(NAME, 128, [](PDU& p, const Bytes& b) { O_; o.M(v6_from(b)); }, [](PDU& p) -> Bytes { O_; return addr_bytes(o.M()); })
#define HW(NAME, N, M) addb(NAME, 8 * N, [](PDU& p, const Bytes& b) { O_; o.M(hw_from<N>(b)); }, [](PDU& p) -> Bytes { O_; return addr_bytes(o.M()); })
#define ARR(NAME, N, M) addb(NAME, 8 * N, [](PDU& p, const Bytes& b) { O_; o.M(&b[0]); }, [](PDU& p) -> Bytes { O_; return ptr_bytes(o.M(), N); })
#define FLAGBIT(NAME, FL) addn(NAME, 1, 8, [](PDU& p, uint64_t x) { O_; o.set_flag(TCP::FL, small_uint<1>((uint8_t)x)); }, [](PDU& p) -> uint64_t { O_; return (uint64_t)o.get_flag(TCP::FL); })

static void dot11_fc() {
    typedef Dot11 T;
    SU("protocol", 2, 2, protocol); SU("type", 2, 2, type); fix_last(); SU("subtype", 4, 4, subtype); fix_last();
    SU("to_ds", 1, 1, to_ds); SU("from_ds", 1, 1, from_ds); SU("more_frag", 1, 1, more_frag); SU("retry", 1, 1, retry);
    SU("power_mgmt", 1, 1, power_mgmt); SU("more_data", 1, 1, more_data); SU("wep", 1, 1, wep); SU("order", 1, 1, order);
    U("duration_id", 16, uint16_t, duration_id); HW("addr1", 6, addr1);
}
template <class T> static void dot11_seq() {
    HW("addr2", 6, addr2); HW("addr3", 6, addr3); SU("frag_num", 4, 4, frag_num); SU("seq_num", 12, 12, seq_num);
}
#define CAPBIT(NAME) addn(#NAME, 1, 1, [](PDU& p, uint64_t x) { O_; o.capabilities().NAME(x != 0); }, [](PDU& p) -> uint64_t { O_; return o.capabilities().NAME() ? 1 : 0; })
template <class T> static void dot11_cap() {
    CAPBIT(ess); CAPBIT(ibss); CAPBIT(cf_poll); CAPBIT(cf_poll_req); CAPBIT(privacy); CAPBIT(short_preamble); CAPBIT(pbcc);
    CAPBIT(channel_agility); CAPBIT(spectrum_mgmt); CAPBIT(qos); CAPBIT(sst); CAPBIT(apsd); CAPBIT(radio_measurement);
    CAPBIT(dsss_ofdm); CAPBIT(delayed_block_ack); CAPBIT(immediate_block_ack);
}
// frames whose fixed parameters follow the 24-octet header: Address 4 exists only in data frames (IEEE 802.11-2012 8.3.3.1),
// libtins inserts one when both DS bits are set, so From DS is left at 0 for these classes (covered in the other classes)
static void pin(const char* name) { for (size_t i = 0; i < cur().fields.size(); ++i) if (cur().fields[i].name == name) cur().fields[i].fixed = true; }
static void unpin(const char* name) { for (size_t i = 0; i < cur().fields.size(); ++i) if (cur().fields[i].name == name) cur().fields[i].fixed = false; }
static void icmp_head(bool vary_type);
static void icmp6_head(bool vary_type);

static void build_registry() {
    { typedef IP T; cls("IP", true, []() -> PDU* { return new IP("10.0.0.1", "10.0.0.2"); });
      SU("version", 4, 4, version); GETONLY("ihl", 4, o.head_len()); U("tos", 8, uint8_t, tos); GETONLY("tot_len", 16, o.tot_len()); U("id", 16, uint16_t, id);
      ENB("flags", 3, 3, IP::Flags, flags); SU("frag_off", 13, 13, fragment_offset); U("ttl", 8, uint8_t, ttl); U("protocol", 8, uint8_t, protocol);
      GETONLY("checksum", 16, o.checksum()); V4("src", src_addr); nonzero_last();   /* IP::prepare_for_serialize replaces a 0.0.0.0 source by the outgoing interface's address */
      V4("dst", dst_addr); }
    { typedef IPv6 T; cls("IPv6", true, []() -> PDU* { return new IPv6("::1", "::2"); });
      SU("version", 4, 4, version); U("traffic_class", 8, uint8_t, traffic_class); SU("flow_label", 20, 20, flow_label);
      U("payload_length", 16, uint16_t, payload_length); U("next_header", 8, uint8_t, next_header); U("hop_limit", 8, uint8_t, hop_limit);
      V6("src", src_addr); V6("dst", dst_addr); }
    { typedef TCP T; cls("TCP", false, []() -> PDU* { return new TCP(80, 1025); });
      U("sport", 16, uint16_t, sport); U("dport", 16, uint16_t, dport); U("seq", 32, uint32_t, seq); U("ack_seq", 32, uint32_t, ack_seq);
      SU("data_offset", 4, 4, data_offset);
      FLAGBIT("cwr", CWR); FLAGBIT("ece", ECE); FLAGBIT("urg", URG); FLAGBIT("ack", ACK); FLAGBIT("psh", PSH); FLAGBIT("rst", RST); FLAGBIT("syn", SYN); FLAGBIT("fin", FIN);
      SU("flags12", 12, 12, flags); U("window", 16, uint16_t, window); GETONLY("checksum", 16, o.checksum()); U("urg_ptr", 16, uint16_t, urg_ptr); }
    { typedef UDP T; cls("UDP", false, []() -> PDU* { return new UDP(53, 1025); });
      U("sport", 16, uint16_t, sport); U("dport", 16, uint16_t, dport); U("length", 16, uint16_t, length); GETONLY("checksum", 16, o.checksum()); }
    { cls("ICMP", false, []() -> PDU* { return new ICMP(ICMP::ECHO_REQUEST); }); icmp_head(true); }
    { typedef ICMP T; cls("ICMP_echo", false, []() -> PDU* { return new ICMP(ICMP::ECHO_REQUEST); }); icmp_head(false);
      U("id", 16, uint16_t, id); U("sequence", 16, uint16_t, sequence); }
    { typedef ICMP T; cls("ICMP_redirect", false, []() -> PDU* { return new ICMP(ICMP::REDIRECT); }); icmp_head(false); V4("gateway", gateway); }
    { typedef ICMP T; cls("ICMP_param", false, []() -> PDU* { return new ICMP(ICMP::PARAM_PROBLEM); }); icmp_head(false);
      U("pointer", 8, uint8_t, pointer); GETONLY("rfc4884_length", 8, o.length()); }
    { typedef ICMP T; cls("ICMP_mtu", false, []() -> PDU* { ICMP* i = new ICMP(ICMP::DEST_UNREACHABLE); i->code(4); return i; }); icmp_head(false);
      GETONLY("rfc4884_length", 8, o.length()); U("mtu", 16, uint16_t, mtu); }
    { typedef ICMP T; cls("ICMP_mtu_len", false, []() -> PDU* { ICMP* i = new ICMP(ICMP::DEST_UNREACHABLE); i->code(4); i->use_length_field(true); i->inner_pdu(RawPDU(std::string(36, 'q'))); return i; }); icmp_head(false);
      GETONLY("rfc4884_length", 8, o.length()); U("mtu", 16, uint16_t, mtu); }
    { typedef ICMP T; cls("ICMP_param_len", false, []() -> PDU* { ICMP* i = new ICMP(ICMP::PARAM_PROBLEM); i->use_length_field(true); i->inner_pdu(RawPDU(std::string(140, 'q'))); return i; }); icmp_head(false);
      U("pointer", 8, uint8_t, pointer); GETONLY("rfc4884_length", 8, o.length()); }
    { typedef ICMP T; cls("ICMP_timestamp", false, []() -> PDU* { return new ICMP(ICMP::TIMESTAMP_REQUEST); }); icmp_head(false);
      U("id", 16, uint16_t, id); U("sequence", 16, uint16_t, sequence); U("original_timestamp", 32, uint32_t, original_timestamp);
      U("receive_timestamp", 32, uint32_t, receive_timestamp); U("transmit_timestamp", 32, uint32_t, transmit_timestamp); }
    { typedef ICMP T; cls("ICMP_mask", false, []() -> PDU* { return new ICMP(ICMP::ADDRESS_MASK_REQUEST); }); icmp_head(false);
      U("id", 16, uint16_t, id); U("sequence", 16, uint16_t, sequence); V4("address_mask", address_mask); }
    { cls("ICMPv6", false, []() -> PDU* { return new ICMPv6(ICMPv6::ECHO_REQUEST); }); icmp6_head(true); }
    { typedef ICMPv6 T; cls("ICMPv6_echo", false, []() -> PDU* { return new ICMPv6(ICMPv6::ECHO_REQUEST); }); icmp6_head(false);
      U("identifier", 16, uint16_t, identifier); U("sequence", 16, uint16_t, sequence); }
    { typedef ICMPv6 T; cls("ICMPv6_ra", false, []() -> PDU* { return new ICMPv6(ICMPv6::ROUTER_ADVERT); }); icmp6_head(false);
      U("hop_limit", 8, uint8_t, hop_limit); SU("managed", 1, 1, managed); SU("other", 1, 1, other); SU("home_agent", 1, 1, home_agent);
      SU("router_pref", 2, 2, router_pref); U("router_lifetime", 16, uint16_t, router_lifetime); U("reachable_time", 32, uint32_t, reachable_time);
      U("retransmit_timer", 32, uint32_t, retransmit_timer); }
    { typedef ICMPv6 T; cls("ICMPv6_ns", false, []() -> PDU* { return new ICMPv6(ICMPv6::NEIGHBOUR_SOLICIT); }); icmp6_head(false); V6("target_addr", target_addr); }
    { typedef ICMPv6 T; cls("ICMPv6_na", false, []() -> PDU* { return new ICMPv6(ICMPv6::NEIGHBOUR_ADVERT); }); icmp6_head(false);
      SU("router", 1, 1, router); SU("solicited", 1, 1, solicited); SU("override", 1, 1, override); V6("target_addr", target_addr); }
    { typedef ICMPv6 T; cls("ICMPv6_redirect", false, []() -> PDU* { return new ICMPv6(ICMPv6::REDIRECT); }); icmp6_head(false);
      V6("target_addr", target_addr); V6("dest_addr", dest_addr); }
    { typedef ICMPv6 T; cls("ICMPv6_mld", false, []() -> PDU* { return new ICMPv6(ICMPv6::MGM_QUERY); }); icmp6_head(false);
      U("maximum_response_code", 16, uint16_t, maximum_response_code); V6("multicast_addr", multicast_addr); }
    { typedef ICMPv6 T; cls("ICMPv6_mld2", false, []() -> PDU* { ICMPv6* i = new ICMPv6(ICMPv6::MGM_QUERY); i->use_mldv2(true); return i; }); icmp6_head(false);
      U("maximum_response_code", 16, uint16_t, maximum_response_code); V6("multicast_addr", multicast_addr);
      SU("supress", 1, 1, supress); SU("qrv", 3, 3, qrv); U("qqic", 8, uint8_t, qqic); GETONLY("sources_count", 16, o.sources().size()); }
    { typedef ARP T; cls("ARP", false, []() -> PDU* { return new ARP(); });
      U("hw_addr_format", 16, uint16_t, hw_addr_format); U("prot_addr_format", 16, uint16_t, prot_addr_format); U("hw_addr_length", 8, uint8_t, hw_addr_length);
      U("prot_addr_length", 8, uint8_t, prot_addr_length); EN("opcode", 16, uint16_t, ARP::Flags, opcode); HW("sender_hw_addr", 6, sender_hw_addr);
      V4("sender_ip_addr", sender_ip_addr); HW("target_hw_addr", 6, target_hw_addr); V4("target_ip_addr", target_ip_addr); }
    { typedef EthernetII T; cls("EthernetII", true, []() -> PDU* { return new EthernetII(); });
      HW("dst_addr", 6, dst_addr); HW("src_addr", 6, src_addr); U("payload_type", 16, uint16_t, payload_type); }
    { typedef Dot3 T; cls("Dot3", false, []() -> PDU* { return new Dot3(); });
      HW("dst_addr", 6, dst_addr); HW("src_addr", 6, src_addr); U("length", 16, uint16_t, length); }
    { typedef Dot1Q T; cls("Dot1Q", true, []() -> PDU* { return new Dot1Q(); });
      SU("priority", 3, 3, priority); SU("cfi", 1, 1, cfi); SU("id", 12, 12, id); U("payload_type", 16, uint16_t, payload_type); }
    { typedef MPLS T; cls("MPLS", false, []() -> PDU* { return new MPLS(); });
      SU("label", 20, 20, label); SU("experimental", 3, 3, experimental); SU("bottom_of_stack", 1, 1, bottom_of_stack); U("ttl", 8, uint8_t, ttl); }
    { typedef DNS T; cls("DNS", false, []() -> PDU* { return new DNS(); });
      U("id", 16, uint16_t, id); ENB("qr", 1, 1, DNS::QRType, type); U("opcode", 4, uint8_t, opcode); U("aa", 1, uint8_t, authoritative_answer);
      U("tc", 1, uint8_t, truncated); U("rd", 1, uint8_t, recursion_desired); U("ra", 1, uint8_t, recursion_available); U("z", 1, uint8_t, z);
      U("ad", 1, uint8_t, authenticated_data); U("cd", 1, uint8_t, checking_disabled); U("rcode", 4, uint8_t, rcode);
      GETONLY("qdcount", 16, o.questions_count()); GETONLY("ancount", 16, o.answers_count()); GETONLY("nscount", 16, o.authority_count()); GETONLY("arcount", 16, o.additional_count()); }
    { typedef VXLAN T; cls("VXLAN", false, []() -> PDU* { return new VXLAN(); });
      NUM("flags", 8, uint8_t, o.set_flags(v), o.get_flags()); NUM("vni", 24, small_uint<24>::repr_type, o.set_vni(small_uint<24>(v)), o.get_vni()); }
    { typedef SNAP T; cls("SNAP", false, []() -> PDU* { return new SNAP(); });
      GETONLY("dsap", 8, o.dsap()); GETONLY("ssap", 8, o.ssap()); U("control", 8, uint8_t, control); SU("org_code", 24, 24, org_code); U("eth_type", 16, uint16_t, eth_type); }
    { typedef LLC T; cls("LLC_info", false, []() -> PDU* { LLC* l = new LLC(); l->type(LLC::INFORMATION); return l; });
      U("dsap", 8, uint8_t, dsap); BOOLF("group", group); U("ssap", 8, uint8_t, ssap); BOOLF("response", response);
      U("send_seq_number", 7, uint8_t, send_seq_number); U("receive_seq_number", 7, uint8_t, receive_seq_number); BOOLF("poll_final", poll_final); }
    { typedef LLC T; cls("LLC_super", false, []() -> PDU* { LLC* l = new LLC(); l->type(LLC::SUPERVISORY); return l; });
      U("dsap", 8, uint8_t, dsap); BOOLF("group", group); U("ssap", 8, uint8_t, ssap); BOOLF("response", response);
      ENB("supervisory_function", 2, 2, LLC::SupervisoryFunctions, supervisory_function); U("receive_seq_number", 7, uint8_t, receive_seq_number); BOOLF("poll_final", poll_final); }
    { typedef LLC T; cls("LLC_unnumbered", false, []() -> PDU* { LLC* l = new LLC(); l->type(LLC::UNNUMBERED); return l; });
      U("dsap", 8, uint8_t, dsap); BOOLF("group", group); U("ssap", 8, uint8_t, ssap); BOOLF("response", response); BOOLF("poll_final", poll_final); }
    { typedef SLL T; cls("SLL", false, []() -> PDU* { return new SLL(); });
      U("packet_type", 16, uint16_t, packet_type); U("lladdr_type", 16, uint16_t, lladdr_type); U("lladdr_len", 16, uint16_t, lladdr_len);
      HW("address", 8, address); U("protocol", 16, uint16_t, protocol); }
    { typedef PPPoE T; cls("PPPoE", false, []() -> PDU* { return new PPPoE(); });
      SU("version", 4, 4, version); SU("type", 4, 4, type); U("code", 8, uint8_t, code); U("session_id", 16, uint16_t, session_id); U("payload_length", 16, uint16_t, payload_length); }
    { typedef RC4EAPOL T; cls("RC4EAPOL", false, []() -> PDU* { return new RC4EAPOL(); });
      U("version", 8, uint8_t, version); U("packet_type", 8, uint8_t, packet_type); U("length", 16, uint16_t, length); U("type", 8, uint8_t, type);
      U("key_length", 16, uint16_t, key_length); U("replay_counter", 64, uint64_t, replay_counter); ARR("key_iv", 16, key_iv);
      SU("key_flag", 1, 1, key_flag); SU("key_index", 7, 7, key_index); ARR("key_sign", 16, key_sign); }
    { typedef RSNEAPOL T; cls("RSNEAPOL", false, []() -> PDU* { return new RSNEAPOL(); });
      U("version", 8, uint8_t, version); U("packet_type", 8, uint8_t, packet_type); U("length", 16, uint16_t, length); U("type", 8, uint8_t, type);
      SU("encrypted", 1, 1, encrypted); SU("request", 1, 1, request); SU("error", 1, 1, error); SU("secure", 1, 1, secure); SU("key_mic", 1, 1, key_mic);
      SU("key_ack", 1, 1, key_ack); SU("install", 1, 1, install); SU("key_index", 2, 2, key_index); SU("key_t", 1, 1, key_t); SU("key_descriptor", 3, 3, key_descriptor);
      U("key_length", 16, uint16_t, key_length); U("replay_counter", 64, uint64_t, replay_counter); ARR("nonce", 32, nonce); ARR("key_iv", 16, key_iv);
      ARR("rsc", 8, rsc); ARR("id", 8, id); ARR("mic", 16, mic); U("wpa_length", 16, uint16_t, wpa_length); }
    { typedef RSNEAPOL T; cls("RSNEAPOL_key", false, []() -> PDU* { RSNEAPOL* e = new RSNEAPOL(); e->key(RSNEAPOL::key_type(24, 0x6b)); return e; });
      U("version", 8, uint8_t, version); U("packet_type", 8, uint8_t, packet_type); U("length", 16, uint16_t, length); U("type", 8, uint8_t, type);
      SU("encrypted", 1, 1, encrypted); SU("request", 1, 1, request); SU("error", 1, 1, error); SU("secure", 1, 1, secure); SU("key_mic", 1, 1, key_mic);
      SU("key_ack", 1, 1, key_ack); SU("install", 1, 1, install); SU("key_index", 2, 2, key_index); SU("key_t", 1, 1, key_t); SU("key_descriptor", 3, 3, key_descriptor);
      U("key_length", 16, uint16_t, key_length); U("replay_counter", 64, uint64_t, replay_counter); ARR("nonce", 32, nonce); ARR("key_iv", 16, key_iv);
      ARR("rsc", 8, rsc); ARR("id", 8, id); ARR("mic", 16, mic); U("wpa_length", 16, uint16_t, wpa_length); }
    { typedef RTP T; cls("RTP", false, []() -> PDU* { return new RTP(); });
      SU("version", 2, 2, version); GETONLY("padding_bit", 1, o.padding_bit()); SU("extension_bit", 1, 1, extension_bit); GETONLY("csrc_count", 4, o.csrc_count());
      SU("marker_bit", 1, 1, marker_bit); SU("payload_type", 7, 7, payload_type); U("sequence_number", 16, uint16_t, sequence_number);
      U("timestamp", 32, uint32_t, timestamp); U("ssrc_id", 32, uint32_t, ssrc_id); }
    { typedef BootP T; cls("BootP", false, []() -> PDU* { return new BootP(); });
      U("opcode", 8, uint8_t, opcode); U("htype", 8, uint8_t, htype); U("hlen", 8, uint8_t, hlen); U("hops", 8, uint8_t, hops); U("xid", 32, uint32_t, xid);
      U("secs", 16, uint16_t, secs); U("padding", 16, uint16_t, padding); V4("ciaddr", ciaddr); V4("yiaddr", yiaddr); V4("siaddr", siaddr); V4("giaddr", giaddr);
      addb("chaddr", 128, [](PDU& p, const Bytes& b) { O_; o.chaddr(hw_from<16>(b)); }, [](PDU& p) -> Bytes { O_; return addr_bytes(o.chaddr()); });
      ARR("sname", 64, sname); ARR("file", 128, file); }
    { typedef DHCP T; cls("DHCP", false, []() -> PDU* { return new DHCP(); });
      U("opcode", 8, uint8_t, opcode); U("htype", 8, uint8_t, htype); U("hlen", 8, uint8_t, hlen); U("hops", 8, uint8_t, hops); U("xid", 32, uint32_t, xid);
      U("secs", 16, uint16_t, secs); U("padding", 16, uint16_t, padding); V4("ciaddr", ciaddr); V4("yiaddr", yiaddr); V4("siaddr", siaddr); V4("giaddr", giaddr);
      addb("chaddr", 128, [](PDU& p, const Bytes& b) { O_; o.chaddr(hw_from<16>(b)); }, [](PDU& p) -> Bytes { O_; return addr_bytes(o.chaddr()); });
      ARR("sname", 64, sname); ARR("file", 128, file); }
    { typedef STP T; cls("STP", false, []() -> PDU* { return new STP(); });
      U("proto_id", 16, uint16_t, proto_id); U("proto_version", 8, uint8_t, proto_version); U("bpdu_type", 8, uint8_t, bpdu_type); U("bpdu_flags", 8, uint8_t, bpdu_flags);
      // the identifiers are set as a whole (priority, ext_id, address): each sub-field is written by read-modify-write through the public API
      NUM("root_priority", 4, uint8_t, { STP::bpdu_id_type i = o.root_id(); i.priority = small_uint<4>(v); o.root_id(i); }, o.root_id().priority);
      NUM("root_ext_id", 12, uint16_t, { STP::bpdu_id_type i = o.root_id(); i.ext_id = small_uint<12>(v); o.root_id(i); }, o.root_id().ext_id);
      addb("root_addr", 48, [](PDU& p, const Bytes& b) { O_; STP::bpdu_id_type i = o.root_id(); i.id = hw_from<6>(b); o.root_id(i); }, [](PDU& p) -> Bytes { O_; return addr_bytes(o.root_id().id); });
      U("root_path_cost", 32, uint32_t, root_path_cost);
      NUM("bridge_priority", 4, uint8_t, { STP::bpdu_id_type i = o.bridge_id(); i.priority = small_uint<4>(v); o.bridge_id(i); }, o.bridge_id().priority);
      NUM("bridge_ext_id", 12, uint16_t, { STP::bpdu_id_type i = o.bridge_id(); i.ext_id = small_uint<12>(v); o.bridge_id(i); }, o.bridge_id().ext_id);
      addb("bridge_addr", 48, [](PDU& p, const Bytes& b) { O_; STP::bpdu_id_type i = o.bridge_id(); i.id = hw_from<6>(b); o.bridge_id(i); }, [](PDU& p) -> Bytes { O_; return addr_bytes(o.bridge_id().id); });
      U("port_id", 16, uint16_t, port_id);
      U("msg_age_sec", 8, uint16_t, msg_age); U("max_age_sec", 8, uint16_t, max_age); U("hello_time_sec", 8, uint16_t, hello_time); U("fwd_delay_sec", 8, uint16_t, fwd_delay); }
    { typedef IPSecAH T; cls("IPSecAH", false, []() -> PDU* { return new IPSecAH(); });
      U("next_header", 8, uint8_t, next_header); U("length", 8, uint8_t, length); U("spi", 32, uint32_t, spi); U("seq_number", 32, uint32_t, seq_number); }
    { typedef IPSecESP T; cls("IPSecESP", false, []() -> PDU* { return new IPSecESP(); }); U("spi", 32, uint32_t, spi); U("seq_number", 32, uint32_t, seq_number); }
    { typedef Loopback T; cls("Loopback", false, []() -> PDU* { return new Loopback(); }); U("family", 32, uint32_t, family); }
    { typedef DHCPv6 T; cls("DHCPv6", false, []() -> PDU* { DHCPv6* d = new DHCPv6(); d->msg_type(DHCPv6::SOLICIT); return d; });
      EN("msg_type", 8, uint8_t, DHCPv6::MessageType, msg_type); fix_last(); SU("transaction_id", 24, 24, transaction_id); }
    { typedef DHCPv6 T; cls("DHCPv6_relay", false, []() -> PDU* { DHCPv6* d = new DHCPv6(); d->msg_type(DHCPv6::RELAY_FORWARD); return d; });
      EN("msg_type", 8, uint8_t, DHCPv6::MessageType, msg_type); fix_last(); U("hop_count", 8, uint8_t, hop_count); V6("link_address", link_address); V6("peer_address", peer_address); }
    { typedef DHCPv6 T; cls("DHCPv6_relay_reply", false, []() -> PDU* { DHCPv6* d = new DHCPv6(); d->msg_type(DHCPv6::RELAY_REPLY); return d; });
      EN("msg_type", 8, uint8_t, DHCPv6::MessageType, msg_type); fix_last(); U("hop_count", 8, uint8_t, hop_count); V6("link_address", link_address); V6("peer_address", peer_address); }
    { typedef DHCPv6 T; cls("DHCPv6_decline", false, []() -> PDU* { DHCPv6* d = new DHCPv6(); d->msg_type(DHCPv6::DECLINE); return d; });
      EN("msg_type", 8, uint8_t, DHCPv6::MessageType, msg_type); fix_last(); SU("transaction_id", 24, 24, transaction_id); }
    // ---- IEEE 802.11
    { cls("Dot11", false, []() -> PDU* { return new Dot11(); }); dot11_fc(); unpin("type"); unpin("subtype"); }
    { cls("Dot11Data", false, []() -> PDU* { return new Dot11Data(); }); dot11_fc(); dot11_seq<Dot11Data>(); }
    { typedef Dot11QoSData T; cls("Dot11QoSData", false, []() -> PDU* { return new Dot11QoSData(); }); dot11_fc(); dot11_seq<Dot11QoSData>(); pin("from_ds"); U("qos_control", 16, uint16_t, qos_control); }
    { cls("Dot11ManagementFrame", false, []() -> PDU* { return new Dot11Beacon(); }); dot11_fc(); dot11_seq<Dot11ManagementFrame>(); }
    { typedef Dot11Beacon T; cls("Dot11Beacon", false, []() -> PDU* { return new Dot11Beacon(); }); dot11_fc(); dot11_seq<T>(); pin("from_ds");
      U("timestamp", 64, uint64_t, timestamp); U("interval", 16, uint16_t, interval); dot11_cap<T>(); }
    { typedef Dot11ProbeResponse T; cls("Dot11ProbeResponse", false, []() -> PDU* { return new Dot11ProbeResponse(); }); dot11_fc(); dot11_seq<T>(); pin("from_ds");
      U("timestamp", 64, uint64_t, timestamp); U("interval", 16, uint16_t, interval); dot11_cap<T>(); }
    { typedef Dot11AssocRequest T; cls("Dot11AssocRequest", false, []() -> PDU* { return new Dot11AssocRequest(); }); dot11_fc(); dot11_seq<T>(); pin("from_ds");
      dot11_cap<T>(); U("listen_interval", 16, uint16_t, listen_interval); }
    { typedef Dot11AssocResponse T; cls("Dot11AssocResponse", false, []() -> PDU* { return new Dot11AssocResponse(); }); dot11_fc(); dot11_seq<T>(); pin("from_ds");
      dot11_cap<T>(); U("status_code", 16, uint16_t, status_code); U("aid", 16, uint16_t, aid); }
    { typedef Dot11ReAssocRequest T; cls("Dot11ReAssocRequest", false, []() -> PDU* { return new Dot11ReAssocRequest(); }); dot11_fc(); dot11_seq<T>(); pin("from_ds");
      dot11_cap<T>(); U("listen_interval", 16, uint16_t, listen_interval); HW("current_ap", 6, current_ap); }
    { typedef Dot11ReAssocResponse T; cls("Dot11ReAssocResponse", false, []() -> PDU* { return new Dot11ReAssocResponse(); }); dot11_fc(); dot11_seq<T>(); pin("from_ds");
      dot11_cap<T>(); U("status_code", 16, uint16_t, status_code); U("aid", 16, uint16_t, aid); }
    { typedef Dot11Authentication T; cls("Dot11Authentication", false, []() -> PDU* { return new Dot11Authentication(); }); dot11_fc(); dot11_seq<T>(); pin("from_ds");
      U("auth_algorithm", 16, uint16_t, auth_algorithm); U("auth_seq_number", 16, uint16_t, auth_seq_number); U("status_code", 16, uint16_t, status_code); }
    { typedef Dot11Deauthentication T; cls("Dot11Deauthentication", false, []() -> PDU* { return new Dot11Deauthentication(); }); dot11_fc(); dot11_seq<T>(); pin("from_ds");
      U("reason_code", 16, uint16_t, reason_code); }
    { typedef Dot11Disassoc T; cls("Dot11Disassoc", false, []() -> PDU* { return new Dot11Disassoc(); }); dot11_fc(); dot11_seq<T>(); pin("from_ds");
      U("reason_code", 16, uint16_t, reason_code); }
    { typedef Dot11RTS T; cls("Dot11RTS", false, []() -> PDU* { return new Dot11RTS(); }); dot11_fc(); HW("target_addr", 6, target_addr); }
    { typedef Dot11PSPoll T; cls("Dot11PSPoll", false, []() -> PDU* { return new Dot11PSPoll(); }); dot11_fc(); HW("target_addr", 6, target_addr); }
    { typedef Dot11CFEnd T; cls("Dot11CFEnd", false, []() -> PDU* { return new Dot11CFEnd(); }); dot11_fc(); HW("target_addr", 6, target_addr); }
    { typedef Dot11EndCFAck T; cls("Dot11EndCFAck", false, []() -> PDU* { return new Dot11EndCFAck(); }); dot11_fc(); HW("target_addr", 6, target_addr); }
    { cls("Dot11Ack", false, []() -> PDU* { return new Dot11Ack(); }); dot11_fc(); }
    { cls("Dot11Control", false, []() -> PDU* { return new Dot11Control(); }); dot11_fc(); }
    { typedef Dot11ControlTA T; cls("Dot11ControlTA", false, []() -> PDU* { return new Dot11RTS(); }); dot11_fc(); HW("target_addr", 6, target_addr); }
    { cls("Dot11ProbeRequest", false, []() -> PDU* { return new Dot11ProbeRequest(); }); dot11_fc(); dot11_seq<Dot11ProbeRequest>(); }
    { typedef Dot11BlockAckRequest T; cls("Dot11BlockAckRequest", false, []() -> PDU* { return new Dot11BlockAckRequest(); }); dot11_fc(); HW("target_addr", 6, target_addr);
      SU("bar_control", 4, 4, bar_control); SU("fragment_number", 4, 4, fragment_number); SU("start_sequence", 12, 12, start_sequence); }
    { typedef Dot11BlockAck T; cls("Dot11BlockAck", false, []() -> PDU* { return new Dot11BlockAck(); }); dot11_fc(); HW("target_addr", 6, target_addr);
      SU("bar_control", 4, 4, bar_control); SU("fragment_number", 4, 4, fragment_number); SU("start_sequence", 12, 12, start_sequence); ARR("bitmap", 8, bitmap); }
}
static void icmp_head(bool vary_type) { typedef ICMP T;
    EN("type", 8, uint8_t, ICMP::Flags, type); if (!vary_type) fix_last(); U("code", 8, uint8_t, code); GETONLY("checksum", 16, o.checksum()); }
static void icmp6_head(bool vary_type) { typedef ICMPv6 T;
    EN("type", 8, uint8_t, ICMPv6::Types, type); if (!vary_type) fix_last(); U("code", 8, uint8_t, code); GETONLY("checksum", 16, o.checksum()); }

// ------------------------------------------------------------------------------------------------ exported layout table
struct Lay { int off, w; std::string ord, kind; bool alt; };
struct ClsLay { int hdr; bool full; std::map<std::string, Lay> f; };
static std::map<std::string, ClsLay> LAY;
static void load_layouts(const std::string& path) {
    std::ifstream in(path.c_str()); std::stringstream ss; ss << in.rdbuf(); vh::Json j = vh::parse(ss.str());
    for (size_t i = 0; i < j.o.size(); ++i) { ClsLay c; const vh::Json& cj = j.o[i].second; c.hdr = (int)cj["hdr"].num(); c.full = cj["full"].truth();
        const vh::Json& fs = cj["fields"];
        for (size_t k = 0; k < fs.o.size(); ++k) { Lay l; const vh::Json& fj = fs.o[k].second; l.off = (int)fj["off"].num(); l.w = (int)fj["w"].num(); l.ord = fj["ord"].str(); l.kind = fj["kind"].str(); l.alt = fj["alt"].truth(); c.f[fs.o[k].first] = l; }
        LAY[j.o[i].first] = c; }
}
// ---- the pre-filter: a direct interpreter of the exported table (same conventions as Layouts!Pos / Write)
static int pos_of(const Lay& l, int j) { if (l.ord == "LE") { int k = l.off + j; return 8 * (k / 8) + 7 - (k % 8); } return l.off + l.w - 1 - j; }
static int vbit(const Bytes& vb, int j) { int n = (int)vb.size(); if (j / 8 >= n) return 0; return (vb[n - 1 - j / 8] >> (j % 8)) & 1; }
static bool prefilter_ok(const ClsLay& cl, const std::string& fname, const Bytes& v, const std::vector<std::string>& names, const std::vector<Bytes>& gb,
                         const std::vector<Bytes>& ga, const Bytes& hb, const Bytes& ha, bool rej) {
    if (rej || ha.size() != hb.size() || (int)hb.size() != cl.hdr) return false;
    const Lay& l = cl.f.find(fname)->second;
    std::vector<char> mine(8 * cl.hdr, 0), skip(8 * cl.hdr, 0);
    for (int j = 0; j < l.w; ++j) mine[pos_of(l, j)] = 1;
    for (std::map<std::string, Lay>::const_iterator it = cl.f.begin(); it != cl.f.end(); ++it)
        if (it->second.kind == "derived" || it->second.kind == "length") for (int j = 0; j < it->second.w; ++j) skip[pos_of(it->second, j)] = 1;
    Bytes ex = hb;
    for (int j = 0; j < l.w; ++j) { int p = pos_of(l, j); ex[p / 8] = (uint8_t)((ex[p / 8] & ~(1 << (7 - p % 8))) | (vbit(v, j) << (7 - p % 8))); }
    for (int p = 0; p < 8 * cl.hdr; ++p) if (!skip[p] && (((ex[p / 8] ^ ha[p / 8]) >> (7 - p % 8)) & 1)) return false;
    for (size_t i = 0; i < names.size(); ++i) {
        if (names[i] == fname) { if (ga[i] != v) return false; continue; }
        const Lay& g = cl.f.find(names[i])->second; if (g.kind == "derived" || g.kind == "length") continue;
        bool overlap = false; for (int j = 0; j < g.w; ++j) if (mine[pos_of(g, j)]) overlap = true;
        if (!overlap && ga[i] != gb[i]) return false; }
    return true;
}

// ------------------------------------------------------------------------------------------------ values
static Bytes be_bytes(uint64_t x, int nbytes) { Bytes b(nbytes); for (int i = 0; i < nbytes; ++i) b[nbytes - 1 - i] = (uint8_t)(x >> (8 * i)); return b; }
static uint64_t from_be(const Bytes& b) { uint64_t x = 0; for (size_t i = 0; i < b.size(); ++i) x = (x << 8) | b[i]; return x; }
static uint64_t maxv(int w) { return w >= 64 ? ~0ull : ((1ull << w) - 1); }
static Bytes rand_bytes(vh::Rng& r, int n) { Bytes b(n); int c = r.below(8); for (int i = 0; i < n; ++i) b[i] = c == 0 ? 0 : c == 1 ? 0xff : (uint8_t)r.below(256); return b; }
static bool all_zero(const Bytes& b) { for (size_t i = 0; i < b.size(); ++i) if (b[i]) return false; return true; }
static Bytes rand_value(const Field& f, vh::Rng& r) { if (f.bytes) { Bytes b = rand_bytes(r, f.w / 8); if (f.nonzero && all_zero(b)) b[0] = 10; return b; } return be_bytes(r.next() & maxv(f.w), (f.w + 7) / 8); }
static std::vector<Bytes> boundary_values(const Field& f, vh::Rng& r, int nseed) {
    std::vector<Bytes> out; int nb = (f.w + 7) / 8;
    if (f.bytes) { Bytes z(nb, 0), o(nb, 0xff), a(nb), b(nb), c(nb); for (int i = 0; i < nb; ++i) { a[i] = 0xaa; b[i] = 0x55; c[i] = (uint8_t)(i + 1); }
        out.push_back(z); out.push_back(o); out.push_back(a); out.push_back(b); out.push_back(c);
        for (int i = 0; i < nb; ++i) { Bytes s(nb, 0); s[i] = (uint8_t)(1 << (i % 8)); out.push_back(s); }
        for (int i = 0; i < nseed / 2; ++i) out.push_back(rand_bytes(r, nb));
        return out; }
    uint64_t m = maxv(f.w); uint64_t vals[] = {0, 1, m, m - 1, 0xaaaaaaaaaaaaaaaaull & m, 0x5555555555555555ull & m};
    for (int i = 0; i < 6; ++i) out.push_back(be_bytes(vals[i] & m, nb));
    for (int j = 0; j < f.w; ++j) out.push_back(be_bytes(1ull << j, nb));
    for (int j = 0; j < f.w && f.w > 2; ++j) out.push_back(be_bytes(m & ~(1ull << j), nb));
    for (int i = 0; i < nseed; ++i) out.push_back(be_bytes(r.next() & m, nb));
    return out;
}

// ------------------------------------------------------------------------------------------------ observation
static Bytes get_value(const Field& f, PDU& o) { if (f.bytes) return f.getb(o); return be_bytes(f.get(o) & maxv(64), (f.w + 7) / 8); }
// returns false when the setter threw (= "rejected")
static bool call_setter(const Field& f, PDU& o, const Bytes& v, std::string& what) {
    try { if (f.bytes) f.setb(o, v); else f.set(o, from_be(v)); return true; }
    catch (std::exception& e) { what = e.what(); return false; }
}
// seeded random prior state: the field under test is written FIRST and all other fields afterwards in a random order, so
// that bits a faulty setter of the field under test would clobber are live (not already flattened by that same setter)
static void randomise(const Class& c, PDU& o, vh::Rng& r, const Field* first) {
    std::string w; if (first) call_setter(*first, o, rand_value(*first, r), w);
    std::vector<size_t> ord; for (size_t i = 0; i < c.fields.size(); ++i) ord.push_back(i);
    for (size_t i = ord.size(); i > 1; --i) std::swap(ord[i - 1], ord[r.below((uint32_t)i)]);
    for (size_t k = 0; k < ord.size(); ++k) { const Field& f = c.fields[ord[k]]; if (f.fixed || f.carrier == 0 || &f == first) continue; call_setter(f, o, rand_value(f, r), w); }
}
// the class's own header bytes: the object is cloned (serialisation rewrites derived members of the object it runs on),
// given an opaque payload where the class would otherwise force its next-protocol tag, and serialised as the outermost layer
static Bytes header_bytes(const Class& c, PDU& o, int hdr, std::string& err) {
    try { std::unique_ptr<PDU> k(o.clone()); if (c.raw_child) { const uint8_t pl[4] = {0xde, 0xad, 0xbe, 0xef}; k->inner_pdu(new RawPDU(pl, 4)); }
          Bytes s = k->serialize(); if ((int)s.size() > hdr) s.resize(hdr); return s; }
    catch (std::exception& e) { err = e.what(); return Bytes(); }
}
// prior states that only a parser produces: the object's own serialisation with random values in the header bits the table
// assigns to NO field of this (variant of the) class - reserved bits, bits that belong to a sibling variant's fields - parsed
// back by the class's buffer constructor.  A setter has to leave them alone like every other bit that is not its own.
static PDU* reparse_live(const Class& c, const ClsLay& cl, PDU& o, vh::Rng& r) {
    try {
        Bytes s = o.serialize();
        if ((int)s.size() < cl.hdr) return 0;
        std::vector<char> used(8 * cl.hdr, 0);
        for (std::map<std::string, Lay>::const_iterator it = cl.f.begin(); it != cl.f.end(); ++it) for (int j = 0; j < it->second.w; ++j) used[pos_of(it->second, j)] = 1;
        bool any = false;
        for (int p = 0; p < 8 * cl.hdr; ++p) if (!used[p]) { any = true; if (r.coin()) s[p / 8] ^= (uint8_t)(1 << (7 - p % 8)); }
        if (!any) return 0;
        std::unique_ptr<PDU> q(construct(o.pdu_type(), &s[0], (uint32_t)s.size()));
        if (!q || q->pdu_type() != o.pdu_type()) return 0;
        // still the same variant of the class, with the same values in every field the table knows (a flipped bit may have been
        // one that selects another header format - then this is not a state of the class under test)
        for (size_t i = 0; i < c.fields.size(); ++i) if (get_value(c.fields[i], *q) != get_value(c.fields[i], o)) return 0;
        if (q->header_size() != o.header_size()) return 0;
        // ... and the same (opaque) payload below it: a next-protocol value that names a class libtins knows makes the parser build
        // that class from the payload octets, and then the tag belongs to serialisation, not to the setter
        for (const PDU* a = q->inner_pdu(), *b = o.inner_pdu(); a || b; a = a->inner_pdu(), b = b->inner_pdu())
            if (!a || !b || a->pdu_type() != b->pdu_type()) return 0;
        return q.release();
    } catch (std::exception&) { return 0; }
}
static void log_getters(vh::W& w, const char* key, const std::vector<Bytes>& g) { w.key(key).A(); for (size_t i = 0; i < g.size(); ++i) w.bytes(g[i].begin(), g[i].end()); w.E(); }

static void scenario(const vh::Json& sc, vh::Out& out, vh::Rng& rng, const vh::Args& args) {
    static bool loaded = false;
    if (!loaded) { build_registry(); load_layouts(args.get("layouts")); loaded = true;
        for (size_t i = 0; i < REG.size(); ++i) { if (!LAY.count(REG[i].name)) { fprintf(stdout, "registry class %s is not in Layouts\n", REG[i].name.c_str()); fflush(0); _exit(3); }
            for (size_t k = 0; k < REG[i].fields.size(); ++k) { const Field& f = REG[i].fields[k]; std::map<std::string, Lay>::const_iterator it = LAY[REG[i].name].f.find(f.name);
                if (it == LAY[REG[i].name].f.end() || it->second.w != f.w) { fprintf(stdout, "registry entry %s.%s (width %d) does not match Layouts\n", REG[i].name.c_str(), f.name.c_str(), f.w); fflush(0); _exit(3); } } } }
    std::string cname = sc["cls"].str(), fname = sc["field"].str(), mode = sc["mode"].str();
    const Class* c = 0; for (size_t i = 0; i < REG.size(); ++i) if (REG[i].name == cname) c = &REG[i];
    const Field* f = 0; if (c) for (size_t i = 0; i < c->fields.size(); ++i) if (c->fields[i].name == fname) f = &c->fields[i];
    std::string cfg = "\"cls\":\"" + cname + "\",\"field\":\"" + fname + "\",\"mode\":\"" + mode + "\"";
    bool settable = f && f->carrier > 0 && !f->fixed;
    if (!settable) {      // no accessor binding (reserved bits, computed fields without a setter, variant selectors): reported, never passing
        out.begin(cfg + ",\"bound\":false,\"getter\":" + (f ? "true" : "false") + ",\"getters\":[],\"hdr\":0");
        vh::W w; w.O().kv("e", "unbound").E(); out.event(w); out.end(); return; }
    const ClsLay& cl = LAY[cname]; int hdr = cl.hdr;
    std::vector<std::string> names; for (size_t i = 0; i < c->fields.size(); ++i) names.push_back(c->fields[i].name);
    { vh::W g; g.A(); for (size_t i = 0; i < names.size(); ++i) g.v(names[i]); g.E();
      cfg += ",\"bound\":true,\"getter\":true,\"w\":" + std::to_string(f->w) + ",\"carrier\":" + std::to_string(f->carrier) + ",\"getters\":" + g.s + ",\"hdr\":" + std::to_string(hdr); }
    if (mode == "range") {
        bool odd = f->w != 8 && f->w != 16 && f->w != 32 && f->w != 64;
        out.begin(cfg);
        if (f->bytes || !odd || f->carrier <= f->w) { vh::W w; w.O().kv("e", "noprobe").E(); out.event(w); out.end(); return; }
        int cb = (f->carrier + 7) / 8; uint64_t cm = maxv(f->carrier), lim = 1ull << f->w;
        std::vector<uint64_t> probes; probes.push_back(lim); probes.push_back(lim + 1); probes.push_back(cm);
        if (f->carrier > f->w + 1) { probes.push_back((1ull << (f->carrier - 1)) & cm); probes.push_back(lim | (rng.next() & (lim - 1))); probes.push_back((rng.next() & cm) | lim); probes.push_back(cm & ~(lim - 1)); }
        for (size_t i = 0; i < probes.size(); ++i) {
            std::unique_ptr<PDU> o(c->make()); randomise(*c, *o, rng, f);
            Bytes v = be_bytes(probes[i] & cm, cb), before = get_value(*f, *o); std::string what;
            bool ok = call_setter(*f, *o, v, what);
            vh::W w; w.O().kv("e", "probe").kbytes("v", v).kv("rej", !ok).kbytes("before", before).kbytes("after", get_value(*f, *o)).E(); out.event(w); }
        out.end(); return; }
    // ---- set / sweep
    bool sweep = mode == "sweep"; long exh = sc["exh"].num(0), nseed = sc["nseed"].num(32), sample = sc["sample"].num(997);
    std::vector<Bytes> vals;
    if (sweep || (!f->bytes && f->w <= exh)) { if (f->bytes || f->w > 16) { out.begin(cfg + ",\"swept\":0,\"logged\":0"); out.end(); return; }
        for (uint64_t x = 0; x <= maxv(f->w); ++x) vals.push_back(be_bytes(x, (f->w + 7) / 8)); }
    else vals = boundary_values(*f, rng, (int)nseed);
    if (f->nonzero) { std::vector<Bytes> nz; for (size_t i = 0; i < vals.size(); ++i) if (!all_zero(vals[i])) nz.push_back(vals[i]); vals.swap(nz); }
    out.begin(cfg);
    std::unique_ptr<PDU> o; std::vector<Bytes> gb, ga; Bytes hb, ha; long logged = 0; size_t phase = rng.below((uint32_t)sample);
    for (size_t i = 0; i < vals.size(); ++i) {
        if (i % 4 == 0 || !o) { o.reset(c->make());
            // half of the objects carry a payload of their own: what serialisation derives from it (lengths, checksums, tags) is marked
            // derived in the tables, everything else must stay what the setters stored
            if (!o->inner_pdu() && rng.coin()) { std::string pl((size_t)rng.range(1, 150), 'p'); o->inner_pdu(RawPDU(pl)); }
            randomise(*c, *o, rng, f);
            if (rng.below(3) == 0) { PDU* q = reparse_live(*c, cl, *o, rng); if (q) o.reset(q); }
            gb.clear(); for (size_t k = 0; k < c->fields.size(); ++k) gb.push_back(get_value(c->fields[k], *o));
            std::string err; hb = header_bytes(*c, *o, hdr, err); }
        std::string what, err; bool ok = call_setter(*f, *o, vals[i], what);
        ga.clear(); for (size_t k = 0; k < c->fields.size(); ++k) ga.push_back(get_value(c->fields[k], *o));
        ha = header_bytes(*c, *o, hdr, err);
        bool full = !sweep || (i + phase) % (size_t)sample == 0 || !prefilter_ok(cl, fname, vals[i], names, gb, ga, hb, ha, !ok);
        if (full) { vh::W w; w.O().kv("e", "set").kbytes("v", vals[i]).kv("rej", !ok); log_getters(w, "gb", gb); log_getters(w, "ga", ga); w.kbytes("hb", hb).kbytes("ha", ha);
            if (!err.empty()) w.kv("ser_err", err); w.E(); out.event(w); ++logged; }
        gb = ga; hb = ha;      // the state after this call is the prior state of the next one
    }
    if (sweep) out.cfg += ",\"swept\":" + std::to_string(vals.size()) + ",\"logged\":" + std::to_string(logged);
    out.end();
}
int main(int argc, char** argv) { return vh::run(argc, argv, scenario); }
