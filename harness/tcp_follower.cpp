// C07 replay driver: interleaved packet scripts of two connections (exported by TLC from FollowerGen) are rendered
// as real EthernetII / IP|IPv6 / TCP / RawPDU packets with explicit capture times and fed to the real
// StreamFollower, whose buffering limits are set to the model's values through the guarded hook
// StreamFollower::verif_set_limits.  All five callbacks are recorded with the connection they belong to; after
// every packet find_stream is probed for every connection of the scenario and the buffered state of the
// packet's connection is logged in logical coordinates.
#include "vh.h"
#include <tins/tcp_ip/stream_follower.h>
#include <tins/tcp_ip/stream.h>
#include <tins/ethernetII.h>
#include <tins/ip.h>
#include <tins/ipv6.h>
#include <tins/tcp.h>
#include <tins/rawpdu.h>
#include <tins/packet.h>
#include <tins/exceptions.h>
#include <algorithm>
using namespace Tins;
using namespace Tins::TCPIP;

struct End { bool v6; std::string addr; uint16_t port; };
struct Conn { std::string name; End e[2]; uint32_t isn[2]; };      // e[0] = scenario endpoint "c", e[1] = "s"

static uint8_t sbyte(const std::string&, int who, long q) { return q < 0 ? 0 : (uint8_t)(((q * 7 + (who == 0 ? 3 : 11)) % 250) + 1); }

struct Cb { std::string k, c, r, client; std::vector<uint8_t> b; };
struct Ctx {
    std::vector<Conn> conns; std::vector<Cb> cbs;
    // buffered state captured for a stream that is being erased in this call
    bool snap; long chunks, bytes; std::string bufjson[2];
    int ignore;      // 0 none, 1 client data, 2 server data (Stream::ignore_*_data called on every new stream)
    int cleanup;     // which directions libtins clears after the data callback (bit 0 client, bit 1 server); the others the user clears
};
static Ctx* G = 0;

static bool same_end(const End& e, bool v6, const std::string& a, uint16_t port) { return e.v6 == v6 && e.port == port && e.addr == a; }
// which scenario connection / which scenario endpoint is this stream's client?
static int conn_of(const Stream& s, int& client_role) {
    bool v6 = s.is_v6();
    std::string ca = v6 ? s.client_addr_v6().to_string() : s.client_addr_v4().to_string();
    std::string sa = v6 ? s.server_addr_v6().to_string() : s.server_addr_v4().to_string();
    for (size_t i = 0; i < G->conns.size(); ++i) {
        const Conn& c = G->conns[i];
        if (same_end(c.e[0], v6, ca, s.client_port()) && same_end(c.e[1], v6, sa, s.server_port())) { client_role = 0; return (int)i; }
        if (same_end(c.e[1], v6, ca, s.client_port()) && same_end(c.e[0], v6, sa, s.server_port())) { client_role = 1; return (int)i; }
    }
    client_role = -1; return -1;
}
static std::string cname(int i) { return i < 0 ? "?" : G->conns[i].name; }
static std::string buf_json(const Flow& f, uint32_t isn) {
    std::vector<std::pair<int32_t, const std::vector<uint8_t>*> > ch;
    for (Flow::buffered_payload_type::const_iterator it = f.buffered_payload().begin(); it != f.buffered_payload().end(); ++it) ch.push_back(std::make_pair((int32_t)(it->first - (isn + 1)), &it->second));
    std::sort(ch.begin(), ch.end());
    vh::W w; w.A(); for (size_t i = 0; i < ch.size(); ++i) w.O().kv("off", (long long)ch[i].first).kbytes("b", *ch[i].second).E(); w.E(); return w.s;
}
static void snapshot(Stream& s) {
    int role; int ci = conn_of(s, role); if (ci < 0) return;
    const Conn& c = G->conns[ci];
    G->snap = true;
    G->chunks = (long)(s.client_flow().buffered_payload().size() + s.server_flow().buffered_payload().size());
    G->bytes = (long)(s.client_flow().total_buffered_bytes() + s.server_flow().total_buffered_bytes());
    // client_flow carries the data SENT BY the stream's client
    G->bufjson[role] = buf_json(s.client_flow(), c.isn[role]);
    G->bufjson[1 - role] = buf_json(s.server_flow(), c.isn[1 - role]);
}
static void on_data(Stream& s, bool client_side) {
    int role; int ci = conn_of(s, role);
    Cb cb; cb.k = client_side ? "cdata" : "sdata"; cb.c = cname(ci); cb.b = client_side ? s.client_payload() : s.server_payload(); G->cbs.push_back(cb);
    // a direction whose automatic clean-up the scenario switched off is cleared by the user - and only that direction
    if (client_side ? (G->cleanup & 1) == 0 : (G->cleanup & 2) == 0) { if (client_side) s.client_payload().clear(); else s.server_payload().clear(); }
}
static void on_closed(Stream& s) { int role; int ci = conn_of(s, role); Cb cb; cb.k = "closed"; cb.c = cname(ci); G->cbs.push_back(cb); snapshot(s); }
static void on_new(Stream& s) {
    int role; int ci = conn_of(s, role);
    Cb cb; cb.k = "new"; cb.c = cname(ci); cb.client = role == 0 ? "c" : role == 1 ? "s" : "?"; G->cbs.push_back(cb);
    s.client_data_callback([](Stream& x) { on_data(x, true); });
    s.server_data_callback([](Stream& x) { on_data(x, false); });
    s.stream_closed_callback([](Stream& x) { on_closed(x); });
    s.auto_cleanup_client_data((G->cleanup & 1) != 0); s.auto_cleanup_server_data((G->cleanup & 2) != 0);      // bit 0: client, bit 1: server direction cleaned up by libtins
    if (G->ignore == 1) s.ignore_client_data(); else if (G->ignore == 2) s.ignore_server_data();      // the scenario's "ignore" setting
}
static void on_term(Stream& s, StreamFollower::TerminationReason r) {
    int role; int ci = conn_of(s, role);
    Cb cb; cb.k = "term"; cb.c = cname(ci); cb.r = r == StreamFollower::TIMEOUT ? "TIMEOUT" : r == StreamFollower::BUFFERED_DATA ? "BUFFERED_DATA" : "SACKED_SEGMENTS"; G->cbs.push_back(cb);
    if (r != StreamFollower::TIMEOUT) snapshot(s);
}

static void make_conns(std::vector<Conn>& cs, long mode, vh::Rng& rng) {
    // adversarial endpoint relations between the two connections (DESIGN 2.5)
    Conn a, b; a.name = "c1"; b.name = "c2";
    bool v6 = rng.coin();
    std::string A = v6 ? "2001:db8::1" : "10.0.0.1", B = v6 ? "2001:db8::2" : "10.0.0.2", C = v6 ? "2001:db8::3" : "10.0.0.3";
    uint16_t p1 = 5000, p2 = 6000;
    a.e[0] = End{v6, A, p1}; a.e[1] = End{v6, B, p2};
    switch (mode % 10) {
    case 0: b.e[0] = End{v6, C, p1}; b.e[1] = End{v6, B, p2}; break;                // another client host, same ports
    case 1: b.e[0] = End{v6, A, p2}; b.e[1] = End{v6, B, p1}; break;                // same hosts, crossed ports
    case 2: b.e[0] = End{v6, B, p1}; b.e[1] = End{v6, A, p2}; break;                // swapped hosts, same ports
    case 3: b.e[0] = End{v6, A, (uint16_t)(p1 ^ 1)}; b.e[1] = End{v6, B, p2}; break; // one port differs in one bit
    case 4: b.e[0] = End{v6, A, p1}; b.e[1] = End{v6, B, (uint16_t)(p2 + 256)}; break; // server port differs in the high byte
    case 5: a.e[0] = End{false, "1.2.3.4", p1}; a.e[1] = End{false, "5.6.7.8", p2};   // same 4-tuple in the other family: the IPv6
            b.e[0] = End{true, "102:304::", p1}; b.e[1] = End{true, "506:708::", p2}; break; // addresses whose first bytes equal the IPv4 ones
    case 6: a.e[0] = End{v6, A, p1}; a.e[1] = End{v6, B, p1};                           // both ends of a connection on the SAME port (only the
            b.e[0] = End{v6, C, p2}; b.e[1] = End{v6, A, p2}; break;                    // addresses tell the directions apart)
    case 7: a.e[0] = End{v6, A, p1}; a.e[1] = End{v6, B, p1};                           // ... and the second connection on the same port pair,
            b.e[0] = End{v6, A, p1}; b.e[1] = End{v6, C, p1}; break;                    // sharing the client with the first
    case 8: a.e[0] = End{v6, A, p1}; a.e[1] = End{v6, A, p2};                           // both ends of a connection on the SAME address (a host
            b.e[0] = End{v6, A, p2}; b.e[1] = End{v6, B, p1}; break;                    // talking to itself: only the ports tell the directions apart)
    case 9: a.e[0] = End{v6, A, p1}; a.e[1] = End{v6, A, p2};                           // ... and the second connection on the same host with
            b.e[0] = End{v6, A, p1}; b.e[1] = End{v6, A, (uint16_t)(p2 + 1)}; break;    // one port in common
    }
    cs.push_back(a); cs.push_back(b);
    // a third party whose (payload-less, SYN-less) segments the follower sees but never tracks: they only make time pass
    Conn x; x.name = "c3"; x.e[0] = End{v6, v6 ? "2001:db8:9::1" : "10.9.9.1", 7001}; x.e[1] = End{v6, v6 ? "2001:db8:9::2" : "10.9.9.2", 7002};
    if (mode % 10 == 5) { x.e[0] = End{false, "10.9.9.1", 7001}; x.e[1] = End{false, "10.9.9.2", 7002}; }
    cs.push_back(x);
}
static uint32_t pick_isn(vh::Rng& rng) {
    switch (rng.below(5)) { case 0: return 0xfffffffeu - rng.below(6); case 1: return 0x7ffffffdu + rng.below(5); case 2: return rng.below(3); default: return rng.u32(); }
}

static void scenario(const vh::Json& sc, vh::Out& out, vh::Rng& rng, const vh::Args& args) {
    Ctx ctx; G = &ctx; ctx.snap = false;
    long mode = sc.has("mode") ? sc["mode"].num() : (long)rng.below(10);
    make_conns(ctx.conns, mode, rng);
    for (size_t i = 0; i < ctx.conns.size(); ++i) { ctx.conns[i].isn[0] = pick_isn(rng); ctx.conns[i].isn[1] = pick_isn(rng); }
    bool attach = sc["attach"].truth();
    const std::string ign = sc.has("ignore") ? sc["ignore"].str() : "none"; ctx.ignore = ign == "client" ? 1 : ign == "server" ? 2 : 0;
    ctx.cleanup = (int)((out.sid / 3) % 4) == 0 ? 3 : (int)((out.sid / 3) % 4);      // 3 (the default) twice as often as 1 and 2; never 0 ... see below
    if ((out.sid / 3) % 8 == 4) ctx.cleanup = 0;
    long KA = 10, maxChunks = 2, maxBytes = 6;
    out.begin("\"attach\":" + std::string(attach ? "true" : "false") + ",\"ignore\":\"" + ign + "\",\"keepAlive\":10,\"maxChunks\":2,\"maxBytes\":6,\"termcb\":" + std::string(out.sid % 5 == 3 ? "false" : "true") + ",\"mode\":" + std::to_string(mode % 10));
    StreamFollower fol;
    fol.new_stream_callback(&on_new);
    // in every fifth scenario no termination callback is registered: the follower has to drop what it terminates all the same; what
    // vanished from its table without a closed callback is then reported as the termination the callback would have announced
    const bool noterm = out.sid % 5 == 3;
    if (!noterm) fol.stream_termination_callback(&on_term);
    std::vector<std::string> prev_live;
    fol.follow_partial_streams(attach);
    // one model tick is a second in half of the scenarios and 350 ms in the others (the keep-alive is then 3.5 s: not a whole number
    // of seconds; capture times carry the same unit)
    const long unit_ms = (out.sid % 2) ? 1000 : 350;      // 10 ticks = 3.5 s; 9 ticks = 3.15 s lies between the keep-alive and its whole-second part
    if (unit_ms == 1000) fol.stream_keep_alive(std::chrono::seconds(KA)); else fol.stream_keep_alive(std::chrono::milliseconds(KA * unit_ms));
    fol.verif_set_limits((size_t)maxChunks, (uint32_t)maxBytes);
    const vh::Json& pk = sc["pkts"];
    for (size_t i = 0; i < pk.size(); ++i) {
        const vh::Json& p = pk[i];
        int ci = p["conn"].str() == "c1" ? 0 : p["conn"].str() == "c2" ? 1 : 2; Conn& c = ctx.conns[ci]; int from = p["from"].str() == "c" ? 0 : 1;
        bool syn = p["syn"].truth(), ack = p["ack"].truth(), fin = p["fin"].truth(), rst = p["rst"].truth();
        long off = p["off"].num(), len = p["len"].num(), ackoff = p["ackoff"].num();
        if (p["inc"].truth()) { c.isn[0] = pick_isn(rng); c.isn[1] = pick_isn(rng); }      // a new incarnation of the connection
        TCP tcp(c.e[1 - from].port, c.e[from].port);
        uint8_t fl = 0; if (syn) fl |= TCP::SYN; if (ack) fl |= TCP::ACK; if (fin) fl |= TCP::FIN; if (rst) fl |= TCP::RST; fl |= (uint8_t)p["x"].num();      /* further flag bits of the script (ECE, CWR, URG) */ tcp.flags(fl);
        tcp.seq(syn ? c.isn[from] : c.isn[from] + 1 + (uint32_t)off);
        tcp.ack_seq(syn && !ack ? 0 : c.isn[1 - from] + 1 + (uint32_t)ackoff);
        std::vector<uint8_t> data; for (long q = off; q < off + len; ++q) data.push_back(sbyte(c.name, from, q));
        EthernetII eth("00:00:00:00:00:02", "00:00:00:00:00:01");
        if (c.e[from].v6) eth /= IPv6(IPv6Address(c.e[1 - from].addr), IPv6Address(c.e[from].addr)); else eth /= IP(IPv4Address(c.e[1 - from].addr), IPv4Address(c.e[from].addr));
        eth /= tcp; if (len > 0) eth /= RawPDU(data.begin(), data.end());
        // through the wire, as a sniffer would deliver it
        std::vector<uint8_t> bytes = eth.serialize(); EthernetII parsed(&bytes[0], (uint32_t)bytes.size());
        Packet pkt(parsed, Timestamp(std::chrono::milliseconds((long long)p["ts"].num() * unit_ms)));
        ctx.cbs.clear(); ctx.snap = false; ctx.bufjson[0] = ctx.bufjson[1] = "[]"; ctx.chunks = ctx.bytes = 0;
        std::string thrown;
        try { fol.process_packet(pkt); } catch (std::exception& e) { thrown = std::string(typeid(e).name()) + ": " + e.what(); }
        // probe the table
        std::vector<std::string> live;
        for (size_t k = 0; k < ctx.conns.size(); ++k) {
            Conn& d = ctx.conns[k];
            try {
                Stream& s = d.e[0].v6 ? fol.find_stream(IPv6Address(d.e[0].addr), d.e[0].port, IPv6Address(d.e[1].addr), d.e[1].port)
                                      : fol.find_stream(IPv4Address(d.e[0].addr), d.e[0].port, IPv4Address(d.e[1].addr), d.e[1].port);
                int role; int which = conn_of(s, role);
                if (which == (int)k) { live.push_back(d.name); if ((int)k == ci && !ctx.snap) { snapshot(s); } }
                else live.push_back(d.name + "->" + cname(which));       // find_stream handed back another connection's stream
            } catch (stream_not_found&) {}
        }
        if (noterm) { for (size_t k = 0; k < prev_live.size(); ++k) { const std::string& nm = prev_live[k]; if (std::find(live.begin(), live.end(), nm) != live.end()) continue;
                          bool closed = false; for (size_t q = 0; q < ctx.cbs.size(); ++q) if (ctx.cbs[q].k == "closed" && ctx.cbs[q].c == nm) closed = true;
                          if (!closed) { Cb cb; cb.k = "term"; cb.c = nm; cb.r = nm == c.name ? "BUFFERED_DATA" : "TIMEOUT"; ctx.cbs.push_back(cb); } } }
        prev_live.clear(); for (size_t k = 0; k < live.size(); ++k) if (live[k].find("->") == std::string::npos) prev_live.push_back(live[k]);
        vh::W w; w.O().kv("e", "pkt").kv("conn", c.name).kv("from", from == 0 ? "c" : "s").kv("syn", syn).kv("ack", ack).kv("fin", fin).kv("rst", rst)
            .kv("off", off).kv("len", len).kv("ackoff", ackoff).kv("ts", p["ts"].num());
        w.key("cb").A(); for (size_t k = 0; k < ctx.cbs.size(); ++k) { w.O().kv("k", ctx.cbs[k].k).kv("c", ctx.cbs[k].c).kbytes("b", ctx.cbs[k].b).kv("r", ctx.cbs[k].r).kv("client", ctx.cbs[k].client).E(); } w.E();
        w.key("live").A(); for (size_t k = 0; k < live.size(); ++k) w.v(live[k]); w.E();
        w.kv("chunks", ctx.chunks).kv("bytes", ctx.bytes).key("buf").O().kraw("c", ctx.bufjson[0]).kraw("s", ctx.bufjson[1]).E();
        w.kv("thrown", thrown).E(); out.event(w);
    }
    out.end(); G = 0;
}
int main(int argc, char** argv) { return vh::run(argc, argv, scenario); }
