// A catalogue of packets built through the public libtins API, one per numbered entry, covering the layer classes
// that the WireGen shapes (Ethernet/VLAN/IPv4/IPv6/TCP/UDP/ICMP/ICMPv6) do not reach.  Used by the round-trip
// (C03), parser-safety (C01) and concurrency (C18) drivers.  Every entry returns the root of a heap-allocated chain
// and the link-layer entry point that parses its serialisation.
#ifndef VERIF_CATALOGUE_H
#define VERIF_CATALOGUE_H
#include "vh.h"
#include <tins/tins.h>
#include <tins/pdu_cacher.h>
#include <tins/loopback.h>
#include <tins/ipsec.h>
#include <tins/mpls.h>
#include <tins/vxlan.h>
#include <tins/rtp.h>
#include <tins/pppoe.h>
#include <tins/ppi.h>
#include <tins/pktap.h>
using namespace Tins;

enum Entry { E_ETH, E_DOT3, E_SLL, E_LOOP, E_RADIOTAP, E_DOT11, E_IP, E_IP6 };
static const char* entry_name(Entry e) { static const char* n[] = {"eth", "dot3", "sll", "loop", "radiotap", "dot11", "ip", "ip6"}; return n[e]; }

static PDU* parse_entry(Entry e, const uint8_t* p, uint32_t n) {
    switch (e) {
    case E_ETH: return new EthernetII(p, n); case E_DOT3: return new Dot3(p, n); case E_SLL: return new SLL(p, n);
    case E_LOOP: return new Loopback(p, n); case E_RADIOTAP: return new RadioTap(p, n); case E_DOT11: return Dot11::from_bytes(p, n);
    case E_IP: return new IP(p, n); default: return new IPv6(p, n);
    }
}
static RawPDU raw(vh::Rng& rng, int n) { std::vector<uint8_t> b; for (int i = 0; i < n; ++i) b.push_back((uint8_t)(1 + rng.below(255))); return RawPDU(b.begin(), b.end()); }
static EthernetII eth0() { return EthernetII("00:11:22:33:44:55", "66:77:88:99:aa:bb"); }
static IP ip0() { IP ip("192.0.2.7", "198.51.100.9"); ip.ttl(61); ip.id(0x1234); return ip; }
static IPv6 ip60() { IPv6 ip("2001:db8::7", "2001:db8::9"); ip.hop_limit(60); return ip; }
static Dot11Data data0() { Dot11Data d; d.addr1("00:01:02:03:04:05"); d.addr2("10:11:12:13:14:15"); d.addr3("20:21:22:23:24:25"); d.from_ds(1); d.seq_num(77); return d; }

static const int CATALOGUE_SIZE = 55;
static PDU* catalogue(int id, vh::Rng& rng, Entry& e) {
    e = E_ETH;
    switch (id) {
    case 0: { ARP a("192.0.2.1", "192.0.2.2", "00:aa:bb:cc:dd:ee", "00:11:22:33:44:55"); a.opcode(ARP::REQUEST); return (eth0() / a).clone(); }
    case 1: { DNS d; d.id(0x4242); d.type(DNS::RESPONSE); d.recursion_desired(1); d.add_query(DNS::query("www.example.com", DNS::A, DNS::IN)); d.add_answer(DNS::resource("www.example.com", "192.0.2.55", DNS::A, DNS::IN, 300));
              d.add_answer(DNS::resource("www.example.com", "mail.example.com", DNS::MX, DNS::IN, 300, 10)); return (eth0() / ip0() / UDP(53, 4000) / d).clone(); }
    case 2: { DHCP d; d.type(DHCP::DISCOVER); d.chaddr(HWAddress<6>("00:11:22:33:44:55")); d.xid(0xdeadbeef); d.requested_ip("192.0.2.50"); d.hostname("verif-host"); d.end(); return (eth0() / ip0() / UDP(67, 68) / d).clone(); }
    case 3: { DHCPv6 d; d.msg_type(DHCPv6::SOLICIT); d.transaction_id(0x123456); d.elapsed_time(7); d.rapid_commit(); DHCPv6::ia_na_type ia; ia.id = 9; ia.t1 = 1; ia.t2 = 2; d.ia_na(ia); return (eth0() / ip60() / UDP(547, 546) / d).clone(); }
    case 4: { RTP r; r.payload_type(96); r.sequence_number(999); r.timestamp(123456); r.ssrc_id(0xabcdef01); r.add_csrc_id(7); r.add_csrc_id(8); return (eth0() / ip0() / UDP(5004, 5004) / r / raw(rng, 20)).clone(); }
    case 5: { VXLAN v(0x123456); return (eth0() / ip0() / UDP(4789, 4789) / v / eth0() / ip0() / ICMP(ICMP::ECHO_REQUEST) / raw(rng, 8)).clone(); }
    case 6: { MPLS m1; m1.label(100); m1.ttl(64); MPLS m2; m2.label(200); m2.ttl(63); return (eth0() / m1 / m2 / ip0() / UDP(1, 2) / raw(rng, 5)).clone(); }
    case 7: { PPPoE p; p.code(0); p.session_id(0x77); return (eth0() / p / raw(rng, 12)).clone(); }
    case 8: { PPPoE p; p.code(0x09); p.service_name("verif"); p.host_uniq(std::vector<uint8_t>(4, 0x41)); return (eth0() / p).clone(); }
    case 9: { e = E_DOT3; Dot3 d("00:11:22:33:44:55", "66:77:88:99:aa:bb"); SNAP s; return (d / LLC(0xaa, 0xaa) / s / ip0() / UDP(9, 9) / raw(rng, 6)).clone(); }
    case 10: { e = E_DOT3; Dot3 d("01:80:c2:00:00:00", "66:77:88:99:aa:bb"); STP s; s.root_path_cost(4); s.port_id(0x8001); s.msg_age(1); s.max_age(20); s.hello_time(2); s.fwd_delay(15); return (d / LLC(0x42, 0x42) / s).clone(); }
    case 11: { e = E_DOT3; Dot3 d("00:11:22:33:44:55", "66:77:88:99:aa:bb"); LLC l(0x10, 0x20); l.type(LLC::INFORMATION); l.send_seq_number(5); l.receive_seq_number(9); return (d / l / raw(rng, 10)).clone(); }
    case 12: { e = E_DOT3; Dot3 d("00:11:22:33:44:55", "66:77:88:99:aa:bb"); LLC l(0x10, 0x20); l.type(LLC::SUPERVISORY); l.supervisory_function(LLC::RECEIVE_NOT_READY); l.receive_seq_number(3); return (d / l / raw(rng, 4)).clone(); }
    case 13: { e = E_DOT3; Dot3 d("00:11:22:33:44:55", "66:77:88:99:aa:bb"); LLC l(0x10, 0x20); l.type(LLC::UNNUMBERED); l.modifier_function(LLC::UI); return (d / l / raw(rng, 4)).clone(); }
    case 14: { e = E_SLL; SLL s; s.packet_type(0); s.lladdr_type(1); s.lladdr_len(6); s.address(HWAddress<8>("00:11:22:33:44:55:00:00")); return (s / ip0() / TCP(80, 1234) / raw(rng, 9)).clone(); }
    case 15: { e = E_LOOP; Loopback l;     /* family left to be derived from the inner layer */ return (l / ip0() / UDP(7, 7) / raw(rng, 3)).clone(); }
    case 16: { IPSecAH ah; ah.spi(0x11223344); ah.seq_number(5); ah.icv(std::vector<uint8_t>(12, 0x5a)); return (eth0() / ip0() / ah / UDP(500, 500) / raw(rng, 8)).clone(); }
    case 17: { IPSecESP esp; esp.spi(0x55667788); esp.seq_number(6); return (eth0() / ip0() / esp / raw(rng, 24)).clone(); }
    case 18: { ICMP ic(ICMP::DEST_UNREACHABLE); ic.code(3); IP q = ip0() / UDP(33434, 40000) / raw(rng, 8); std::vector<uint8_t> quoted = q.serialize(); return (eth0() / ip0() / ic / RawPDU(quoted.begin(), quoted.end())).clone(); }
    case 19: { ICMP ic(ICMP::TIME_EXCEEDED); IP q = ip0() / UDP(33434, 40000) / raw(rng, 120); std::vector<uint8_t> quoted = q.serialize(); ic.use_length_field(true);
               ICMPExtension x(1, 1); { ICMPExtension::payload_type pl; int n = 4 * rng.range(1, 4); for (int k = 0; k < n; ++k) pl.push_back((uint8_t)(rng.coin() ? 0xff : rng.below(256))); x.payload(pl); } ic.extensions().add_extension(x); return (eth0() / ip0() / ic / RawPDU(quoted.begin(), quoted.end())).clone(); }
    case 20: { ICMP ic(ICMP::TIMESTAMP_REQUEST); ic.id(7); ic.sequence(8); ic.original_timestamp(1); ic.receive_timestamp(2); ic.transmit_timestamp(3); return (eth0() / ip0() / ic).clone(); }
    case 21: { ICMPv6 ic(ICMPv6::NEIGHBOUR_SOLICIT); ic.target_addr("2001:db8::1"); ic.source_link_layer_addr(HWAddress<6>("00:11:22:33:44:55")); return (eth0() / ip60() / ic).clone(); }
    case 22: { ICMPv6 ic(ICMPv6::ROUTER_ADVERT); ic.hop_limit(64); ic.router_lifetime(1800); ic.reachable_time(1); ic.retransmit_timer(2); ICMPv6::prefix_info_type pi; pi.prefix_len = 64; pi.A = 1; pi.L = 1; pi.valid_lifetime = 100; pi.preferred_lifetime = 50; pi.prefix = "2001:db8::"; ic.prefix_info(pi); ic.mtu(ICMPv6::mtu_type(0, 1500)); return (eth0() / ip60() / ic).clone(); }
    case 23: { ICMPv6 ic(ICMPv6::MLD2_REPORT); ICMPv6::multicast_address_record r; r.type = 1; r.multicast_address = "ff02::1:3"; r.sources.push_back("2001:db8::5"); ICMPv6::multicast_address_records_list l; l.push_back(r); ic.multicast_address_records(l); return (eth0() / ip60() / ic).clone(); }
    case 24: { ICMPv6 ic(ICMPv6::DEST_UNREACHABLE); IPv6 q = ip60() / UDP(1, 2) / raw(rng, 8); std::vector<uint8_t> quoted = q.serialize(); return (eth0() / ip60() / ic / RawPDU(quoted.begin(), quoted.end())).clone(); }
    case 25: { e = E_RADIOTAP; RadioTap rt; Dot11Beacon b; b.addr1("ff:ff:ff:ff:ff:ff"); b.addr2("00:01:02:03:04:05"); b.addr3("00:01:02:03:04:05"); b.ssid("verif"); b.ds_parameter_set(6); b.supported_rates(Dot11ManagementFrame::rates_type(1, 1.0f)); b.interval(100);
               b.rsn_information(RSNInformation::wpa2_psk()); return (rt / b).clone(); }
    case 26: { e = E_RADIOTAP; RadioTap rt; rt.rate(12); rt.tx_flags(1); return (rt / data0() / SNAP() / ip0() / UDP(1, 2) / raw(rng, 7)).clone(); }
    case 27: { e = E_DOT11; Dot11QoSData q; q.addr1("00:01:02:03:04:05"); q.addr2("10:11:12:13:14:15"); q.addr3("20:21:22:23:24:25"); q.to_ds(1); q.qos_control(5); RSNEAPOL eap; eap.key_t(1); eap.key_ack(1); eap.replay_counter(1); eap.key_length(16); return (q / SNAP() / eap).clone(); }
    case 28: { e = E_DOT11; Dot11ProbeRequest p; p.addr1("ff:ff:ff:ff:ff:ff"); p.addr2("10:11:12:13:14:15"); p.addr3("ff:ff:ff:ff:ff:ff"); p.ssid("x"); return p.clone(); }
    case 29: { e = E_DOT11; Dot11ProbeResponse p; p.addr1("10:11:12:13:14:15"); p.addr2("00:01:02:03:04:05"); p.addr3("00:01:02:03:04:05"); p.ssid("resp"); p.interval(100); p.timestamp(0x0102030405060708ull); return p.clone(); }
    case 30: { e = E_DOT11; Dot11AssocRequest p; p.addr1("00:01:02:03:04:05"); p.addr2("10:11:12:13:14:15"); p.addr3("00:01:02:03:04:05"); p.ssid("assoc"); p.listen_interval(10); return p.clone(); }
    case 31: { e = E_DOT11; Dot11AssocResponse p; p.addr1("10:11:12:13:14:15"); p.addr2("00:01:02:03:04:05"); p.addr3("00:01:02:03:04:05"); p.status_code(0); p.aid(1); return p.clone(); }
    case 32: { e = E_DOT11; Dot11ReAssocRequest p; p.addr1("00:01:02:03:04:05"); p.addr2("10:11:12:13:14:15"); p.addr3("00:01:02:03:04:05"); p.current_ap("00:01:02:03:04:06"); p.ssid("re"); return p.clone(); }
    case 33: { e = E_DOT11; Dot11Authentication p; p.addr1("00:01:02:03:04:05"); p.addr2("10:11:12:13:14:15"); p.addr3("00:01:02:03:04:05"); p.auth_algorithm(0); p.auth_seq_number(1); p.status_code(0); return p.clone(); }
    case 34: { e = E_DOT11; Dot11Deauthentication p; p.addr1("00:01:02:03:04:05"); p.addr2("10:11:12:13:14:15"); p.addr3("00:01:02:03:04:05"); p.reason_code(3); return p.clone(); }
    case 35: { e = E_DOT11; Dot11Disassoc p; p.addr1("00:01:02:03:04:05"); p.addr2("10:11:12:13:14:15"); p.addr3("00:01:02:03:04:05"); p.reason_code(8); return p.clone(); }
    case 36: { e = E_DOT11; Dot11RTS p; p.addr1("00:01:02:03:04:05"); p.target_addr("10:11:12:13:14:15"); p.duration_id(44); return p.clone(); }
    case 37: { e = E_DOT11; Dot11Ack p; p.addr1("00:01:02:03:04:05"); return p.clone(); }
    case 38: { e = E_DOT11; Dot11BlockAckRequest p; p.addr1("00:01:02:03:04:05"); p.target_addr("10:11:12:13:14:15"); p.bar_control(3); p.start_sequence(9); p.fragment_number(1); return p.clone(); }
    case 39: { e = E_DOT11; Dot11BlockAck p; p.addr1("00:01:02:03:04:05"); p.target_addr("10:11:12:13:14:15"); p.bar_control(3); p.start_sequence(9); uint8_t bm[8] = {1, 2, 3, 4, 5, 6, 7, 8}; p.bitmap(bm); return p.clone(); }
    case 40: { e = E_DOT11; Dot11Data d = data0(); d.to_ds(1); d.from_ds(1); d.addr4("30:31:32:33:34:35"); return (d / SNAP() / ip0() / UDP(3, 4) / raw(rng, 5)).clone(); }
    case 41: { e = E_DOT11; Dot11QoSData q; q.addr1("00:01:02:03:04:05"); q.addr2("10:11:12:13:14:15"); q.addr3("20:21:22:23:24:25"); q.to_ds(1); q.from_ds(1); q.addr4("30:31:32:33:34:35"); q.qos_control(3); return (q / SNAP() / ip0() / UDP(3, 4) / raw(rng, 5)).clone(); }
    case 42: { RC4EAPOL r; r.key_length(5); r.replay_counter(7); { uint8_t iv[16] = {1, 2, 3, 4, 5, 6, 7, 8, 9, 10, 11, 12, 13, 14, 15, 16}; r.key_iv(iv); } r.key_flag(1); r.key_index(2); r.key(RC4EAPOL::key_type(5, 0x33)); return (eth0() / r).clone(); }
    case 43: { e = E_IP; return (ip0() / ip0() / UDP(11, 12) / raw(rng, 6)).clone(); }
    case 44: { e = E_IP6; IPv6 outer = ip60(); return (outer / ip60() / TCP(21, 22) / raw(rng, 6)).clone(); }
    case 45: { BootP b; b.opcode(BootP::BOOTREQUEST); b.xid(77); b.ciaddr("192.0.2.1"); b.chaddr(HWAddress<6>("00:11:22:33:44:55")); { uint8_t sn[64] = {'s', 'r', 'v'}; b.sname(sn); } return (eth0() / ip0() / UDP(67, 68) / b).clone(); }
    case 46: { Dot1Q q(100); return (eth0() / q / ARP("192.0.2.1", "192.0.2.2", "00:aa:bb:cc:dd:ee", "00:11:22:33:44:55")).clone(); }
    case 47: { TCP t(443, 5555); t.flags(TCP::PSH | TCP::ACK); t.seq(1); t.ack_seq(2); t.mss(1400); t.sack_permitted(); t.timestamp(1, 2); t.winscale(7); return (eth0() / ip60() / t / raw(rng, 33)).clone(); }
    case 48: { IP ip = ip0(); ip.flags(IP::MORE_FRAGMENTS); return (eth0() / ip / raw(rng, 8)).clone(); }                   // first fragment, frame shorter than 60 bytes
    case 49: { IP ip = ip0(); ip.fragment_offset(3); return (eth0() / ip / raw(rng, 8)).clone(); }                          // last fragment, short frame
    case 50: { IP ip = ip0(); ip.fragment_offset(185); ip.flags(IP::MORE_FRAGMENTS); return (eth0() / Dot1Q(7) / ip / raw(rng, 9)).clone(); }
    case 51: { IPv6 ip = ip60(); uint8_t fr[6] = {0, 8, 0, 0, 0, 9}; ip.add_header(IPv6::ext_header(44, fr, fr + 6)); return (eth0() / ip / raw(rng, 8)).clone(); }   // IPv6 fragment header
    // RTP whose body is padding only / padding behind a payload and an extension header; ICMPv6 Parameter Problem with a long quote
    case 52: { RTP r; r.payload_type(96); r.sequence_number(1); r.timestamp(2); r.ssrc_id(0xdeadbeef); r.padding_size((uint8_t)rng.range(1, 9)); return (eth0() / ip0() / UDP(5004, 5004) / r).clone(); }
    case 53: { RTP r; r.payload_type(97); r.sequence_number(3); r.ssrc_id(5); r.extension_profile(0xbede); r.add_extension_data(0x01020304); r.padding_size((uint8_t)rng.range(1, 9)); return (eth0() / ip0() / UDP(5004, 5004) / r / raw(rng, 12)).clone(); }
    case 54: { ICMPv6 ic(ICMPv6::PARAM_PROBLEM); ic.code(1); ic.identifier(0); ic.sequence(0x28);      // octets 4..7 = the Pointer
               IPv6 q = ip60() / UDP(1, 2) / raw(rng, 8 * rng.range(12, 20)); std::vector<uint8_t> quoted = q.serialize(); return (eth0() / ip60() / ic / RawPDU(quoted.begin(), quoted.end())).clone(); }
    }
    return 0;
}
// the (buffer, size) constructor of the class with the given type flag
static PDU* construct(PDU::PDUType t, const uint8_t* p, uint32_t n) {
    switch (t) {
#define CT(FLAG, CLS) case PDU::FLAG: return new CLS(p, n);
    CT(ETHERNET_II, EthernetII) CT(IEEE802_3, Dot3) CT(IP, IP) CT(IPv6, IPv6) CT(ARP, ARP) CT(TCP, TCP) CT(UDP, UDP) CT(ICMP, ICMP) CT(ICMPv6, ICMPv6)
    CT(DNS, DNS) CT(DHCP, DHCP) CT(BOOTP, BootP) CT(DHCPv6, DHCPv6) CT(RTP, RTP) CT(VXLAN, VXLAN) CT(SNAP, SNAP) CT(LLC, LLC) CT(STP, STP) CT(SLL, SLL)
    CT(LOOPBACK, Loopback) CT(MPLS, MPLS) CT(DOT1Q, Dot1Q) CT(DOT1AD, Dot1Q) CT(IPSEC_AH, IPSecAH) CT(IPSEC_ESP, IPSecESP) CT(RSNEAPOL, RSNEAPOL) CT(RC4EAPOL, RC4EAPOL)
    CT(PPPOE, PPPoE) CT(RADIOTAP, RadioTap) CT(PPI, PPI) CT(PKTAP, PKTAP) CT(RAW, RawPDU)
    CT(DOT11, Dot11) CT(DOT11_DATA, Dot11Data) CT(DOT11_QOS_DATA, Dot11QoSData) CT(DOT11_BEACON, Dot11Beacon) CT(DOT11_PROBE_REQ, Dot11ProbeRequest) CT(DOT11_PROBE_RESP, Dot11ProbeResponse)
    CT(DOT11_ASSOC_REQ, Dot11AssocRequest) CT(DOT11_ASSOC_RESP, Dot11AssocResponse) CT(DOT11_REASSOC_REQ, Dot11ReAssocRequest) CT(DOT11_REASSOC_RESP, Dot11ReAssocResponse)
    CT(DOT11_AUTH, Dot11Authentication) CT(DOT11_DEAUTH, Dot11Deauthentication) CT(DOT11_DIASSOC, Dot11Disassoc) CT(DOT11_RTS, Dot11RTS) CT(DOT11_PS_POLL, Dot11PSPoll)
    CT(DOT11_CF_END, Dot11CFEnd) CT(DOT11_END_CF_ACK, Dot11EndCFAck) CT(DOT11_ACK, Dot11Ack) CT(DOT11_BLOCK_ACK_REQ, Dot11BlockAckRequest) CT(DOT11_BLOCK_ACK, Dot11BlockAck)
#undef CT
    default: return 0;
    }
}

#endif
