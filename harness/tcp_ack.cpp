// C19 replay driver: receiver histories (ACK number + SACK blocks, logical coordinates, exported by TLC from
// AckGen or produced by a seeded receiver simulation) are rendered as real TCP packets carrying a SACK option
// and fed to the real AckTracker (directly, and through Flow with enable_ack_tracking) at ISNs around the wrap.
#include "vh.h"
#include <tins/tcp_ip/ack_tracker.h>
#include <tins/tcp_ip/flow.h>
#include <tins/ip.h>
#include <tins/tcp.h>
#include <tins/rawpdu.h>
#include <tins/ethernetII.h>
#include <boost/icl/interval_set.hpp>
#include <algorithm>
#include <set>
using namespace Tins;
using namespace Tins::TCPIP;

static void log_state(vh::W& w, const AckTracker& t, uint32_t isn, long L, const vh::Json& pk, bool allq, vh::Rng& rng) {
    w.kv("ack", (long long)(int32_t)(t.ack_number() - isn));
    w.key("ivs").A();
    std::set<long> edges;
    for (AckTracker::interval_set_type::const_iterator it = t.acked_intervals().begin(); it != t.acked_intervals().end(); ++it) {
        uint32_t lo = boost::icl::first(*it), hi = boost::icl::last(*it);
        long llo = (int32_t)(lo - isn), lhi = (int32_t)(hi - isn);
        w.A().v(llo).v(lhi).E(); edges.insert(llo); edges.insert(lhi + 1);
    }
    w.E();
    edges.insert((int32_t)(t.ack_number() - isn)); edges.insert(0); edges.insert(L);
    for (size_t b = 0; b < pk["blocks"].size(); ++b) { edges.insert(pk["blocks"][b][0].num()); edges.insert(pk["blocks"][b][1].num()); }
    // queries (s, n): every segment inside [-1, L+1) for short streams, otherwise segments between interesting edges
    w.key("q").A();
    if (allq) {
        for (long s = -1; s <= L; ++s) for (long n = 1; s + n <= L + 1; ++n)
            w.A().v(s).v(n).v(t.is_segment_acked(isn + (uint32_t)s, (uint32_t)n)).E();
    } else {
        std::vector<long> e(edges.begin(), edges.end());
        for (size_t i = 0; i < e.size(); ++i) for (size_t j = i; j < e.size(); ++j) {
            for (int da = -1; da <= 1; ++da) for (int db = -1; db <= 1; ++db) {
                long s = e[i] + da, en = e[j] + db; if (en <= s || s < -2) continue;
                if (rng.below(3) != 0) continue;
                w.A().v(s).v(en - s).v(t.is_segment_acked(isn + (uint32_t)s, (uint32_t)(en - s))).E();
            }
        }
    }
    w.E();
}

static TCP make_ack(uint32_t isn, const vh::Json& pk, uint16_t sport, uint16_t dport) {
    TCP tcp(dport, sport); tcp.flags(TCP::ACK); tcp.ack_seq(isn + (uint32_t)pk["ack"].num()); tcp.seq(777);
    if (pk["blocks"].size()) { TCP::sack_type edges; for (size_t b = 0; b < pk["blocks"].size(); ++b) { edges.push_back(isn + (uint32_t)pk["blocks"][b][0].num()); edges.push_back(isn + (uint32_t)pk["blocks"][b][1].num()); } tcp.sack(edges); }
    return tcp;
}

static void scenario(const vh::Json& sc, vh::Out& out, vh::Rng& rng, const vh::Args& args) {
    const vh::Json& hist = sc.kind == vh::Json::Obj ? sc["hist"] : sc;
    long L = 0; for (size_t i = 0; i < hist.size(); ++i) { L = std::max<long>(L, hist[i]["ack"].num()); for (size_t b = 0; b < hist[i]["blocks"].size(); ++b) L = std::max<long>(L, hist[i]["blocks"][b][1].num()); }
    bool allq = L <= 9;
    long nisn = args.num("isns", 2);
    for (long k = 0; k < nisn; ++k) {
        uint32_t isn = k == 0 ? (uint32_t)(0u - (uint32_t)rng.range(0, (int)L + 1))           // wrap inside the stream
                     : (rng.coin() ? (uint32_t)(0x80000000u - (uint32_t)rng.range(0, (int)L + 1)) : (rng.coin() ? rng.u32() : (uint32_t)rng.range(0, 2)));
        bool via_flow = rng.below(3) == 0;
        std::string cfg = "\"L\":" + std::to_string(L) + ",\"isn\":\"" + std::to_string(isn) + "\",\"obj\":\"" + (via_flow ? "flow" : "tracker") + "\"";
        out.begin(cfg);
        AckTracker direct(isn, true);
        Flow flow(IPv4Address("10.0.0.2"), 80, 1000);
        if (via_flow) {
            flow.enable_ack_tracking();
            if (rng.below(3) == 0) flow.ignore_data_packets();      // the user does not want this direction's data: its acknowledgements are tracked all the same
            // the flow's own SYN+ACK initialises its tracker with the acknowledged ISN
            // ... either as the passive side (SYN|ACK acknowledging the peer's ISN) or as the active side (a SYN that acknowledges nothing,
            // then the ACK that completes the handshake and acknowledges the peer's ISN for the first time)
            if (rng.coin()) { TCP syn(80, 4000); syn.flags(TCP::SYN | TCP::ACK); syn.seq(999); syn.ack_seq(isn);
                IP p = IP("10.0.0.2", "10.0.0.1") / syn; flow.process_packet(p); }
            else { TCP syn(80, 4000); syn.flags(TCP::SYN); syn.seq(999); syn.ack_seq(0); IP p = IP("10.0.0.2", "10.0.0.1") / syn; flow.process_packet(p);
                TCP ack(80, 4000); ack.flags(TCP::ACK); ack.seq(1000); ack.ack_seq(isn); IP q = IP("10.0.0.2", "10.0.0.1") / ack; flow.process_packet(q); }
            flow.ack_tracker().use_sack();
        }
        // through a Flow: in half of the runs the acknowledging endpoint half-closes somewhere in the history (one of its segments carries
        // FIN, a later one may carry RST-less data-less ACKs as before) - it goes on acknowledging what the peer still sends
        long fin_at = via_flow && rng.coin() && hist.size() ? (long)rng.below((uint32_t)hist.size()) : -1;
        for (size_t i = 0; i < hist.size(); ++i) {
            TCP tcp = make_ack(isn, hist[i], 4000, 80);
            if ((long)i == fin_at) tcp.flags(TCP::ACK | TCP::FIN);
            // through the wire once: the SACK option is serialised and parsed back
            EthernetII pkt = EthernetII() / IP("10.0.0.2", "10.0.0.1") / tcp;
            std::vector<uint8_t> bytes = pkt.serialize(); EthernetII parsed(&bytes[0], (uint32_t)bytes.size());
            if (via_flow) flow.process_packet(parsed); else direct.process_packet(parsed);
            const AckTracker& t = via_flow ? flow.ack_tracker() : direct;
            vh::W w; w.O().kv("e", "ack").kv("ackno", hist[i]["ack"].num()).kraw("blocks", hist[i]["blocks"].dump());
            log_state(w, t, isn, L, hist[i], allq, rng);
            w.E(); out.event(w);
        }
        out.end();
    }
}
int main(int argc, char** argv) { return vh::run(argc, argv, scenario); }
