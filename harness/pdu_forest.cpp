// C12 replay driver: programs over the PDUForest operations (exported by TLC) are executed on real libtins
// objects.  Abstract class ids are concretised over all layer classes (rotating with the scenario id), tags are
// stored in a scalar field of the object where the class has a suitable one.  After every operation the driver
// walks from every user slot / packet slot and logs the chain [(pdu_type, tag)...], whether every parent link
// designates the owner (null for roots), whether any layer is reachable from two slots, and serialisation
// equality between a copy and its source at the time of copying.  Leaks are checked per scenario with LSan
// (run with --batch 1), double frees / use after free are caught by ASan.
#include "vh.h"
#include <map>
#include <typeinfo>
#include <tins/tins.h>
#include <tins/pdu_cacher.h>
#include <tins/loopback.h>
#include <tins/ipsec.h>
#include <tins/mpls.h>
#include <tins/vxlan.h>
#include <tins/rtp.h>
#include <tins/packet.h>
#include <sanitizer/lsan_interface.h>
#include <set>
using namespace Tins;

struct Ops {
    const char* name;
    PDU* (*make)();
    PDU* (*copy)(const PDU*);
    void (*assign)(PDU*, const PDU*);
    PDU* (*move_ctor)(PDU*);
    void (*move_assign)(PDU*, PDU*);
    PDU* (*stack)(const PDU*, const PDU*);
    void (*stack_assign)(PDU*, const PDU*);
};
template <class K> struct OpsOf {
    static PDU* make() { return new K(); }
    static PDU* copy(const PDU* p) { return new K(*static_cast<const K*>(p)); }
    static void assign(PDU* a, const PDU* b) { *static_cast<K*>(a) = *static_cast<const K*>(b); }
    static PDU* move_ctor(PDU* a) { return new K(std::move(*static_cast<K*>(a))); }
    static void move_assign(PDU* a, PDU* b) { *static_cast<K*>(a) = std::move(*static_cast<K*>(b)); }
    static PDU* stack(const PDU* a, const PDU* b) { return new K(*static_cast<const K*>(a) / *b); }
    static void stack_assign(PDU* a, const PDU* b) { *static_cast<K*>(a) /= *b; }
    static Ops get(const char* n) { Ops o = {n, make, copy, assign, move_ctor, move_assign, stack, stack_assign}; return o; }
};
template <> PDU* OpsOf<RawPDU>::make() { return new RawPDU("tagged-payload"); }
template <> PDU* OpsOf<PDUCacher<IP> >::make() { return new PDUCacher<IP>(IP("1.2.3.4", "4.3.2.1")); }
template <> PDU* OpsOf<PDUCacher<UDP> >::make() { return new PDUCacher<UDP>(UDP(1, 2)); }

#define CLASSES(X) X(EthernetII) X(IP) X(TCP) X(UDP) X(RawPDU) X(IPv6) X(Dot1Q) X(ICMP) X(ICMPv6) X(ARP) X(DNS) X(SNAP) X(LLC) X(Dot3) X(SLL) X(Loopback) X(MPLS) X(VXLAN) X(RTP) X(PPPoE) X(BootP) X(DHCP) X(DHCPv6) X(STP) X(IPSecAH) X(IPSecESP) X(RC4EAPOL) X(RSNEAPOL) X(RadioTap) X(Dot11) X(Dot11Data) X(Dot11QoSData) X(Dot11Beacon) X(Dot11ProbeRequest) X(Dot11ProbeResponse) X(Dot11AssocRequest) X(Dot11AssocResponse) X(Dot11ReAssocRequest) X(Dot11ReAssocResponse) X(Dot11Authentication) X(Dot11Deauthentication) X(Dot11Disassoc) X(Dot11RTS) X(Dot11PSPoll) X(Dot11CFEnd) X(Dot11EndCFAck) X(Dot11Ack) X(Dot11BlockAckRequest) X(Dot11BlockAck) X(PDUCacher<IP>) X(PDUCacher<UDP>)
static std::vector<Ops> TABLE;
static std::map<std::string, size_t> BY_TYPEID;      // dynamic class of an object -> its row
static void build_table() {
#define ROW(K) TABLE.push_back(OpsOf<K >::get(#K)); BY_TYPEID[typeid(K).name()] = TABLE.size() - 1;
    CLASSES(ROW)
}
static const Ops* ops_of(const PDU* p) { std::map<std::string, size_t>::const_iterator it = BY_TYPEID.find(typeid(*p).name()); return it == BY_TYPEID.end() ? 0 : &TABLE[it->second]; }

// identity token stored in a field of the object (-1: this class offers no suitable scalar field)
static long tag_get(const PDU* p) {
    switch (p->pdu_type()) {
    case PDU::IP: return static_cast<const IP*>(p)->id();
    case PDU::TCP: return (long)static_cast<const TCP*>(p)->seq();
    case PDU::UDP: return static_cast<const UDP*>(p)->sport();
    case PDU::IPv6: return (long)static_cast<const IPv6*>(p)->flow_label();
    case PDU::DOT1Q: return static_cast<const Dot1Q*>(p)->id();
    case PDU::ICMP: return static_cast<const ICMP*>(p)->id();
    case PDU::DNS: return static_cast<const DNS*>(p)->id();
    case PDU::ETHERNET_II: return static_cast<const EthernetII*>(p)->src_addr()[5];
    case PDU::RAW: { const RawPDU* r = dynamic_cast<const RawPDU*>(p); return r && r->payload_size() ? r->payload()[0] : -1; }
    case PDU::MPLS: return (long)static_cast<const MPLS*>(p)->label();
    case PDU::ARP: return static_cast<const ARP*>(p)->opcode();
    case PDU::BOOTP: return (long)static_cast<const BootP*>(p)->xid();
    case PDU::DHCP: return (long)static_cast<const BootP*>(p)->xid();
    case PDU::ICMPv6: return static_cast<const ICMPv6*>(p)->identifier();
    case PDU::RTP: return static_cast<const RTP*>(p)->sequence_number();
    case PDU::VXLAN: return (long)static_cast<const VXLAN*>(p)->get_vni();
    case PDU::PPPOE: return static_cast<const PPPoE*>(p)->session_id();
    case PDU::DOT11_DATA: case PDU::DOT11_QOS_DATA: case PDU::DOT11_BEACON: case PDU::DOT11: case PDU::DOT11_ACK: case PDU::DOT11_RTS:
        return static_cast<const Dot11*>(p)->duration_id();
    default: return -1;
    }
}
static void tag_set(PDU* p, long v) {
    if (dynamic_cast<PDUCacher<IP>*>(p) || dynamic_cast<PDUCacher<UDP>*>(p)) return;
    switch (p->pdu_type()) {
    case PDU::IP: static_cast<IP*>(p)->id((uint16_t)v); break;
    case PDU::TCP: static_cast<TCP*>(p)->seq((uint32_t)v); break;
    case PDU::UDP: static_cast<UDP*>(p)->sport((uint16_t)v); break;
    case PDU::IPv6: static_cast<IPv6*>(p)->flow_label((uint32_t)v); break;
    case PDU::DOT1Q: static_cast<Dot1Q*>(p)->id((uint16_t)v); break;
    case PDU::ICMP: static_cast<ICMP*>(p)->id((uint16_t)v); break;
    case PDU::DNS: static_cast<DNS*>(p)->id((uint16_t)v); break;
    case PDU::ETHERNET_II: { EthernetII* e = static_cast<EthernetII*>(p); EthernetII::address_type a = e->src_addr(); a[5] = (uint8_t)v; e->src_addr(a); break; }
    case PDU::RAW: { RawPDU* r = dynamic_cast<RawPDU*>(p); if (r && r->payload_size()) r->payload()[0] = (uint8_t)v; break; }
    case PDU::MPLS: static_cast<MPLS*>(p)->label((uint32_t)v); break;
    case PDU::ARP: static_cast<ARP*>(p)->opcode((ARP::Flags)v); break;
    case PDU::BOOTP: case PDU::DHCP: static_cast<BootP*>(p)->xid((uint32_t)v); break;
    case PDU::ICMPv6: static_cast<ICMPv6*>(p)->identifier((uint16_t)v); break;
    case PDU::RTP: static_cast<RTP*>(p)->sequence_number((uint16_t)v); break;
    case PDU::VXLAN: static_cast<VXLAN*>(p)->set_vni((uint32_t)v); break;
    case PDU::PPPOE: static_cast<PPPoE*>(p)->session_id((uint16_t)v); break;
    case PDU::DOT11_DATA: case PDU::DOT11_QOS_DATA: case PDU::DOT11_BEACON: case PDU::DOT11: case PDU::DOT11_ACK: case PDU::DOT11_RTS:
        static_cast<Dot11*>(p)->duration_id((uint16_t)v); break;
    default: break;
    }
}
static bool taggable(const PDU* p) { if (dynamic_cast<const PDUCacher<IP>*>(p) || dynamic_cast<const PDUCacher<UDP>*>(p)) return false; return tag_get(p) != -1 || p->pdu_type() == PDU::RAW; }

struct World {
    std::vector<PDU*> slots; std::vector<const Ops*> ops;    // user slots: raw owning pointers + the static type they were created with
    std::vector<Packet> pslots;                              // always present, possibly empty
    std::vector<const Ops*> cmap;                             // abstract class id -> concrete class
};
static std::vector<uint8_t> ser(PDU* p) { try { return p->serialize(); } catch (std::exception&) { return std::vector<uint8_t>(1, 0xEE); } }

static void observe(vh::W& w, World& W_) {
    bool parent_ok = true, shared = false; std::set<const PDU*> seen;
    w.key("slots").A();
    for (size_t s = 0; s < W_.slots.size(); ++s) {
        w.A(); const PDU* prev = 0;
        for (PDU* p = W_.slots[s]; p; p = p->inner_pdu()) {
            if (p->parent_pdu() != prev) parent_ok = false;
            if (!seen.insert(p).second) shared = true;
            w.A().v((long)p->pdu_type()).v(taggable(p) ? tag_get(p) : -1L).E(); prev = p;
        }
        w.E();
    }
    w.E();
    w.key("pslots").A();
    for (size_t s = 0; s < W_.pslots.size(); ++s) {
        w.A(); const PDU* prev = 0;
        for (PDU* p = W_.pslots[s].pdu(); p; p = p->inner_pdu()) {
            if (p->parent_pdu() != prev) parent_ok = false;
            if (!seen.insert(p).second) shared = true;
            w.A().v((long)p->pdu_type()).v(taggable(p) ? tag_get(p) : -1L).E(); prev = p;
        }
        w.E();
    }
    w.E();
    w.kv("parent_ok", parent_ok).kv("shared", shared);
}

// Layers that own an option / tag list get one entry whose payload size is drawn from below, at and above the small-buffer
// threshold of PDUOption (8 octets): copies and assignments between objects of one class then meet every combination of
// "target holds a short / long option" x "source holds a short / long option" ("a copy ... is deep and equal to its source")
static void decorate(PDU* p, vh::Rng& rng) {
    static const size_t SZ[] = {0, 3, 8, 9, 12, 20};
    size_t n = SZ[rng.below(6)]; std::vector<uint8_t> d; for (size_t i = 0; i < n; ++i) d.push_back((uint8_t)(0x41 + rng.below(26)));
    if (rng.below(4) == 0) return;      // and sometimes none at all
    // (dynamic_cast, not pdu_type(): a PDUCacher<IP> reports IP's type - known finding F8)
    if (TCP* t = dynamic_cast<TCP*>(p)) t->add_option(TCP::option((TCP::OptionTypes)253, d.begin(), d.end()));
    else if (IP* i = dynamic_cast<IP*>(p)) i->add_option(IP::option(IP::option_identifier((IP::OptionNumber)30, IP::MEASUREMENT, 1), d.begin(), d.end()));
    else if (DHCP* h = dynamic_cast<DHCP*>(p)) h->add_option(DHCP::option((DHCP::OptionTypes)224, d.begin(), d.end()));
    else if (DHCPv6* h6 = dynamic_cast<DHCPv6*>(p)) h6->add_option(DHCPv6::option(200, d.begin(), d.end()));
    else if (ICMPv6* c6 = dynamic_cast<ICMPv6*>(p)) { std::vector<uint8_t> e(n <= 8 ? 6 : 14, 0x5a); c6->add_option(ICMPv6::option(200, e.begin(), e.end())); }
    else if (PPPoE* pp = dynamic_cast<PPPoE*>(p)) pp->vendor_specific(PPPoE::vendor_spec_type(0x1234, d));
    else if (Dot11ManagementFrame* m = dynamic_cast<Dot11ManagementFrame*>(p)) m->ssid(std::string(d.begin(), d.end()));
}

static void scenario(const vh::Json& sc, vh::Out& out, vh::Rng& rng, const vh::Args& args) {
    if (TABLE.empty()) build_table();
    long S = args.num("S", 3), P = args.num("P", 2);
    World Wd; Wd.slots.assign(S, (PDU*)0); Wd.ops.assign(S, (const Ops*)0); Wd.pslots.resize(P);
    // concretise abstract classes: rotate over the table with the scenario id so that every class is used
    std::string cm = "\"cmap\":[";
    std::vector<long> ctype;
    for (int c = 0; c < 3; ++c) { const Ops* o = &TABLE[(out.sid * 3 + c * 7 + rng.below(3)) % TABLE.size()]; Wd.cmap.push_back(o); PDU* t = o->make(); ctype.push_back(t->pdu_type()); delete t; cm += (c ? "," : "") + std::to_string(ctype.back()); }
    cm += "],\"cnames\":\"" + std::string(Wd.cmap[0]->name) + "," + Wd.cmap[1]->name + "," + Wd.cmap[2]->name + "\"";
    out.begin(cm);
    for (size_t i = 0; i < sc.size(); ++i) {
        const vh::Json& o = sc[i]; const std::string& op = o["op"].str(); long a = o["a"].num() - 1, b = o["b"].num() - 1, c = o["c"].num() - 1;
        bool ser_ok = true; std::string thrown;
        try {
            if (op == "new") { const Ops* k = Wd.cmap[o["b"].num()]; Wd.slots[a] = k->make(); Wd.ops[a] = k; tag_set(Wd.slots[a], o["c"].num()); decorate(Wd.slots[a], rng); }
            else if (op == "clone") { Wd.slots[b] = Wd.slots[a]->clone(); Wd.ops[b] = Wd.ops[a]; ser_ok = ser(Wd.slots[a]) == ser(Wd.slots[b]); }
            else if (op == "cloneinner") {      // a copy of the chain from the c-th layer downwards: alternately clone() and the copy constructor
                PDU* node = Wd.slots[a]; for (long k = 1; k < o["c"].num() && node; ++k) node = node->inner_pdu();
                const Ops* k = ops_of(node); if (!k) throw std::logic_error("driver: class of an inner layer not in the table");
                Wd.slots[b] = (out.sid % 2) ? node->clone() : k->copy(node); Wd.ops[b] = k;
                /* the serialisation of a layer depends on its parent (checksums, MPLS bottom-of-stack): source and copy are compared as chains */ }
            else if (op == "copyctor") { Wd.slots[b] = Wd.ops[a]->copy(Wd.slots[a]); Wd.ops[b] = Wd.ops[a]; ser_ok = ser(Wd.slots[a]) == ser(Wd.slots[b]); }
            else if (op == "copyassign") { PDU* node = Wd.slots[a]; for (long k = 1; k < o["c"].num(); ++k) node = node->inner_pdu();
                const Ops* k = 0; for (int q = 0; q < 3 && !k; ++q) { PDU* t = Wd.cmap[q]->make(); if (typeid(*t) == typeid(*node)) k = Wd.cmap[q]; delete t; }
                k->assign(node, Wd.slots[b]); ser_ok = o["c"].num() != 1 || ser(Wd.slots[a]) == ser(Wd.slots[b]); }
            else if (op == "movector") { std::vector<uint8_t> before = ser(Wd.slots[a]); Wd.slots[b] = Wd.ops[a]->move_ctor(Wd.slots[a]); Wd.ops[b] = Wd.ops[a]; ser_ok = ser(Wd.slots[b]) == before; }
            else if (op == "moveassign") { std::vector<uint8_t> before = ser(Wd.slots[b]); Wd.ops[a]->move_assign(Wd.slots[a], Wd.slots[b]); ser_ok = ser(Wd.slots[a]) == before; }
            else if (op == "stackassign") { Wd.ops[a]->stack_assign(Wd.slots[a], Wd.slots[b]); }
            else if (op == "stack") { Wd.slots[c] = Wd.ops[a]->stack(Wd.slots[a], Wd.slots[b]); Wd.ops[c] = Wd.ops[a]; }
            else if (op == "setinnerptr") { Wd.slots[a]->inner_pdu(Wd.slots[b]); Wd.slots[b] = 0; Wd.ops[b] = 0; }
            else if (op == "setinnerref") { Wd.slots[a]->inner_pdu(*Wd.slots[b]); }
            else if (op == "release") { Wd.slots[b] = Wd.slots[a]->release_inner_pdu(); Wd.ops[b] = 0; if (Wd.slots[b]) for (size_t k = 0; k < TABLE.size(); ++k) { /* static type of a released child: find by dynamic type */ }
                if (Wd.slots[b]) { for (int q = 0; q < 3; ++q) { PDU* t = Wd.cmap[q]->make(); bool same = typeid(*t) == typeid(*Wd.slots[b]); delete t; if (same) { Wd.ops[b] = Wd.cmap[q]; break; } } } }
            else if (op == "delete") { delete Wd.slots[a]; Wd.slots[a] = 0; Wd.ops[a] = 0; }
            else if (op == "mutate") { PDU* p = Wd.slots[a]; for (long k = 1; k < o["b"].num() && p; ++k) p = p->inner_pdu(); if (p) tag_set(p, o["c"].num()); }
            else if (op == "pwrap") { Wd.pslots[b] = Packet(*Wd.slots[a]); ser_ok = ser(Wd.pslots[b].pdu()) == ser(Wd.slots[a]); }
            else if (op == "pown") { Wd.pslots[b] = Packet(Wd.slots[a], Timestamp(), Packet::own_pdu()); Wd.slots[a] = 0; Wd.ops[a] = 0; }
            else if (op == "pcopy") { if (rng.coin()) Wd.pslots[b] = Wd.pslots[a]; else { Packet tmp(Wd.pslots[a]); Wd.pslots[b] = std::move(tmp); }
                ser_ok = (!Wd.pslots[a].pdu() && !Wd.pslots[b].pdu()) || (Wd.pslots[a].pdu() && Wd.pslots[b].pdu() && ser(Wd.pslots[b].pdu()) == ser(Wd.pslots[a].pdu())); }
            else if (op == "pmove") { Packet& src = Wd.pslots[a]; Wd.pslots[b] = std::move(src); }      /* a == b: self-move through a second reference */
            else if (op == "prelease") { Wd.slots[b] = Wd.pslots[a].release_pdu(); Wd.ops[b] = 0;
                if (Wd.slots[b]) { for (int q = 0; q < 3; ++q) { PDU* t = Wd.cmap[q]->make(); bool same = typeid(*t) == typeid(*Wd.slots[b]); delete t; if (same) { Wd.ops[b] = Wd.cmap[q]; break; } } } }
            else if (op == "pdrop") { Wd.pslots[a] = Packet(); }
        } catch (std::exception& e) { thrown = std::string(typeid(e).name()) + ": " + e.what(); }
        vh::W w; w.O().kv("e", "op").kv("op", op).kv("a", o["a"].num()).kv("b", o["b"].num()).kv("c", o["c"].num());
        observe(w, Wd); w.kv("ser_ok", ser_ok).kv("thrown", thrown).E(); out.event(w);
    }
    // destroy everything that is still alive, then ask LSan whether anything has been lost
    for (size_t s = 0; s < Wd.slots.size(); ++s) delete Wd.slots[s];
    Wd.slots.clear(); Wd.pslots.clear();
    int leaks = __lsan_do_recoverable_leak_check();
    vh::W w; w.O().kv("e", "end").kv("leaks", leaks).E(); out.event(w);
    out.end();
}
int main(int argc, char** argv) { return vh::run(argc, argv, scenario); }
