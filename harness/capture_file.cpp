// C17 replay driver: file descriptions exported by TLC (CaptureGen) are rendered as real pcap files --
// Good frames are built through the libtins API for the file's link type and written with Tins::PacketWriter
// (explicit timestamps), Malformed / Empty / arbitrary frames are written with raw pcap_dump() -- and read back
// with Tins::FileSniffer through next_packet(), sniff_loop() and begin()/end() iteration.
//
// What is logged (validated by spec/capture/CaptureTrace.tla against CaptureAbs):
//   file     the link type libpcap reports for the written file, and per frame: whether the link type's top-level
//            parser (called directly, the same one the sniffer dispatches to) accepts it, whether libpcap
//            (pcap_compile + pcap_offline_filter on the record as stored) says the filter matches, its timestamp
//   open     construction of the FileSniffer
//   next / loop   per delivered packet: index of the originating frame (recovered from a marker in the bytes),
//            whether its re-serialisation equals the re-serialisation of the directly parsed frame, sec / usec;
//            the type of any exception that left the call
//   offline  Tins::OfflinePacketFilter against pcap_offline_filter on the same bytes
// Files live in a per-process directory below the directory of --out.
#include "vh.h"
#include <algorithm>
#include <tins/tins.h>
#include <tins/detail/pdu_helpers.h>
#include <tins/offline_packet_filter.h>
#include <tins/packet_writer.h>
#include <tins/sniffer.h>
#include <tins/data_link_type.h>
#include <tins/loopback.h>
#include <tins/ppi.h>
#include <tins/sll.h>
#include <tins/llc.h>
#include <tins/dot3.h>
#include <pcap.h>
#include <sys/stat.h>
#include <cxxabi.h>
#include <memory>
using namespace Tins;

typedef std::vector<uint8_t> Bytes;

// any pcap link type through the public PacketWriter / OfflinePacketFilter constructors (DataLinkType is an open template)
template <int D> struct LtTag {};
namespace Tins { template <int D> struct DataLinkType<LtTag<D> > { static const int type = D; int get_type() const { return D; } }; }

static const char* FILTERS[] = { "", "ip", "tcp", "udp port 53", "ip src 10.0.0.1", "vlan", "ip6", "arp", "tcp dst port 80",
                                 "not ip", "ether dst ff:ff:ff:ff:ff:ff", "icmp or icmp6", "greater 100", "ip and not tcp" };
static const int NFILTERS = sizeof(FILTERS) / sizeof(FILTERS[0]);

static int dlt_of(const std::string& lt) {
    if (lt == "EN10MB") return DLT_EN10MB; if (lt == "IEEE802_11") return DLT_IEEE802_11; if (lt == "IEEE802_11_RADIO") return DLT_IEEE802_11_RADIO;
    if (lt == "NULL") return DLT_NULL; if (lt == "LINUX_SLL") return DLT_LINUX_SLL; if (lt == "RAW") return DLT_RAW; if (lt == "PPI") return DLT_PPI;
    if (lt == "LOOP_LIB") return DataLinkType<Loopback>::type;     // whatever the library maps Loopback to
    return -1;
}
static std::string dlt_name(int d) {
    if (d == DLT_EN10MB) return "EN10MB"; if (d == DLT_IEEE802_11) return "IEEE802_11"; if (d == DLT_IEEE802_11_RADIO) return "IEEE802_11_RADIO";
    if (d == DLT_NULL) return "NULL"; if (d == DLT_LINUX_SLL) return "LINUX_SLL"; if (d == DLT_RAW) return "RAW"; if (d == DLT_PPI) return "PPI";
    return "OTHER_" + std::to_string(d);
}
static std::string exc_name(const std::exception& e) {
    int st = 0; char* d = abi::__cxa_demangle(typeid(e).name(), 0, 0, &st); std::string r = d ? d : typeid(e).name(); free(d); return r;
}

// ---------------------------------------------------------------- the link type's top-level parser, called directly
static const uint8_t ZERO[4] = {0, 0, 0, 0};
static PDU* parse_top(const std::string& lt, const Bytes& b) {     // returns 0 for "no parser applies"; may throw
    const uint8_t* p = b.empty() ? ZERO : &b[0]; uint32_t n = (uint32_t)b.size();
    if (lt == "EN10MB") { if (Internals::is_dot3(p, n)) return new Dot3(p, n); return new EthernetII(p, n); }
    if (lt == "IEEE802_11") return Dot11::from_bytes(p, n);
    if (lt == "IEEE802_11_RADIO") return new RadioTap(p, n);
    if (lt == "NULL" || lt == "LOOP_LIB") return new Loopback(p, n);
    if (lt == "LINUX_SLL") return new SLL(p, n);
    if (lt == "PPI") return new PPI(p, n);
    if (lt == "RAW") { if (n == 0) return 0; if ((p[0] >> 4) == 4) return new IP(p, n); if ((p[0] >> 4) == 6) return new IPv6(p, n); return 0; }
    return 0;
}
// bytes that identify a parsed packet (PPI refuses to serialise: its header size and the inner packet)
static Bytes canon(PDU& p) {
    try {
        if (p.pdu_type() == PDU::PPI) { Bytes r; r.push_back('P'); r.push_back((uint8_t)p.header_size()); r.push_back((uint8_t)(p.header_size() >> 8));
            if (p.inner_pdu()) { Bytes in = p.inner_pdu()->serialize(); r.insert(r.end(), in.begin(), in.end()); } return r; }
        return p.serialize();
    } catch (std::exception& e) { std::string s = "!" + exc_name(e); return Bytes(s.begin(), s.end()); }
}
struct Frame { std::string want, cls, how; long sec, usec; Bytes bytes, can; std::unique_ptr<PDU> pdu; bool m, wok; uint32_t caplen, len; std::string foreign; };
static void classify(const std::string& lt, Frame& f) {
    f.can.clear();
    try { std::unique_ptr<PDU> p(parse_top(lt, f.bytes)); if (p) { f.cls = "Good"; f.can = canon(*p); } else f.cls = "Unknown"; }
    catch (malformed_packet&) { f.cls = f.bytes.empty() ? "Empty" : "Malformed"; }
    catch (std::exception& e) { f.cls = "Foreign"; f.foreign = exc_name(e); }
    catch (...) { f.cls = "Foreign"; f.foreign = "?"; }
}

// ---------------------------------------------------------------- marker: C2 7A hi lo ~hi ~lo
static void marker(int idx, uint8_t* o) { o[0] = 0xC2; o[1] = 0x7A; o[2] = (uint8_t)(idx >> 8); o[3] = (uint8_t)idx; o[4] = (uint8_t)~o[2]; o[5] = (uint8_t)~o[3]; }
static HWAddress<6> mark_hw(int idx) { uint8_t m[6]; marker(idx, m); return HWAddress<6>(m); }
static int find_marker(const Bytes& b, int n) {
    for (size_t i = 0; i + 6 <= b.size(); ++i) if (b[i] == 0xC2 && b[i + 1] == 0x7A && b[i + 4] == (uint8_t)~b[i + 2] && b[i + 5] == (uint8_t)~b[i + 3]) {
        int x = (b[i + 2] << 8) | b[i + 3]; if (x >= 1 && x <= n) return x; }
    return 0;
}
static RawPDU payload(int idx, vh::Rng& rng, int salt) {
    static const int L[] = {0, 1, 10, 40, 100, 600, 1400, 0, 26};
    int n = L[rng.below(9)];
    if (rng.below(48) == 0) n = rng.coin() ? 33000 : 60000;      // now and then a frame beyond 32 KiB (still below the 65535 limit)
    Bytes b(6 + n); marker(idx, &b[0]);
    for (int j = 0; j < n; ++j) b[6 + j] = (uint8_t)(0x20 + ((j + salt * 7) % 64));
    return RawPDU(b.begin(), b.end());
}
// network-layer shapes (all carry the marker in a RawPDU)
static PDU* l3(int shape, int idx, vh::Rng& rng, int salt) {
    RawPDU pl = payload(idx, rng, salt);
    switch (shape % 6) {
    case 0: { IP ip("10.0.0.2", "10.0.0.1"); ip.id((uint16_t)(idx + salt)); TCP t(80, (uint16_t)(1025 + idx % 1000)); t.seq(7u * idx); t.set_flag(TCP::ACK, 1); return (ip / t / pl).clone(); }
    case 1: { IP ip("192.168.1.2", "192.168.1.1"); ip.ttl(33); return (ip / UDP(53, 5353) / pl).clone(); }
    case 2: { IP ip("10.0.0.9", "10.0.0.1"); ICMP ic(ICMP::ECHO_REQUEST); ic.id((uint16_t)idx); ic.sequence(1); return (ip / ic / pl).clone(); }
    case 3: { IPv6 ip("fe80::2", "fe80::1"); ip.hop_limit(64); TCP t(80, 40000); t.set_flag(TCP::SYN, 1); return (ip / t / pl).clone(); }
    case 4: { IPv6 ip("2001:db8::2", "2001:db8::1"); return (ip / UDP(53, 53) / pl).clone(); }
    default: { IP ip("172.16.0.1", "172.16.0.2"); TCP t(443, 80); t.set_flag(TCP::PSH, 1); return (ip / t / pl).clone(); }
    }
}
static PDU* dot11(int shape, int idx, vh::Rng& rng, int salt) {
    HWAddress<6> bc("ff:ff:ff:ff:ff:ff"), ap("00:11:22:33:44:55"), me = mark_hw(idx);
    switch (shape % 6) {
    case 3: { Dot11QoSData d(ap, me); d.addr3(ap); std::unique_ptr<PDU> in(l3(shape, idx, rng, salt)); return (d / SNAP() / *in).clone(); }
    case 4: { Dot11Beacon b(bc, me); b.addr3(me); b.ssid("verif"); b.interval(100); return b.clone(); }
    case 5: { Dot11Ack a(me); return a.clone(); }
    default: { Dot11Data d(shape % 6 == 0 ? bc : ap, me); d.addr3(ap); std::unique_ptr<PDU> in(l3(shape, idx, rng, salt)); return (d / SNAP() / *in).clone(); }
    }
}
static PDU* ether(int shape, int idx, vh::Rng& rng, int salt) {
    HWAddress<6> bc("ff:ff:ff:ff:ff:ff"), gw("00:aa:bb:cc:dd:ee"), me = mark_hw(idx);
    switch (shape % 9) {
    case 6: return (EthernetII(bc, me) / ARP("10.0.0.2", "10.0.0.1", HWAddress<6>(), me)).clone();
    case 7: { IP ip("10.0.0.2", "10.0.0.1"); return (EthernetII(gw, me) / Dot1Q(5) / ip / UDP(53, 999) / payload(idx, rng, salt)).clone(); }
    case 8: { RawPDU pl = payload(idx, rng, salt); return (Dot3(gw, me) / LLC() / pl).clone(); }
    default: { std::unique_ptr<PDU> in(l3(shape, idx, rng, salt)); return (EthernetII(shape % 3 == 0 ? bc : gw, me) / *in).clone(); }
    }
}
// Good frame for a link type: the PDU built through the API (0 for PPI, which cannot be serialised) and its bytes
static void build_good(const std::string& lt, int shape, int idx, vh::Rng& rng, int salt, Frame& f) {
    f.pdu.reset();
    if (lt == "EN10MB") f.pdu.reset(ether(shape, idx, rng, salt));
    else if (lt == "IEEE802_11") f.pdu.reset(dot11(shape, idx, rng, salt));
    else if (lt == "IEEE802_11_RADIO") { std::unique_ptr<PDU> in(dot11(shape, idx, rng, salt)); f.pdu.reset((RadioTap() / *in).clone()); }
    else if (lt == "NULL" || lt == "LOOP_LIB") { std::unique_ptr<PDU> in(l3(shape, idx, rng, salt)); f.pdu.reset((Loopback() / *in).clone()); }
    else if (lt == "LINUX_SLL") { SLL s; uint8_t a[8]; marker(idx, a); a[6] = 0; a[7] = 0; s.address(HWAddress<8>(a)); s.lladdr_len(6); s.lladdr_type(1); s.packet_type(shape % 2 ? 4 : 0);
        std::unique_ptr<PDU> in(l3(shape, idx, rng, salt)); f.pdu.reset((s / *in).clone()); }
    else if (lt == "RAW") f.pdu.reset(l3(shape, idx, rng, salt));
    // every other packet is handed to the writer as crafted - never serialised before (its bytes come from a clone), so that what libtins
    // only derives when it serialises (lengths, checksums) is still unset in the object the writer gets
    if (f.pdu) { if (idx % 2) { std::unique_ptr<PDU> c(f.pdu->clone()); f.bytes = c->serialize(); } else f.bytes = f.pdu->serialize(); f.how = "writer"; return; }
    // PPI: 8-byte header (version, flags, length, dlt) in front of an Ethernet or 802.11 frame serialised by libtins
    bool wifi = shape % 4 == 3; std::unique_ptr<PDU> in(wifi ? dot11(shape % 3, idx, rng, salt) : ether(shape, idx, rng, salt)); Bytes ib = in->serialize();
    uint32_t d = wifi ? DLT_IEEE802_11 : DLT_EN10MB; uint8_t h[8] = {0, 0, 8, 0, (uint8_t)d, (uint8_t)(d >> 8), 0, 0};
    // half of the 802.11 frames carry the 802.11-Common field (type 2, 20 octets: TSF, flags, rate, frequencies, ...); its flag bit 0
    // says that the frame ends in a 4-octet FCS, which the parser has to leave out of the 802.11 frame
    Bytes fields;
    if (wifi && (idx + salt) % 2 == 0) { bool fcs = (idx / 2) % 2 == 0; uint8_t fh[4] = {2, 0, 20, 0}; fields.assign(fh, fh + 4); Bytes c(20, 0); c[0] = (uint8_t)idx; c[8] = fcs ? 1 : 0; c[10] = 2; c[12] = 0x6c; c[13] = 0x09; fields.insert(fields.end(), c.begin(), c.end());
        if (fcs) { ib.push_back(0xde); ib.push_back(0xad); ib.push_back(0xbe); ib.push_back(0xef); } }
    h[2] = (uint8_t)(8 + fields.size());
    f.bytes.assign(h, h + 8); f.bytes.insert(f.bytes.end(), fields.begin(), fields.end()); f.bytes.insert(f.bytes.end(), ib.begin(), ib.end()); f.how = "dump";
}
static void build_frame(const std::string& lt, const vh::Json& d, int idx, int n, vh::Rng& rng, Frame& f) {
    f.want = d["cls"].str(); f.sec = d["ts"][0].num(); f.usec = d["ts"][1].num(); int shape = (int)d["pkt"].num();
    f.how = "dump"; f.m = false; f.wok = true; f.pdu.reset(); f.bytes.clear();
    if (f.want == "Empty") { classify(lt, f); return; }
    Frame g;
    for (int salt = 0; salt < 4; ++salt) { build_good(lt, shape, idx, rng, salt, g); classify(lt, g); if (g.cls != "Good" || find_marker(g.can, n) == idx) break; }
    if (f.want == "Good") { f.bytes = g.bytes; f.pdu.reset(g.pdu.release()); f.how = g.how; classify(lt, f); return; }
    if (f.want == "Malformed") {
        // truncations of a good frame, accepted only if the parser really throws malformed_packet; last resort: one byte
        size_t L = g.bytes.size();
        for (int t = 0; t < 12; ++t) {
            // the first try of a PPI frame cuts 1..3 octets behind the PPI header (whatever its fields say about the frame's end)
            static const size_t SMALL[] = {1, 2, 3, 7}; size_t cut = t < 8 ? 1 + rng.below((uint32_t)(L > 1 ? L - 1 : 1)) : SMALL[t - 8];
            if (t == 0 && lt == "PPI" && L > 4 && rng.coin()) cut = (size_t)(g.bytes[2] | (g.bytes[3] << 8)) + 1 + rng.below(3);
            if (cut >= L) continue;
            f.bytes.assign(g.bytes.begin(), g.bytes.begin() + cut); classify(lt, f); if (f.cls == "Malformed") return;
        }
        f.bytes.assign(1, lt == "RAW" ? 0x45 : 0x00); classify(lt, f); return;
    }
    // "Arb": seeded arbitrary bytes -- mutated good frame, random header in front of the marker, or pure noise
    int kind = (int)rng.below(4); f.bytes = g.bytes;
    if (kind == 0) { int k = 1 + (int)rng.below(4); for (int j = 0; j < k && !f.bytes.empty(); ++j) f.bytes[rng.below((uint32_t)std::min<size_t>(f.bytes.size(), 48))] = (uint8_t)rng.below(256); }
    else if (kind == 1) { f.bytes.resize(rng.below((uint32_t)f.bytes.size() + 1)); }
    else if (kind == 2) { int hl = (int)rng.below(40); f.bytes.assign(hl + 6, 0); for (int j = 0; j < hl; ++j) f.bytes[j] = (uint8_t)rng.below(256); marker(idx, &f.bytes[hl]); }
    else { f.bytes.resize(1 + rng.below(64)); for (size_t j = 0; j < f.bytes.size(); ++j) f.bytes[j] = (uint8_t)rng.below(256); if (lt == "RAW" && rng.coin()) f.bytes[0] = (uint8_t)((rng.coin() ? 0x40 : 0x60) | (f.bytes[0] & 15)); }
    classify(lt, f);
}
// every frame that parses must be identifiable from what the sniffer hands back: by its own marker, or (arbitrary bytes
// that happen to parse) by a re-serialisation no other frame shares and that carries nobody else's marker
static int identify(const std::vector<Frame>& fr, const Bytes& c) {
    int n = (int)fr.size(), x = find_marker(c, n);
    if (x > 0 && fr[x - 1].can == c) return x;
    int hit = 0; for (int j = 0; j < n; ++j) if (fr[j].cls == "Good" && fr[j].can == c) { if (hit) return x; hit = j + 1; }
    return hit ? hit : x;
}
static void make_identifiable(const std::string& lt, std::vector<Frame>& fr) {
    for (bool again = true; again;) { again = false;
        for (size_t i = 0; i < fr.size(); ++i) if (fr[i].cls == "Good" && identify(fr, fr[i].can) != (int)i + 1) {
            // only frames made of arbitrary bytes can get here; the ambiguous one becomes an empty frame
            size_t victim = fr[i].want == "Arb" ? i : (size_t)(identify(fr, fr[i].can) - 1);
            if (victim >= fr.size() || fr[victim].want != "Arb") victim = i;
            fr[victim].bytes.clear(); fr[victim].pdu.reset(); fr[victim].how = "dump"; classify(lt, fr[victim]); again = true; }
    }
}

// ---------------------------------------------------------------- files
static std::string g_dir;
static std::string tmp_path(const vh::Args& args, long sid, const char* tag) {
    if (g_dir.empty()) { std::string o = args.get("out"); size_t s = o.rfind('/'); g_dir = (s == std::string::npos ? std::string(".") : o.substr(0, s)) + "/capture-tmp-" + std::to_string((long)getpid()); }
    mkdir(g_dir.c_str(), 0755);
    return g_dir + "/" + std::to_string(sid) + "-" + tag + ".pcap";
}
static Bytes slurp(const std::string& p) { Bytes b; FILE* f = fopen(p.c_str(), "rb"); if (!f) return b; uint8_t buf[65536]; size_t n; while ((n = fread(buf, 1, sizeof buf, f)) > 0) b.insert(b.end(), buf, buf + n); fclose(f); return b; }
static PacketWriter* open_writer(const std::string& lt, const std::string& path, bool legacy) {
    if (lt == "EN10MB") return legacy ? new PacketWriter(path, PacketWriter::ETH2) : new PacketWriter(path, DataLinkType<EthernetII>());
    if (lt == "IEEE802_11") return legacy ? new PacketWriter(path, PacketWriter::DOT11) : new PacketWriter(path, DataLinkType<Dot11>());
    if (lt == "IEEE802_11_RADIO") return legacy ? new PacketWriter(path, PacketWriter::RADIOTAP) : new PacketWriter(path, DataLinkType<RadioTap>());
    if (lt == "LINUX_SLL") return legacy ? new PacketWriter(path, PacketWriter::SLL) : new PacketWriter(path, DataLinkType<SLL>());
    if (lt == "RAW") return new PacketWriter(path, DataLinkType<IP>());
    if (lt == "PPI") return new PacketWriter(path, DataLinkType<PPI>());
    if (lt == "LOOP_LIB") return new PacketWriter(path, DataLinkType<Loopback>());
    return new PacketWriter(path, DataLinkType<LtTag<DLT_NULL> >());
}
// records of a pcap file written by this process: (offset, total record size) after the 24-byte file header
static std::vector<std::pair<size_t, size_t> > records(const Bytes& f) {
    std::vector<std::pair<size_t, size_t> > r; size_t o = 24;
    while (o + 16 <= f.size()) { uint32_t cap; memcpy(&cap, &f[o + 8], 4); if (o + 16 + cap > f.size()) break; r.push_back(std::make_pair(o, (size_t)16 + cap)); o += 16 + cap; }
    return r;
}

struct Got { int idx; bool same; bool hasts; long sec, usec; };
struct Reader {
    std::vector<Frame>* fr; int n; bool raw; int last;
    Got see(PDU* p, const Timestamp* ts) {
        if (raw) {   // set_extract_raw_pdus(true): every record comes back as a RawPDU holding its bytes - identified by them, in file order
            Got g; g.idx = 0; g.same = false; const RawPDU* r = p->pdu_type() == PDU::RAW ? static_cast<const RawPDU*>(p) : 0;
            if (r && !r->inner_pdu()) for (int j = last; j < n; ++j) if ((*fr)[j].wok && (*fr)[j].bytes == r->payload()) { g.idx = j + 1; g.same = true; last = j + 1; break; }
            g.hasts = ts != 0; g.sec = ts ? (long)ts->seconds() : 0; g.usec = ts ? (long)ts->microseconds() : 0; return g; }
        Got g; Bytes c = canon(*p); g.idx = identify(*fr, c);
        g.same = g.idx > 0 && (*fr)[g.idx - 1].can == c; g.hasts = ts != 0; g.sec = ts ? (long)ts->seconds() : 0; g.usec = ts ? (long)ts->microseconds() : 0; return g; }
};
static void put_got(vh::W& w, const std::vector<Got>& got) {
    w.key("got").A(); for (size_t i = 0; i < got.size(); ++i) w.A().v(got[i].idx).v(got[i].same ? 1 : 0).v(got[i].hasts ? 1 : 0).v(got[i].sec).v(got[i].usec).E(); w.E(); }

static void scenario(const vh::Json& sc, vh::Out& out, vh::Rng& rng, const vh::Args& args) {
    std::string lt = sc["lt"].str(); int fid = (int)sc["filter"].num(); if (fid < 0 || fid >= NFILTERS) fid = 0;
    int dlt = dlt_of(lt); const vh::Json& fj = sc["frames"]; int n = (int)fj.size();
    std::vector<Frame> fr(n);
    for (int i = 0; i < n; ++i) build_frame(lt, fj[i], i + 1, n, rng, fr[i]);
    make_identifiable(lt, fr);
    out.begin("\"lt\":\"" + lt + "\",\"filter\":" + std::to_string(fid) + ",\"frames\":" + std::to_string(n));

    // ---- write: PacketWriter for API-built frames, pcap_dump for the rest, then interleave the records in file order
    std::string pa = tmp_path(args, out.sid, "w"), pb = tmp_path(args, out.sid, "d"), pf = tmp_path(args, out.sid, "f");
    std::string wexc = "none";
    try {
        std::unique_ptr<PacketWriter> w(open_writer(lt, pa, rng.coin()));
        for (int i = 0; i < n; ++i) if (fr[i].how == "writer") {
            timeval tv; tv.tv_sec = fr[i].sec; tv.tv_usec = fr[i].usec;
            Packet pk(*fr[i].pdu, Timestamp(tv)); w->write(pk); }
    } catch (std::exception& e) { wexc = exc_name(e); }
    { pcap_t* d = pcap_open_dead(dlt, 65535); pcap_dumper_t* du = pcap_dump_open(d, pb.c_str());
      for (int i = 0; i < n; ++i) if (fr[i].how == "dump") {
          pcap_pkthdr h; memset(&h, 0, sizeof h); h.ts.tv_sec = fr[i].sec; h.ts.tv_usec = fr[i].usec; h.caplen = (bpf_u_int32)fr[i].bytes.size();
          h.len = h.caplen ? h.caplen : (rng.coin() ? 0 : 64); pcap_dump((u_char*)du, &h, fr[i].bytes.empty() ? ZERO : &fr[i].bytes[0]); }
      pcap_dump_close(du); pcap_close(d); }
    { Bytes A = slurp(pa), B = slurp(pb); std::vector<std::pair<size_t, size_t> > ra = records(A), rb = records(B); size_t ia = 0, ib = 0;
      const Bytes& H = A.size() >= 24 ? A : B;      // the writer's own file header (link type as the library wrote it)
      FILE* f = fopen(pf.c_str(), "wb"); fwrite(&H[0], 1, 24, f);
      for (int i = 0; i < n; ++i) { bool wr = fr[i].how == "writer"; const Bytes& S = wr ? A : B; std::vector<std::pair<size_t, size_t> >& r = wr ? ra : rb; size_t& k = wr ? ia : ib;
          if (k < r.size()) { fwrite(&S[r[k].first], 1, r[k].second, f); ++k; } else fr[i].wok = false; }
      fclose(f); unlink(pa.c_str()); unlink(pb.c_str()); }

    // ---- the file as libpcap itself reads it: link type, records, and which records the filter matches
    // the sniffer's filter: what libpcap says when the expression is compiled for this savefile (for DLT_NULL libpcap
    // generates different code for savefiles and for dead handles); the offline filter: compiled for a dead handle
    // filters that are in force at some time: the one the sniffer is opened with, then those installed later by set_filter() calls
    std::vector<int> fl(1, fid);
    for (size_t c = 0; c < sc["calls"].size(); ++c) if (sc["calls"][c]["api"].str() == "setfilter") { int x = (int)sc["calls"][c]["k"].num(); if (x < 0 || x >= NFILTERS) x = 0; if (std::find(fl.begin(), fl.end(), x) == fl.end()) fl.push_back(x); }
    std::vector<bpf_program> lprog(fl.size()); std::vector<char> lok(fl.size(), 0); std::vector<std::vector<char> > mm(n, std::vector<char>(fl.size(), 1));
    char err[PCAP_ERRBUF_SIZE]; int file_dlt = -1; bool fok = true; bpf_program prog, fprog; bool have_prog = false, have_fprog = false;
    { pcap_t* p = pcap_open_offline(pf.c_str(), err);
      if (p) { file_dlt = pcap_datalink(p);
          if (fid) { if (pcap_compile(p, &fprog, FILTERS[fid], 0, PCAP_NETMASK_UNKNOWN) == 0) have_fprog = true; else fok = false;
                     pcap_t* dead = pcap_open_dead(file_dlt, 65535); if (pcap_compile(dead, &prog, FILTERS[fid], 1, PCAP_NETMASK_UNKNOWN) == 0) have_prog = true; pcap_close(dead); }
          for (size_t x = 0; x < fl.size(); ++x) lok[x] = fl[x] == 0 || pcap_compile(p, &lprog[x], FILTERS[fl[x]], 0, PCAP_NETMASK_UNKNOWN) == 0;
          pcap_pkthdr* h; const u_char* d; int i = 0; int rc;
          while ((rc = pcap_next_ex(p, &h, &d)) == 1) {
              while (i < n && !fr[i].wok) ++i;        // a record the writer failed to produce is simply not in the file
              if (i >= n) break;
              Frame& f = fr[i];
              f.caplen = h->caplen; f.len = h->len;
              f.wok = h->caplen == f.bytes.size() && (f.bytes.empty() || !memcmp(d, &f.bytes[0], f.bytes.size())) && (long)h->ts.tv_sec == f.sec && (long)h->ts.tv_usec == f.usec;
              f.m = have_fprog ? pcap_offline_filter(&fprog, h, d) != 0 : true;
              for (size_t x = 0; x < fl.size(); ++x) mm[i][x] = (fl[x] == 0 || !lok[x]) ? 1 : (pcap_offline_filter(&lprog[x], h, d) != 0);
              ++i; }
          for (size_t x = 0; x < fl.size(); ++x) if (fl[x] != 0 && lok[x]) pcap_freecode(&lprog[x]);
          pcap_close(p); } }
    const bool rawmode = sc.has("raw") && sc["raw"].truth();
    { vh::W w; w.O().kv("e", "file").kv("raw", rawmode).kv("flt", dlt_name(file_dlt)).kv("fok", fok).kv("filt", fid != 0).kv("wexc", wexc).key("fr").A();
      for (int i = 0; i < n; ++i) { w.O().kv("cls", fr[i].cls).kv("m", fr[i].m).kv("sec", fr[i].sec).kv("usec", fr[i].usec).kv("w", fr[i].how).kv("wok", fr[i].wok).kv("want", fr[i].want).kv("why", fr[i].foreign).key("mm").A(); for (size_t x = 0; x < fl.size(); ++x) w.v(mm[i][x] != 0); w.E(); w.E(); }
      w.E().key("fokl").A(); for (size_t x = 0; x < fl.size(); ++x) w.v(lok[x] != 0); w.E().E(); out.event(w); }

    // ---- before the reader under test: two other readers of the same file have been at work in this process - a dissecting one and a
    //      raw-extracting one, one packet each (readers are independent objects: what one of them was configured to do is its own business)
    if (out.sid % 3 == 1) { try { FileSniffer a(pf); (void)a.next_packet(); } catch (std::exception&) {}
                            try { FileSniffer b(pf); b.set_extract_raw_pdus(true); (void)b.next_packet(); } catch (std::exception&) {} }
    // ---- read back with Tins::FileSniffer
    std::unique_ptr<FileSniffer> sn; std::string oexc = "none"; int omode = (int)rng.below(4);
    try {
        SnifferConfiguration cfg; if (fid) cfg.set_filter(FILTERS[fid]);
        if (rng.below(3) == 0) cfg.set_pcap_sniffing_method(pcap_dispatch);      // documented alternative to the default pcap_loop
        if (omode == 0) sn.reset(new FileSniffer(pf, cfg));
        else if (omode == 1) sn.reset(new FileSniffer(pf, std::string(FILTERS[fid])));        // "" installs the empty filter: everything matches
        else { FILE* fp = fopen(pf.c_str(), "rb"); if (omode == 2) sn.reset(new FileSniffer(fp, cfg)); else sn.reset(new FileSniffer(fp, std::string(FILTERS[fid]))); }
        // half of the readers are handed on by move construction (as a factory function returns them); raw extraction is switched
        // on BEFORE that, as a configuration step of the factory
        if (rawmode) sn->set_extract_raw_pdus(true);
        if (rng.coin()) { std::unique_ptr<FileSniffer> moved(new FileSniffer(std::move(*sn))); sn.swap(moved); }
    } catch (std::exception& e) { oexc = exc_name(e); }
    { vh::W w; w.O().kv("e", "open").kv("ok", sn.get() != 0).kv("exc", oexc).kv("mode", omode).E(); out.event(w); }
    if (sn && fok) {
        Reader rd; rd.fr = &fr; rd.n = n; rd.raw = rawmode; rd.last = 0;
        Packet kept = Packet(RawPDU("previously kept"), Timestamp(timeval{77, 77}));
        const vh::Json& calls = sc["calls"];
        for (size_t c = 0; c < calls.size(); ++c) {
            std::string api = calls[c]["api"].str(); long k = calls[c]["k"].num(); std::string exc = "none";
            if (api == "setfilter") {
                int x = (int)k; if (x < 0 || x >= NFILTERS) x = 0; long which = (long)(std::find(fl.begin(), fl.end(), x) - fl.begin()) + 1; bool ok = false;
                try { ok = sn->set_filter(FILTERS[x]); } catch (std::exception& e) { exc = exc_name(e); }
                vh::W w; w.O().kv("e", "setfilter").kv("which", which).kv("fid", (long)x).kv("ok", ok).kv("exc", exc).E(); out.event(w);
            } else if (api == "next") {
                Got g; g.idx = 0; g.same = true; g.hasts = true; g.sec = 0; g.usec = 0;
                // how the user keeps the packet: as handed out, or copy-assigned / move-assigned into a Packet that already holds another one
                try { Packet p(sn->next_packet()); if (p) { int keep = (int)rng.below(3); if (keep == 1) { kept = p; } else if (keep == 2) { Packet q(p); kept = std::move(q); }
                          Packet& u = keep ? kept : p; Timestamp ts = u.timestamp(); g = rd.see(u.pdu(), &ts); } }
                catch (std::exception& e) { exc = exc_name(e); } catch (...) { exc = "?"; }
                vh::W w; w.O().kv("e", "next").kv("idx", g.idx).kv("same", g.same).kv("sec", g.sec).kv("usec", g.usec).kv("exc", exc).E(); out.event(w);
            } else {
                std::vector<Got> got; int fv = (int)rng.below(3);
                try {
                    if (api == "iter") {
                        if (fv == 0 && k == 0) { for (Packet& p : *sn) { Timestamp ts = p.timestamp(); got.push_back(rd.see(p.pdu(), &ts)); } }
                        else if (fv == 1) { for (FileSniffer::iterator it = sn->begin(); it != sn->end(); it++) { Timestamp ts = it->timestamp(); got.push_back(rd.see(it->pdu(), &ts)); if (k && (long)got.size() == k) break; } }
                        else { for (FileSniffer::iterator it = sn->begin(); it != sn->end(); ++it) { kept = *it; Timestamp ts = kept.timestamp(); got.push_back(rd.see(kept.pdu(), &ts)); if (k && (long)got.size() == k) break; } }
                    } else {
                        uint32_t maxp = api == "loopmax" ? (uint32_t)k : 0; long stop = api == "loop" ? k : 0;
                        // in every other scenario the handler "fails" on some packets the way user code does (rfind_pdu of a layer that is
                        // not there): sniff_loop is documented to trap pdu_not_found / malformed_packet and go on with the next frame
                        const bool thrower = (out.sid % 2) == 0;
                        if (fv == 0) sn->sniff_loop([&](PDU& pdu) -> bool { got.push_back(rd.see(&pdu, 0)); bool last = stop && (long)got.size() == stop;
                                                                            if (thrower && !last && got.size() % 3 == 2) { if (got.size() % 2) (void)pdu.rfind_pdu<DHCPv6>(); else throw malformed_packet(); }
                                                                            return !last; }, maxp);
                        else if (fv == 1) sn->sniff_loop([&](Packet& p) -> bool { Timestamp ts = p.timestamp(); got.push_back(rd.see(p.pdu(), &ts)); return !(stop && (long)got.size() == stop); }, maxp);
                        else sn->sniff_loop([&](Packet p) -> bool { kept = p; Timestamp ts = kept.timestamp(); got.push_back(rd.see(kept.pdu(), &ts)); return !(stop && (long)got.size() == stop); }, maxp);
                    }
                } catch (std::exception& e) { exc = exc_name(e); } catch (...) { exc = "?"; }
                vh::W w; w.O().kv("e", "loop").kv("api", api).kv("k", k).kv("fv", fv); put_got(w, got); w.kv("exc", exc).E(); out.event(w);
            }
            if (exc != "none") break;
        }
        // ---- OfflinePacketFilter against pcap_offline_filter on the same bytes (caplen = len = size, as the class documents)
        if (fid && have_prog) {
            std::string exc = "none"; std::vector<std::pair<bool, bool> > bufv, pduv;
            try {
                std::unique_ptr<OfflinePacketFilter> of;
                if (lt == "EN10MB") of.reset(new OfflinePacketFilter(FILTERS[fid], DataLinkType<EthernetII>()));
                else if (lt == "IEEE802_11") of.reset(new OfflinePacketFilter(FILTERS[fid], DataLinkType<Dot11>()));
                else if (lt == "IEEE802_11_RADIO") of.reset(new OfflinePacketFilter(FILTERS[fid], DataLinkType<RadioTap>()));
                else if (lt == "LINUX_SLL") of.reset(new OfflinePacketFilter(FILTERS[fid], DataLinkType<SLL>()));
                else if (lt == "RAW") of.reset(new OfflinePacketFilter(FILTERS[fid], DataLinkType<IP>()));
                else if (lt == "PPI") of.reset(new OfflinePacketFilter(FILTERS[fid], DataLinkType<PPI>()));
                else if (lt == "LOOP_LIB") of.reset(new OfflinePacketFilter(FILTERS[fid], DataLinkType<Loopback>()));
                else of.reset(new OfflinePacketFilter(FILTERS[fid], DataLinkType<LtTag<DLT_NULL> >()));
                OfflinePacketFilter copy(*of); OfflinePacketFilter assigned("ip", DataLinkType<EthernetII>()); assigned = copy;
                OfflinePacketFilter copy_of_assigned(assigned);          // a filter that was assigned to is copied on (stored in a container, passed by value)
                int which = (int)rng.below(4);
                const OfflinePacketFilter& use = which == 0 ? *of : which == 1 ? copy : which == 2 ? assigned : copy_of_assigned;
                for (int i = 0; i < n; ++i) { const Bytes& b = fr[i].bytes; pcap_pkthdr h; memset(&h, 0, sizeof h); h.caplen = h.len = (bpf_u_int32)b.size();
                    bool ref = pcap_offline_filter(&prog, &h, b.empty() ? ZERO : &b[0]) != 0; bool lib = use.matches_filter(b.empty() ? ZERO : &b[0], (uint32_t)b.size());
                    bufv.push_back(std::make_pair(lib, ref)); }
                for (int i = 0; i < n; ++i) if (fr[i].pdu) { Bytes b = fr[i].pdu->serialize(); pcap_pkthdr h; memset(&h, 0, sizeof h); h.caplen = h.len = (bpf_u_int32)b.size();
                    bool ref = pcap_offline_filter(&prog, &h, &b[0]) != 0; bool lib = use.matches_filter(*fr[i].pdu); pduv.push_back(std::make_pair(lib, ref)); }
            } catch (std::exception& e) { exc = exc_name(e); }
            vh::W w; w.O().kv("e", "offline").key("buf").A(); for (size_t i = 0; i < bufv.size(); ++i) w.A().v(bufv[i].first).v(bufv[i].second).E();
            w.E().key("pdu").A(); for (size_t i = 0; i < pduv.size(); ++i) w.A().v(pduv[i].first).v(pduv[i].second).E();
            w.E().kv("exc", exc).E(); out.event(w);
        }
    }
    if (have_prog) pcap_freecode(&prog);
    if (have_fprog) pcap_freecode(&fprog);
    sn.reset(); unlink(pf.c_str()); rmdir(g_dir.c_str());
    out.end();
}
int main(int argc, char** argv) { return vh::run(argc, argv, scenario); }
