// C18 driver: k threads, each running a workload on thread-private libtins objects, built with ThreadSanitizer.
//
// A scenario (exported by TLC from spec/threads/ThreadsGen) names the workload of every thread.  The driver starts the
// k threads behind a barrier and lets them run their workloads CONCURRENTLY with randomised yields - first, in a fresh
// process, so that whatever the library might set up or insert on first use happens under concurrency - then, after
// joining them, runs every thread's workload ALONE on the main thread, and logs the digests of everything the calls
// returned in both phases:
//      {"e":"run","k":..,"wl":[..],"seq":[digest..],"par":[digest..],"races":N,"where":[..]}
// `races` is the number of ThreadSanitizer reports raised during the concurrent phase (counted in-process through the
// runtime's __tsan_on_report hook, so a report is attributed to the scenario that produced it); `where` holds the
// libtins frames of the racing accesses.  spec/threads/ThreadsTrace accepts the line iff races = 0 and par = seq.
//
// The only state the threads share on purpose is the barrier below (a mutex and a condition variable) and what libtins
// itself keeps at namespace scope - the object of the property.
#include "vh.h"
#include <tins/tcp_stream.h>
#include "catalogue.h"
#include "touch.h"
#include "wifi_enc.h"
#include <tins/tcp_ip/stream_follower.h>
#include <tins/ip_reassembler.h>
#include <tins/pdu_allocator.h>
#include <tins/packet_writer.h>
#include <tins/sniffer.h>
#include <unistd.h>
#include <thread>
#include <mutex>
#include <condition_variable>
#include <sched.h>
#include <dlfcn.h>
#include <cxxabi.h>
#include <time.h>

typedef std::vector<uint8_t> Bytes;

// ------------------------------------------------------------------------------------------------ race reports
// The runtime calls __tsan_on_report while it holds its own locks: the callback must not lock, allocate or call anything
// the runtime intercepts.  It only counts and copies program counters into a fixed table; names are looked up after
// the threads have been joined.
static int REPORTS = 0;                                     // accessed with __atomic builtins only
struct RawReport { char desc[48]; int nmop; int write[2]; void* pcs[2][16]; };
static RawReport RAW[4];
extern "C" {
int __tsan_get_report_data(void* report, const char** description, int* count, int* stack_count, int* mop_count, int* loc_count,
                           int* mutex_count, int* thread_count, int* unique_tid_count, void** sleep_trace, unsigned long trace_size);
int __tsan_get_report_mop(void* report, unsigned long idx, int* tid, void** addr, int* size, int* write, int* atomic, void** trace, unsigned long trace_size);
// not instrumented: a report raised from inside the callback would re-enter the runtime
__attribute__((no_sanitize_thread)) void __tsan_on_report(void* report) {
    int idx = __atomic_fetch_add(&REPORTS, 1, __ATOMIC_SEQ_CST) % 4;      // the table keeps the last few
    RawReport& r = RAW[idx]; r.nmop = 0; r.desc[0] = 0;
    const char* desc = 0; int count = 0, stacks = 0, mops = 0, locs = 0, mutexes = 0, threads = 0, utids = 0; void* sleep_trace[8];
    if (!__tsan_get_report_data(report, &desc, &count, &stacks, &mops, &locs, &mutexes, &threads, &utids, sleep_trace, 8)) return;
    if (desc) { int i = 0; for (; desc[i] && i < 47; ++i) r.desc[i] = desc[i]; r.desc[i] = 0; }
    for (int i = 0; i < mops && i < 2; ++i) {
        int tid, size, write, atomic; void* addr; for (int f = 0; f < 16; ++f) r.pcs[i][f] = 0;
        if (!__tsan_get_report_mop(report, (unsigned long)i, &tid, &addr, &size, &write, &atomic, r.pcs[i], 16)) break;
        r.write[i] = write; r.nmop = i + 1;
    }
}
}
static int report_count() { return __atomic_load_n(&REPORTS, __ATOMIC_SEQ_CST); }
// after the threads are gone: the libtins frames of the racing accesses of the reports numbered [from, to)
static std::vector<std::string> describe_reports(int from, int to) {
    std::vector<std::string> out;
    for (int n = std::max(from, to - 4); n < to; ++n) {
        const RawReport& r = RAW[n % 4]; std::string where = r.desc;
        for (int i = 0; i < r.nmop; ++i) {
            where += r.write[i] ? " | write:" : " | read:"; int shown = 0;
            for (int f = 0; f < 16 && r.pcs[i][f] && shown < 3; ++f) {
                Dl_info info; if (!dladdr(r.pcs[i][f], &info) || !info.dli_sname) continue;
                int st = 0; char* dem = abi::__cxa_demangle(info.dli_sname, 0, 0, &st); std::string name = dem ? dem : info.dli_sname; free(dem);
                if (name.find("Tins::") == std::string::npos) continue;
                size_t par = name.find('('); if (par != std::string::npos) name = name.substr(0, par);
                where += " " + name; ++shown;
            }
        }
        out.push_back(where);
    }
    return out;
}

// ------------------------------------------------------------------------------------------------ digests, yields
struct Dig {
    uint64_t h; long n, good;      // good: calls that took the interesting path (decrypted, reassembled, parsed...) - guards against vacuity
    Dig() : h(1469598103934665603ull), n(0), good(0) {}
    void ok(bool c = true) { if (c) ++good; }
    void b(uint8_t x) { h ^= x; h *= 1099511628211ull; ++n; }
    void bytes(const Bytes& v) { u(v.size()); for (size_t i = 0; i < v.size(); ++i) b(v[i]); }
    void u(uint64_t v) { for (int i = 0; i < 8; ++i) b((uint8_t)(v >> (8 * i))); }
    void s(const std::string& v) { u(v.size()); for (size_t i = 0; i < v.size(); ++i) b((uint8_t)v[i]); }
    std::string hex() const { char buf[40]; snprintf(buf, sizeof(buf), "%016llx/%ld", (unsigned long long)h, n); return buf; }
};
// scheduling noise: its generator is separate from the workload's data generator, so the data are the same in
// the sequential and in the concurrent phase
struct Yield {
    vh::Rng r; bool on;
    Yield(uint64_t s, bool o) : r(s), on(o) {}
    void operator()() {
        if (!on) return;
        uint32_t x = r.below(16);
        if (x < 5) sched_yield();
        else if (x == 5) { struct timespec ts; ts.tv_sec = 0; ts.tv_nsec = 1000 * (long)r.below(200); nanosleep(&ts, 0); }
    }
};
static Bytes rndb(vh::Rng& r, size_t n) { Bytes b; for (size_t i = 0; i < n; ++i) b.push_back((uint8_t)r.below(256)); return b; }
static void chain(Dig& d, PDU* p) { for (; p; p = p->inner_pdu()) d.u((uint64_t)p->pdu_type()); d.u(0xffff); }

// ------------------------------------------------------------------------------------------------ workloads
// Every workload is a deterministic function of (seed, iters) that touches thread-private objects only.

// C01/C02/C03/C06: build a catalogue packet, serialise, parse, run every accessor, clone, serialise again
static void wl_catalogue(uint64_t seed, int iters, Dig& d, Yield& y) {
    vh::Rng rng(seed);
    // every composition of the catalogue in every run (starting somewhere else per thread): whatever a layer class might keep
    // at namespace scope is touched by every thread
    const int start = (int)rng.below(CATALOGUE_SIZE);
    for (int i = 0; i < CATALOGUE_SIZE + iters; ++i) {
        int id = (start + i) % CATALOGUE_SIZE; Entry e;
        std::unique_ptr<PDU> p(catalogue(id, rng, e)); y();
        Bytes b = p->serialize(); d.bytes(b); y();
        try {
            std::unique_ptr<PDU> q(parse_entry(e, b.data(), (uint32_t)b.size())); y();
            chain(d, q.get()); TouchStat st; touch_all(q.get(), st, true); d.u(st.calls); d.u(st.tins); d.u(st.foreign); y();
            std::unique_ptr<PDU> c(q->clone()); d.bytes(c->serialize()); d.ok();
        } catch (std::exception& ex) { d.s(typeid(ex).name()); }
        y();
    }
}
// C10 and the DNS decoders: names and records that differ per thread
static void wl_dns(uint64_t seed, int iters, Dig& d, Yield& y) {
    vh::Rng rng(seed);
    for (int i = 0; i < iters; ++i) {
        DNS dns; dns.id((uint16_t)rng.below(65536)); dns.type(DNS::RESPONSE);
        std::string base = "t" + std::to_string(seed % 1000) + "-" + std::to_string(i) + ".zone" + std::to_string(rng.below(50)) + ".example.org";
        dns.add_query(DNS::query("www." + base, DNS::A, DNS::IN)); y();
        int na = 1 + (int)rng.below(5);
        for (int k = 0; k < na; ++k) {
            switch (rng.below(5)) {
            case 0: dns.add_answer(DNS::resource("www." + base, std::to_string(1 + rng.below(223)) + "." + std::to_string(rng.below(256)) + ".7." + std::to_string(k), DNS::A, DNS::IN, rng.below(100000))); break;
            case 1: dns.add_answer(DNS::resource("alias" + std::to_string(k) + "." + base, "host" + std::to_string(rng.below(1000)) + "." + base, DNS::CNAME, DNS::IN, 300)); break;
            case 2: dns.add_answer(DNS::resource(base, "mail" + std::to_string(rng.below(10)) + "." + base, DNS::MX, DNS::IN, 60, (uint16_t)rng.below(100))); break;
            case 3: dns.add_answer(DNS::resource("www." + base, "2001:db8::" + std::to_string(1 + rng.below(9000)), DNS::AAAA, DNS::IN, 77)); break;
            default: dns.add_authority(DNS::resource(base, "ns" + std::to_string(rng.below(4)) + "." + base, DNS::NS, DNS::IN, 86400)); break;
            }
            y();
        }
        Bytes b = dns.serialize(); d.bytes(b); y();
        try {
            DNS back(b.data(), (uint32_t)b.size()); y();
            DNS::queries_type qs = back.queries(); for (size_t k = 0; k < qs.size(); ++k) { d.s(qs[k].dname()); d.u(qs[k].query_type()); } y();
            DNS::resources_type rs = back.answers(); y();
            for (size_t k = 0; k < rs.size(); ++k) { d.s(rs[k].dname()); d.s(rs[k].data()); d.u(rs[k].query_type()); d.u(rs[k].ttl()); d.u(rs[k].preference()); }
            rs = back.authority(); y();
            for (size_t k = 0; k < rs.size(); ++k) { d.s(rs[k].dname()); d.s(rs[k].data()); }
            d.s(DNS::decode_domain_name(DNS::encode_domain_name(base))); d.ok(!rs.empty() || !qs.empty());
        } catch (std::exception& ex) { d.s(typeid(ex).name()); }
        y();
    }
}
// the protocol tables (pdu_allocator.h, pdu_helpers.cpp): known, unknown and user-registered identifiers, both ways
static void wl_tags(uint64_t seed, int iters, Dig& d, Yield& y) {
    vh::Rng rng(seed);
    static const uint16_t known[] = {0x0800, 0x86dd, 0x0806, 0x8100, 0x88a8, 0x888e, 0x8863, 0x8864, 0x8847, 0x88b5 /* registered by main() */};
    for (int i = 0; i < iters; ++i) {
        uint16_t et = rng.below(3) ? (uint16_t)(0x9000 + ((seed * 131 + i * 7 + rng.below(64)) & 0xfff)) : known[rng.below(10)];
        Bytes pay = rndb(rng, 24 + rng.below(40));
        Bytes f(12, 0x02); f.push_back((uint8_t)(et >> 8)); f.push_back((uint8_t)et); f.insert(f.end(), pay.begin(), pay.end());
        try { EthernetII e(f.data(), (uint32_t)f.size()); y(); chain(d, &e); d.bytes(e.serialize()); } catch (std::exception& ex) { d.s(typeid(ex).name()); }
        y();
        // IPv4 with a protocol number that nobody registered / the one main() registered (253)
        uint8_t proto = rng.coin() ? (uint8_t)(143 + ((seed + i) % 100)) : (uint8_t)253;
        Bytes ip; ip.push_back(0x45); ip.push_back(0); uint16_t tl = (uint16_t)(20 + pay.size()); ip.push_back((uint8_t)(tl >> 8)); ip.push_back((uint8_t)tl);
        ip.push_back(0); ip.push_back((uint8_t)i); ip.push_back(0); ip.push_back(0); ip.push_back(64); ip.push_back(proto); ip.push_back(0); ip.push_back(0);
        for (int k = 0; k < 8; ++k) ip.push_back((uint8_t)(10 + k)); ip.insert(ip.end(), pay.begin(), pay.end());
        try { IP p(ip.data(), (uint32_t)ip.size()); y(); chain(d, &p); d.u(p.protocol()); d.bytes(p.serialize()); d.ok(); } catch (std::exception& ex) { d.s(typeid(ex).name()); }
        y();
        d.u(Internals::pdu_type_registered<EthernetII>((PDU::PDUType)PDU::USER_DEFINED_PDU) ? 1 : 0); d.u(Internals::pdu_type_registered<EthernetII>(PDU::DNS) ? 1 : 0); d.u(Internals::pdu_type_registered<IP>((PDU::PDUType)(PDU::USER_DEFINED_PDU + 1)) ? 1 : 0);
        // Dot1Q / SNAP / SLL consult the same tables
        try { Dot1Q q; q.id((uint16_t)rng.below(4096)); EthernetII e = EthernetII() / q / RawPDU(pay.begin(), pay.end()); Bytes s = e.serialize(); s[16] = (uint8_t)(0x90 + (seed & 7)); s[17] = (uint8_t)i;
              EthernetII back(s.data(), (uint32_t)s.size()); chain(d, &back); d.bytes(back.serialize()); } catch (std::exception& ex) { d.s(typeid(ex).name()); }
        y();
    }
}
// C06/C07/C08: IPv4 fragments into a reassembler, TCP segments into a stream follower
struct FolState { Dig* d; };
static void wl_reasm(uint64_t seed, int iters, Dig& d, Yield& y) {
    vh::Rng rng(seed);
    for (int i = 0; i < iters; ++i) {
        {   // one UDP datagram in 3-6 fragments, delivered in a random order
            IPv4Reassembler reasm; Bytes data = rndb(rng, 400 + 8 * rng.below(100));
            IP whole = IP("198.51.100." + std::to_string(1 + seed % 200), "192.0.2.9") / UDP((uint16_t)(1000 + i), 53) / RawPDU(data.begin(), data.end());
            Bytes ws = whole.serialize(); Bytes l4(ws.begin() + 20, ws.end());
            int nf = 3 + (int)rng.below(4); size_t per = ((l4.size() / nf) + 7) & ~(size_t)7; std::vector<Bytes> frs;
            for (size_t off = 0; off < l4.size(); off += per) {
                size_t n = std::min(per, l4.size() - off); bool more = off + n < l4.size();
                Bytes f(ws.begin(), ws.begin() + 20); uint16_t tl = (uint16_t)(20 + n); f[2] = (uint8_t)(tl >> 8); f[3] = (uint8_t)tl;
                uint16_t fo = (uint16_t)((off / 8) | (more ? 0x2000 : 0)); f[6] = (uint8_t)(fo >> 8); f[7] = (uint8_t)fo; f.insert(f.end(), l4.begin() + off, l4.begin() + off + n); frs.push_back(f);
            }
            for (size_t k = frs.size(); k > 1; --k) std::swap(frs[k - 1], frs[rng.below((uint32_t)k)]);
            for (size_t k = 0; k < frs.size(); ++k) {
                try { EthernetII e = EthernetII() / IP(frs[k].data(), (uint32_t)frs[k].size()); y(); IPv4Reassembler::PacketStatus st = reasm.process(e); d.u((uint64_t)st);
                      if (st == IPv4Reassembler::REASSEMBLED) { d.bytes(e.serialize()); d.ok(); } } catch (std::exception& ex) { d.s(typeid(ex).name()); }
                y();
            }
        }
        {   // one TCP connection: handshake, segments of the client's stream out of order with an overlap
            using namespace Tins::TCPIP;
            StreamFollower fol; Dig* dp = &d;
            fol.new_stream_callback([dp](Stream& s) {
                s.client_data_callback([dp](Stream& x) { dp->bytes(x.client_payload()); dp->ok(); });
                s.server_data_callback([dp](Stream& x) { dp->bytes(x.server_payload()); });
                s.stream_closed_callback([dp](Stream&) { dp->u(0xc105ed); });
            });
            std::string ca = "10.1." + std::to_string(seed % 250) + ".2", sa = "10.2.0.1"; uint16_t cp = (uint16_t)(20000 + i), sp = 80;
            uint32_t cisn = rng.u32(), sisn = rng.u32(); Bytes stream = rndb(rng, 300 + rng.below(300));
            struct Mk { static EthernetII seg(const std::string& s, const std::string& t, uint16_t spt, uint16_t dpt, uint32_t seq, uint32_t ack, uint8_t flags, const Bytes& pay) {
                TCP tcp(dpt, spt); tcp.seq(seq); tcp.ack_seq(ack); tcp.flags(flags); EthernetII e = EthernetII() / IP(t, s) / tcp; if (!pay.empty()) e /= RawPDU(pay.begin(), pay.end()); return e; } };
            std::vector<EthernetII> pk;
            pk.push_back(Mk::seg(ca, sa, cp, sp, cisn, 0, TCP::SYN, Bytes()));
            pk.push_back(Mk::seg(sa, ca, sp, cp, sisn, cisn + 1, TCP::SYN | TCP::ACK, Bytes()));
            pk.push_back(Mk::seg(ca, sa, cp, sp, cisn + 1, sisn + 1, TCP::ACK, Bytes()));
            std::vector<EthernetII> segs; size_t off = 0;
            while (off < stream.size()) { size_t n = std::min<size_t>(40 + rng.below(80), stream.size() - off); size_t back = off > 10 && rng.below(4) == 0 ? rng.below(10) : 0;
                segs.push_back(Mk::seg(ca, sa, cp, sp, (uint32_t)(cisn + 1 + off - back), sisn + 1, TCP::ACK | TCP::PSH, Bytes(stream.begin() + off - back, stream.begin() + off + n))); off += n; }
            for (size_t k = segs.size(); k > 1; --k) if (rng.below(3) == 0) std::swap(segs[k - 1], segs[rng.below((uint32_t)k)]);
            pk.insert(pk.end(), segs.begin(), segs.end());
            pk.push_back(Mk::seg(sa, ca, sp, cp, sisn + 1, (uint32_t)(cisn + 1 + stream.size()), TCP::ACK | TCP::PSH, rndb(rng, 30)));
            pk.push_back(Mk::seg(ca, sa, cp, sp, (uint32_t)(cisn + 1 + stream.size()), sisn + 31, TCP::FIN | TCP::ACK, Bytes()));
            pk.push_back(Mk::seg(sa, ca, sp, cp, sisn + 31, (uint32_t)(cisn + 2 + stream.size()), TCP::FIN | TCP::ACK, Bytes()));
            for (size_t k = 0; k < pk.size(); ++k) { try { Bytes b = pk[k].serialize(); EthernetII e(b.data(), (uint32_t)b.size()); fol.process_packet(e); } catch (std::exception& ex) { d.s(typeid(ex).name()); } y(); }
            // the same connection (and a second one) through the legacy follower of this thread: the identifiers it gives its streams
            // and what it delivers are part of the result
            TCPStreamFollower old;
            auto data_fun = [dp](TCPStream& st) { dp->u(st.id()); dp->bytes(st.client_payload()); dp->bytes(st.server_payload()); st.client_payload().clear(); st.server_payload().clear(); dp->ok(); };
            auto end_fun = [dp](TCPStream& st) { dp->u(0xe0d000 + st.id()); };
            for (int conn = 0; conn < 2; ++conn)
                for (size_t k = 0; k < pk.size(); ++k) { try { Bytes b = pk[k].serialize(); EthernetII e(b.data(), (uint32_t)b.size()); if (conn) { e.rfind_pdu<TCP>().sport(e.rfind_pdu<TCP>().sport() == sp ? sp : (uint16_t)(cp + 7)); e.rfind_pdu<TCP>().dport(e.rfind_pdu<TCP>().dport() == sp ? sp : (uint16_t)(cp + 7)); }
                        std::vector<PDU*> v(1, &e); old.follow_streams(v.begin(), v.end(), data_fun, end_fun); } catch (std::exception& ex) { d.s(typeid(ex).name()); } y(); }
        }
    }
}
// C16: address text, predicates over the namespace-scope ranges, range iteration
static void wl_addr(uint64_t seed, int iters, Dig& d, Yield& y) {
    vh::Rng rng(seed);
    for (int i = 0; i < iters * 8; ++i) {
        uint32_t a = rng.below(6) == 0 ? (rng.coin() ? 0x7f000001u + rng.below(100) : 0xe0000000u + rng.below(1 << 20)) : rng.u32();
        std::string s = std::to_string(a >> 24) + "." + std::to_string((a >> 16) & 255) + "." + std::to_string((a >> 8) & 255) + "." + std::to_string(a & 255);
        IPv4Address v4(s); d.s(v4.to_string()); d.u(v4.is_private()); d.u(v4.is_loopback()); d.u(v4.is_multicast()); d.u(v4.is_unicast()); d.u(v4.is_broadcast()); d.u(v4 == IPv4Address::broadcast); y();
        Bytes raw = rndb(rng, 16); if (rng.below(4) == 0) { raw[0] = 0xff; } if (rng.below(6) == 0) { std::fill(raw.begin(), raw.end(), 0); raw[15] = 1; } if (rng.below(6) == 0) { raw[0] = 0xfc; }
        IPv6Address v6(raw.data()); std::string t = v6.to_string(); d.s(t); IPv6Address again(t); d.u(again == v6); d.u(v6.is_loopback()); d.u(v6.is_multicast()); d.u(v6.is_local_unicast()); y();
        Bytes m = rndb(rng, 6); HWAddress<6> hw(m.data()); std::string hs = hw.to_string(); d.s(hs); HWAddress<6> hw2(hs); d.u(hw2 == hw); d.u(hw.is_broadcast()); d.u(hw.is_multicast()); d.u(hw == EthernetII::BROADCAST); d.u(hw == Dot11::BROADCAST); y();
        IPv4Range rg = IPv4Address(s) / (24 + rng.below(8)); uint64_t acc = 0; for (IPv4Range::const_iterator it = rg.begin(); it != rg.end(); ++it) acc = acc * 31 + (uint32_t)*it; d.u(acc); d.u(rg.contains(v4)); d.ok(); y();
    }
}
// C11 and the checksum table: RadioTap setters in a random order, an FCS trailer, parse and read back
static void wl_radiotap(uint64_t seed, int iters, Dig& d, Yield& y) {
    vh::Rng rng(seed);
    for (int i = 0; i < iters * 2; ++i) {
        RadioTap rt; int n = 2 + (int)rng.below(8);
        for (int k = 0; k < n; ++k) {
            try { switch (rng.below(10)) {
                case 0: rt.tsft(rng.next()); break; case 1: rt.rate((uint8_t)rng.below(256)); break; case 2: rt.channel((uint16_t)(2412 + rng.below(60)), (uint16_t)rng.below(65536)); break;
                case 3: rt.dbm_signal((int8_t)rng.below(256)); break; case 4: rt.dbm_noise((int8_t)rng.below(256)); break; case 5: rt.antenna((uint8_t)rng.below(8)); break;
                case 6: rt.rx_flags((uint16_t)rng.below(65536)); break; case 7: rt.signal_quality((uint16_t)rng.below(65536)); break; case 8: rt.db_signal((uint8_t)rng.below(256)); break;
                default: rt.flags((RadioTap::FrameFlags)(rng.coin() ? RadioTap::FCS : 0)); break; } } catch (std::exception& ex) { d.s(typeid(ex).name()); }
            y();
        }
        Dot11Data dd; dd.addr1(HWAddress<6>(rndb(rng, 6).data())); dd.addr2(HWAddress<6>(rndb(rng, 6).data())); Bytes pay = rndb(rng, 20 + rng.below(60));
        rt.inner_pdu(dd / RawPDU(pay.begin(), pay.end()));
        try { Bytes b = rt.serialize(); d.bytes(b); y(); RadioTap back(b.data(), (uint32_t)b.size()); chain(d, &back); TouchStat st; touch_all(&back, st, true); d.u(st.tins); d.bytes(back.serialize()); d.ok(); }
        catch (std::exception& ex) { d.s(typeid(ex).name()); }
        d.u(Utils::crc32(pay.data(), (uint32_t)pay.size())); y();
    }
}
// C09: a decrypter per thread, keys per thread (WEP, and WPA2 from passphrase + four-way handshake: CCMP and TKIP)
static std::unique_ptr<PDU> dot11_from(const wenc::Hdr& h, const Bytes& body) { Bytes b = h.bytes(); b.insert(b.end(), body.begin(), body.end()); return std::unique_ptr<PDU>(Dot11::from_bytes(b.data(), (uint32_t)b.size())); }
static void dig_plain(Dig& d, PDU& p, bool ok) { d.u(ok); d.ok(ok); if (const RawPDU* r = p.find_pdu<RawPDU>()) d.bytes(r->payload()); if (const SNAP* s = p.find_pdu<SNAP>()) d.u(s->eth_type()); if (const Dot11Data* dd = p.find_pdu<Dot11Data>()) d.u(dd->wep()); }
static void wl_wifi(uint64_t seed, int iters, Dig& d, Yield& y) {
    vh::Rng rng(seed);
    uint8_t ap[6] = {0x02, 0x11, (uint8_t)seed, (uint8_t)(seed >> 8), 0x33, 0x01}, sta[6] = {0x02, 0x22, (uint8_t)seed, (uint8_t)(seed >> 8), 0x44, 0x02};
    static const uint8_t llc_ip[8] = {0xaa, 0xaa, 0x03, 0, 0, 0, 0x99, 0x99};      // SNAP with a protocol nobody dissects: the payload stays a RawPDU
    {   // WEP
        Bytes key = rndb(rng, rng.coin() ? 5 : 13); Crypto::WEPDecrypter dec; dec.add_password(HWAddress<6>(ap), std::string(key.begin(), key.end()));
        for (int i = 0; i < iters * 2; ++i) {
            wenc::Hdr h; h.fc1 = 0x40 | 2; memcpy(h.a1, sta, 6); memcpy(h.a2, ap, 6); memcpy(h.a3, ap, 6); h.sc = (uint16_t)(i << 4);
            Bytes plain(llc_ip, llc_ip + 8); Bytes pay = rndb(rng, 30 + rng.below(50)); plain.insert(plain.end(), pay.begin(), pay.end()); uint8_t iv[3] = {(uint8_t)rng.below(256), (uint8_t)rng.below(256), (uint8_t)i};
            try { std::unique_ptr<PDU> p = dot11_from(h, wenc::wep_body(key, iv, 0, plain)); y(); bool ok = dec.decrypt(*p); dig_plain(d, *p, ok); } catch (std::exception& ex) { d.s(typeid(ex).name()); }
            y();
        }
    }
    for (int round = 0; round < 2; ++round) {   // WPA2: round 0 CCMP, round 1 TKIP
        bool ccmp = round == 0; std::string ssid = "net-" + std::to_string(seed % 100000), pass = "passphrase-" + std::to_string(seed * 7 + round);
        Bytes pmk = wenc::pmk_from_passphrase(pass, ssid); Crypto::WPA2Decrypter dec; dec.add_ap_data(pass, ssid, HWAddress<6>(ap)); y();
        Bytes an = rndb(rng, 32), sn = rndb(rng, 32); Bytes ptk = wenc::ptk(pmk, ap, sta, an.data(), sn.data(), 80);
        for (int n = 1; n <= 4; ++n) {
            Bytes e = wenc::fourway_msg(n, ccmp, n <= 2 ? 5 : 6, an.data(), sn.data(), ptk, rndb(rng, 56));
            wenc::Hdr h; if (n == 1 || n == 3) { h.fc1 = 2; memcpy(h.a1, sta, 6); memcpy(h.a2, ap, 6); memcpy(h.a3, ap, 6); } else { h.fc1 = 1; memcpy(h.a1, ap, 6); memcpy(h.a2, sta, 6); memcpy(h.a3, ap, 6); }
            Bytes body(wenc::LLC_EAPOL, wenc::LLC_EAPOL + 8); wenc::put(body, e);
            try { std::unique_ptr<PDU> p = dot11_from(h, body); d.u(dec.decrypt(*p)); } catch (std::exception& ex) { d.s(typeid(ex).name()); }
            y();
        }
        d.u(dec.get_keys().size());
        for (int i = 0; i < iters * 2; ++i) {
            bool from_ap = rng.coin(); wenc::Hdr h; h.fc1 = (uint8_t)(0x40 | (from_ap ? 2 : 1));
            if (from_ap) { memcpy(h.a1, sta, 6); memcpy(h.a2, ap, 6); memcpy(h.a3, ap, 6); } else { memcpy(h.a1, ap, 6); memcpy(h.a2, sta, 6); memcpy(h.a3, ap, 6); }
            h.sc = (uint16_t)((i + 10) << 4);
            Bytes plain(llc_ip, llc_ip + 8); Bytes pay = rndb(rng, 30 + rng.below(80)); plain.insert(plain.end(), pay.begin(), pay.end());
            uint8_t pn[6] = {(uint8_t)(i + 1), 0, 0, 0, 0, 0};
            Bytes body = ccmp ? wenc::ccmp_body(ptk.data() + 32, h, pn, 0, plain) : wenc::tkip_body(ptk.data() + 32, ptk.data() + (from_ap ? 48 : 56), h.a2, h.da(), h.sa(), h.priority(), pn, 0, plain);
            try { std::unique_ptr<PDU> p = dot11_from(h, body); y(); bool ok = dec.decrypt(*p); dig_plain(d, *p, ok); } catch (std::exception& ex) { d.s(typeid(ex).name()); }
            y();
        }
    }
}
// C09, key learning: many four-way handshakes per thread (re-associations of one station with fresh nonces), each followed by
// one protected frame - every completed handshake runs the MIC check and the key derivation
static void wl_handshakes(uint64_t seed, int iters, Dig& d, Yield& y) {
    vh::Rng rng(seed);
    uint8_t ap[6] = {0x02, 0x31, (uint8_t)seed, (uint8_t)(seed >> 8), 0x33, 0x01}, sta[6] = {0x02, 0x32, (uint8_t)seed, (uint8_t)(seed >> 8), 0x44, 0x02};
    static const uint8_t llc_ip[8] = {0xaa, 0xaa, 0x03, 0, 0, 0, 0x99, 0x99};
    std::string ssid = "hs-" + std::to_string(seed % 100000), pass = "pass-phrase-" + std::to_string(seed * 11);
    Bytes pmk = wenc::pmk_from_passphrase(pass, ssid); Crypto::WPA2Decrypter dec; dec.add_ap_data(pass, ssid, HWAddress<6>(ap));
    for (int round = 0; round < iters * 12; ++round) {
        bool ccmp = (round % 2) == 0;
        Bytes an = rndb(rng, 32), sn = rndb(rng, 32); Bytes ptk = wenc::ptk(pmk, ap, sta, an.data(), sn.data(), 80);
        for (int n = 1; n <= 4; ++n) {
            Bytes e = wenc::fourway_msg(n, ccmp, n <= 2 ? 5 + 2 * round : 6 + 2 * round, an.data(), sn.data(), ptk, rndb(rng, 56));
            wenc::Hdr h; if (n == 1 || n == 3) { h.fc1 = 2; memcpy(h.a1, sta, 6); memcpy(h.a2, ap, 6); memcpy(h.a3, ap, 6); } else { h.fc1 = 1; memcpy(h.a1, ap, 6); memcpy(h.a2, sta, 6); memcpy(h.a3, ap, 6); }
            Bytes body(wenc::LLC_EAPOL, wenc::LLC_EAPOL + 8); wenc::put(body, e);
            try { std::unique_ptr<PDU> p = dot11_from(h, body); d.u(dec.decrypt(*p)); } catch (std::exception& ex) { d.s(typeid(ex).name()); }
            y();
        }
        wenc::Hdr h; h.fc1 = (uint8_t)(0x40 | 2); memcpy(h.a1, sta, 6); memcpy(h.a2, ap, 6); memcpy(h.a3, ap, 6); h.sc = (uint16_t)((round + 1) << 4);
        Bytes plain(llc_ip, llc_ip + 8); Bytes pay = rndb(rng, 24); plain.insert(plain.end(), pay.begin(), pay.end()); uint8_t pn[6] = {1, 0, 0, 0, 0, 0};
        Bytes body = ccmp ? wenc::ccmp_body(ptk.data() + 32, h, pn, 0, plain) : wenc::tkip_body(ptk.data() + 32, ptk.data() + 48, h.a2, h.da(), h.sa(), h.priority(), pn, 0, plain);
        try { std::unique_ptr<PDU> p = dot11_from(h, body); bool ok = dec.decrypt(*p); dig_plain(d, *p, ok); } catch (std::exception& ex) { d.s(typeid(ex).name()); }
        y();
    }
}
// C02/C04/C12: packets built through the API, option containers edited, copied, moved through Packet, serialised
static void wl_build(uint64_t seed, int iters, Dig& d, Yield& y) {
    vh::Rng rng(seed);
    for (int i = 0; i < iters * 2; ++i) {
        TCP tcp((uint16_t)rng.below(65536), (uint16_t)rng.below(65536)); tcp.seq(rng.u32()); tcp.mss((uint16_t)(500 + rng.below(1000))); tcp.winscale((uint8_t)rng.below(15)); if (rng.coin()) tcp.sack_permitted();
        if (rng.coin()) tcp.timestamp(rng.u32(), rng.u32()); y();
        IP ip("192.0.2." + std::to_string(1 + rng.below(250)), "198.51.100." + std::to_string(1 + seed % 250)); ip.ttl((uint8_t)(1 + rng.below(255))); if (rng.coin()) ip.add_option(IP::option(IP::option_identifier(IP::NOOP, IP::CONTROL, 0))); y();
        Bytes pay = rndb(rng, rng.below(100)); EthernetII e = EthernetII(HWAddress<6>(rndb(rng, 6).data()), HWAddress<6>(rndb(rng, 6).data())) / ip / tcp / RawPDU(pay.begin(), pay.end());
        Bytes b = e.serialize(); d.bytes(b); y();
        EthernetII copy(e); if (rng.coin()) copy.rfind_pdu<TCP>().remove_option(TCP::MSS); d.bytes(copy.serialize()); y();
        Packet pk(e, Timestamp(std::chrono::microseconds(1000000LL * (1000 + i) + 5))); Packet pk2(pk); Packet pk3(std::move(pk2)); d.bytes(pk3.pdu()->serialize()); d.u(pk3.timestamp().seconds()); y();
        IPv6 v6("2001:db8::" + std::to_string(1 + seed % 5000), "2001:db8::2"); ICMPv6 ic(ICMPv6::NEIGHBOUR_SOLICIT); ic.target_addr("fe80::" + std::to_string(1 + rng.below(9000))); ic.source_link_layer_addr(HWAddress<6>(rndb(rng, 6).data()));
        EthernetII e6 = EthernetII() / v6 / ic; Bytes b6 = e6.serialize(); d.bytes(b6); y();
        try { EthernetII back(b6.data(), (uint32_t)b6.size()); chain(d, &back); d.s(back.rfind_pdu<ICMPv6>().target_addr().to_string()); d.u(back.matches_response(b6.data(), (uint32_t)b6.size())); } catch (std::exception& ex) { d.s(typeid(ex).name()); }
        DHCP dh; dh.type(DHCP::DISCOVER); dh.hostname("h" + std::to_string(seed) + "-" + std::to_string(i)); dh.requested_ip("10.0.0." + std::to_string(rng.below(255))); dh.end(); Bytes db = dh.serialize(); d.bytes(db);
        try { DHCP back(db.data(), (uint32_t)db.size()); d.s(back.hostname()); d.s(back.requested_ip().to_string()); d.ok(); } catch (std::exception& ex) { d.s(typeid(ex).name()); }
        y();
    }
}

// C17: a capture file per thread - written with PacketWriter, read back with FileSniffer (the per-frame callbacks and the
// link-type dispatch of libtins run concurrently in different threads; libpcap keeps its state in the handle)
static std::string SCRATCH_DIR = ".";
static void wl_pcap(uint64_t seed, int iters, Dig& d, Yield& y) {
    vh::Rng rng(seed);
    char name[64]; snprintf(name, sizeof(name), "/thr-%llu-%p.pcap", (unsigned long long)seed, (void*)&d);
    std::string path = SCRATCH_DIR + name;
    static const int eth_ids[] = {0, 1, 2, 4, 6, 16, 18, 19, 21, 22, 23, 46, 47, 48, 50};
    try {
        {
            PacketWriter wr(path, DataLinkType<EthernetII>());
            for (int i = 0; i < iters * 3; ++i) {
                Entry e; std::unique_ptr<PDU> p(catalogue(eth_ids[rng.below(15)], rng, e)); y();
                Packet pk(*p, Timestamp(std::chrono::microseconds(1000000LL * (100 + i) + rng.below(1000000)))); wr.write(pk); y();
            }
        }
        FileSniffer sn(path); int n = 0;
        while (Packet pk = sn.next_packet()) { chain(d, pk.pdu()); d.bytes(pk.pdu()->serialize()); d.u((uint64_t)pk.timestamp().seconds()); d.u((uint64_t)pk.timestamp().microseconds()); ++n; y(); }
        d.u(n); d.ok(n == iters * 3);
    } catch (std::exception& ex) { d.s(typeid(ex).name()); }
    unlink(path.c_str());
}

// user-defined protocols, registered the documented way (tests/src/allocators_test.cpp does the same)
template <size_t n> class UserPDU : public PDU {
public:
    static const PDU::PDUType pdu_flag;
    UserPDU(const uint8_t* data, uint32_t sz) : buffer(data, data + sz) {}
    UserPDU* clone() const { return new UserPDU<n>(*this); }
    uint32_t header_size() const { return (uint32_t)buffer.size(); }
    PDUType pdu_type() const { return pdu_flag; }
    void write_serialization(uint8_t* data, uint32_t) { std::copy(buffer.begin(), buffer.end(), data); }
    std::vector<uint8_t> buffer;
};
template <size_t n> const PDU::PDUType UserPDU<n>::pdu_flag = static_cast<PDU::PDUType>(PDU::USER_DEFINED_PDU + n);

typedef void (*Workload)(uint64_t, int, Dig&, Yield&);
struct WlDef { const char* name; Workload fn; };
static const WlDef WORKLOADS[] = {{"catalogue", wl_catalogue}, {"dns", wl_dns}, {"tags", wl_tags}, {"reasm", wl_reasm}, {"addr", wl_addr}, {"radiotap", wl_radiotap}, {"wifi", wl_wifi}, {"build", wl_build}, {"pcap", wl_pcap}, {"handshakes", wl_handshakes}};
static const int NWL = sizeof(WORKLOADS) / sizeof(WORKLOADS[0]);
static int wl_index(const std::string& n) { for (int i = 0; i < NWL; ++i) if (n == WORKLOADS[i].name) return i; return -1; }

struct Barrier { std::mutex mu; std::condition_variable cv; int waiting, total; bool go; Barrier(int t) : waiting(0), total(t), go(false) {}
    void wait() { std::unique_lock<std::mutex> l(mu); if (++waiting == total) { go = true; cv.notify_all(); } else while (!go) cv.wait(l); } };

static void scenario(const vh::Json& sc, vh::Out& out, vh::Rng& rng, const vh::Args& args) {
    { std::string o = args.get("out", "./x"); size_t sl = o.rfind('/'); SCRATCH_DIR = sl == std::string::npos ? "." : o.substr(0, sl); }
    if (sc.has("cells")) {      // the inventory of writable namespace-scope objects (read from the object files by the family script)
        out.begin("\"cls\":\"inventory\""); vh::W w; w.O().kv("e", "inventory").kraw("cells", sc["cells"].dump()).E(); out.event(w); out.end(); return; }
    std::vector<int> wl; for (size_t i = 0; i < sc["wl"].size(); ++i) { int w = wl_index(sc["wl"][i].str()); if (w < 0) throw std::runtime_error("unknown workload " + sc["wl"][i].str()); wl.push_back(w); }
    int k = (int)wl.size(); int iters = (int)sc["iters"].num(); if (iters <= 0) iters = 4; int reps = (int)sc["reps"].num(); if (reps <= 0) reps = 1;
    bool same_seed = sc["same"].truth();      // all threads run the same data (the worst case for caches keyed on content)
    out.begin("\"cls\":\"threads\"");
    for (int rep = 0; rep < reps; ++rep) {
        std::vector<uint64_t> seeds; for (int i = 0; i < k; ++i) seeds.push_back(same_seed ? 1000 + out.sid : 1000 + out.sid * 64 + i + 17 * rep);
        std::vector<std::string> seq(k), par(k); std::vector<long> good(k);
        int before = report_count();
        // ---- together, FIRST: anything the library would set up lazily on first use is then set up under concurrency
        Barrier bar(k); std::vector<std::thread> th; std::vector<Dig> digs(k);
        for (int i = 0; i < k; ++i) {
            uint64_t ys = rng.next(); Dig* dp = &digs[i]; int w = wl[i]; uint64_t sd = seeds[i];
            th.push_back(std::thread([&bar, dp, w, sd, ys, iters]() { Yield y(ys, true); bar.wait(); WORKLOADS[w].fn(sd, iters, *dp, y); }));
        }
        for (int i = 0; i < k; ++i) th[i].join();
        for (int i = 0; i < k; ++i) par[i] = digs[i].hex();
        int after = report_count();
        // ---- alone, afterwards (the joins order these runs after the threads)
        for (int i = 0; i < k; ++i) { Dig d; Yield y(0, false); WORKLOADS[wl[i]].fn(seeds[i], iters, d, y); seq[i] = d.hex(); good[i] = d.good; }
        int races = after - before; std::vector<std::string> where = describe_reports(before, after);
        vh::W w; w.O().kv("e", "run").kv("k", k).kv("rep", rep);
        w.key("wl").A(); for (int i = 0; i < k; ++i) w.v(WORKLOADS[wl[i]].name); w.E();
        w.key("seq").A(); for (int i = 0; i < k; ++i) w.v(seq[i]); w.E();
        w.key("par").A(); for (int i = 0; i < k; ++i) w.v(par[i]); w.E();
        w.key("good").A(); for (int i = 0; i < k; ++i) w.v(good[i]); w.E();
        w.kv("races", races); w.key("where").A(); for (size_t i = 0; i < where.size(); ++i) w.v(where[i]); w.E();
        w.E(); out.event(w);
    }
    out.end();
}
int main(int argc, char** argv) {
    // the documented use of the registries: a user registers protocols BEFORE any thread parses (happens-before through
    // thread creation); the threads then only look identifiers up
    Allocators::register_allocator<EthernetII, UserPDU<0> >(0x88b5);
    Allocators::register_allocator<IP, UserPDU<1> >(253);
    return vh::run(argc, argv, scenario);
}
