// C04, typed-option part: replay driver for the scenarios of spec/wire/TypedOptsGen.tla (table in spec/wire/TypedOpts.tla).
//
// A scenario names a class, one or two typed options and the structural shape of each value (lengths of every list /
// string / vector node and a value class for the leaves).  The driver
//   1. builds a carrier packet of the class (EthernetII/IP/TCP, EthernetII/IP/UDP(+DHCP), EthernetII/IPv6/UDP/DHCPv6,
//      EthernetII/IPv6/ICMPv6 of a neighbour-discovery type, an 802.11 management frame, EthernetII/PPPoE discovery),
//   2. concretises the shape with the seeded RNG into a generic value tree (Val),
//   3. calls the typed setter with it and logs the value set, then calls the typed getter and logs what it returns ("got"),
//   4. after all setters: calls the getter of every option once more ("later": a later setter must not disturb it),
//      serialises, parses the bytes again from the link layer and calls the getters on the parsed packet ("back"),
//   5. writes one event per option: {"e":"opt","cls","opt","idx","val","set_thrown","got","later","ser_thrown","back"}
//      where a reading is {"ok":bool,"thrown":type name,"v":value or 0}.
// Values are logged uniformly typed (TLC refuses to compare values of different kinds): integers of at most 31 bits as
// numbers, wider ones as big-endian octet lists, addresses / strings / vectors as octet lists, lists as arrays, structs as
// objects with the member names of spec/wire/TypedOpts.tla.  The verdict is TLC's (spec/wire/TypedTrace.tla); this file
// only drives and records.
#include "vh.h"
#include <cxxabi.h>
#include <memory>
#include <tins/tins.h>
#include <tins/pppoe.h>
#include <tins/dhcpv6.h>
#include <tins/rsn_information.h>
using namespace Tins;
typedef std::vector<uint8_t> Bytes;

// ------------------------------------------------------------------------------------------------ generic values
struct Val {
    enum K { INT, OCT, LIST, REC } k; int w; uint64_t u; Bytes b; std::vector<Val> l; std::vector<std::pair<std::string, Val> > r;
    Val() : k(INT), w(1), u(0) {}
    static Val I(int w, uint64_t x) { Val v; v.k = INT; v.w = w; v.u = x; return v; }
    static Val B(const Bytes& x) { Val v; v.k = OCT; v.b = x; return v; }
    template <class It> static Val B(It a, It e) { Val v; v.k = OCT; v.b.assign(a, e); return v; }
    static Val S(const std::string& s) { return B(s.begin(), s.end()); }
    static Val L() { Val v; v.k = LIST; return v; }
    static Val R() { Val v; v.k = REC; return v; }
    Val& add(const char* n, const Val& x) { r.push_back(std::make_pair(std::string(n), x)); return *this; }
    Val& push(const Val& x) { l.push_back(x); return *this; }
    const Val& operator[](const char* n) const { for (size_t i = 0; i < r.size(); ++i) if (r[i].first == n) return r[i].second; throw std::logic_error(std::string("driver: no member ") + n); }
    std::string str() const { return std::string(b.begin(), b.end()); }
    void json(vh::W& o) const {
        switch (k) {
        case INT: if (w <= 31) o.v((long long)u); else { o.A(); for (int i = w / 8 - 1; i >= 0; --i) o.v((long long)((u >> (8 * i)) & 0xff)); o.E(); } break;
        case OCT: o.bytes(b.begin(), b.end()); break;
        case LIST: o.A(); for (size_t i = 0; i < l.size(); ++i) l[i].json(o); o.E(); break;
        case REC: o.O(); for (size_t i = 0; i < r.size(); ++i) { o.key(r[i].first.c_str()); r[i].second.json(o); } o.E(); break; } }
};
static Val U8v(uint64_t x) { return Val::I(8, x); }
static Val U16v(uint64_t x) { return Val::I(16, x); }
static Val U32v(uint64_t x) { return Val::I(32, x); }
static Val U64v(uint64_t x) { return Val::I(64, x); }

// ------------------------------------------------------------------------------------------------ concretisation
static uint64_t leaf(int w, const std::string& vc, vh::Rng& rng) {
    const uint64_t mx = w >= 64 ? ~0ull : ((1ull << w) - 1);
    if (vc == "zero") return 0; if (vc == "one") return 1 & mx; if (vc == "max") return mx; if (vc == "max1") return mx - 1;
    if (vc == "hi") return 1ull << (w - 1); if (vc == "alt") return (rng.coin() ? 0xAAAAAAAAAAAAAAAAull : 0x5555555555555555ull) & mx;
    return rng.next() & mx;
}
static Bytes octets(size_t n, const std::string& vc, vh::Rng& rng) {
    Bytes b(n, 0); if (!n) return b;
    if (vc == "one") b[n - 1] = 1; else if (vc == "max") b.assign(n, 0xff); else if (vc == "max1") { b.assign(n, 0xff); b[n - 1] = 0xfe; }
    else if (vc == "hi") b[0] = 0x80; else if (vc == "alt") b.assign(n, rng.coin() ? 0xaa : 0x55);
    else if (vc != "zero") for (size_t i = 0; i < n; ++i) b[i] = (uint8_t)rng.below(256);
    return b;
}
static std::string domain(size_t n, vh::Rng& rng) {      // n characters: labels of 1..63 letters / digits separated by single dots
    static const char A[] = "abcdefghijklmnopqrstuvwxyz0123456789"; std::string s; size_t rem = n;
    while (rem > 0) {
        size_t lab = (rem <= 63 && (rem < 3 || rng.coin())) ? rem : (size_t)rng.range(1, (int)std::min<size_t>(63, rem - 2));
        for (size_t i = 0; i < lab; ++i) s += A[rng.below(36)];
        rem -= lab; if (rem > 0) { s += '.'; --rem; } }
    return s;
}
static Val concretise(const vh::Json& sh, vh::Rng& rng) {
    const std::string k = sh["k"].str(), vc = sh["vc"].str();
    if (k == "u") return Val::I((int)sh["w"].num(), leaf((int)sh["w"].num(), vc, rng));
    if (k == "unit") return Val::I(1, 1);
    if (k == "enum") { const vh::Json& vs = sh["vals"]; size_t n = vs.size(); size_t i = vc == "zero" ? 0 : vc == "max" ? n - 1 : vc == "one" ? std::min<size_t>(1, n - 1) : rng.below((uint32_t)n); return Val::I(31, (uint64_t)vs[i].num()); }
    if (k == "fix" || k == "str" || k == "bytes") return Val::B(octets((size_t)sh["n"].num(), vc, rng));
    if (k == "dom") return Val::S(domain((size_t)sh["n"].num(), rng));
    if (k == "listn") { Val v = Val::L(); for (long i = 0; i < sh["n"].num(); ++i) v.push(concretise(sh["of"], rng)); return v; }
    if (k == "list") { Val v = Val::L(); for (size_t i = 0; i < sh["items"].size(); ++i) v.push(concretise(sh["items"][i], rng)); return v; }
    if (k == "rec") { Val v = Val::R(); for (size_t i = 0; i < sh["fs"].size(); ++i) v.add(sh["fs"][i][(size_t)0].str().c_str(), concretise(sh["fs"][i][(size_t)1], rng)); return v; }
    throw std::logic_error("driver: unknown shape kind " + k);
}

// ------------------------------------------------------------------------------------------------ conversions
static IPv4Address ip4(const Val& v) { char s[32]; snprintf(s, sizeof s, "%u.%u.%u.%u", v.b[0], v.b[1], v.b[2], v.b[3]); return IPv4Address(std::string(s)); }
static Val ip4v(const IPv4Address& a) { unsigned x[4] = {0, 0, 0, 0}; sscanf(a.to_string().c_str(), "%u.%u.%u.%u", &x[0], &x[1], &x[2], &x[3]); Bytes b(4); for (int i = 0; i < 4; ++i) b[i] = (uint8_t)x[i]; return Val::B(b); }
static IPv6Address ip6(const Val& v) { return IPv6Address(&v.b[0]); }
static Val ip6v(const IPv6Address& a) { return Val::B(a.begin(), a.end()); }
static HWAddress<6> mac(const Val& v) { return HWAddress<6>(&v.b[0]); }
static Val macv(const HWAddress<6>& a) { return Val::B(a.begin(), a.end()); }
static std::vector<IPv4Address> ip4s(const Val& v) { std::vector<IPv4Address> r; for (size_t i = 0; i < v.l.size(); ++i) r.push_back(ip4(v.l[i])); return r; }
static Val ip4sv(const std::vector<IPv4Address>& a) { Val v = Val::L(); for (size_t i = 0; i < a.size(); ++i) v.push(ip4v(a[i])); return v; }
static std::vector<IPv6Address> ip6s(const Val& v) { std::vector<IPv6Address> r; for (size_t i = 0; i < v.l.size(); ++i) r.push_back(ip6(v.l[i])); return r; }
static Val ip6sv(const std::vector<IPv6Address>& a) { Val v = Val::L(); for (size_t i = 0; i < a.size(); ++i) v.push(ip6v(a[i])); return v; }
static Val pairsv(const std::vector<std::pair<uint8_t, uint8_t> >& a) { Val v = Val::L(); for (size_t i = 0; i < a.size(); ++i) v.push(Val::R().add("first", U8v(a[i].first)).add("second", U8v(a[i].second))); return v; }
static std::vector<std::pair<uint8_t, uint8_t> > pairs(const Val& v) { std::vector<std::pair<uint8_t, uint8_t> > r; for (size_t i = 0; i < v.l.size(); ++i) r.push_back(std::make_pair((uint8_t)v.l[i]["first"].u, (uint8_t)v.l[i]["second"].u)); return r; }
static std::vector<Bytes> blobs(const Val& v) { std::vector<Bytes> r; for (size_t i = 0; i < v.l.size(); ++i) r.push_back(v.l[i].b); return r; }
static Val blobsv(const std::vector<Bytes>& a) { Val v = Val::L(); for (size_t i = 0; i < a.size(); ++i) v.push(Val::B(a[i])); return v; }
static Val ratesv(const std::vector<float>& a) { Val v = Val::L(); for (size_t i = 0; i < a.size(); ++i) v.push(Val::I(7, (uint64_t)(a[i] * 2))); return v; }
static std::vector<float> rates(const Val& v) { std::vector<float> r; for (size_t i = 0; i < v.l.size(); ++i) r.push_back((float)v.l[i].u / 2); return r; }

// ------------------------------------------------------------------------------------------------ the binding table
struct Entry { std::function<void(PDU*, const Val&)> set; std::function<Val(const PDU*)> get; };
static std::map<std::string, std::map<std::string, Entry> > REG;
static void reg(const char* cls, const char* name, std::function<void(PDU*, const Val&)> set, std::function<Val(const PDU*)> get) { Entry e; e.set = set; e.get = get; REG[cls][name] = e; }
// reg(cls, name, SET(L) <statements using p (the layer) and v (the value)>; GET(L) <statements returning a Val>; END)
#define SET(L) [](PDU* q_, const Val& v) { L& p = *static_cast<L*>(q_); (void)p; (void)v;
#define GET(L) }, [](const PDU* q_) -> Val { const L& p = *static_cast<const L*>(q_); (void)p;
#define END }

static Val route_v(const IP::generic_route_option_type& r) { return Val::R().add("pointer", U8v(r.pointer)).add("routes", ip4sv(r.routes)); }
static IP::generic_route_option_type route(const Val& v) { return IP::generic_route_option_type((uint8_t)v["pointer"].u, ip4s(v["routes"])); }
static Val duid_v(const DHCPv6::duid_type& d) { return Val::R().add("id", U16v(d.id)).add("data", Val::B(d.data)); }
static Val llt_v(const DHCPv6::duid_type& d) { if (d.id != DHCPv6::duid_llt::duid_id) throw std::runtime_error("duid id is not LLT"); DHCPv6::duid_llt x = DHCPv6::duid_llt::from_bytes(&d.data[0], (uint32_t)d.data.size());
    return Val::R().add("hw_type", U16v(x.hw_type)).add("time", U32v(x.time)).add("lladdress", Val::B(x.lladdress)); }
static Val en_v(const DHCPv6::duid_type& d) { if (d.id != DHCPv6::duid_en::duid_id) throw std::runtime_error("duid id is not EN"); DHCPv6::duid_en x = DHCPv6::duid_en::from_bytes(&d.data[0], (uint32_t)d.data.size());
    return Val::R().add("enterprise_number", U32v(x.enterprise_number)).add("identifier", Val::B(x.identifier)); }
static Val ll_v(const DHCPv6::duid_type& d) { if (d.id != DHCPv6::duid_ll::duid_id) throw std::runtime_error("duid id is not LL"); DHCPv6::duid_ll x = DHCPv6::duid_ll::from_bytes(&d.data[0], (uint32_t)d.data.size());
    return Val::R().add("hw_type", U16v(x.hw_type)).add("lladdress", Val::B(x.lladdress)); }
static DHCPv6::duid_type llt(const Val& v) { return DHCPv6::duid_type(DHCPv6::duid_llt((uint16_t)v["hw_type"].u, (uint32_t)v["time"].u, v["lladdress"].b)); }
static DHCPv6::duid_type en(const Val& v) { return DHCPv6::duid_type(DHCPv6::duid_en((uint32_t)v["enterprise_number"].u, v["identifier"].b)); }
static DHCPv6::duid_type ll(const Val& v) { return DHCPv6::duid_type(DHCPv6::duid_ll((uint16_t)v["hw_type"].u, v["lladdress"].b)); }
static Val addrlist_v(const ICMPv6::addr_list_type& a) { return Val::R().add("addresses", ip6sv(a.addresses)); }

static void register_all() {
    // ---- TCP
    reg("TCP", "mss", SET(TCP) p.mss((uint16_t)v.u); GET(TCP) return U16v(p.mss()); END);
    reg("TCP", "winscale", SET(TCP) p.winscale((uint8_t)v.u); GET(TCP) return U8v(p.winscale()); END);
    reg("TCP", "sack_permitted", SET(TCP) p.sack_permitted(); GET(TCP) return Val::I(1, p.has_sack_permitted() ? 1 : 0); END);
    reg("TCP", "sack", SET(TCP) { TCP::sack_type s; for (size_t i = 0; i < v.l.size(); ++i) s.push_back((uint32_t)v.l[i].u); p.sack(s); }; GET(TCP) { TCP::sack_type s = p.sack(); Val r = Val::L(); for (size_t i = 0; i < s.size(); ++i) r.push(U32v(s[i])); return r; }; END);
    reg("TCP", "timestamp", SET(TCP) p.timestamp((uint32_t)v["value"].u, (uint32_t)v["reply"].u); GET(TCP) { std::pair<uint32_t, uint32_t> t = p.timestamp(); return Val::R().add("value", U32v(t.first)).add("reply", U32v(t.second)); }; END);
    reg("TCP", "altchecksum", SET(TCP) p.altchecksum((TCP::AltChecksums)v.u); GET(TCP) return Val::I(31, (uint64_t)p.altchecksum()); END);
    // ---- IP
    reg("IP", "security", SET(IP) p.security(IP::security_type((uint16_t)v["security"].u, (uint16_t)v["compartments"].u, (uint16_t)v["handling_restrictions"].u, small_uint<24>((uint32_t)v["transmission_control"].u))); GET(IP) { IP::security_type s = p.security(); return Val::R().add("security", U16v(s.security)).add("compartments", U16v(s.compartments)).add("handling_restrictions", U16v(s.handling_restrictions)).add("transmission_control", Val::I(24, (uint32_t)s.transmission_control)); }; END);
    reg("IP", "lsrr", SET(IP) p.lsrr(route(v)); GET(IP) return route_v(p.lsrr()); END);
    reg("IP", "ssrr", SET(IP) p.ssrr(route(v)); GET(IP) return route_v(p.ssrr()); END);
    reg("IP", "record_route", SET(IP) p.record_route(route(v)); GET(IP) return route_v(p.record_route()); END);
    reg("IP", "stream_identifier", SET(IP) p.stream_identifier((uint16_t)v.u); GET(IP) return U16v(p.stream_identifier()); END);
    // ---- DHCP
    reg("DHCP", "type", SET(DHCP) p.type((DHCP::Flags)v.u); GET(DHCP) return Val::I(31, p.type()); END);
    reg("DHCP", "server_identifier", SET(DHCP) p.server_identifier(ip4(v)); GET(DHCP) return ip4v(p.server_identifier()); END);
    reg("DHCP", "lease_time", SET(DHCP) p.lease_time((uint32_t)v.u); GET(DHCP) return U32v(p.lease_time()); END);
    reg("DHCP", "renewal_time", SET(DHCP) p.renewal_time((uint32_t)v.u); GET(DHCP) return U32v(p.renewal_time()); END);
    reg("DHCP", "rebind_time", SET(DHCP) p.rebind_time((uint32_t)v.u); GET(DHCP) return U32v(p.rebind_time()); END);
    reg("DHCP", "subnet_mask", SET(DHCP) p.subnet_mask(ip4(v)); GET(DHCP) return ip4v(p.subnet_mask()); END);
    reg("DHCP", "routers", SET(DHCP) p.routers(ip4s(v)); GET(DHCP) return ip4sv(p.routers()); END);
    reg("DHCP", "domain_name_servers", SET(DHCP) p.domain_name_servers(ip4s(v)); GET(DHCP) return ip4sv(p.domain_name_servers()); END);
    reg("DHCP", "broadcast", SET(DHCP) p.broadcast(ip4(v)); GET(DHCP) return ip4v(p.broadcast()); END);
    reg("DHCP", "requested_ip", SET(DHCP) p.requested_ip(ip4(v)); GET(DHCP) return ip4v(p.requested_ip()); END);
    reg("DHCP", "domain_name", SET(DHCP) p.domain_name(v.str()); GET(DHCP) return Val::S(p.domain_name()); END);
    reg("DHCP", "hostname", SET(DHCP) p.hostname(v.str()); GET(DHCP) return Val::S(p.hostname()); END);
    // ---- DHCPv6
    reg("DHCPv6", "client_id", SET(DHCPv6) p.client_id(DHCPv6::duid_type((uint16_t)v["id"].u, v["data"].b)); GET(DHCPv6) return duid_v(p.client_id()); END);
    reg("DHCPv6", "server_id", SET(DHCPv6) p.server_id(DHCPv6::duid_type((uint16_t)v["id"].u, v["data"].b)); GET(DHCPv6) return duid_v(p.server_id()); END);
    reg("DHCPv6", "client_id_llt", SET(DHCPv6) p.client_id(llt(v)); GET(DHCPv6) return llt_v(p.client_id()); END);
    reg("DHCPv6", "client_id_en", SET(DHCPv6) p.client_id(en(v)); GET(DHCPv6) return en_v(p.client_id()); END);
    reg("DHCPv6", "client_id_ll", SET(DHCPv6) p.client_id(ll(v)); GET(DHCPv6) return ll_v(p.client_id()); END);
    reg("DHCPv6", "server_id_llt", SET(DHCPv6) p.server_id(llt(v)); GET(DHCPv6) return llt_v(p.server_id()); END);
    reg("DHCPv6", "server_id_en", SET(DHCPv6) p.server_id(en(v)); GET(DHCPv6) return en_v(p.server_id()); END);
    reg("DHCPv6", "server_id_ll", SET(DHCPv6) p.server_id(ll(v)); GET(DHCPv6) return ll_v(p.server_id()); END);
    reg("DHCPv6", "ia_na", SET(DHCPv6) p.ia_na(DHCPv6::ia_na_type((uint32_t)v["id"].u, (uint32_t)v["t1"].u, (uint32_t)v["t2"].u, v["options"].b)); GET(DHCPv6) { DHCPv6::ia_na_type x = p.ia_na(); return Val::R().add("id", U32v(x.id)).add("t1", U32v(x.t1)).add("t2", U32v(x.t2)).add("options", Val::B(x.options)); }; END);
    reg("DHCPv6", "ia_ta", SET(DHCPv6) p.ia_ta(DHCPv6::ia_ta_type((uint32_t)v["id"].u, v["options"].b)); GET(DHCPv6) { DHCPv6::ia_ta_type x = p.ia_ta(); return Val::R().add("id", U32v(x.id)).add("options", Val::B(x.options)); }; END);
    reg("DHCPv6", "ia_address", SET(DHCPv6) p.ia_address(DHCPv6::ia_address_type(ip6(v["address"]), (uint32_t)v["preferred_lifetime"].u, (uint32_t)v["valid_lifetime"].u, v["options"].b)); GET(DHCPv6) { DHCPv6::ia_address_type x = p.ia_address(); return Val::R().add("address", ip6v(x.address)).add("preferred_lifetime", U32v(x.preferred_lifetime)).add("valid_lifetime", U32v(x.valid_lifetime)).add("options", Val::B(x.options)); }; END);
    reg("DHCPv6", "option_request", SET(DHCPv6) { DHCPv6::option_request_type o; for (size_t i = 0; i < v.l.size(); ++i) o.push_back((uint16_t)v.l[i].u); p.option_request(o); }; GET(DHCPv6) { DHCPv6::option_request_type o = p.option_request(); Val r = Val::L(); for (size_t i = 0; i < o.size(); ++i) r.push(U16v(o[i])); return r; }; END);
    reg("DHCPv6", "preference", SET(DHCPv6) p.preference((uint8_t)v.u); GET(DHCPv6) return U8v(p.preference()); END);
    reg("DHCPv6", "elapsed_time", SET(DHCPv6) p.elapsed_time((uint16_t)v.u); GET(DHCPv6) return U16v(p.elapsed_time()); END);
    reg("DHCPv6", "relay_message", SET(DHCPv6) p.relay_message(v.b); GET(DHCPv6) return Val::B(p.relay_message()); END);
    reg("DHCPv6", "authentication", SET(DHCPv6) p.authentication(DHCPv6::authentication_type((uint8_t)v["protocol"].u, (uint8_t)v["algorithm"].u, (uint8_t)v["rdm"].u, v["replay_detection"].u, v["auth_info"].b)); GET(DHCPv6) { DHCPv6::authentication_type x = p.authentication(); return Val::R().add("protocol", U8v(x.protocol)).add("algorithm", U8v(x.algorithm)).add("rdm", U8v(x.rdm)).add("replay_detection", U64v(x.replay_detection)).add("auth_info", Val::B(x.auth_info)); }; END);
    reg("DHCPv6", "server_unicast", SET(DHCPv6) p.server_unicast(ip6(v)); GET(DHCPv6) return ip6v(p.server_unicast()); END);
    reg("DHCPv6", "status_code", SET(DHCPv6) p.status_code(DHCPv6::status_code_type((uint16_t)v["code"].u, v["message"].str())); GET(DHCPv6) { DHCPv6::status_code_type x = p.status_code(); return Val::R().add("code", U16v(x.code)).add("message", Val::S(x.message)); }; END);
    reg("DHCPv6", "rapid_commit", SET(DHCPv6) p.rapid_commit(); GET(DHCPv6) return Val::I(1, p.has_rapid_commit() ? 1 : 0); END);
    reg("DHCPv6", "user_class", SET(DHCPv6) p.user_class(DHCPv6::user_class_type(blobs(v))); GET(DHCPv6) return blobsv(p.user_class().data); END);
    reg("DHCPv6", "vendor_class", SET(DHCPv6) p.vendor_class(DHCPv6::vendor_class_type((uint32_t)v["enterprise_number"].u, blobs(v["vendor_class_data"]))); GET(DHCPv6) { DHCPv6::vendor_class_type x = p.vendor_class(); return Val::R().add("enterprise_number", U32v(x.enterprise_number)).add("vendor_class_data", blobsv(x.vendor_class_data)); }; END);
    reg("DHCPv6", "vendor_info", SET(DHCPv6) p.vendor_info(DHCPv6::vendor_info_type((uint32_t)v["enterprise_number"].u, v["data"].b)); GET(DHCPv6) { DHCPv6::vendor_info_type x = p.vendor_info(); return Val::R().add("enterprise_number", U32v(x.enterprise_number)).add("data", Val::B(x.data)); }; END);
    reg("DHCPv6", "interface_id", SET(DHCPv6) p.interface_id(v.b); GET(DHCPv6) return Val::B(p.interface_id()); END);
    reg("DHCPv6", "reconfigure_msg", SET(DHCPv6) p.reconfigure_msg((uint8_t)v.u); GET(DHCPv6) return U8v(p.reconfigure_msg()); END);
    reg("DHCPv6", "reconfigure_accept", SET(DHCPv6) p.reconfigure_accept(); GET(DHCPv6) return Val::I(1, p.has_reconfigure_accept() ? 1 : 0); END);
    // ---- ICMPv6
    reg("ICMPv6", "source_link_layer_addr", SET(ICMPv6) p.source_link_layer_addr(mac(v)); GET(ICMPv6) return macv(p.source_link_layer_addr()); END);
    reg("ICMPv6", "target_link_layer_addr", SET(ICMPv6) p.target_link_layer_addr(mac(v)); GET(ICMPv6) return macv(p.target_link_layer_addr()); END);
    reg("ICMPv6", "prefix_info", SET(ICMPv6) p.prefix_info(ICMPv6::prefix_info_type((uint8_t)v["prefix_len"].u, small_uint<1>((uint8_t)v["A"].u), small_uint<1>((uint8_t)v["L"].u), (uint32_t)v["valid_lifetime"].u, (uint32_t)v["preferred_lifetime"].u, ip6(v["prefix"]))); GET(ICMPv6) { ICMPv6::prefix_info_type x = p.prefix_info(); return Val::R().add("prefix_len", U8v(x.prefix_len)).add("A", Val::I(1, (uint8_t)x.A)).add("L", Val::I(1, (uint8_t)x.L)).add("valid_lifetime", U32v(x.valid_lifetime)).add("preferred_lifetime", U32v(x.preferred_lifetime)).add("prefix", ip6v(x.prefix)); }; END);
    reg("ICMPv6", "redirect_header", SET(ICMPv6) p.redirect_header(v.b); GET(ICMPv6) return Val::B(p.redirect_header()); END);
    reg("ICMPv6", "mtu", SET(ICMPv6) p.mtu(ICMPv6::mtu_type((uint16_t)v["first"].u, (uint32_t)v["second"].u)); GET(ICMPv6) { ICMPv6::mtu_type x = p.mtu(); return Val::R().add("first", U16v(x.first)).add("second", U32v(x.second)); }; END);
    reg("ICMPv6", "shortcut_limit", SET(ICMPv6) p.shortcut_limit(ICMPv6::shortcut_limit_type((uint8_t)v["limit"].u)); GET(ICMPv6) return Val::R().add("limit", U8v(p.shortcut_limit().limit)); END);
    reg("ICMPv6", "new_advert_interval", SET(ICMPv6) p.new_advert_interval(ICMPv6::new_advert_interval_type((uint32_t)v["interval"].u)); GET(ICMPv6) return Val::R().add("interval", U32v(p.new_advert_interval().interval)); END);
    reg("ICMPv6", "new_home_agent_info", SET(ICMPv6) { ICMPv6::new_ha_info_type h; for (size_t i = 0; i < v.l.size(); ++i) h.push_back((uint16_t)v.l[i].u); p.new_home_agent_info(h); }; GET(ICMPv6) { ICMPv6::new_ha_info_type h = p.new_home_agent_info(); Val r = Val::L(); for (size_t i = 0; i < h.size(); ++i) r.push(U16v(h[i])); return r; }; END);
    reg("ICMPv6", "source_addr_list", SET(ICMPv6) p.source_addr_list(ICMPv6::addr_list_type(ip6s(v["addresses"]))); GET(ICMPv6) return addrlist_v(p.source_addr_list()); END);
    reg("ICMPv6", "target_addr_list", SET(ICMPv6) p.target_addr_list(ICMPv6::addr_list_type(ip6s(v["addresses"]))); GET(ICMPv6) return addrlist_v(p.target_addr_list()); END);
    reg("ICMPv6", "rsa_signature", SET(ICMPv6) p.rsa_signature(ICMPv6::rsa_sign_type(v["key_hash"].b.begin(), v["signature"].b)); GET(ICMPv6) { ICMPv6::rsa_sign_type x = p.rsa_signature(); return Val::R().add("key_hash", Val::B(x.key_hash, x.key_hash + 16)).add("signature", Val::B(x.signature)); }; END);
    reg("ICMPv6", "timestamp", SET(ICMPv6) p.timestamp(ICMPv6::timestamp_type(v["timestamp"].u)); GET(ICMPv6) return Val::R().add("timestamp", U64v(p.timestamp().timestamp)); END);
    reg("ICMPv6", "nonce", SET(ICMPv6) p.nonce(v.b); GET(ICMPv6) return Val::B(p.nonce()); END);
    reg("ICMPv6", "ip_prefix", SET(ICMPv6) p.ip_prefix(ICMPv6::ip_prefix_type((uint8_t)v["option_code"].u, (uint8_t)v["prefix_len"].u, ip6(v["address"]))); GET(ICMPv6) { ICMPv6::ip_prefix_type x = p.ip_prefix(); return Val::R().add("option_code", U8v(x.option_code)).add("prefix_len", U8v(x.prefix_len)).add("address", ip6v(x.address)); }; END);
    reg("ICMPv6", "link_layer_addr", SET(ICMPv6) p.link_layer_addr(ICMPv6::lladdr_type((uint8_t)v["option_code"].u, v["address"].b)); GET(ICMPv6) { ICMPv6::lladdr_type x = p.link_layer_addr(); return Val::R().add("option_code", U8v(x.option_code)).add("address", Val::B(x.address)); }; END);
    reg("ICMPv6", "naack", SET(ICMPv6) p.naack(ICMPv6::naack_type((uint8_t)v["code"].u, (uint8_t)v["status"].u)); GET(ICMPv6) { ICMPv6::naack_type x = p.naack(); return Val::R().add("code", U8v(x.code)).add("status", U8v(x.status)); }; END);
    reg("ICMPv6", "map", SET(ICMPv6) p.map(ICMPv6::map_type(small_uint<4>((uint8_t)v["dist"].u), small_uint<4>((uint8_t)v["pref"].u), small_uint<1>((uint8_t)v["r"].u), (uint32_t)v["valid_lifetime"].u, ip6(v["address"]))); GET(ICMPv6) { ICMPv6::map_type x = p.map(); return Val::R().add("dist", Val::I(4, (uint8_t)x.dist)).add("pref", Val::I(4, (uint8_t)x.pref)).add("r", Val::I(1, (uint8_t)x.r)).add("valid_lifetime", U32v(x.valid_lifetime)).add("address", ip6v(x.address)); }; END);
    reg("ICMPv6", "route_info", SET(ICMPv6) p.route_info(ICMPv6::route_info_type((uint8_t)v["prefix_len"].u, small_uint<2>((uint8_t)v["pref"].u), (uint32_t)v["route_lifetime"].u, v["prefix"].b)); GET(ICMPv6) { ICMPv6::route_info_type x = p.route_info(); return Val::R().add("prefix_len", U8v(x.prefix_len)).add("pref", Val::I(2, (uint8_t)x.pref)).add("route_lifetime", U32v(x.route_lifetime)).add("prefix", Val::B(x.prefix)); }; END);
    reg("ICMPv6", "recursive_dns_servers", SET(ICMPv6) p.recursive_dns_servers(ICMPv6::recursive_dns_type((uint32_t)v["lifetime"].u, ip6s(v["servers"]))); GET(ICMPv6) { ICMPv6::recursive_dns_type x = p.recursive_dns_servers(); return Val::R().add("lifetime", U32v(x.lifetime)).add("servers", ip6sv(x.servers)); }; END);
    reg("ICMPv6", "handover_key_request", SET(ICMPv6) p.handover_key_request(ICMPv6::handover_key_req_type(small_uint<4>((uint8_t)v["AT"].u), v["key"].b)); GET(ICMPv6) { ICMPv6::handover_key_req_type x = p.handover_key_request(); return Val::R().add("AT", Val::I(4, (uint8_t)x.AT)).add("key", Val::B(x.key)); }; END);
    reg("ICMPv6", "handover_key_reply", SET(ICMPv6) p.handover_key_reply(ICMPv6::handover_key_reply_type((uint16_t)v["lifetime"].u, small_uint<4>((uint8_t)v["AT"].u), v["key"].b)); GET(ICMPv6) { ICMPv6::handover_key_reply_type x = p.handover_key_reply(); return Val::R().add("lifetime", U16v(x.lifetime)).add("AT", Val::I(4, (uint8_t)x.AT)).add("key", Val::B(x.key)); }; END);
    reg("ICMPv6", "handover_assist_info", SET(ICMPv6) p.handover_assist_info(ICMPv6::handover_assist_info_type((uint8_t)v["option_code"].u, v["hai"].b)); GET(ICMPv6) { ICMPv6::handover_assist_info_type x = p.handover_assist_info(); return Val::R().add("option_code", U8v(x.option_code)).add("hai", Val::B(x.hai)); }; END);
    reg("ICMPv6", "mobile_node_identifier", SET(ICMPv6) p.mobile_node_identifier(ICMPv6::mobile_node_id_type((uint8_t)v["option_code"].u, v["mn"].b)); GET(ICMPv6) { ICMPv6::mobile_node_id_type x = p.mobile_node_identifier(); return Val::R().add("option_code", U8v(x.option_code)).add("mn", Val::B(x.mn)); }; END);
    reg("ICMPv6", "dns_search_list", SET(ICMPv6) { ICMPv6::dns_search_list_type d((uint32_t)v["lifetime"].u); for (size_t i = 0; i < v["domains"].l.size(); ++i) d.domains.push_back(v["domains"].l[i].str()); p.dns_search_list(d); }; GET(ICMPv6) { ICMPv6::dns_search_list_type x = p.dns_search_list(); Val d = Val::L(); for (size_t i = 0; i < x.domains.size(); ++i) d.push(Val::S(x.domains[i])); return Val::R().add("lifetime", U32v(x.lifetime)).add("domains", d); }; END);
    // ---- 802.11 management frames
    typedef Dot11ManagementFrame MF;
    reg("Dot11", "ssid", SET(MF) p.ssid(v.str()); GET(MF) return Val::S(p.ssid()); END);
    reg("Dot11", "rsn_information", SET(MF) { RSNInformation r; r.version((uint16_t)v["version"].u); r.group_suite((RSNInformation::CypherSuites)v["group_suite"].u);
            for (size_t i = 0; i < v["pairwise_cyphers"].l.size(); ++i) r.add_pairwise_cypher((RSNInformation::CypherSuites)v["pairwise_cyphers"].l[i].u);
            for (size_t i = 0; i < v["akm_cyphers"].l.size(); ++i) r.add_akm_cypher((RSNInformation::AKMSuites)v["akm_cyphers"].l[i].u);
            r.capabilities((uint16_t)v["capabilities"].u); p.rsn_information(r); }; GET(MF) { RSNInformation r = p.rsn_information(); Val pw = Val::L(), ak = Val::L();
          for (size_t i = 0; i < r.pairwise_cyphers().size(); ++i) pw.push(Val::I(31, (uint32_t)r.pairwise_cyphers()[i]));
          for (size_t i = 0; i < r.akm_cyphers().size(); ++i) ak.push(Val::I(31, (uint32_t)r.akm_cyphers()[i]));
          return Val::R().add("version", U16v(r.version())).add("group_suite", Val::I(31, (uint32_t)r.group_suite())).add("pairwise_cyphers", pw).add("akm_cyphers", ak).add("capabilities", U16v(r.capabilities())); }; END);
    reg("Dot11", "supported_rates", SET(MF) p.supported_rates(rates(v)); GET(MF) return ratesv(p.supported_rates()); END);
    reg("Dot11", "extended_supported_rates", SET(MF) p.extended_supported_rates(rates(v)); GET(MF) return ratesv(p.extended_supported_rates()); END);
    reg("Dot11", "qos_capability", SET(MF) p.qos_capability((uint8_t)v.u); GET(MF) return U8v(p.qos_capability()); END);
    reg("Dot11", "power_capability", SET(MF) p.power_capability((uint8_t)v["min_power"].u, (uint8_t)v["max_power"].u); GET(MF) { std::pair<uint8_t, uint8_t> x = p.power_capability(); return Val::R().add("min_power", U8v(x.first)).add("max_power", U8v(x.second)); }; END);
    reg("Dot11", "supported_channels", SET(MF) p.supported_channels(pairs(v)); GET(MF) return pairsv(p.supported_channels()); END);
    reg("Dot11", "request_information", SET(MF) { MF::request_info_type r; for (size_t i = 0; i < v.l.size(); ++i) r.push_back((uint8_t)v.l[i].u); p.request_information(r); }; GET(MF) { MF::request_info_type x = p.request_information(); Val r = Val::L(); for (size_t i = 0; i < x.size(); ++i) r.push(U8v(x[i])); return r; }; END);
    reg("Dot11", "fh_parameter_set", SET(MF) p.fh_parameter_set(MF::fh_params_set((uint16_t)v["dwell_time"].u, (uint8_t)v["hop_set"].u, (uint8_t)v["hop_pattern"].u, (uint8_t)v["hop_index"].u)); GET(MF) { MF::fh_params_set x = p.fh_parameter_set(); return Val::R().add("dwell_time", U16v(x.dwell_time)).add("hop_set", U8v(x.hop_set)).add("hop_pattern", U8v(x.hop_pattern)).add("hop_index", U8v(x.hop_index)); }; END);
    reg("Dot11", "ds_parameter_set", SET(MF) p.ds_parameter_set((uint8_t)v.u); GET(MF) return U8v(p.ds_parameter_set()); END);
    reg("Dot11", "cf_parameter_set", SET(MF) p.cf_parameter_set(MF::cf_params_set((uint8_t)v["cfp_count"].u, (uint8_t)v["cfp_period"].u, (uint16_t)v["cfp_max_duration"].u, (uint16_t)v["cfp_dur_remaining"].u)); GET(MF) { MF::cf_params_set x = p.cf_parameter_set(); return Val::R().add("cfp_count", U8v(x.cfp_count)).add("cfp_period", U8v(x.cfp_period)).add("cfp_max_duration", U16v(x.cfp_max_duration)).add("cfp_dur_remaining", U16v(x.cfp_dur_remaining)); }; END);
    reg("Dot11", "ibss_parameter_set", SET(MF) p.ibss_parameter_set((uint16_t)v.u); GET(MF) return U16v(p.ibss_parameter_set()); END);
    reg("Dot11", "ibss_dfs", SET(MF) p.ibss_dfs(MF::ibss_dfs_params(mac(v["dfs_owner"]), (uint8_t)v["recovery_interval"].u, pairs(v["channel_map"]))); GET(MF) { MF::ibss_dfs_params x = p.ibss_dfs(); return Val::R().add("dfs_owner", macv(x.dfs_owner)).add("recovery_interval", U8v(x.recovery_interval)).add("channel_map", pairsv(x.channel_map)); }; END);
    reg("Dot11", "country", SET(MF) { Bytes a, b, c; const Val& t = v["triplets"]; for (size_t i = 0; i < t.l.size(); ++i) { a.push_back((uint8_t)t.l[i]["first_channel"].u); b.push_back((uint8_t)t.l[i]["number_channels"].u); c.push_back((uint8_t)t.l[i]["max_transmit_power"].u); }
            p.country(MF::country_params(v["country"].str(), a, b, c)); }; GET(MF) { MF::country_params x = p.country(); Val t = Val::L(); if (x.first_channel.size() != x.number_channels.size() || x.first_channel.size() != x.max_transmit_power.size()) throw std::runtime_error("country getter: member vectors of different sizes");
          for (size_t i = 0; i < x.first_channel.size(); ++i) t.push(Val::R().add("first_channel", U8v(x.first_channel[i])).add("number_channels", U8v(x.number_channels[i])).add("max_transmit_power", U8v(x.max_transmit_power[i])));
          return Val::R().add("country", Val::S(x.country)).add("triplets", t); }; END);
    reg("Dot11", "fh_parameters", SET(MF) p.fh_parameters((uint8_t)v["prime_radix"].u, (uint8_t)v["number_channels"].u); GET(MF) { std::pair<uint8_t, uint8_t> x = p.fh_parameters(); return Val::R().add("prime_radix", U8v(x.first)).add("number_channels", U8v(x.second)); }; END);
    reg("Dot11", "fh_pattern_table", SET(MF) p.fh_pattern_table(MF::fh_pattern_type((uint8_t)v["flag"].u, (uint8_t)v["number_of_sets"].u, (uint8_t)v["modulus"].u, (uint8_t)v["offset"].u, v["random_table"].b)); GET(MF) { MF::fh_pattern_type x = p.fh_pattern_table(); return Val::R().add("flag", U8v(x.flag)).add("number_of_sets", U8v(x.number_of_sets)).add("modulus", U8v(x.modulus)).add("offset", U8v(x.offset)).add("random_table", Val::B(x.random_table)); }; END);
    reg("Dot11", "power_constraint", SET(MF) p.power_constraint((uint8_t)v.u); GET(MF) return U8v(p.power_constraint()); END);
    reg("Dot11", "channel_switch", SET(MF) p.channel_switch(MF::channel_switch_type((uint8_t)v["switch_mode"].u, (uint8_t)v["new_channel"].u, (uint8_t)v["switch_count"].u)); GET(MF) { MF::channel_switch_type x = p.channel_switch(); return Val::R().add("switch_mode", U8v(x.switch_mode)).add("new_channel", U8v(x.new_channel)).add("switch_count", U8v(x.switch_count)); }; END);
    reg("Dot11", "quiet", SET(MF) p.quiet(MF::quiet_type((uint8_t)v["quiet_count"].u, (uint8_t)v["quiet_period"].u, (uint16_t)v["quiet_duration"].u, (uint16_t)v["quiet_offset"].u)); GET(MF) { MF::quiet_type x = p.quiet(); return Val::R().add("quiet_count", U8v(x.quiet_count)).add("quiet_period", U8v(x.quiet_period)).add("quiet_duration", U16v(x.quiet_duration)).add("quiet_offset", U16v(x.quiet_offset)); }; END);
    reg("Dot11", "tpc_report", SET(MF) p.tpc_report((uint8_t)v["transmit_power"].u, (uint8_t)v["link_margin"].u); GET(MF) { std::pair<uint8_t, uint8_t> x = p.tpc_report(); return Val::R().add("transmit_power", U8v(x.first)).add("link_margin", U8v(x.second)); }; END);
    reg("Dot11", "erp_information", SET(MF) p.erp_information((uint8_t)v.u); GET(MF) return U8v(p.erp_information()); END);
    reg("Dot11", "bss_load", SET(MF) p.bss_load(MF::bss_load_type((uint16_t)v["station_count"].u, (uint8_t)v["channel_utilization"].u, (uint16_t)v["available_capacity"].u)); GET(MF) { MF::bss_load_type x = p.bss_load(); return Val::R().add("station_count", U16v(x.station_count)).add("channel_utilization", U8v(x.channel_utilization)).add("available_capacity", U16v(x.available_capacity)); }; END);
    reg("Dot11", "tim", SET(MF) p.tim(MF::tim_type((uint8_t)v["dtim_count"].u, (uint8_t)v["dtim_period"].u, (uint8_t)v["bitmap_control"].u, v["partial_virtual_bitmap"].b)); GET(MF) { MF::tim_type x = p.tim(); return Val::R().add("dtim_count", U8v(x.dtim_count)).add("dtim_period", U8v(x.dtim_period)).add("bitmap_control", U8v(x.bitmap_control)).add("partial_virtual_bitmap", Val::B(x.partial_virtual_bitmap)); }; END);
    reg("Dot11", "challenge_text", SET(MF) p.challenge_text(v.str()); GET(MF) return Val::S(p.challenge_text()); END);
    reg("Dot11", "vendor_specific", SET(MF) p.vendor_specific(MF::vendor_specific_type(MF::vendor_specific_type::oui_type(&v["oui"].b[0]), v["data"].b)); GET(MF) { MF::vendor_specific_type x = p.vendor_specific(); return Val::R().add("oui", Val::B(x.oui.begin(), x.oui.end())).add("data", Val::B(x.data)); }; END);
    // ---- PPPoE discovery tags
    reg("PPPoE", "service_name", SET(PPPoE) p.service_name(v.str()); GET(PPPoE) return Val::S(p.service_name()); END);
    reg("PPPoE", "ac_name", SET(PPPoE) p.ac_name(v.str()); GET(PPPoE) return Val::S(p.ac_name()); END);
    reg("PPPoE", "host_uniq", SET(PPPoE) p.host_uniq(v.b); GET(PPPoE) return Val::B(p.host_uniq()); END);
    reg("PPPoE", "ac_cookie", SET(PPPoE) p.ac_cookie(v.b); GET(PPPoE) return Val::B(p.ac_cookie()); END);
    reg("PPPoE", "vendor_specific", SET(PPPoE) p.vendor_specific(PPPoE::vendor_spec_type((uint32_t)v["vendor_id"].u, v["data"].b)); GET(PPPoE) { PPPoE::vendor_spec_type x = p.vendor_specific(); return Val::R().add("vendor_id", U32v(x.vendor_id)).add("data", Val::B(x.data)); }; END);
    reg("PPPoE", "relay_session_id", SET(PPPoE) p.relay_session_id(v.b); GET(PPPoE) return Val::B(p.relay_session_id()); END);
    reg("PPPoE", "service_name_error", SET(PPPoE) p.service_name_error(v.str()); GET(PPPoE) return Val::S(p.service_name_error()); END);
    reg("PPPoE", "ac_system_error", SET(PPPoE) p.ac_system_error(v.str()); GET(PPPoE) return Val::S(p.ac_system_error()); END);
    reg("PPPoE", "generic_error", SET(PPPoE) p.generic_error(v.str()); GET(PPPoE) return Val::S(p.generic_error()); END);
}

// ------------------------------------------------------------------------------------------------ carriers
struct Carrier { std::unique_ptr<PDU> root, extra; PDU* layer; std::string kind; Carrier() : layer(0) {} };
static const char PAYLOAD[] = "PAYLOAD-PAYLOAD!";

static void build(const std::string& cls, vh::Rng& rng, Carrier& c) {
    EthernetII eth("00:01:02:03:04:05", "00:0a:0b:0c:0d:0e");
    if (cls == "TCP") { c.root.reset((eth / IP("192.0.2.1", "192.0.2.2") / TCP(80, 40000) / RawPDU(PAYLOAD)).clone()); c.layer = c.root->find_pdu<TCP>(); c.kind = "eth/ip/tcp/raw"; }
    else if (cls == "IP") { c.root.reset((eth / IP("192.0.2.1", "192.0.2.2") / UDP(53, 40000) / RawPDU(PAYLOAD)).clone()); c.layer = c.root->find_pdu<IP>(); c.kind = "eth/ip/udp/raw"; }
    else if (cls == "DHCP") { DHCP d; d.chaddr(HWAddress<6>("00:0a:0b:0c:0d:0e")); d.xid(rng.u32()); c.root.reset((eth / IP("255.255.255.255", "0.0.0.0") / UDP(67, 68) / d).clone()); c.layer = c.root->find_pdu<DHCP>(); c.kind = "eth/ip/udp/dhcp"; }
    else if (cls == "DHCPv6") { DHCPv6 d; d.msg_type(rng.coin() ? DHCPv6::SOLICIT : DHCPv6::REPLY); d.transaction_id(rng.below(1 << 24)); c.root.reset((eth / IPv6("ff02::1:2", "fe80::1") / UDP(547, 546) / d).clone()); c.layer = c.root->find_pdu<DHCPv6>(); c.kind = "eth/ip6/udp/dhcp6"; }
    else if (cls == "ICMPv6") { static const ICMPv6::Types T[] = {ICMPv6::ROUTER_ADVERT, ICMPv6::ROUTER_SOLICIT, ICMPv6::NEIGHBOUR_SOLICIT, ICMPv6::NEIGHBOUR_ADVERT, ICMPv6::REDIRECT};
        static const char* N[] = {"ra", "rs", "ns", "na", "redirect"}; int i = (int)rng.below(5); ICMPv6 m(T[i]); if (i >= 2) m.target_addr("2001:db8::99"); if (i == 4) m.dest_addr("2001:db8::77");
        c.root.reset((eth / IPv6("ff02::1", "fe80::1") / m).clone()); c.layer = c.root->find_pdu<ICMPv6>(); c.kind = std::string("eth/ip6/icmp6-") + N[i]; }
    else if (cls == "Dot11") { int i = (int)rng.below(3); Dot11ManagementFrame* m;
        if (i == 0) { Dot11Beacon* b = new Dot11Beacon("ff:ff:ff:ff:ff:ff", "00:01:02:03:04:05"); b->interval(100); m = b; c.kind = "dot11-beacon"; }
        else if (i == 1) { Dot11ProbeResponse* b = new Dot11ProbeResponse("00:0a:0b:0c:0d:0e", "00:01:02:03:04:05"); b->interval(100); m = b; c.kind = "dot11-probe-response"; }
        else { Dot11AssocRequest* b = new Dot11AssocRequest("00:01:02:03:04:05", "00:0a:0b:0c:0d:0e"); b->listen_interval(10); m = b; c.kind = "dot11-assoc-request"; }
        m->addr3("00:01:02:03:04:05"); c.root.reset(m); c.layer = m; }
    else if (cls == "PPPoE") { static const uint8_t CODES[] = {0x09, 0x07, 0x19, 0x65, 0xa7}; PPPoE p; p.code(CODES[rng.below(5)]); c.root.reset((eth / p).clone()); c.layer = c.root->find_pdu<PPPoE>(); c.kind = "eth/pppoe-discovery"; }
    else throw std::logic_error("driver: unknown class " + cls);
    if (!c.layer) throw std::logic_error("driver: carrier without layer");
}
// parse the serialisation from the link layer and find the layer of the class in it
static void reparse(const std::string& cls, const Bytes& b, Carrier& c) {
    if (cls == "Dot11") { c.root.reset(Dot11::from_bytes(&b[0], (uint32_t)b.size())); Dot11ManagementFrame* m = dynamic_cast<Dot11ManagementFrame*>(c.root.get()); if (!m) throw std::runtime_error("parsed frame is not a management frame"); c.layer = m; return; }
    c.root.reset(new EthernetII(&b[0], (uint32_t)b.size()));
    if (cls == "TCP") c.layer = &c.root->rfind_pdu<TCP>();
    else if (cls == "IP") c.layer = &c.root->rfind_pdu<IP>();
    else if (cls == "ICMPv6") c.layer = &c.root->rfind_pdu<ICMPv6>();
    else if (cls == "PPPoE") c.layer = &c.root->rfind_pdu<PPPoE>();
    else if (cls == "DHCP") { c.root->rfind_pdu<UDP>(); c.extra.reset(new DHCP(c.root->rfind_pdu<RawPDU>().to<DHCP>())); c.layer = c.extra.get(); }
    else if (cls == "DHCPv6") { c.root->rfind_pdu<UDP>(); c.extra.reset(new DHCPv6(c.root->rfind_pdu<RawPDU>().to<DHCPv6>())); c.layer = c.extra.get(); }
}

// ------------------------------------------------------------------------------------------------ scenario
static std::string tname(const std::exception& e) { int st = 0; char* d = abi::__cxa_demangle(typeid(e).name(), 0, 0, &st); std::string r = (st == 0 && d) ? d : typeid(e).name(); free(d); return r; }
struct Reading { bool ok; std::string thrown; Val v; Reading() : ok(false) {}
    void json(vh::W& w) const { w.O().kv("ok", ok).kv("thrown", thrown).key("v"); if (ok) v.json(w); else w.v(0); w.E(); } };
static Reading read(const Entry& e, const PDU* layer) { Reading r; try { r.v = e.get(layer); r.ok = true; } catch (std::exception& x) { r.thrown = tname(x); } return r; }

static void scenario(const vh::Json& sc, vh::Out& out, vh::Rng& rng, const vh::Args&) {
    if (REG.empty()) register_all();
    const std::string cls = sc["cls"].str(); const vh::Json& steps = sc["steps"]; const size_t n = steps.size();
    Carrier c; build(cls, rng, c);
    out.begin("\"cls\":\"" + cls + "\",\"carrier\":\"" + c.kind + "\",\"nsteps\":" + std::to_string(n));
    std::vector<const Entry*> ent(n); std::vector<Val> val(n); std::vector<std::string> set_thrown(n); std::vector<Reading> got(n), later(n), back(n);
    for (size_t i = 0; i < n; ++i) {
        std::map<std::string, Entry>::const_iterator it = REG[cls].find(steps[i]["opt"].str());
        if (it == REG[cls].end()) throw std::logic_error("driver: no binding for " + cls + "." + steps[i]["opt"].str());
        ent[i] = &it->second; val[i] = concretise(steps[i]["shape"], rng);
        try { ent[i]->set(c.layer, val[i]); } catch (std::exception& x) { set_thrown[i] = tname(x); }
        got[i] = read(*ent[i], c.layer);
    }
    for (size_t i = 0; i < n; ++i) later[i] = (i + 1 == n) ? got[i] : read(*ent[i], c.layer);
    if (cls == "DHCP" && rng.coin()) static_cast<DHCP*>(c.layer)->end();      // RFC 2131: the options end with the "end" option
    Bytes bytes; std::string ser_thrown;
    try { bytes = c.root->serialize(); } catch (std::exception& x) { ser_thrown = tname(x); }
    Carrier q; std::string parse_thrown;
    if (ser_thrown.empty()) { try { reparse(cls, bytes, q); } catch (std::exception& x) { parse_thrown = tname(x); q.layer = 0; } }
    for (size_t i = 0; i < n; ++i) {
        if (!ser_thrown.empty()) back[i].thrown = "serialize: " + ser_thrown; else if (!q.layer) back[i].thrown = "parse: " + parse_thrown; else back[i] = read(*ent[i], q.layer);
        vh::W w; w.O().kv("e", "opt").kv("cls", cls).kv("opt", steps[i]["opt"].str()).kv("idx", (long)(i + 1)).key("val"); val[i].json(w);
        if (i + 1 == n && sc["emit_bytes"].truth()) w.kbytes("wire", bytes);      // for C01: the packet as a base for fault injection
        w.kv("set_thrown", set_thrown[i]).key("got"); got[i].json(w); w.key("later"); later[i].json(w); w.kv("ser_thrown", ser_thrown).kv("size", (long)bytes.size()).key("back"); back[i].json(w); w.E();
        out.event(w);
    }
    out.end();
}
int main(int argc, char** argv) { return vh::run(argc, argv, scenario); }
