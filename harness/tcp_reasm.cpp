// C06 replay driver: arrival schedules (exported by TLC from ReassemblyGen, or seeded walks over the same
// alphabet) are fed to the real DataTracker, to a Flow via real IP|IPv6/TCP/RawPDU packets, and to the
// legacy TCPStreamFollower after a scripted handshake, at initial sequence numbers around 0, 2^31 and 2^32.
// Logged in logical coordinates (offset from the ISN) so that TLC's 32-bit integers are never exceeded.
#include "vh.h"
#include <sanitizer/lsan_interface.h>
#include <memory>
#include <tins/tcp_ip/data_tracker.h>
#include <tins/tcp_ip/flow.h>
#include <tins/tcp_stream.h>
#include <tins/ip.h>
#include <tins/ipv6.h>
#include <tins/tcp.h>
#include <tins/rawpdu.h>
#include <tins/ethernetII.h>
#include <algorithm>
using namespace Tins;
using namespace Tins::TCPIP;

static uint8_t stream_byte(long p) { return p >= 0 ? (uint8_t)((p % 251) + 1) : 0; }
static std::vector<uint8_t> seg_bytes(long off, long len) { std::vector<uint8_t> v; for (long p = off; p < off + len; ++p) v.push_back(stream_byte(p)); return v; }

template <class Map> static void log_buffer(vh::W& w, const Map& m, uint32_t isn) {
    std::vector<std::pair<int32_t, const std::vector<uint8_t>*> > chunks;
    for (typename Map::const_iterator it = m.begin(); it != m.end(); ++it) chunks.push_back(std::make_pair((int32_t)(it->first - isn), &it->second));
    std::sort(chunks.begin(), chunks.end());
    w.key("buf").A();
    for (size_t i = 0; i < chunks.size(); ++i) { w.O().kv("off", (long long)chunks[i].first).kbytes("b", *chunks[i].second).E(); }
    w.E();
}

static std::vector<uint32_t> pick_isns(long L, long n, vh::Rng& rng) {
    std::vector<uint32_t> r;
    // one ISN such that the 2^32 wrap falls inside (or right at the edges of) the stream
    r.push_back((uint32_t)(0u - (uint32_t)rng.range(0, (int)L + 2)));
    const uint32_t table[] = {0u, 1u, 2u, 0x7fffffffu, 0x80000000u, 0x80000001u, 0xffffffffu, 0xfffffffeu};
    while ((long)r.size() < n) {
        uint32_t c = rng.below(4) == 0 ? rng.u32() : (rng.coin() ? table[rng.below(8)] : (uint32_t)(0x80000000u - (uint32_t)rng.range(0, (int)L + 2)));
        r.push_back(c);
    }
    return r;
}

static void run_tracker(const vh::Json& segs, uint32_t isn, vh::Out& out, const std::string& cfg) {
    out.begin(cfg + ",\"obj\":\"tracker\"");
    DataTracker t(isn);
    for (size_t i = 0; i < segs.size(); ++i) {
        long off = segs[i][0].num(), len = segs[i][1].num();
        bool ret = t.process_payload(isn + (uint32_t)off, seg_bytes(off, len));
        vh::W w; w.O().kv("e", "seg").kv("off", off).kv("len", len).kv("ret", ret).kv("seq", (long long)(int32_t)(t.sequence_number() - isn));
        w.kbytes("deliv", t.payload()); t.payload().clear();
        log_buffer(w, t.buffered_payload(), isn);
        w.kv("total", (long long)t.total_buffered_bytes()).E();
        out.event(w);
    }
    out.end();
}

static void run_flow(const vh::Json& segs, uint32_t isn, bool v6, vh::Out& out, const std::string& cfg, vh::Rng& rng) {
    out.begin(cfg + ",\"obj\":\"" + (v6 ? "flow6" : "flow4") + "\"");
    std::vector<uint8_t> got; std::vector<std::pair<long, long> > ooo;
    Flow* fp = v6 ? new Flow(IPv6Address("2001:db8::2"), 80, isn) : new Flow(IPv4Address("10.0.0.2"), 80, isn);
    Flow& f = *fp;
    f.data_callback([&](Flow& fl) { got.insert(got.end(), fl.payload().begin(), fl.payload().end()); fl.payload().clear(); });
    f.out_of_order_callback([&](Flow&, uint32_t s, const Flow::payload_type& p) { ooo.push_back(std::make_pair((long)(int32_t)(s - isn), (long)p.size())); });
    // in the IPv6 runs the segment(s) reaching the highest position of the scenario carry FIN, as the sender's last segment
    // does: "the segments of one direction in any order" includes the final segment overtaking earlier data
    long top = 0; for (size_t i = 0; i < segs.size(); ++i) top = std::max<long>(top, segs[i][0].num() + segs[i][1].num());
    // in half of the runs the direction starts with its SYN (sequence number isn - 1), and the SYN is "duplicated" later: it arrives
    // again at one or two random points between the data segments, as a delayed copy of it would ("with any duplication")
    const bool with_syn = rng.coin();
    auto feed_syn = [&]() { TCP syn(80, 4000); syn.seq(isn - 1); syn.flags(TCP::SYN);
        if (v6) { IPv6 p = IPv6("2001:db8::2", "2001:db8::1") / syn; f.process_packet(p); } else { IP p = IP("10.0.0.2", "10.0.0.1") / syn; f.process_packet(p); } };
    if (with_syn) feed_syn();
    size_t dup1 = with_syn && segs.size() > 1 ? 1 + rng.below((uint32_t)segs.size() - 1) : (size_t)-1, dup2 = with_syn && rng.coin() && segs.size() > 2 ? 1 + rng.below((uint32_t)segs.size() - 1) : (size_t)-1;
    for (size_t i = 0; i < segs.size(); ++i) {
        long off = segs[i][0].num(), len = segs[i][1].num();
        if (i == dup1 || i == dup2) feed_syn();
        got.clear(); ooo.clear();
        TCP tcp(80, 4000); tcp.seq(isn + (uint32_t)off); tcp.flags((v6 && off + len == top) ? (TCP::ACK | TCP::FIN) : TCP::ACK);
        std::vector<uint8_t> b = seg_bytes(off, len);
        if (v6) { IPv6 p = IPv6("2001:db8::2", "2001:db8::1") / tcp / RawPDU(b.begin(), b.end()); f.process_packet(p); }
        else { IP p = IP("10.0.0.2", "10.0.0.1") / tcp / RawPDU(b.begin(), b.end()); f.process_packet(p); }
        // anything the callback did not take (callback is only fired when something was added)
        vh::W w; w.O().kv("e", "seg").kv("off", off).kv("len", len).kv("seq", (long long)(int32_t)(f.sequence_number() - isn));
        got.insert(got.end(), f.payload().begin(), f.payload().end()); f.payload().clear();
        w.kbytes("deliv", got);
        log_buffer(w, f.buffered_payload(), isn);
        w.kv("total", (long long)f.total_buffered_bytes());
        w.key("ooo").A(); for (size_t j = 0; j < ooo.size(); ++j) w.A().v(ooo[j].first).v(ooo[j].second).E(); w.E();
        w.E(); out.event(w);
    }
    delete fp;
    out.end();
}

struct LegacyRec { std::vector<uint8_t> got, other; bool server; int ended; unsigned copies; };
// --own 1 (C12, spec/pdu/Holders + HolderTrace): what the user's packet looks like before and after the follower saw it,
// whether its parent links are sound, and whether anything is leaked once the follower is gone
static void view(vh::W& w, const char* key, PDU* top) { w.key(key).A(); for (PDU* q = top; q; q = q->inner_pdu()) w.A().v((long)q->pdu_type()).v((long)q->header_size()).E(); w.E(); }
static bool links_ok(PDU* top) { if (top->parent_pdu()) return false; for (PDU* q = top; q->inner_pdu(); q = q->inner_pdu()) if (q->inner_pdu()->parent_pdu() != q) return false; return true; }
static void run_legacy(const vh::Json& segs, uint32_t isn, bool server_dir, vh::Out& out, const std::string& cfg, vh::Rng& rng, bool own) {
    out.begin(cfg + ",\"obj\":\"" + (server_dir ? "legacy_s" : "legacy_c") + "\"" + (own ? ",\"ip\":" + std::to_string((long)PDU::IP) + ",\"raw\":" + std::to_string((long)PDU::RAW) : std::string()));
    std::unique_ptr<TCPStreamFollower> fol_p(new TCPStreamFollower()); TCPStreamFollower& fol = *fol_p; LegacyRec rec; rec.server = server_dir; rec.ended = 0; rec.copies = 0;
    auto data_fun = [&](TCPStream& s) { // the user may keep a copy of the stream (copy construction and copy assignment clone whatever is still buffered)
                                         if (rec.copies++ % 3 == 0) { TCPStream cp(s); TCPStream cp2(cp); cp2 = s; }
                                         TCPStream::payload_type& p = rec.server ? s.server_payload() : s.client_payload(); rec.got.insert(rec.got.end(), p.begin(), p.end()); p.clear();
                                         TCPStream::payload_type& q = rec.server ? s.client_payload() : s.server_payload(); rec.other.insert(rec.other.end(), q.begin(), q.end()); q.clear(); };
    auto end_fun = [&](TCPStream&) { rec.ended++; };
    const char* C = "192.168.0.1"; const char* S = "192.168.0.2";
    // the opposite direction carries data of its own (three 4-octet segments, the middle one first so that it waits in that
    // direction's buffer), at sequence numbers far from, just ahead of, or just behind the direction under test
    uint32_t other = 0x12345678u; { int k = (int)rng.below(4); if (k == 1) other = isn + rng.below(12); else if (k == 2) other = isn - 1 - rng.below(40); else if (k == 3) other = isn + 0x80000000u; }
    const bool both_dirs = rng.below(3) != 0;
    bool followed = false;      // a stream for this 4-tuple exists (from the SYN until both sides have finished)
    auto feed = [&](PDU& pdu) { std::vector<PDU*> v(1, &pdu);
        vh::W ow; if (own) { ow.O().kv("e", "feed").kv("holder", "follower").kv("status", "").kv("followed", followed && rec.ended == 0); view(ow, "before", &pdu); }
        fol.follow_streams(v.begin(), v.end(), data_fun, end_fun);
        if (own) { view(ow, "after", &pdu); ow.kv("links_ok", links_ok(&pdu)).E(); out.event(ow); } };
    // handshake: the direction under test starts its data at `isn`
    { TCP t(80, 4000); t.flags(TCP::SYN); t.seq(server_dir ? other - 1 : isn - 1); EthernetII p = EthernetII() / IP(S, C) / t; feed(p); followed = true;
      // the SYN may be retransmitted, and a stray ACK may arrive, before the SYN|ACK is seen
      int pre = (int)rng.below(3);
      if (pre == 1) { EthernetII p2 = EthernetII() / IP(S, C) / t; feed(p2); }
      if (pre == 2) { TCP a(80, 4000); a.flags(TCP::ACK); a.seq(server_dir ? other : isn); a.ack_seq(0x01020304); EthernetII p2 = EthernetII() / IP(S, C) / a; feed(p2); } }
    { TCP t(4000, 80); t.flags(TCP::SYN | TCP::ACK); t.seq(server_dir ? isn - 1 : other - 1); t.ack_seq(server_dir ? other : isn); EthernetII p = EthernetII() / IP(C, S) / t; feed(p); }
    const int oorder[3] = {1, 0, 2}; int onext = 0;
    auto feed_other = [&]() { if (!both_dirs || onext >= 3) return; int c = oorder[onext++]; std::vector<uint8_t> ob(4, (uint8_t)(0xd0 + c));
        TCP t(server_dir ? 80 : 4000, server_dir ? 4000 : 80); t.flags(TCP::ACK); t.seq(other + 4 * (uint32_t)c);
        EthernetII p = EthernetII() / (server_dir ? IP(S, C) : IP(C, S)) / t / RawPDU(ob.begin(), ob.end()); feed(p); };
    for (size_t i = 0; i < segs.size(); ++i) {
        long off = segs[i][0].num(), len = segs[i][1].num();
        if (rng.coin()) feed_other();
        rec.got.clear();
        std::vector<uint8_t> b = seg_bytes(off, len);
        TCP t(server_dir ? 4000 : 80, server_dir ? 80 : 4000); t.flags(TCP::ACK); t.seq(isn + (uint32_t)off);
        EthernetII p = EthernetII() / (server_dir ? IP(C, S) : IP(S, C)) / t / RawPDU(b.begin(), b.end());
        feed(p);
        if (own) continue;
        vh::W w; w.O().kv("e", "lseg").kv("off", off).kv("len", len).kbytes("deliv", rec.got).E();
        out.event(w);
    }
    // how the connection ends, with whatever is still buffered behind a hole: nothing more / FIN or RST of the side under test /
    // both sides finish (the follower then forgets the stream) - no delivery claim is made about these packets (C06 is about the
    // segments above); they are there for the sanitizers and for the ownership part of C12
    long L = 0; for (size_t i = 0; i < segs.size(); ++i) L = std::max<long>(L, segs[i][0].num() + segs[i][1].num());
    int ending = (int)rng.below(4);
    if (ending >= 1) { TCP t(server_dir ? 4000 : 80, server_dir ? 80 : 4000); t.flags(ending == 2 ? TCP::RST : (TCP::FIN | TCP::ACK)); t.seq(isn + (uint32_t)L);
        EthernetII p = EthernetII() / (server_dir ? IP(C, S) : IP(S, C)) / t; feed(p); }
    if (ending == 3) { TCP t(server_dir ? 80 : 4000, server_dir ? 4000 : 80); t.flags(TCP::FIN | TCP::ACK); t.seq(other);
        EthernetII p = EthernetII() / (server_dir ? IP(S, C) : IP(C, S)) / t; feed(p); }
    if (own) { fol_p.reset(); int leaks = __lsan_do_recoverable_leak_check(); vh::W w; w.O().kv("e", "end").kv("leaks", leaks).E(); out.event(w); }
    out.end();
}

static void scenario(const vh::Json& sc, vh::Out& out, vh::Rng& rng, const vh::Args& args) {
    const vh::Json& segs = sc.kind == vh::Json::Obj ? sc["segs"] : sc;
    long L = 0; for (size_t i = 0; i < segs.size(); ++i) L = std::max<long>(L, segs[i][0].num() + segs[i][1].num());
    long nisn = args.num("isns", 3);
    std::string objs = args.get("objects", "tracker,flow,legacy");
    std::vector<uint32_t> isns = pick_isns(L, nisn, rng);
    for (size_t i = 0; i < isns.size(); ++i) {
        std::string cfg = "\"L\":" + std::to_string(L) + ",\"isn\":\"" + std::to_string(isns[i]) + "\"";
        if (objs.find("tracker") != std::string::npos) run_tracker(segs, isns[i], out, cfg);
        if (objs.find("flow") != std::string::npos) { bool v6 = rng.coin(); run_flow(segs, isns[i], v6, out, cfg, rng); }
        if (objs.find("legacy") != std::string::npos) { bool sd = rng.coin(); run_legacy(segs, isns[i], sd, out, cfg, rng, args.num("own", 0) != 0); }
    }
}

int main(int argc, char** argv) { return vh::run(argc, argv, scenario); }
