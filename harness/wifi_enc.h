// Independent 802.11 encryptor for the C09 replay driver (DESIGN.md section 4, C09).
//
// Nothing in this file uses libtins.  Every primitive is written from its public description:
//   CRC-32            IEEE 802.3 frame check sequence, bit-serial (reflected polynomial 0xEDB88320)
//   RC4               key schedule + PRGA as published (Schneier, Applied Cryptography; RFC 6229 has the key streams)
//   WEP               IEEE 802.11-2012 11.2.2: RC4(IV || key) over  MSDU || ICV(CRC-32, little endian)
//   TKIP S-box        16-bit table derived from the AES S-box (GF(2^8) inverse + affine map): entry = (2*s)<<8 | 3*s
//   TKIP key mixing   IEEE 802.11-2012 11.4.2.5 (phase 1 / phase 2 pseudo-code), Michael 11.4.2.3
//   TKIP MPDU         11.4.2: RC4(per-packet key) over  MSDU || Michael MIC || ICV
//   CCMP              11.4.3: AES-128-CCM (M = 8, L = 2) through OpenSSL's EVP_aes_128_ccm (libtins hand-rolls CTR+CBC-MAC);
//                     nonce = priority || A2 || PN (11.4.3.3.4), AAD per 11.4.3.3.3
//   PMK               PBKDF2-HMAC-SHA1(passphrase, ssid, 4096, 32)  (11.6.1.2 / Annex M.4)
//   PTK               PRF-X(PMK, "Pairwise key expansion", min(AA,SPA)||max(AA,SPA)||min(ANonce,SNonce)||max(..))  (11.6.1.3)
//   EAPOL-Key MIC     HMAC-SHA1-128 (key descriptor version 2) or HMAC-MD5 (version 1) with the KCK over the EAPOL frame
//                     with a zeroed MIC field (11.6.2)
// The code is validated at start-up against the captured frames of libtins' own tests (wifi_testvec.h), against the
// Michael test vectors and the TKIP key-mixing test vectors of the standard, and RC4 / CRC-32 check values.
#ifndef VERIF_WIFI_ENC_H
#define VERIF_WIFI_ENC_H
#include <cstdint>
#include <cstring>
#include <string>
#include <vector>
#include <algorithm>
#include <openssl/evp.h>
#include <openssl/hmac.h>

namespace wenc {
typedef std::vector<uint8_t> Bytes;

inline void put(Bytes& b, const uint8_t* p, size_t n) { b.insert(b.end(), p, p + n); }
inline void put(Bytes& b, const Bytes& x) { b.insert(b.end(), x.begin(), x.end()); }

// ------------------------------------------------------------------ CRC-32 (bit serial)
inline uint32_t crc32(const uint8_t* p, size_t n) {
    uint32_t c = 0xFFFFFFFFu;
    for (size_t i = 0; i < n; ++i) {
        c ^= p[i];
        for (int k = 0; k < 8; ++k) c = (c & 1) ? (c >> 1) ^ 0xEDB88320u : (c >> 1);
    }
    return ~c;
}
inline void put_le32(Bytes& b, uint32_t v) { for (int i = 0; i < 4; ++i) b.push_back((uint8_t)(v >> (8 * i))); }

// ------------------------------------------------------------------ RC4
struct RC4 {
    uint8_t S[256]; unsigned i, j;
    RC4(const uint8_t* key, size_t klen) : i(0), j(0) {
        for (unsigned k = 0; k < 256; ++k) S[k] = (uint8_t)k;
        unsigned jj = 0;
        for (unsigned k = 0; k < 256; ++k) { jj = (jj + S[k] + key[k % klen]) & 255; std::swap(S[k], S[jj]); }
    }
    uint8_t next() { i = (i + 1) & 255; j = (j + S[i]) & 255; std::swap(S[i], S[j]); return S[(S[i] + S[j]) & 255]; }
    void crypt(const uint8_t* in, uint8_t* out, size_t n) { for (size_t k = 0; k < n; ++k) out[k] = in[k] ^ next(); }
};

// ------------------------------------------------------------------ WEP
// body = IV[0..2] || (keyid << 6) || RC4(IV || key)(plain || ICV)
inline Bytes wep_body(const Bytes& key, const uint8_t iv[3], unsigned keyid, const Bytes& plain) {
    Bytes seed(iv, iv + 3); put(seed, key);
    Bytes clear(plain); put_le32(clear, crc32(plain.data(), plain.size()));
    Bytes out(iv, iv + 3); out.push_back((uint8_t)(keyid << 6));
    out.resize(4 + clear.size());
    RC4 r(seed.data(), seed.size()); r.crypt(clear.data(), out.data() + 4, clear.size());
    return out;
}
// independent decapsulation (used by the self-test only): true iff the ICV verifies
inline bool wep_open(const Bytes& key, const Bytes& body, Bytes& plain) {
    if (body.size() < 8) return false;
    Bytes seed(body.begin(), body.begin() + 3); put(seed, key);
    Bytes clear(body.size() - 4);
    RC4 r(seed.data(), seed.size()); r.crypt(body.data() + 4, clear.data(), clear.size());
    size_t n = clear.size() - 4; uint32_t c = crc32(clear.data(), n);
    for (int i = 0; i < 4; ++i) if (clear[n + i] != (uint8_t)(c >> (8 * i))) return false;
    plain.assign(clear.begin(), clear.begin() + n); return true;
}

// ------------------------------------------------------------------ AES S-box from first principles, TKIP S-box
inline uint8_t gmul(uint8_t a, uint8_t b) { uint8_t p = 0; for (int i = 0; i < 8; ++i) { if (b & 1) p ^= a; bool hi = a & 0x80; a <<= 1; if (hi) a ^= 0x1B; b >>= 1; } return p; }
inline uint8_t aes_sbox(uint8_t x) {
    uint8_t inv = 0;
    if (x) for (unsigned c = 1; c < 256; ++c) if (gmul(x, (uint8_t)c) == 1) { inv = (uint8_t)c; break; }
    uint8_t s = inv, r = inv;
    for (int i = 0; i < 4; ++i) { r = (uint8_t)((r << 1) | (r >> 7)); s ^= r; }
    return s ^ 0x63;
}
struct TkipSbox {
    uint16_t t[256];
    TkipSbox() { for (unsigned i = 0; i < 256; ++i) { uint8_t s = aes_sbox((uint8_t)i); uint8_t s2 = gmul(s, 2), s3 = (uint8_t)(s2 ^ s); t[i] = (uint16_t)((s2 << 8) | s3); } }
    // _S_(v) of the standard: Sbox[0][Lo8(v)] ^ Sbox[1][Hi8(v)], the second table being the first with its bytes swapped
    uint16_t S(uint16_t v) const { uint16_t hi = t[v >> 8]; return (uint16_t)(t[v & 0xff] ^ (uint16_t)((hi << 8) | (hi >> 8))); }
};
inline const TkipSbox& tkip_sbox() { static TkipSbox s; return s; }
inline uint16_t mk16(uint8_t hi, uint8_t lo) { return (uint16_t)((hi << 8) | lo); }
inline uint16_t rotr1(uint16_t v) { return (uint16_t)((v >> 1) | (v << 15)); }

// Phase 1: TTAK := Phase1(TK, TA, IV32)   (IV32 = TSC5 TSC4 TSC3 TSC2, TSC2 least significant)
inline void tkip_phase1(const uint8_t tk[16], const uint8_t ta[6], uint32_t iv32, uint16_t p1k[5]) {
    const TkipSbox& sb = tkip_sbox();
    p1k[0] = (uint16_t)(iv32 & 0xffff);
    p1k[1] = (uint16_t)(iv32 >> 16);
    p1k[2] = mk16(ta[1], ta[0]);
    p1k[3] = mk16(ta[3], ta[2]);
    p1k[4] = mk16(ta[5], ta[4]);
    for (unsigned i = 0; i < 8; ++i) {
        unsigned j = 2 * (i & 1);
        p1k[0] = (uint16_t)(p1k[0] + sb.S(p1k[4] ^ mk16(tk[1 + j], tk[0 + j])));
        p1k[1] = (uint16_t)(p1k[1] + sb.S(p1k[0] ^ mk16(tk[5 + j], tk[4 + j])));
        p1k[2] = (uint16_t)(p1k[2] + sb.S(p1k[1] ^ mk16(tk[9 + j], tk[8 + j])));
        p1k[3] = (uint16_t)(p1k[3] + sb.S(p1k[2] ^ mk16(tk[13 + j], tk[12 + j])));
        p1k[4] = (uint16_t)(p1k[4] + sb.S(p1k[3] ^ mk16(tk[1 + j], tk[0 + j])) + i);
    }
}
// Phase 2: RC4KEY := Phase2(TTAK, TK, IV16)
inline void tkip_phase2(const uint16_t p1k[5], const uint8_t tk[16], uint16_t iv16, uint8_t rc4key[16]) {
    const TkipSbox& sb = tkip_sbox();
    uint16_t ppk[6];
    for (int i = 0; i < 5; ++i) ppk[i] = p1k[i];
    ppk[5] = (uint16_t)(p1k[4] + iv16);
    ppk[0] = (uint16_t)(ppk[0] + sb.S(ppk[5] ^ mk16(tk[1], tk[0])));
    ppk[1] = (uint16_t)(ppk[1] + sb.S(ppk[0] ^ mk16(tk[3], tk[2])));
    ppk[2] = (uint16_t)(ppk[2] + sb.S(ppk[1] ^ mk16(tk[5], tk[4])));
    ppk[3] = (uint16_t)(ppk[3] + sb.S(ppk[2] ^ mk16(tk[7], tk[6])));
    ppk[4] = (uint16_t)(ppk[4] + sb.S(ppk[3] ^ mk16(tk[9], tk[8])));
    ppk[5] = (uint16_t)(ppk[5] + sb.S(ppk[4] ^ mk16(tk[11], tk[10])));
    ppk[0] = (uint16_t)(ppk[0] + rotr1(ppk[5] ^ mk16(tk[13], tk[12])));
    ppk[1] = (uint16_t)(ppk[1] + rotr1(ppk[0] ^ mk16(tk[15], tk[14])));
    ppk[2] = (uint16_t)(ppk[2] + rotr1(ppk[1]));
    ppk[3] = (uint16_t)(ppk[3] + rotr1(ppk[2]));
    ppk[4] = (uint16_t)(ppk[4] + rotr1(ppk[3]));
    ppk[5] = (uint16_t)(ppk[5] + rotr1(ppk[4]));
    rc4key[0] = (uint8_t)(iv16 >> 8);
    rc4key[1] = (uint8_t)(((iv16 >> 8) | 0x20) & 0x7f);
    rc4key[2] = (uint8_t)(iv16 & 0xff);
    rc4key[3] = (uint8_t)(((ppk[5] ^ mk16(tk[1], tk[0])) >> 1) & 0xff);
    for (int i = 0; i < 6; ++i) { rc4key[4 + 2 * i] = (uint8_t)(ppk[i] & 0xff); rc4key[5 + 2 * i] = (uint8_t)(ppk[i] >> 8); }
}

// ------------------------------------------------------------------ Michael (11.4.2.3)
struct Michael {
    uint32_t l, r; uint8_t buf[4]; int nbuf;
    static uint32_t rol(uint32_t v, int n) { return (v << n) | (v >> (32 - n)); }
    static uint32_t ror(uint32_t v, int n) { return (v >> n) | (v << (32 - n)); }
    static uint32_t xswap(uint32_t v) { return ((v & 0xff00ff00u) >> 8) | ((v & 0x00ff00ffu) << 8); }
    static uint32_t le32(const uint8_t* p) { return (uint32_t)p[0] | ((uint32_t)p[1] << 8) | ((uint32_t)p[2] << 16) | ((uint32_t)p[3] << 24); }
    explicit Michael(const uint8_t key[8]) : l(le32(key)), r(le32(key + 4)), nbuf(0) {}
    void block(uint32_t m) {
        l ^= m;
        r ^= rol(l, 17); l += r;
        r ^= xswap(l);   l += r;
        r ^= rol(l, 3);  l += r;
        r ^= ror(l, 2);  l += r;
    }
    void update(const uint8_t* p, size_t n) { for (size_t i = 0; i < n; ++i) { buf[nbuf++] = p[i]; if (nbuf == 4) { block(le32(buf)); nbuf = 0; } } }
    void finish(uint8_t mic[8]) {
        // padding: 0x5a, then 4..7 zero octets so that the total length is a multiple of four
        static const uint8_t pad[8] = {0x5a, 0, 0, 0, 0, 0, 0, 0};
        size_t n = 5 + (size_t)((4 - ((nbuf + 5) & 3)) & 3);   // 0x5a + at least 4 zeros, rounded up
        update(pad, n);
        for (int i = 0; i < 4; ++i) { mic[i] = (uint8_t)(l >> (8 * i)); mic[4 + i] = (uint8_t)(r >> (8 * i)); }
    }
};
inline void michael_msdu(const uint8_t key[8], const uint8_t da[6], const uint8_t sa[6], uint8_t priority, const Bytes& data, uint8_t mic[8]) {
    Michael m(key); uint8_t hdr[16]; memcpy(hdr, da, 6); memcpy(hdr + 6, sa, 6); hdr[12] = priority; hdr[13] = hdr[14] = hdr[15] = 0;
    m.update(hdr, 16); m.update(data.data(), data.size()); m.finish(mic);
}

// ------------------------------------------------------------------ TKIP MPDU (one MSDU = one MPDU, no fragmentation)
// tsc[0] = TSC0 (least significant) ... tsc[5] = TSC5
inline void tkip_rc4key(const uint8_t tk[16], const uint8_t ta[6], const uint8_t tsc[6], uint8_t rc4key[16]) {
    uint32_t iv32 = (uint32_t)tsc[2] | ((uint32_t)tsc[3] << 8) | ((uint32_t)tsc[4] << 16) | ((uint32_t)tsc[5] << 24);
    uint16_t iv16 = (uint16_t)(tsc[0] | (tsc[1] << 8));
    uint16_t p1k[5]; tkip_phase1(tk, ta, iv32, p1k); tkip_phase2(p1k, tk, iv16, rc4key);
}
inline Bytes tkip_body(const uint8_t tk[16], const uint8_t mickey[8], const uint8_t ta[6], const uint8_t da[6], const uint8_t sa[6],
                       uint8_t priority, const uint8_t tsc[6], unsigned keyid, const Bytes& plain) {
    uint8_t rc4key[16]; tkip_rc4key(tk, ta, tsc, rc4key);
    uint8_t mic[8]; michael_msdu(mickey, da, sa, priority, plain, mic);
    Bytes clear(plain); put(clear, mic, 8); put_le32(clear, crc32(clear.data(), clear.size()));
    Bytes out; out.push_back(tsc[1]); out.push_back((uint8_t)((tsc[1] | 0x20) & 0x7f)); out.push_back(tsc[0]);
    out.push_back((uint8_t)((keyid << 6) | 0x20)); out.push_back(tsc[2]); out.push_back(tsc[3]); out.push_back(tsc[4]); out.push_back(tsc[5]);
    out.resize(8 + clear.size());
    RC4 r(rc4key, 16); r.crypt(clear.data(), out.data() + 8, clear.size());
    return out;
}
// independent decapsulation for the self-test: checks ICV and Michael
inline bool tkip_open(const uint8_t tk[16], const uint8_t mickey[8], const uint8_t ta[6], const uint8_t da[6], const uint8_t sa[6],
                      uint8_t priority, const Bytes& body, Bytes& plain, bool& michael_ok) {
    if (body.size() < 20) return false;
    uint8_t tsc[6] = {body[2], body[0], body[4], body[5], body[6], body[7]};
    uint8_t rc4key[16]; tkip_rc4key(tk, ta, tsc, rc4key);
    Bytes clear(body.size() - 8); RC4 r(rc4key, 16); r.crypt(body.data() + 8, clear.data(), clear.size());
    size_t n = clear.size() - 4; uint32_t c = crc32(clear.data(), n);
    for (int i = 0; i < 4; ++i) if (clear[n + i] != (uint8_t)(c >> (8 * i))) return false;
    plain.assign(clear.begin(), clear.begin() + (n - 8));
    uint8_t mic[8]; michael_msdu(mickey, da, sa, priority, plain, mic);
    michael_ok = memcmp(mic, clear.data() + n - 8, 8) == 0;
    return true;
}

// ------------------------------------------------------------------ 802.11 data header
struct Hdr {
    uint8_t fc0, fc1; uint16_t dur; uint8_t a1[6], a2[6], a3[6], a4[6]; uint16_t sc; bool has_a4, has_qos; uint8_t qc0, qc1;
    Hdr() : fc0(0x08), fc1(0), dur(0), sc(0), has_a4(false), has_qos(false), qc0(0), qc1(0) { memset(a1, 0, 6); memset(a2, 0, 6); memset(a3, 0, 6); memset(a4, 0, 6); }
    bool to_ds() const { return fc1 & 1; }
    bool from_ds() const { return fc1 & 2; }
    Bytes bytes() const {
        Bytes b; b.push_back(fc0); b.push_back(fc1); b.push_back((uint8_t)dur); b.push_back((uint8_t)(dur >> 8));
        put(b, a1, 6); put(b, a2, 6); put(b, a3, 6); b.push_back((uint8_t)sc); b.push_back((uint8_t)(sc >> 8));
        if (has_a4) put(b, a4, 6);
        if (has_qos) { b.push_back(qc0); b.push_back(qc1); }
        return b;
    }
    const uint8_t* da() const { return to_ds() ? a3 : a1; }                       // 802.11-2012 table 8-19
    const uint8_t* sa() const { return from_ds() ? (to_ds() ? a4 : a3) : a2; }
    uint8_t priority() const { return has_qos ? (uint8_t)(qc0 & 0x0f) : 0; }
    // AAD, 11.4.3.3.3: FC with subtype bits 4-6, Retry, PwrMgt, MoreData masked to 0 and Protected set to 1 (Order masked
    // when a QoS Control field is present); A1 A2 A3; SC with the sequence number masked; A4 if present; QC = TID only
    Bytes aad() const {
        Bytes a; a.push_back((uint8_t)(fc0 & 0x8f));
        uint8_t f1 = (uint8_t)((fc1 & ~0x38) | 0x40); if (has_qos) f1 &= 0x7f; a.push_back(f1);
        put(a, a1, 6); put(a, a2, 6); put(a, a3, 6); a.push_back((uint8_t)(sc & 0x0f)); a.push_back(0);
        if (has_a4) put(a, a4, 6);
        if (has_qos) { a.push_back((uint8_t)(qc0 & 0x0f)); a.push_back(0); }
        return a;
    }
};
// parse the header of a data frame (self-test only); returns header length or 0
inline size_t parse_hdr(const uint8_t* p, size_t n, Hdr& h) {
    if (n < 24) return 0;
    h.fc0 = p[0]; h.fc1 = p[1]; h.dur = (uint16_t)(p[2] | (p[3] << 8)); memcpy(h.a1, p + 4, 6); memcpy(h.a2, p + 10, 6); memcpy(h.a3, p + 16, 6);
    h.sc = (uint16_t)(p[22] | (p[23] << 8)); size_t o = 24;
    h.has_a4 = (h.fc1 & 3) == 3; if (h.has_a4) { if (n < o + 6) return 0; memcpy(h.a4, p + o, 6); o += 6; }
    h.has_qos = ((h.fc0 >> 2) & 3) == 2 && (h.fc0 & 0x80); if (h.has_qos) { if (n < o + 2) return 0; h.qc0 = p[o]; h.qc1 = p[o + 1]; o += 2; }
    return o;
}

// ------------------------------------------------------------------ CCMP through OpenSSL's CCM mode
// pn[0] = PN0 (least significant) ... pn[5] = PN5
inline void ccmp_nonce(const Hdr& h, const uint8_t pn[6], uint8_t nonce[13]) {
    nonce[0] = h.priority(); memcpy(nonce + 1, h.a2, 6); for (int i = 0; i < 6; ++i) nonce[7 + i] = pn[5 - i];
}
inline Bytes ccmp_body(const uint8_t tk[16], const Hdr& h, const uint8_t pn[6], unsigned keyid, const Bytes& plain) {
    uint8_t nonce[13]; ccmp_nonce(h, pn, nonce); Bytes aad = h.aad();
    Bytes out; out.push_back(pn[0]); out.push_back(pn[1]); out.push_back(0); out.push_back((uint8_t)((keyid << 6) | 0x20));
    out.push_back(pn[2]); out.push_back(pn[3]); out.push_back(pn[4]); out.push_back(pn[5]);
    out.resize(8 + plain.size() + 8);
    EVP_CIPHER_CTX* c = EVP_CIPHER_CTX_new(); int len = 0; bool ok = true;
    ok &= EVP_EncryptInit_ex(c, EVP_aes_128_ccm(), 0, 0, 0) == 1;
    ok &= EVP_CIPHER_CTX_ctrl(c, EVP_CTRL_CCM_SET_IVLEN, 13, 0) == 1;
    ok &= EVP_CIPHER_CTX_ctrl(c, EVP_CTRL_CCM_SET_TAG, 8, 0) == 1;
    ok &= EVP_EncryptInit_ex(c, 0, 0, tk, nonce) == 1;
    ok &= EVP_EncryptUpdate(c, 0, &len, 0, (int)plain.size()) == 1;
    ok &= EVP_EncryptUpdate(c, 0, &len, aad.data(), (int)aad.size()) == 1;
    ok &= EVP_EncryptUpdate(c, out.data() + 8, &len, plain.data(), (int)plain.size()) == 1;
    int l2 = 0; ok &= EVP_EncryptFinal_ex(c, out.data() + 8 + len, &l2) == 1;
    ok &= EVP_CIPHER_CTX_ctrl(c, EVP_CTRL_CCM_GET_TAG, 8, out.data() + 8 + plain.size()) == 1;
    EVP_CIPHER_CTX_free(c);
    if (!ok) out.clear();
    return out;
}
inline bool ccmp_open(const uint8_t tk[16], const Hdr& h, const Bytes& body, Bytes& plain) {
    if (body.size() < 17) return false;
    uint8_t pn[6] = {body[0], body[1], body[4], body[5], body[6], body[7]};
    uint8_t nonce[13]; ccmp_nonce(h, pn, nonce); Bytes aad = h.aad();
    size_t n = body.size() - 16; plain.assign(n, 0);
    EVP_CIPHER_CTX* c = EVP_CIPHER_CTX_new(); int len = 0; bool ok = true;
    ok &= EVP_DecryptInit_ex(c, EVP_aes_128_ccm(), 0, 0, 0) == 1;
    ok &= EVP_CIPHER_CTX_ctrl(c, EVP_CTRL_CCM_SET_IVLEN, 13, 0) == 1;
    ok &= EVP_CIPHER_CTX_ctrl(c, EVP_CTRL_CCM_SET_TAG, 8, (void*)(body.data() + 8 + n)) == 1;
    ok &= EVP_DecryptInit_ex(c, 0, 0, tk, nonce) == 1;
    ok &= EVP_DecryptUpdate(c, 0, &len, 0, (int)n) == 1;
    ok &= EVP_DecryptUpdate(c, 0, &len, aad.data(), (int)aad.size()) == 1;
    ok &= EVP_DecryptUpdate(c, plain.data(), &len, body.data() + 8, (int)n) == 1;   // fails if the tag does not verify
    EVP_CIPHER_CTX_free(c);
    return ok;
}

// ------------------------------------------------------------------ key hierarchy
inline Bytes pmk_from_passphrase(const std::string& pass, const std::string& ssid) {
    Bytes pmk(32);
    PKCS5_PBKDF2_HMAC_SHA1(pass.data(), (int)pass.size(), (const unsigned char*)ssid.data(), (int)ssid.size(), 4096, 32, pmk.data());
    return pmk;
}
inline Bytes hmac(const EVP_MD* md, const uint8_t* key, size_t klen, const Bytes& data) {
    Bytes out(EVP_MAX_MD_SIZE); unsigned n = 0;
    HMAC(md, key, (int)klen, data.data(), data.size(), out.data(), &n); out.resize(n); return out;
}
// PRF-(8*outlen) of 11.6.1.2:  R = HMAC-SHA1(K, A || 0 || B || i) for i = 0, 1, ...
inline Bytes prf(const Bytes& key, const std::string& label, const Bytes& data, size_t outlen) {
    Bytes r;
    for (uint8_t i = 0; r.size() < outlen; ++i) {
        Bytes in(label.begin(), label.end()); in.push_back(0); put(in, data); in.push_back(i);
        put(r, hmac(EVP_sha1(), key.data(), key.size(), in));
    }
    r.resize(outlen); return r;
}
inline Bytes ptk(const Bytes& pmk, const uint8_t aa[6], const uint8_t spa[6], const uint8_t anonce[32], const uint8_t snonce[32], size_t outlen) {
    Bytes d;
    if (memcmp(aa, spa, 6) < 0) { put(d, aa, 6); put(d, spa, 6); } else { put(d, spa, 6); put(d, aa, 6); }
    if (memcmp(anonce, snonce, 32) < 0) { put(d, anonce, 32); put(d, snonce, 32); } else { put(d, snonce, 32); put(d, anonce, 32); }
    return prf(pmk, "Pairwise key expansion", d, outlen);
}

// ------------------------------------------------------------------ EAPOL-Key frames (RSN, descriptor type 2), 11.6.2
// key information bits
enum { KI_TYPE_PAIRWISE = 0x0008, KI_INSTALL = 0x0040, KI_ACK = 0x0080, KI_MIC = 0x0100, KI_SECURE = 0x0200, KI_ENCRYPTED = 0x1000 };
inline Bytes eapol_key(unsigned ver, uint16_t key_info_flags, uint16_t key_len, uint64_t replay, const uint8_t nonce[32], const Bytes& key_data) {
    Bytes b; b.push_back(2 /* 802.1X-2004 */); b.push_back(3 /* EAPOL-Key */);
    uint16_t body = (uint16_t)(95 + key_data.size()); b.push_back((uint8_t)(body >> 8)); b.push_back((uint8_t)body);
    b.push_back(2 /* RSN key descriptor */);
    uint16_t ki = (uint16_t)(key_info_flags | ver); b.push_back((uint8_t)(ki >> 8)); b.push_back((uint8_t)ki);
    b.push_back((uint8_t)(key_len >> 8)); b.push_back((uint8_t)key_len);
    for (int i = 7; i >= 0; --i) b.push_back((uint8_t)(replay >> (8 * i)));
    put(b, nonce, 32);
    b.insert(b.end(), 16 + 8 + 8, 0);      // key IV, RSC, reserved
    b.insert(b.end(), 16, 0);              // MIC (offset 81)
    b.push_back((uint8_t)(key_data.size() >> 8)); b.push_back((uint8_t)key_data.size());
    put(b, key_data);
    return b;
}
inline void eapol_mic(Bytes& frame, unsigned ver, const uint8_t kck[16], uint8_t mic_out[16] = 0) {
    Bytes z(frame); std::fill(z.begin() + 81, z.begin() + 97, 0);
    Bytes m = hmac(ver == 1 ? EVP_md5() : EVP_sha1(), kck, 16, z);
    if (mic_out) memcpy(mic_out, m.data(), 16); else memcpy(frame.data() + 81, m.data(), 16);
}
inline Bytes rsn_ie(bool ccmp) {
    static const uint8_t ie_ccmp[] = {0x30, 0x14, 1, 0, 0x00, 0x0f, 0xac, 4, 1, 0, 0x00, 0x0f, 0xac, 4, 1, 0, 0x00, 0x0f, 0xac, 2, 0, 0};
    static const uint8_t ie_tkip[] = {0x30, 0x14, 1, 0, 0x00, 0x0f, 0xac, 2, 1, 0, 0x00, 0x0f, 0xac, 2, 1, 0, 0x00, 0x0f, 0xac, 2, 0, 0};
    return ccmp ? Bytes(ie_ccmp, ie_ccmp + sizeof(ie_ccmp)) : Bytes(ie_tkip, ie_tkip + sizeof(ie_tkip));
}
// message n of the four-way handshake; ptk may be empty for message 1
inline Bytes fourway_msg(int n, bool ccmp, uint64_t replay, const uint8_t anonce[32], const uint8_t snonce[32], const Bytes& ptk_, const Bytes& m3_keydata) {
    unsigned ver = ccmp ? 2 : 1; uint16_t klen = ccmp ? 16 : 32; static const uint8_t zero[32] = {0};
    Bytes f;
    switch (n) {
    case 1: f = eapol_key(ver, KI_TYPE_PAIRWISE | KI_ACK, klen, replay, anonce, Bytes()); return f;
    case 2: f = eapol_key(ver, KI_TYPE_PAIRWISE | KI_MIC, 0, replay, snonce, rsn_ie(ccmp)); break;
    case 3: f = eapol_key(ver, KI_TYPE_PAIRWISE | KI_INSTALL | KI_ACK | KI_MIC | KI_SECURE | KI_ENCRYPTED, klen, replay, anonce, m3_keydata); break;
    default: f = eapol_key(ver, KI_TYPE_PAIRWISE | KI_MIC | KI_SECURE, 0, replay, zero, Bytes()); break;
    }
    eapol_mic(f, ver, ptk_.data());
    return f;
}
static const uint8_t LLC_EAPOL[8] = {0xaa, 0xaa, 0x03, 0, 0, 0, 0x88, 0x8e};

}  // namespace wenc
#endif
