// H3: the repository's OWN unit tests for the TCP/IP stream code (tests/src/tcp_ip_test.cpp, unedited), compiled
// against the hooked sanitizer build of /repo's working tree.  With TINS_VERIF_TRACE set, every DataTracker call made
// by the tests is written as a trace line (hook in src/tcp_ip/data_tracker.cpp); tools/families/c06.py converts the
// lines to logical coordinates and has TLC validate them against ReassemblyAbs (spec/tcp/ReassemblyTraceH3.tla) -
// the tests' own assertions are not what decides.
#include "src/gtest-all.cc"
#include "src/gtest_main.cc"
#include "tcp_ip_test.cpp"
