// C03 (and input source for C01): parse -> serialize -> parse on accepted inputs.
// Base packets: the WireGen shapes (built through the API) and the catalogue of other layer classes; TLC (RoundTripGen)
// chooses a structural mutation that should keep the bytes acceptable: an unknown next-protocol value in a chosen
// layer, trailing bytes beyond the advertised lengths, or none.  Logged: input bytes b, the layer list of p = E(b)
// (class, header size, trailer size), y = serialize(p), the layer list of q = E(y), y2 = serialize(q).
#include "wirebuild.h"
#include "catalogue.h"
#include <tins/utils/pdu_utils.h>

static void layers_json(vh::W& w, const char* key, PDU& root) {
    w.key(key).A();
    for (PDU* p = &root; p; p = p->inner_pdu()) { std::string n = Utils::to_string(p->pdu_type()); if (dynamic_cast<RawPDU*>(p)) n = "RAW"; w.A().v(n).v((long)p->header_size()).v((long)p->trailer_size()).E(); }
    w.E();
}
// where a layer keeps the tag that names the next layer: (offset, width); width 0 = none
static bool tag_field(PDU* p, long& off, long& width, long& unknown) {
    switch (p->pdu_type()) {
    case PDU::ETHERNET_II: off = 12; width = 2; unknown = 0x88b5; return true;       // IEEE local experimental EtherType
    case PDU::DOT1Q: case PDU::DOT1AD: off = 2; width = 2; unknown = 0x88b5; return true;
    case PDU::IP: off = 9; width = 1; unknown = 253; return true;                      // RFC 3692 experimental protocol number
    case PDU::IPv6: if (!static_cast<IPv6*>(p)->headers().empty()) return false; off = 6; width = 1; unknown = 253; return true;
    case PDU::SNAP: off = 6; width = 2; unknown = 0x88b5; return true;
    case PDU::SLL: off = 14; width = 2; unknown = 0x88b5; return true;
    case PDU::IPSEC_AH: off = 0; width = 1; unknown = 253; return true;
    default: return false;
    }
}

static void scenario(const vh::Json& sc, vh::Out& out, vh::Rng& rng, const vh::Args&) {
    const vh::Json& base = sc["base"]; const vh::Json& mut = sc["mut"];
    Entry entry = E_ETH; PDU* built = 0; std::string bname;
    Bytes rawbase;
    if (base.has("raw")) { for (size_t i = 0; i < base["raw"].size(); ++i) rawbase.push_back((uint8_t)base["raw"][i].num()); bname = "golden:" + base["name"].str(); }
    else if (base.has("cat")) { built = catalogue((int)base["cat"].num(), rng, entry); bname = "cat" + std::to_string(base["cat"].num()); }
    else { Vals v; int nt; built = build_packet(base, rng, v, nt); bname = "wire"; }
    // "sub": the input is the serialisation of the first application layer of the composition (DNS, DHCP, BootP, DHCPv6, RTP,
    // VXLAN - none is dissected below UDP automatically) and the entry point is that class's (buffer, size) constructor
    PDU::PDUType sub_type = PDU::UNKNOWN;
    if (built && base["sub"].truth()) {
        PDU* a = 0; for (PDU* x = built; x && !a; x = x->inner_pdu()) switch (x->pdu_type()) { case PDU::DNS: case PDU::DHCP: case PDU::BOOTP: case PDU::DHCPv6: case PDU::RTP: case PDU::VXLAN: a = x; break; default: break; }
        if (!a) { delete built; return; }
        try { rawbase = a->serialize(); } catch (std::exception&) {}
        sub_type = a->pdu_type(); delete built; built = 0; bname += "/sub" + std::to_string((int)sub_type);
        if (rawbase.empty()) return;
    }
    if (base.has("cls")) { const std::string cn = base["cls"].str();      // an independent-encoder message for an application-layer class
        sub_type = cn == "RTP" ? PDU::RTP : cn == "DNS" ? PDU::DNS : cn == "DHCP" ? PDU::DHCP : cn == "BOOTP" ? PDU::BOOTP : cn == "DHCPv6" ? PDU::DHCPv6 : cn == "VXLAN" ? PDU::VXLAN : cn == "RadioTap" ? PDU::RADIOTAP : PDU::UNKNOWN; }
    auto parse = [&](const uint8_t* p, uint32_t n) -> PDU* { return sub_type != PDU::UNKNOWN ? construct(sub_type, p, n) : parse_entry(entry, p, n); };
    if (!built && rawbase.empty()) return;
    out.begin("\"base\":\"" + bname + "\",\"entry\":\"" + entry_name(entry) + "\",\"mut\":\"" + mut["k"].str() + "\"");
    vh::W w; w.O().kv("e", "rt").kv("base", bname).kv("mutk", mut["k"].str()).kv("mlayer", mut["layer"].num());
    Bytes b0; std::string thrown;
    if (built) { try { b0 = built->serialize(); } catch (std::exception& e) { thrown = std::string("build: ") + typeid(e).name(); } delete built; }
    else b0 = rawbase;
    Bytes b = b0; bool applied = mut["k"].str() == "none";
    if (!b0.empty() && mut["k"].str() == "tag") {
        try { PDU* p0 = parse(&b0[0], (uint32_t)b0.size()); long off0 = 0, idx = 0;
              for (PDU* p = p0; p; off0 += p->header_size(), p = p->inner_pdu(), ++idx) {
                  long o, wd, unk; if (idx == mut["layer"].num() && tag_field(p, o, wd, unk) && p->inner_pdu()) { for (long k = 0; k < wd; ++k) b[off0 + o + k] = (uint8_t)(unk >> (8 * (wd - 1 - k))); applied = true; } }
              delete p0; } catch (std::exception&) {}
    }
    if (!b0.empty() && mut["k"].str() == "lie") { long pos = mut["layer"].num(); if (pos < (long)b.size() && b[pos] != (uint8_t)mut["n"].num()) { b[pos] = (uint8_t)mut["n"].num(); applied = true; } }   // one octet replaced
    if (!b0.empty() && mut["k"].str() == "trail") { for (long k = 0; k < mut["n"].num(); ++k) b.push_back(0xEE); applied = true; }
    w.kv("applied", applied).kbytes("b", b);
    bool accepted = false; std::string outcome = "none";
    PDU* p = 0; PDU* q = 0; Bytes y, y2;
    if (!b.empty() && applied) {
        uint8_t* blk = new uint8_t[b.size()]; memcpy(blk, &b[0], b.size());
        try { p = parse(blk, (uint32_t)b.size()); accepted = true; outcome = "packet"; }
        catch (malformed_packet&) { outcome = "malformed"; }
        catch (std::exception& e) { outcome = std::string("foreign:") + typeid(e).name(); }
        delete[] blk;
    }
    w.kv("accepted", accepted).kv("outcome", outcome);
    bool pay_nonempty = false;
    if (p) {
        layers_json(w, "lp", *p);
        for (PDU* x = p; x; x = x->inner_pdu()) if (!x->inner_pdu()) { RawPDU* r = dynamic_cast<RawPDU*>(x); pay_nonempty = r && r->payload_size() > 0; }
        try { y = p->serialize(); q = parse(&y[0], (uint32_t)y.size()); } catch (std::exception& e) { thrown = std::string("reparse: ") + typeid(e).name() + ": " + e.what(); }
        w.kbytes("y", y);
        if (q) { layers_json(w, "lq", *q); try { y2 = q->serialize(); } catch (std::exception& e) { thrown = std::string("reserialize: ") + typeid(e).name(); } }
        else w.kraw("lq", "[]");
        w.kbytes("y2", y2);
    } else { w.kraw("lp", "[]").kraw("y", "[]").kraw("lq", "[]").kraw("y2", "[]"); }
    w.kv("pay_nonempty", pay_nonempty).kv("thrown", thrown).E();
    delete p; delete q;
    out.event(w); out.end();
}
int main(int argc, char** argv) { return vh::run(argc, argv, scenario); }
