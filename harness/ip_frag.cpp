// C08 replay driver: fragment schedules exported by TLC (FragGen) are rendered as real IPv4 fragments
// (serialised and re-parsed, as a sniffer would deliver them) and fed to the real IPv4Reassembler.
// unit = 8*scale bytes; unit u of datagram d is identified by its bytes, so the reassembled payload is
// logged as a list of [d,u] pairs (or [-1,-1] for bytes that belong to no original unit at that position).
#include "vh.h"
#include <tins/ip.h>
#include <tins/udp.h>
#include <tins/tcp.h>
#include <tins/icmp.h>
#include <tins/rawpdu.h>
#include <tins/ethernetII.h>
#include <tins/ip_reassembler.h>
using namespace Tins;

#include <sanitizer/lsan_interface.h>
#include <memory>
// --own 1 (C12, spec/pdu/Holders + HolderTrace): the same schedules, but what is logged is what the user's packet looks like
// before and after each process() call, whether its parent links are sound, and - after the reassembler and every packet are
// gone - whether anything was leaked
static void view(vh::W& w, const char* key, PDU* top) { w.key(key).A(); for (PDU* q = top; q; q = q->inner_pdu()) w.A().v((long)q->pdu_type()).v((long)q->header_size()).E(); w.E(); }
static bool links_ok(PDU* top) { if (top->parent_pdu()) return false; for (PDU* q = top; q->inner_pdu(); q = q->inner_pdu()) if (q->inner_pdu()->parent_pdu() != q) return false; return true; }
static const char* stname(IPv4Reassembler::PacketStatus st) { return st == IPv4Reassembler::NOT_FRAGMENTED ? "NOT_FRAGMENTED" : (st == IPv4Reassembler::FRAGMENTED ? "FRAGMENTED" : "REASSEMBLED"); }
struct Dgram { std::string src, dst; uint16_t id; int proto; std::vector<uint8_t> payload; long n; long U; };

static Dgram make_dgram(int d, long n, long scale, const std::string& mode, vh::Rng& rng, bool partial_last, long trim) {
    Dgram g; g.n = n; g.U = 8 * scale;
    g.id = mode == "distinct_id" ? (uint16_t)(0x1000 + d) : 0x4242;
    if (mode == "reverse") { g.src = d == 1 ? "10.1.1.1" : "10.1.1.2"; g.dst = d == 1 ? "10.1.1.2" : "10.1.1.1"; }
    else if (mode == "distinct_pair") { g.src = d == 1 ? "10.1.1.1" : "10.1.1.3"; g.dst = "10.1.1.2"; }
    else if (mode == "same_key") { g.src = "10.1.1.1"; g.dst = "10.1.1.2"; }      // both datagrams use one identification and address pair: the second REUSES the key after the first is complete
    else if (mode == "mixed") {
        // several concurrent datagrams whose identifications and address pairs are drawn from small sets independently (distinct
        // triples): any order relation between the keys' components occurs
        g.id = (uint16_t)(1 + rng.below(5)); g.src = "10.0.0." + std::to_string(1 + rng.below(4)); g.dst = "10.0.0." + std::to_string(1 + rng.below(4)); }
    else { g.src = "10.1.1.1"; g.dst = "10.1.1.2"; }
    long total = n * g.U; if (trim >= 0) total -= trim; else if (partial_last && n > 1) total -= rng.range(0, (int)g.U - 1);
    // "any protocol": the three libtins dissects, and protocol numbers it has no class for (the payload then stays raw bytes)
    static const int OTHER[] = {47, 89, 132, 253, 255, 0, 2, 46, 103, 112};
    int hdr; int pr = rng.below(4);
    if (pr == 1 && total >= 20) { g.proto = 6; hdr = 20; } else if (pr == 2) { g.proto = 1; hdr = 8; } else if (pr == 3) { g.proto = OTHER[rng.below(10)]; hdr = 0; } else { g.proto = 17; hdr = 8; }
    std::vector<uint8_t> data; for (long i = 0; i < total - hdr; ++i) data.push_back((uint8_t)((d * 97 + i * 13 + (i / g.U) * 31 + rng.below(1)) & 0xff));
    // make every unit distinguishable: stamp the unit index into the first data byte of each unit
    for (long u = 0; u * g.U < total; ++u) { long pos = u * g.U - hdr; if (pos >= 0 && pos + 1 < (long)data.size()) { data[pos] = (uint8_t)(0xA0 + d); data[pos + 1] = (uint8_t)u; } }
    IP ip(g.dst, g.src);
    if (hdr == 0) ip.protocol((uint8_t)g.proto); else if (g.proto == 17) ip /= UDP(5000 + d, 6000 + d); else if (g.proto == 6) { TCP t(80 + d, 4000 + d); t.seq(1000 * d); ip /= t; } else { ICMP ic(ICMP::ECHO_REQUEST); ic.id(d); ic.sequence(7); ip /= ic; }
    if (!data.empty()) ip /= RawPDU(data.begin(), data.end());
    std::vector<uint8_t> ser = ip.serialize();
    g.payload.assign(ser.begin() + 20, ser.end());
    return g;
}

static void scenario(const vh::Json& sc, vh::Out& out, vh::Rng& rng, const vh::Args& args) {
    std::string mode = sc.has("mode") ? sc["mode"].str() : args.get("mode", "distinct_id");
    long scale = sc.has("scale") ? sc["scale"].num() : 1;
    bool partial = rng.coin();
    long trim = sc.has("trim") ? sc["trim"].num() : -1;      // exact size of datagram 1: n*unit - trim octets
    const int ND = (int)sc["n"].size();
    std::vector<Dgram> g(ND + 1);
    for (int d = 1; d <= ND; ++d) for (int tries = 0; tries < 50; ++tries) { vh::Rng r2 = rng; g[d] = make_dgram(d, sc["n"][d - 1].num(), scale, mode, rng, partial, d == 1 ? trim : -1);
        bool dup = false; for (int e = 1; e < d; ++e) if (g[e].id == g[d].id && g[e].src == g[d].src && g[e].dst == g[d].dst) dup = true;
        if (!dup || mode != "mixed") break; (void)r2; }
    const bool own = args.num("own", 0) != 0;
    out.begin(std::string(own ? "\"ip\":" + std::to_string((long)PDU::IP) + ",\"raw\":" + std::to_string((long)PDU::RAW) + "," : "") + "\"mode\":\"" + mode + "\",\"scale\":" + std::to_string(scale) + ",\"units\":[" + std::to_string(g[1].n) + "," + std::to_string(ND > 1 ? g[2].n : 0) + "],\"nd\":" + std::to_string(ND));
    std::unique_ptr<IPv4Reassembler> reasm_p(new IPv4Reassembler()); IPv4Reassembler& reasm = *reasm_p;
    const vh::Json& pk = sc["pkts"];
    for (size_t i = 0; i < pk.size(); ++i) {
        int d = (int)pk[i]["d"].num();
        if (d == 0) {   // an unfragmented packet between the same hosts, same id as datagram 1
            std::vector<uint8_t> pl(rng.range(0, 40), 0x55);
            IP ip(g[1].dst, g[1].src); ip.id(g[1].id); ip /= UDP(9, 9); if (!pl.empty()) ip /= RawPDU(pl.begin(), pl.end());
            if (rng.coin()) ip.flags(IP::DONT_FRAGMENT);
            std::vector<uint8_t> b = ip.serialize(); IP parsed(&b[0], (uint32_t)b.size());
            std::vector<uint8_t> before = parsed.serialize();
            vh::W ow; if (own) { ow.O().kv("e", "feed").kv("holder", "reasm"); view(ow, "before", &parsed); }
            IPv4Reassembler::PacketStatus st = reasm.process(parsed);
            if (own) { view(ow, "after", &parsed); ow.kv("status", stname(st)).kv("links_ok", links_ok(&parsed)).E(); out.event(ow); continue; }
            std::vector<uint8_t> after = parsed.serialize();
            vh::W w; w.O().kv("e", "plain").kv("status", st == IPv4Reassembler::NOT_FRAGMENTED ? "NOT_FRAGMENTED" : (st == IPv4Reassembler::FRAGMENTED ? "FRAGMENTED" : "REASSEMBLED")).kv("untouched", before == after && before == b).E();
            out.event(w); continue;
        }
        long off = pk[i]["off"].num(), len = pk[i]["len"].num(); bool mf = pk[i]["mf"].truth();
        Dgram& G = g[d];
        long b0 = off * G.U, b1 = std::min<long>((off + len) * G.U, (long)G.payload.size());
        IP fr(G.dst, G.src); fr.id(G.id); fr.ttl((uint8_t)(64 + off)); fr.tos((uint8_t)off); fr.protocol((uint8_t)G.proto);
        fr.fragment_offset((small_uint<13>)(uint16_t)(off * scale)); if (mf) fr.flags(IP::MORE_FRAGMENTS);
        fr /= RawPDU(G.payload.begin() + b0, G.payload.begin() + b1);
        std::vector<uint8_t> b = fr.serialize();
        // delivered the way a capture delivers it: half of the time below an Ethernet header
        bool eth = rng.coin();
        EthernetII ep; IP ipp;
        PDU* top;
        if (eth) { EthernetII e = EthernetII() / fr; std::vector<uint8_t> eb = e.serialize(); ep = EthernetII(&eb[0], (uint32_t)eb.size()); top = &ep; }
        else { ipp = IP(&b[0], (uint32_t)b.size()); top = &ipp; }
        vh::W ow; if (own) { ow.O().kv("e", "feed").kv("holder", "reasm"); view(ow, "before", top); }
        IPv4Reassembler::PacketStatus st = reasm.process(*top);
        if (own) { view(ow, "after", top); ow.kv("status", stname(st)).kv("links_ok", links_ok(top)).E(); out.event(ow); continue; }
        vh::W w; w.O().kv("e", "frag").kv("d", d).kv("off", off).kv("len", len).kv("mf", mf)
            .kv("status", st == IPv4Reassembler::NOT_FRAGMENTED ? "NOT_FRAGMENTED" : (st == IPv4Reassembler::FRAGMENTED ? "FRAGMENTED" : "REASSEMBLED"));
        if (st == IPv4Reassembler::REASSEMBLED) {
            IP& r = top->rfind_pdu<IP>();
            std::vector<uint8_t> inner = r.inner_pdu() ? r.inner_pdu()->serialize() : std::vector<uint8_t>();
            if (getenv("VH_DEBUG")) { FILE* se = fopen(getenv("VH_DEBUG"), "a"); for (int c = 1; c <= ND; ++c) { fprintf(se, "orig%d proto %d:", c, g[c].proto); for (size_t q = 0; q < g[c].payload.size(); ++q) fprintf(se, " %02x", g[c].payload[q]); fprintf(se, "\n"); } fprintf(se, "inner:"); for (size_t q = 0; q < inner.size(); ++q) fprintf(se, " %02x", inner[q]); fprintf(se, "\n"); fclose(se); }
            w.key("out").O().key("payload").A();
            // which datagram do these bytes claim to be? identify per unit against both originals
            for (long u = 0; u * G.U < (long)inner.size(); ++u) {
                long lo = u * G.U, hi = std::min<long>(lo + G.U, (long)inner.size());
                int who = -1;
                for (int t = 0; t <= ND && who < 0; ++t) { int c = t == 0 ? d : t; if (t && c == d) continue;   /* identical header bytes: prefer the datagram being completed */ const std::vector<uint8_t>& P = g[c].payload; long chi = std::min<long>(lo + G.U, (long)P.size());
                    if (lo < (long)P.size() && chi == hi && std::equal(inner.begin() + lo, inner.begin() + hi, P.begin() + lo)) who = c; }
                if (who > 0) w.A().v(who).v(u).E(); else w.A().v(-1).v(-1).E();
            }
            w.E();
            PDU::PDUType want = G.proto == 17 ? PDU::UDP : (G.proto == 6 ? PDU::TCP : (G.proto == 1 ? PDU::ICMP : PDU::RAW));
            w.kv("hdr_off", (long)r.ttl() - 64).kv("off", (long)r.fragment_offset()).kv("mf", (r.flags() & IP::MORE_FRAGMENTS) != 0)
             .kv("upper_ok", r.inner_pdu() && r.inner_pdu()->pdu_type() == want)
             .kv("size_ok", inner.size() == G.payload.size())
             .kv("tos_ok", (long)r.tos() == (long)r.ttl() - 64);
            w.E();
        }
        w.E(); out.event(w);
    }
    if (own) { reasm_p.reset(); int leaks = __lsan_do_recoverable_leak_check(); vh::W w; w.O().kv("e", "end").kv("leaks", leaks).E(); out.event(w); }
    out.end();
}
int main(int argc, char** argv) { return vh::run(argc, argv, scenario); }
