// C12, the option value type (spec/pdu/OptionPool): programs of copy / move construction and assignment over a pool of real
// PDUOption objects whose payloads straddle the small-buffer threshold (8 octets), each object on the heap so that
// AddressSanitizer sees its lifetime.  After every operation each slot reports which table value it holds.
#include "vh.h"
#include <tins/tcp.h>
#include <tins/pdu_option.h>
#include <sanitizer/lsan_interface.h>
using namespace Tins;
typedef TCP::option Opt;
// value v (1-based): length and a byte pattern of its own
static const int LEN[] = {0, 0, 3, 8, 9, 20, 64};          // LEN[v]; v = 1: empty payload, 3: exactly the inline capacity, 4: one more
static std::vector<uint8_t> bytes_of(int v) { std::vector<uint8_t> b(LEN[v]); for (size_t i = 0; i < b.size(); ++i) b[i] = (uint8_t)(v * 37 + i * 11 + 1); return b; }
static long value_of(const Opt* o, bool& sizes_ok) {
    if (!o) return 0;
    for (int v = 1; v <= 6; ++v) {
        std::vector<uint8_t> b = bytes_of(v);
        if ((int)o->option() == 100 + v && o->data_size() == b.size() && (b.empty() || !memcmp(o->data_ptr(), &b[0], b.size()))) {
            if (o->length_field() != b.size()) sizes_ok = false;
            return v; }
    }
    return -2;
}
static void scenario(const vh::Json& sc, vh::Out& out, vh::Rng&, const vh::Args&) {
    out.begin("");
    std::vector<Opt*> slots(4, (Opt*)0);
    for (size_t i = 0; i < sc.size(); ++i) {
        const vh::Json& o = sc[i]; std::string op = o["op"].str(); int a = (int)o["a"].num(), b = (int)o["b"].num();
        if (op == "new") { std::vector<uint8_t> d = bytes_of(b); slots[a] = new Opt((TCP::OptionTypes)(100 + b), d.begin(), d.end()); }
        else if (op == "copyctor") slots[b] = new Opt(*slots[a]);
        else if (op == "movector") slots[b] = new Opt(std::move(*slots[a]));
        else if (op == "copyassign") { Opt& src = *slots[a]; *slots[b] = src; }
        else if (op == "moveassign") *slots[b] = std::move(*slots[a]);
        else if (op == "del") { delete slots[a]; slots[a] = 0; }
        bool sizes_ok = true;
        vh::W w; w.O().kv("e", "op").kv("op", op).kv("a", a).kv("b", b).key("slots").A();
        for (int s = 1; s <= 3; ++s) w.v(value_of(slots[s], sizes_ok));
        w.E().kv("sizes_ok", sizes_ok).E(); out.event(w);
    }
    for (size_t s = 0; s < slots.size(); ++s) delete slots[s];
    slots.clear(); slots.shrink_to_fit();
    int leaks = __lsan_do_recoverable_leak_check();
    vh::W w; w.O().kv("e", "end").kv("leaks", leaks).E(); out.event(w);
    out.end();
}
int main(int argc, char** argv) { return vh::run(argc, argv, scenario); }
