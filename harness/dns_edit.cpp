// C10 replay driver: initial messages (fresh, or wire bytes produced by the TLA+ reference encoder, with or
// without compression) and insertion sequences are applied to the real Tins::DNS; after every step the four
// section getters and the header counts are logged, then again after serialize() -> DNS(buffer).
#include "vh.h"
#include <tins/dns.h>
#include <tins/ip_address.h>
#include <tins/ipv6_address.h>
#include <tins/exceptions.h>
using namespace Tins;
typedef std::vector<uint8_t> Bytes;

static std::string name_str(const vh::Json& nm) { std::string s; for (size_t i = 0; i < nm.size(); ++i) { if (i) s += '.'; s += std::string((size_t)nm[i][0].num(), (char)nm[i][1].num()); } return s; }
static void name_json(vh::W& w, const std::string& s) {
    w.A();
    if (!s.empty()) { size_t p = 0; for (;;) { size_t q = s.find('.', p); std::string lb = s.substr(p, q == std::string::npos ? std::string::npos : q - p);
            bool uni = !lb.empty(); for (size_t i = 1; i < lb.size(); ++i) if (lb[i] != lb[0]) uni = false;
            w.A().v((long)lb.size()).v(uni ? (long)(unsigned char)lb[0] : -1L).E();
            if (q == std::string::npos) break; p = q + 1; } }
    w.E();
}
static void be32(Bytes& b, uint32_t v) { b.push_back(v >> 24); b.push_back(v >> 16); b.push_back(v >> 8); b.push_back(v); }

static DNS::resource make_resource(const vh::Json& r) {
    long t = r["t"].num(); std::string data; uint16_t pref = 0;
    const vh::Json& v = r["v"];
    if (t == 1) { data = std::to_string(v[0].num()) + "." + std::to_string(v[1].num()) + "." + std::to_string(v[2].num()) + "." + std::to_string(v[3].num()); }
    else if (t == 28) { uint8_t a[16]; for (int i = 0; i < 16; ++i) a[i] = (uint8_t)v[i].num(); data = IPv6Address(a).to_string(); }
    else if (t == 2 || t == 5 || t == 12) data = name_str(r["d1"]);
    else if (t == 15) { data = name_str(r["d1"]); pref = (uint16_t)v[0].num(); }
    else if (t == 6) { uint32_t f[5]; for (int k = 0; k < 5; ++k) f[k] = ((uint32_t)v[4 * k].num() << 24) | ((uint32_t)v[4 * k + 1].num() << 16) | ((uint32_t)v[4 * k + 2].num() << 8) | (uint32_t)v[4 * k + 3].num();
        DNS::soa_record soa(name_str(r["d1"]), name_str(r["d2"]), f[0], f[1], f[2], f[3], f[4]); Bytes s = soa.serialize(); data.assign(s.begin(), s.end()); }
    else { for (size_t i = 0; i < v.size(); ++i) data.push_back((char)v[i].num()); }
    return DNS::resource(name_str(r["n"]), data, (uint16_t)t, DNS::IN, (uint32_t)r["ttl"].num(), pref);
}
static void log_resource(vh::W& w, const DNS::resource& r) {
    w.O().key("n"); name_json(w, r.dname()); w.kv("t", (long)r.query_type()).kv("ttl", (long)r.ttl());
    long t = r.query_type(); std::string d1, d2; Bytes v; bool has1 = false, has2 = false;
    if (t == 1) { uint32_t a = IPv4Address(r.data()); const uint8_t* p = (const uint8_t*)&a; v.assign(p, p + 4); }
    else if (t == 28) { IPv6Address a(r.data()); v.assign(a.begin(), a.end()); }
    else if (t == 2 || t == 5 || t == 12) { d1 = r.data(); has1 = true; }
    else if (t == 15) { d1 = r.data(); has1 = true; v.push_back(0); }
    else if (t == 6) { DNS::soa_record s(r); d1 = s.mname(); d2 = s.rname(); has1 = has2 = true; be32(v, s.serial()); be32(v, s.refresh()); be32(v, s.retry()); be32(v, s.expire()); be32(v, s.minimum_ttl()); }
    else v.assign(r.data().begin(), r.data().end());
    w.key("d1"); if (has1) name_json(w, d1); else w.A().E();
    w.key("d2"); if (has2) name_json(w, d2); else w.A().E();
    if (t == 15) { w.key("v").A().v((long)r.preference()).E(); } else w.kbytes("v", v);
    w.E();
}
static void log_sections(vh::W& w, const DNS& dns) {
    try {
        DNS::queries_type q = dns.queries(); DNS::resources_type an = dns.answers(), ns = dns.authority(), ar = dns.additional();
        w.key("q").A(); for (auto& x : q) { w.O().key("n"); name_json(w, x.dname()); w.kv("t", (long)x.query_type()).E(); } w.E();
        w.key("an").A(); for (auto& x : an) log_resource(w, x); w.E();
        w.key("ns").A(); for (auto& x : ns) log_resource(w, x); w.E();
        w.key("ar").A(); for (auto& x : ar) log_resource(w, x); w.E();
        w.key("counts").A().v((long)dns.questions_count()).v((long)dns.answers_count()).v((long)dns.authority_count()).v((long)dns.additional_count()).E();
        w.kv("thrown", "");
    } catch (std::exception& e) {
        // close whatever was open is not possible generically: callers use a fresh writer per attempt
        throw;
    }
}
static std::string sections_json(const DNS& dns) {
    try { vh::W w; w.O(); log_sections(w, dns); w.E(); return w.s; }
    catch (std::exception& e) { vh::W w; w.O().kraw("q", "[]").kraw("an", "[]").kraw("ns", "[]").kraw("ar", "[]").kraw("counts", "[-1,-1,-1,-1]").kv("thrown", std::string(typeid(e).name()) + ": " + e.what()).E(); return w.s; }
}
static std::string roundtrip_json(DNS& dns) {
    try { Bytes b = dns.serialize(); DNS d2(&b[0], (uint32_t)b.size()); return sections_json(d2); }
    catch (std::exception& e) { vh::W w; w.O().kraw("q", "[]").kraw("an", "[]").kraw("ns", "[]").kraw("ar", "[]").kraw("counts", "[-1,-1,-1,-1]").kv("thrown", std::string(typeid(e).name()) + ": " + e.what()).E(); return w.s; }
}

// hostile wire: parse in an exact-size heap block, then apply every read accessor
static void fault_scenario(const vh::Json& sc, vh::Out& out) {
    out.begin("\"cls\":\"fault\"");
    const vh::Json& by = sc["bytes"];
    Bytes pkt; pkt.push_back(0x12); pkt.push_back(0x34); pkt.push_back(0x81); pkt.push_back(0x80);
    for (int k = 0; k < 4; ++k) { long c = sc["counts"][k].num(); pkt.push_back((uint8_t)(c >> 8)); pkt.push_back((uint8_t)c); }
    for (size_t i = 0; i < by.size(); ++i) pkt.push_back((uint8_t)by[i].num());
    uint8_t* blk = new uint8_t[pkt.size()]; memcpy(blk, &pkt[0], pkt.size());
    int tins = 0, foreign = 0, steps = 0; std::string what;
    DNS* dns = 0;
    try { dns = new DNS(blk, (uint32_t)pkt.size()); ++steps; }
    catch (malformed_packet& e) { ++tins; what = "ctor: malformed_packet"; }
    catch (exception_base& e) { ++foreign; what = std::string("ctor: non-malformed libtins exception escaped the parser: ") + typeid(e).name(); }
    catch (std::exception& e) { ++foreign; what = std::string("ctor: ") + typeid(e).name() + ": " + e.what(); }
    delete[] blk;
    if (dns) {
        for (int acc = 0; acc < 8; ++acc) {
            try {
                switch (acc) {
                case 0: dns->queries(); break; case 1: dns->answers(); break; case 2: dns->authority(); break; case 3: dns->additional(); break;
                case 4: { Bytes b = dns->serialize(); if (b.size() != dns->size()) { ++foreign; what = "serialize size mismatch"; } break; }
                case 5: { PDU* c = dns->clone(); delete c; break; }
                case 6: { DNS::resources_type r = dns->answers(); for (auto& x : r) if (x.query_type() == DNS::SOA) { DNS::soa_record s(x); } break; }
                case 7: { DNS copy(*dns); copy.add_additional(DNS::resource("x.y", "1.2.3.4", DNS::A, DNS::IN, 1)); copy.additional(); break; }
                }
                ++steps;
            }
            catch (exception_base& e) { ++tins; if (what.empty()) what = std::string("accessor ") + std::to_string(acc) + ": " + typeid(e).name(); }
            catch (std::exception& e) { ++foreign; what = std::string("accessor ") + std::to_string(acc) + ": foreign " + typeid(e).name() + ": " + e.what(); }
        }
        delete dns;
    }
    vh::W w; w.O().kv("e", "fault").kv("kind", sc["fault"].str()).kv("mustErr", sc["mustErr"].truth())
        .kv("outcome", foreign ? "foreign" : (tins ? "tins" : "ok")).kv("what", what).kv("steps", steps).E();
    out.event(w); out.end();
}

static void scenario(const vh::Json& sc, vh::Out& out, vh::Rng& rng, const vh::Args&) {
    if (sc.has("fault")) { fault_scenario(sc, out); return; }
    out.begin("");
    const vh::Json& by = sc["bytes"];
    bool fresh = by.size() == 0 && rng.coin();     // an empty model message is either DNS() or a parsed 12-byte header
    DNS dns;
    std::string thrown;
    if (!fresh) {
        Bytes pkt; pkt.push_back(0x12); pkt.push_back(0x34); pkt.push_back(0x81); pkt.push_back(0x80);
        for (int k = 0; k < 4; ++k) { long c = sc["counts"][k].num(); pkt.push_back((uint8_t)(c >> 8)); pkt.push_back((uint8_t)c); }
        for (size_t i = 0; i < by.size(); ++i) pkt.push_back((uint8_t)by[i].num());
        // exact-size heap block so that ASan sees the first byte past the message
        uint8_t* blk = new uint8_t[pkt.size()]; memcpy(blk, &pkt[0], pkt.size());
        try { dns = DNS(blk, (uint32_t)pkt.size()); } catch (std::exception& e) { thrown = e.what(); }
        delete[] blk;
    }
    { vh::W w; w.O().kv("e", "init").kv("fresh", fresh).kraw("init", sc["init"].dump()).kv("comp", sc["comp"].truth()).kraw("bytes", by.dump())
        .kraw("obs", sections_json(dns)).kraw("rt", roundtrip_json(dns)).kv("ctor_thrown", thrown).E(); out.event(w); }
    for (size_t i = 0; i < sc["edits"].size(); ++i) {
        const vh::Json& ed = sc["edits"][i]; const std::string& sec = ed["sec"].str(); std::string th;
        try {
            if (sec == "q") dns.add_query(DNS::query(name_str(ed["rec"]["n"]), (DNS::QueryType)ed["rec"]["t"].num(), DNS::IN));
            else { DNS::resource r = make_resource(ed["rec"]); if (sec == "an") dns.add_answer(r); else if (sec == "ns") dns.add_authority(r); else dns.add_additional(r); }
        } catch (std::exception& e) { th = std::string(typeid(e).name()) + ": " + e.what(); }
        vh::W w; w.O().kv("e", "add").kv("sec", sec).kraw("rec", ed["rec"].dump()).kv("thrown", th).kraw("obs", sections_json(dns)).kraw("rt", roundtrip_json(dns)).E();
        out.event(w);
    }
    out.end();
}
int main(int argc, char** argv) { return vh::run(argc, argv, scenario); }
