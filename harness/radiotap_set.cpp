// C11 replay driver: setter sequences (and parsed starting headers whose bytes were produced by the TLA+
// canonical encoder) are applied to the real Tins::RadioTap; after every call the present word, every
// getter, the options payload and a serialise/parse round trip are logged.
#include "vh.h"
#include <tins/radiotap.h>
#include <tins/dot11.h>
#include <tins/rawpdu.h>
#include <tins/exceptions.h>
using namespace Tins;
typedef std::vector<uint8_t> Bytes;
static const int SETTABLE[] = {0, 1, 2, 3, 5, 6, 7, 11, 12, 14, 15, 17, 18, 19};
static const int SIZES[] = {8,1,1,4,2,1,1,2,2,2,1,1,1,1,2,2,1,1,8,3,8,12};

static void le(Bytes& b, uint64_t v, int n) { for (int i = 0; i < n; ++i) b.push_back((uint8_t)(v >> (8 * i))); }
static uint64_t rd(const Bytes& b, int at, int n) { uint64_t v = 0; for (int i = 0; i < n; ++i) v |= (uint64_t)b[at + i] << (8 * i); return v; }

// getter -> LE bytes as the radiotap standard lays the field out; "absent" / "error:<type>"
static std::string get_field(const RadioTap& rt, int bit) {
    Bytes b;
    try {
        switch (bit) {
        case 0: le(b, rt.tsft(), 8); break; case 1: le(b, (uint8_t)rt.flags(), 1); break; case 2: le(b, rt.rate(), 1); break;
        case 3: le(b, rt.channel_freq(), 2); le(b, rt.channel_type(), 2); break;
        case 5: le(b, (uint8_t)rt.dbm_signal(), 1); break; case 6: le(b, (uint8_t)rt.dbm_noise(), 1); break;
        case 7: le(b, rt.signal_quality(), 2); break; case 11: le(b, rt.antenna(), 1); break; case 12: le(b, rt.db_signal(), 1); break;
        case 14: le(b, rt.rx_flags(), 2); break; case 15: le(b, rt.tx_flags(), 2); break; case 17: le(b, rt.data_retries(), 1); break;
        case 18: { RadioTap::xchannel_type x = rt.xchannel(); le(b, x.flags, 4); le(b, x.frequency, 2); le(b, x.channel, 1); le(b, x.max_power, 1); break; }
        case 19: { RadioTap::mcs_type m = rt.mcs(); le(b, m.known, 1); le(b, m.flags, 1); le(b, m.mcs, 1); break; }
        }
    } catch (field_not_present&) { return "\"absent\",[]"; }
    catch (std::exception& e) { return std::string("\"error\",[]"); }
    vh::W w; w.bytes(b.begin(), b.end()); return "\"ok\"," + w.s;
}
static void set_field(RadioTap& rt, int bit, const Bytes& v) {
    switch (bit) {
    case 0: rt.tsft(rd(v, 0, 8)); break; case 1: rt.flags((RadioTap::FrameFlags)v[0]); break; case 2: rt.rate(v[0]); break;
    case 3: rt.channel((uint16_t)rd(v, 0, 2), (uint16_t)rd(v, 2, 2)); break;
    case 5: rt.dbm_signal((int8_t)v[0]); break; case 6: rt.dbm_noise((int8_t)v[0]); break;
    case 7: rt.signal_quality(v[0]); break; case 11: rt.antenna(v[0]); break; case 12: rt.db_signal(v[0]); break;
    case 14: rt.rx_flags((uint16_t)rd(v, 0, 2)); break; case 15: rt.tx_flags((uint16_t)rd(v, 0, 2)); break; case 17: rt.data_retries(v[0]); break;
    case 18: { RadioTap::xchannel_type x; x.flags = (uint32_t)rd(v, 0, 4); x.frequency = (uint16_t)rd(v, 4, 2); x.channel = v[6]; x.max_power = v[7]; rt.xchannel(x); break; }
    case 19: { RadioTap::mcs_type m; m.known = v[0]; m.flags = v[1]; m.mcs = v[2]; rt.mcs(m); break; }
    }
}
static Bytes pick_value(int bit, vh::Rng& rng) {
    Bytes v(SIZES[bit]);
    int cls = rng.below(5);
    for (size_t i = 0; i < v.size(); ++i) v[i] = cls == 0 ? 0 : cls == 1 ? 0xff : cls == 2 ? (uint8_t)(i + 1) : (uint8_t)rng.below(256);
    if (bit == 1) v[0] &= (uint8_t)~0x40;       // FAILED_FCS makes the parser reject the frame on purpose
    if (bit == 7) v[1] = 0;                      // the setter takes an 8-bit quality
    return v;
}
static void log_obs(vh::W& w, const RadioTap& rt) {
    uint32_t p = 0; bool perr = false; try { p = (uint32_t)rt.present(); } catch (std::exception&) { perr = true; }
    w.key("present").A(); for (int b = 0; b < 32; ++b) if (p & (1u << b)) w.v(b); if (perr) w.v(-1); w.E();
    w.key("get").A(); for (size_t i = 0; i < sizeof(SETTABLE) / sizeof(int); ++i) { w.A().v(SETTABLE[i]).raw(get_field(rt, SETTABLE[i])).E(); } w.E();
}
static void scenario(const vh::Json& sc, vh::Out& out, vh::Rng& rng, const vh::Args&) {
    Dot11Beacon inner; inner.addr1("ff:ff:ff:ff:ff:ff"); inner.addr2("00:01:02:03:04:05"); inner.addr3("00:01:02:03:04:05"); inner.ssid("verif"); inner.ds_parameter_set(6);
    Bytes inner_bytes = inner.serialize();
    bool parsed = sc["start"].str() == "parsed";
    out.begin(std::string("\"start\":\"") + sc["start"].str() + "\"");
    RadioTap rt;
    vh::W w; w.O().kv("e", "init").kv("start", sc["start"].str());
    if (parsed) {
        Bytes pl; for (size_t i = 0; i < sc["payload"].size(); ++i) pl.push_back((uint8_t)sc["payload"][i].num());
        Bytes pkt; pkt.push_back(0); pkt.push_back(0); le(pkt, 4 + pl.size(), 2); pkt.insert(pkt.end(), pl.begin(), pl.end()); pkt.insert(pkt.end(), inner_bytes.begin(), inner_bytes.end());
        try { rt = RadioTap(&pkt[0], (uint32_t)pkt.size()); } catch (std::exception& e) { w.kv("thrown", e.what()); }
        w.kraw("bits", sc["bits"].dump());
    } else { rt /= inner; w.kraw("bits", "[]"); }
    log_obs(w, rt); w.kbytes("payload", rt.options_payload()); w.E(); out.event(w);
    for (size_t i = 0; i < sc["ops"].size(); ++i) {
        int bit = (int)sc["ops"][i].num(); Bytes v = pick_value(bit, rng);
        vh::W e; e.O().kv("e", "set").kv("f", bit).kbytes("v", v);
        try { set_field(rt, bit, v); } catch (std::exception& x) { e.kv("thrown", x.what()); }
        log_obs(e, rt); e.kbytes("payload", rt.options_payload());
        // round trip
        long len_field = -1; bool ok = true, inner_ok = false; RadioTap rt2;
        try { Bytes ser = rt.serialize(); len_field = ser[2] | (ser[3] << 8); rt2 = RadioTap(&ser[0], (uint32_t)ser.size());
              inner_ok = rt2.inner_pdu() && rt2.inner_pdu()->serialize() == inner_bytes && rt2.inner_pdu()->pdu_type() == PDU::DOT11_BEACON; }
        catch (std::exception& x) { ok = false; }
        e.kv("len_field", len_field).key("rt").O().kv("ok", ok).kv("inner_ok", inner_ok); log_obs(e, rt2); e.E();
        e.E(); out.event(e);
    }
    out.end();
}
int main(int argc, char** argv) { return vh::run(argc, argv, scenario); }
