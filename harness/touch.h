// Read accessors applied to every layer of an accepted packet (C01: "typed option and record decoders, DNS section
// getters, size queries, cloning, destruction").  Every call is made in try/catch: a libtins exception is a legal
// outcome, anything else is recorded as foreign; memory errors are observed by ASan.
#ifndef VERIF_TOUCH_H
#define VERIF_TOUCH_H
#include <tins/tins.h>
#include <tins/pppoe.h>
#include <tins/ipsec.h>
#include <tins/rtp.h>
#include <string>
#include <typeinfo>
using namespace Tins;
// ser_fail / ser_what: serialize() of an accepted packet threw or returned a size other than size().  Not an accessor in the
// sense of C01 (it is the subject of C02: "for every packet obtained by parsing bytes ... serialize() succeeds"); recorded apart.
struct TouchStat { long calls, tins, foreign, ser_fail; std::string what, ser_what; TouchStat() : calls(0), tins(0), foreign(0), ser_fail(0) {} };
#define TOUCH(expr) do { ++st.calls; try { (void)(expr); } catch (exception_base&) { ++st.tins; } \
    catch (std::exception& e) { ++st.foreign; if (st.what.empty()) st.what = std::string(#expr) + ": " + typeid(e).name() + ": " + e.what(); } } while (0)

static void touch_layer(PDU* p, TouchStat& st) {
    TOUCH(p->header_size()); TOUCH(p->trailer_size()); TOUCH(p->size()); TOUCH(p->pdu_type());
    switch (p->pdu_type()) {
    case PDU::TCP: { TCP* t = static_cast<TCP*>(p); TOUCH(t->mss()); TOUCH(t->winscale()); TOUCH(t->has_sack_permitted()); TOUCH(t->sack()); TOUCH(t->timestamp()); TOUCH(t->altchecksum());
        for (TCP::options_type::const_iterator it = t->options().begin(); it != t->options().end(); ++it) { TOUCH(it->data_size()); TOUCH(it->length_field()); } break; }
    case PDU::IP: { IP* i = static_cast<IP*>(p); TOUCH(i->security()); TOUCH(i->lsrr()); TOUCH(i->ssrr()); TOUCH(i->record_route()); TOUCH(i->stream_identifier()); TOUCH(i->is_fragmented()); break; }
    case PDU::IPv6: { IPv6* i = static_cast<IPv6*>(p); for (IPv6::headers_type::const_iterator it = i->headers().begin(); it != i->headers().end(); ++it) {
            if (it->option() == 0) TOUCH(IPv6::hop_by_hop_header::from_extension_header(*it)); if (it->option() == 60) TOUCH(IPv6::destination_routing_header::from_extension_header(*it));
            if (it->option() == 43) TOUCH(IPv6::routing_header::from_extension_header(*it)); if (it->option() == 44) TOUCH(IPv6::fragment_header::from_extension_header(*it)); } break; }
    case PDU::ICMP: { ICMP* i = static_cast<ICMP*>(p); TOUCH(i->has_extensions()); TOUCH(i->extensions().size()); TOUCH(i->extensions().serialize()); TOUCH(i->length()); break; }
    case PDU::ICMPv6: { ICMPv6* i = static_cast<ICMPv6*>(p);
        TOUCH(i->source_link_layer_addr()); TOUCH(i->target_link_layer_addr()); TOUCH(i->prefix_info()); TOUCH(i->redirect_header()); TOUCH(i->mtu()); TOUCH(i->shortcut_limit());
        TOUCH(i->new_advert_interval()); TOUCH(i->new_home_agent_info()); TOUCH(i->source_addr_list()); TOUCH(i->target_addr_list()); TOUCH(i->rsa_signature()); TOUCH(i->timestamp());
        TOUCH(i->nonce()); TOUCH(i->ip_prefix()); TOUCH(i->link_layer_addr()); TOUCH(i->naack()); TOUCH(i->map()); TOUCH(i->route_info()); TOUCH(i->recursive_dns_servers());
        TOUCH(i->handover_key_request()); TOUCH(i->handover_key_reply()); TOUCH(i->handover_assist_info()); TOUCH(i->mobile_node_identifier()); TOUCH(i->dns_search_list());
        TOUCH(i->multicast_address_records()); TOUCH(i->has_extensions()); break; }
    case PDU::DHCP: { DHCP* d = static_cast<DHCP*>(p); TOUCH(d->type()); TOUCH(d->server_identifier()); TOUCH(d->lease_time()); TOUCH(d->renewal_time()); TOUCH(d->rebind_time()); TOUCH(d->subnet_mask());
        TOUCH(d->routers()); TOUCH(d->domain_name_servers()); TOUCH(d->broadcast()); TOUCH(d->requested_ip()); TOUCH(d->domain_name()); TOUCH(d->hostname()); break; }
    case PDU::DHCPv6: { DHCPv6* d = static_cast<DHCPv6*>(p); TOUCH(d->ia_na()); TOUCH(d->ia_ta()); TOUCH(d->ia_address()); TOUCH(d->option_request()); TOUCH(d->preference()); TOUCH(d->elapsed_time());
        TOUCH(d->relay_message()); TOUCH(d->authentication()); TOUCH(d->server_unicast()); TOUCH(d->status_code()); TOUCH(d->has_rapid_commit()); TOUCH(d->user_class()); TOUCH(d->vendor_class());
        TOUCH(d->vendor_info()); TOUCH(d->interface_id()); TOUCH(d->reconfigure_msg()); TOUCH(d->has_reconfigure_accept()); TOUCH(d->client_id()); TOUCH(d->server_id()); break; }
    case PDU::DNS: { DNS* d = static_cast<DNS*>(p); TOUCH(d->queries()); TOUCH(d->answers()); TOUCH(d->authority()); TOUCH(d->additional());
        try { DNS::resources_type r = d->answers(); for (size_t k = 0; k < r.size(); ++k) if (r[k].query_type() == DNS::SOA) TOUCH(DNS::soa_record(r[k])); } catch (std::exception&) {} break; }
    case PDU::PPPOE: { PPPoE* o = static_cast<PPPoE*>(p); TOUCH(o->service_name()); TOUCH(o->ac_name()); TOUCH(o->host_uniq()); TOUCH(o->ac_cookie()); TOUCH(o->vendor_specific()); TOUCH(o->relay_session_id());
        TOUCH(o->service_name_error()); TOUCH(o->ac_system_error()); TOUCH(o->generic_error()); break; }
    case PDU::RADIOTAP: { RadioTap* r = static_cast<RadioTap*>(p); TOUCH(r->present()); TOUCH(r->tsft()); TOUCH(r->flags()); TOUCH(r->rate()); TOUCH(r->channel_freq()); TOUCH(r->channel_type()); TOUCH(r->dbm_signal());
        TOUCH(r->dbm_noise()); TOUCH(r->signal_quality()); TOUCH(r->antenna()); TOUCH(r->db_signal()); TOUCH(r->rx_flags()); TOUCH(r->tx_flags()); TOUCH(r->data_retries()); TOUCH(r->xchannel()); TOUCH(r->mcs()); break; }
    case PDU::RSNEAPOL: { RSNEAPOL* e = static_cast<RSNEAPOL*>(p); TOUCH(e->key().size()); TOUCH(e->replay_counter()); break; }
    case PDU::RTP: { RTP* r = static_cast<RTP*>(p); TOUCH(r->csrc_ids().size()); TOUCH(r->extension_data().size()); TOUCH(r->padding_size()); break; }
    default: break;
    }
    if (Dot11ManagementFrame* m = dynamic_cast<Dot11ManagementFrame*>(p)) {
        TOUCH(m->rsn_information()); TOUCH(m->ssid()); TOUCH(m->supported_rates()); TOUCH(m->extended_supported_rates()); TOUCH(m->qos_capability()); TOUCH(m->power_capability()); TOUCH(m->supported_channels());
        TOUCH(m->request_information()); TOUCH(m->fh_parameter_set()); TOUCH(m->ds_parameter_set()); TOUCH(m->cf_parameter_set()); TOUCH(m->ibss_parameter_set()); TOUCH(m->ibss_dfs()); TOUCH(m->country());
        TOUCH(m->fh_parameters()); TOUCH(m->fh_pattern_table()); TOUCH(m->power_constraint()); TOUCH(m->channel_switch()); TOUCH(m->quiet()); TOUCH(m->tpc_report()); TOUCH(m->erp_information());
        TOUCH(m->bss_load()); TOUCH(m->tim()); TOUCH(m->challenge_text()); TOUCH(m->vendor_specific());
    }
}
// every layer's accessors, then whole-packet operations
static void touch_all(PDU* root, TouchStat& st, bool serializable) {
    for (PDU* p = root; p; p = p->inner_pdu()) touch_layer(p, st);
    TOUCH(root->size());
    if (serializable) { ++st.calls; try { std::vector<uint8_t> b = root->serialize(); if (b.size() != root->size()) { ++st.ser_fail; if (st.ser_what.empty()) st.ser_what = "serialize(): size mismatch"; } }
        catch (std::exception& e) { ++st.ser_fail; if (st.ser_what.empty()) st.ser_what = std::string("serialize: ") + typeid(e).name() + ": " + e.what(); } }
    ++st.calls; try { PDU* c = root->clone(); delete c; } catch (exception_base&) { ++st.tins; } catch (std::exception& e) { ++st.foreign; if (st.what.empty()) st.what = std::string("clone: ") + typeid(e).name(); }
}
#endif
