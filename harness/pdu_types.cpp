// C13 driver: extracts the (object, requested type) relation from the compiled classes.
// For every concrete layer class K (plus PDUCacher<X> wrappers) several objects are built (default-constructed,
// with an inner chain, below an Ethernet header, parsed variants, field states that could influence type
// identity); for every layer class T with a type flag it records
//     find  : index in the object's chain of the node find_pdu<T>() returned (-1 none, -2 a pointer that is
//             not a node of the chain)
//     cast  : tins_cast<T*>(object) != 0,   castSame: ... and it is the object's own address
//     dyn   : dynamic_cast<T*>(node) != 0 for every node of the chain (ground truth)
//     self  : T is the object's exact class
// One execution per (object, T) pair.  Returned pointers are only compared as addresses, never used.
#include "vh.h"
#include "samples.h"
#include <tins/tins.h>
#include <tins/pdu_cacher.h>
#include <tins/loopback.h>
#include <tins/ppi.h>
#include <tins/pktap.h>
#include <tins/ipsec.h>
#include <tins/mpls.h>
#include <tins/vxlan.h>
#include <tins/rtp.h>
#include <typeinfo>
using namespace Tins;

#define CONCRETE(X) X(SNAP) X(DHCPv6) X(LLC) X(IPSecAH) X(IPSecESP) X(SLL) X(Loopback) X(ARP) X(BootP) X(RawPDU) X(VXLAN) X(EthernetII) X(DNS) X(DHCP) X(IP) X(Dot3) X(RC4EAPOL) X(RSNEAPOL) X(PPI) X(PKTAP) X(PPPoE) X(RadioTap) X(STP) X(TCP) X(ICMPv6) X(Dot11) X(Dot11RTS) X(Dot11PSPoll) X(Dot11CFEnd) X(Dot11EndCFAck) X(Dot11Ack) X(Dot11BlockAckRequest) X(Dot11BlockAck) X(Dot11ProbeRequest) X(Dot11ProbeResponse) X(Dot11Beacon) X(Dot11Disassoc) X(Dot11AssocRequest) X(Dot11AssocResponse) X(Dot11ReAssocRequest) X(Dot11ReAssocResponse) X(Dot11Data) X(Dot11QoSData) X(Dot11Authentication) X(Dot11Deauthentication) X(MPLS) X(IPv6) X(Dot1Q) X(ICMP) X(RTP) X(UDP) X(PDUCacher<IP>) X(PDUCacher<TCP>) X(PDUCacher<EthernetII>) X(PDUCacher<Dot11Data>) X(PDUCacher<RawPDU>)
// every class a user can ask for (has a pdu_flag): the concrete ones plus the abstract bases
#define ABSTRACT(X) X(EAPOL) X(Dot11ManagementFrame) X(Dot11Control) X(Dot11ControlTA)
#define ALLT(X) CONCRETE(X) ABSTRACT(X)

// classes a USER defines (flags USER_DEFINED_PDU + n): "every layer class T a user can ask for" includes them.  No shipped
// class is one of them, so no shipped object may answer to their flags - whatever number n is
template <int N> class UserPDU : public PDU {
public:
    static const PDU::PDUType pdu_flag;
    UserPDU() {}
    UserPDU* clone() const { return new UserPDU<N>(*this); }
    uint32_t header_size() const { return 2; }
    PDUType pdu_type() const { return pdu_flag; }
    void write_serialization(uint8_t* data, uint32_t) { data[0] = 0x55; data[1] = (uint8_t)N; }
};
template <int N> const PDU::PDUType UserPDU<N>::pdu_flag = static_cast<PDU::PDUType>(PDU::USER_DEFINED_PDU + N);
static const int NUSER = 80;       // n = 0 .. 79: beyond the largest flag a shipped class has

struct Obj { std::string label, cls; PDU* root; PDU* k; PDU* wrapped; };   // wrapped: for PDUCacher<X> objects, an X (else 0)   // k = the object of class K inside root's chain
static std::vector<Obj> OBJS;

template <class K> PDU* make() { return new K(); }
template <> PDU* make<PPI>() { return new PPI(SAMPLE_PPI, sizeof(SAMPLE_PPI)); }
template <> PDU* make<PKTAP>() { return new PKTAP(SAMPLE_PKTAP, sizeof(SAMPLE_PKTAP)); }
template <> PDU* make<RawPDU>() { return new RawPDU("abc"); }
template <> PDU* make<PDUCacher<IP> >() { return new PDUCacher<IP>(IP("1.2.3.4", "4.3.2.1") / TCP(80, 90) / RawPDU("xyz")); }
template <> PDU* make<PDUCacher<TCP> >() { return new PDUCacher<TCP>(TCP(1, 2) / RawPDU("q")); }
template <> PDU* make<PDUCacher<EthernetII> >() { return new PDUCacher<EthernetII>(EthernetII() / IP("1.2.3.4", "4.3.2.1") / UDP(1, 2) / RawPDU("zz")); }
template <> PDU* make<PDUCacher<Dot11Data> >() { return new PDUCacher<Dot11Data>(Dot11Data() / SNAP() / RawPDU("d")); }
template <> PDU* make<PDUCacher<RawPDU> >() { return new PDUCacher<RawPDU>(RawPDU("cached")); }

template <class K> PDU* wrapped_proto() { return 0; }
template <> PDU* wrapped_proto<PDUCacher<IP> >() { return new IP(); }
template <> PDU* wrapped_proto<PDUCacher<TCP> >() { return new TCP(); }
template <> PDU* wrapped_proto<PDUCacher<EthernetII> >() { return new EthernetII(); }
template <> PDU* wrapped_proto<PDUCacher<Dot11Data> >() { return new Dot11Data(); }
template <> PDU* wrapped_proto<PDUCacher<RawPDU> >() { return new RawPDU("w"); }
static PDU* CUR_WRAPPED = 0;
static void add(const std::string& label, const std::string& cls, PDU* root, PDU* k) { Obj o; o.label = label; o.cls = cls; o.root = root; o.k = k; o.wrapped = CUR_WRAPPED; OBJS.push_back(o); }
template <class K> void build(const char* name) {
    PDU* a = 0; try { a = make<K>(); } catch (std::exception&) { a = 0; }
    if (!a) return;
    CUR_WRAPPED = wrapped_proto<K>();
    add(std::string(name) + "#alone", name, a, a);
    // with an inner chain below it
    try { PDU* b = a->clone(); PDU* last = b; while (last->inner_pdu()) last = last->inner_pdu();
          IP tail = IP("9.9.9.9", "8.8.8.8") / TCP(7, 8) / RawPDU("tail"); last->inner_pdu(tail.clone()); add(std::string(name) + "#over_ip_tcp_raw", name, b, b); } catch (std::exception&) {}
    // below an Ethernet header and a dot1q tag
    try { EthernetII* e = new EthernetII(); Dot1Q* q = new Dot1Q(5); e->inner_pdu(q); PDU* c = a->clone(); q->inner_pdu(c); add(std::string(name) + "#under_eth_dot1q", name, e, c); } catch (std::exception&) {}
    // under a radiotap + dot11 data + snap stack (the 802.11 side of the hierarchy)
    try { RadioTap* r = new RadioTap(); Dot11QoSData* d = new Dot11QoSData(); SNAP* s = new SNAP(); r->inner_pdu(d); d->inner_pdu(s); PDU* c = a->clone(); s->inner_pdu(c); add(std::string(name) + "#under_radiotap_qos_snap", name, r, c); } catch (std::exception&) {}
}
static void specials() {
    CUR_WRAPPED = 0;
    // field states that must not change what an object *is*
    { Dot11Data* d = new Dot11Data(); d->subtype(Dot11::QOS_DATA_DATA); add("Dot11Data#subtype=QOS_DATA_DATA", "Dot11Data", d, d); }
    { Dot11QoSData q; std::vector<uint8_t> b = (q / SNAP() / RawPDU("x")).serialize(); Dot11Data* d = new Dot11Data(&b[0], (uint32_t)b.size()); add("Dot11Data#built_from_qos_bytes", "Dot11Data", d, d); }
    { Dot11QoSData q; Dot11Data* d = new Dot11Data(q); add("Dot11Data#sliced_copy_of_qos", "Dot11Data", d, d); }
    { Dot11* d = new Dot11(); d->type(Dot11::MANAGEMENT); d->subtype(Dot11::BEACON); add("Dot11#type=mgmt,subtype=beacon", "Dot11", d, d); }
    { Dot11* d = new Dot11(); d->type(Dot11::CONTROL); d->subtype(Dot11::ACK); add("Dot11#type=control,subtype=ack", "Dot11", d, d); }
    { Dot11Beacon* d = new Dot11Beacon(); d->subtype(Dot11::PROBE_RESP); add("Dot11Beacon#subtype=PROBE_RESP", "Dot11Beacon", d, d); }
    { Dot11Ack* d = new Dot11Ack(); d->subtype(Dot11::RTS); add("Dot11Ack#subtype=RTS", "Dot11Ack", d, d); }
    { BootP* b = new BootP(); b->opcode(BootP::BOOTREPLY); add("BootP#reply", "BootP", b, b); }
    { DHCP* b = new DHCP(); b->type(DHCP::OFFER); add("DHCP#offer", "DHCP", b, b); }
    { IP* i = new IP("1.1.1.1", "2.2.2.2"); i->protocol(6); add("IP#protocol=6,no_inner", "IP", i, i); }
    { IP* i = new IP("1.1.1.1", "2.2.2.2"); i->inner_pdu(new RawPDU("r")); i->protocol(17); add("IP#protocol=17,raw_inner", "IP", i, i); }
    { IPv6* i = new IPv6(); i->next_header(58); add("IPv6#next_header=58", "IPv6", i, i); }
    { EthernetII* e = new EthernetII(); e->payload_type(0x0806); add("EthernetII#type=arp,no_inner", "EthernetII", e, e); }
    { RSNEAPOL* e = new RSNEAPOL(); e->type(EAPOL::RC4); add("RSNEAPOL#type=RC4", "RSNEAPOL", e, e); }
    { RC4EAPOL* e = new RC4EAPOL(); e->type(EAPOL::RSN); add("RC4EAPOL#type=RSN", "RC4EAPOL", e, e); }
    { ICMP* i = new ICMP(); i->type(ICMP::DEST_UNREACHABLE); add("ICMP#dest_unreachable", "ICMP", i, i); }
    { PDU* p = new PPI(SAMPLE_PPI, sizeof(SAMPLE_PPI)); add("PPI#parsed_chain_root", "PPI", p, p); }
    { EthernetII e = EthernetII() / IPv6() / UDP(53, 53) / DNS(); std::vector<uint8_t> b = e.serialize(); PDU* p = new EthernetII(&b[0], (uint32_t)b.size()); add("EthernetII#parsed_ipv6_udp", "EthernetII", p, p); }
    // objects derived (sliced copy, copy, clone) from a DERIVED-class object that has already been searched and cast: whatever
    // a look-up may remember about an object must not travel into an object of another class
    { DHCP d; d.type(DHCP::DISCOVER); (void)d.find_pdu<DHCP>(); (void)d.find_pdu<BootP>(); (void)tins_cast<DHCP*>(static_cast<PDU*>(&d)); BootP* b = new BootP(d); add("BootP#sliced_copy_of_used_dhcp", "BootP", b, b); }
    { Dot11QoSData q; (void)q.find_pdu<Dot11QoSData>(); (void)q.find_pdu<Dot11Data>(); (void)tins_cast<Dot11QoSData*>(static_cast<PDU*>(&q)); Dot11Data* d = new Dot11Data(q); add("Dot11Data#sliced_copy_of_used_qos", "Dot11Data", d, d); }
    { Dot11Beacon bc; (void)bc.find_pdu<Dot11Beacon>(); (void)bc.find_pdu<Dot11ManagementFrame>(); (void)tins_cast<Dot11Beacon*>(static_cast<PDU*>(&bc)); Dot11* d = new Dot11(bc); add("Dot11#sliced_copy_of_used_beacon", "Dot11", d, d); }
    { Dot11Ack ak; (void)ak.find_pdu<Dot11Ack>(); (void)tins_cast<Dot11Ack*>(static_cast<PDU*>(&ak)); Dot11* d = new Dot11(ak); add("Dot11#sliced_copy_of_used_ack", "Dot11", d, d); }
    { EthernetII e = EthernetII() / IP("1.2.3.4", "4.3.2.1") / TCP(1, 2) / RawPDU("u"); (void)e.find_pdu<TCP>(); (void)e.find_pdu<RawPDU>(); (void)e.rfind_pdu<IP>(); PDU* c = e.clone(); add("EthernetII#clone_of_used_chain", "EthernetII", c, c);
      PDU* i = e.rfind_pdu<IP>().clone(); add("IP#clone_of_used_inner", "IP", i, i); TCP* t = new TCP(e.rfind_pdu<TCP>()); add("TCP#copy_of_used_inner", "TCP", t, t); }
    // every (type, subtype) a plain Dot11 header can be given by hand - incl. the management subtypes no class exists for (action frames,
    // 13..15) and the reserved type 3 - and an action frame parsed from bytes: it stays a plain Dot11
    for (int ty = 0; ty < 4; ++ty) for (int st = 0; st < 16; ++st) { if (ty == 0 && st < 13 && st != 6 && st != 7) continue; if (ty != 0 && st % 5) continue;
        Dot11* d = new Dot11(); d->type((small_uint<2>)(uint8_t)ty); d->subtype((small_uint<4>)(uint8_t)st); add("Dot11#type=" + std::to_string(ty) + ",subtype=" + std::to_string(st), "Dot11", d, d); }
    { uint8_t fr[30] = {0xd0, 0x00, 0x00, 0x00, 1, 2, 3, 4, 5, 6, 7, 8, 9, 10, 11, 12, 1, 2, 3, 4, 5, 6, 0x10, 0x00, 3, 0, 1, 2, 3, 4}; PDU* p = Dot11::from_bytes(fr, sizeof fr); add("Dot11#parsed_action_frame", "Dot11", p, p);
      RadioTap* r = new RadioTap(); r->inner_pdu(Dot11::from_bytes(fr, sizeof fr)); add("Dot11#parsed_action_frame_under_radiotap", "Dot11", r, r->inner_pdu()); }
    { RSNEAPOL* e = new RSNEAPOL(); e->type(EAPOL::EAPOL_WPA); add("RSNEAPOL#type=WPA(254)", "RSNEAPOL", e, e); }
    // contents that "look like" another class must not change what an object is: a plain BootP whose vendor area starts with the DHCP
    // magic cookie (set by hand / obtained by parsing DHCP bytes as BootP), a RawPDU holding the bytes of an IP packet, an LLC holding
    // SNAP's SAP values, an EthernetII whose type field names a VLAN tag, a UDP between DHCP ports with a raw payload
    { BootP* b = new BootP(); BootP::vend_type v(64, 0); v[0] = 0x63; v[1] = 0x82; v[2] = 0x53; v[3] = 0x63; v[4] = 53; v[5] = 1; v[6] = 1; v[7] = 255; b->vend(v); add("BootP#vend_starts_with_dhcp_cookie", "BootP", b, b); }
    { DHCP d; d.type(DHCP::DISCOVER); d.end(); std::vector<uint8_t> by = d.serialize(); BootP* b = new BootP(&by[0], (uint32_t)by.size(), (uint32_t)by.size() - 236); add("BootP#parsed_from_dhcp_bytes", "BootP", b, b);
      EthernetII* e = new EthernetII(); IP* i = new IP("1.2.3.4", "4.3.2.1"); UDP* u = new UDP(67, 68); BootP* b2 = new BootP(*b); e->inner_pdu(i); i->inner_pdu(u); u->inner_pdu(b2); add("BootP#cookie_inside_udp_67_68", "BootP", e, b2); }
    { std::vector<uint8_t> by = (IP("1.2.3.4", "4.3.2.1") / TCP(1, 2)).serialize(); RawPDU* r = new RawPDU(&by[0], (uint32_t)by.size()); add("RawPDU#holds_ip_tcp_bytes", "RawPDU", r, r); }
    { LLC* l = new LLC(0xaa, 0xaa); l->type(LLC::UNNUMBERED); add("LLC#snap_saps", "LLC", l, l); }
    { EthernetII* e = new EthernetII(); e->payload_type(0x8100); e->inner_pdu(new RawPDU("\x00\x05\x08\x00")); add("EthernetII#type=8100,raw_inner", "EthernetII", e, e); }
    { UDP* u = new UDP(67, 68); u->inner_pdu(new RawPDU("not dhcp")); add("UDP#dhcp_ports,raw_inner", "UDP", u, u); }
    // RawPDU objects that hold no bytes: built empty, emptied after a look-up, moved from
    { RawPDU* r = new RawPDU(""); add("RawPDU#empty", "RawPDU", r, r); }
    { RawPDU* r = new RawPDU((const uint8_t*)"", 0); add("RawPDU#zero_length_buffer", "RawPDU", r, r); }
    { RawPDU* r = new RawPDU("full"); (void)r->find_pdu<RawPDU>(); r->payload().clear(); add("RawPDU#emptied_after_lookup", "RawPDU", r, r); }
    { RawPDU* r = new RawPDU("moved"); RawPDU* r2 = new RawPDU(std::move(*r)); add("RawPDU#moved_from", "RawPDU", r, r); add("RawPDU#moved_to", "RawPDU", r2, r2); }
    { EthernetII* e = new EthernetII(); IP* i = new IP("1.2.3.4", "4.3.2.1"); UDP* u = new UDP(1, 2); RawPDU* r = new RawPDU(""); e->inner_pdu(i); i->inner_pdu(u); u->inner_pdu(r); add("RawPDU#empty_at_the_end_of_a_chain", "RawPDU", e, r); }
    // objects of user-defined classes, alone and inside a chain of shipped classes
    { UserPDU<3>* u = new UserPDU<3>(); add("UserPDU<3>#alone", "UserPDU<3>", u, u); }
    { UserPDU<28>* u = new UserPDU<28>(); add("UserPDU<28>#alone", "UserPDU<28>", u, u); }
    { EthernetII* e = new EthernetII(); IP* i = new IP("1.2.3.4", "4.3.2.1"); UserPDU<0>* u = new UserPDU<0>(); e->inner_pdu(i); i->inner_pdu(u); u->inner_pdu(new RawPDU("below")); add("UserPDU<0>#inside_chain", "UserPDU<0>", e, u); }
    // wrapper inside a chain
    { CUR_WRAPPED = new IP(); EthernetII* e = new EthernetII(); PDUCacher<IP>* c = new PDUCacher<IP>(IP("1.2.3.4", "4.3.2.1") / TCP(1, 2)); e->inner_pdu(c); c->inner_pdu(new RawPDU("after")); add("PDUCacher<IP>#inside_chain", "PDUCacher<IP>", e, c); }
}
static void build_all() {
#define B(K) build<K >(#K);
    CONCRETE(B)
    specials();
}

template <class T> static void probe(const Obj& o, const char* tname, vh::Out& out) {
    std::vector<PDU*> chain; for (PDU* p = o.root; p; p = p->inner_pdu()) chain.push_back(p);
    T* f = o.root->find_pdu<T>(); T* fk = o.k->find_pdu<T>(); T* c = tins_cast<T*>(o.k);
    // the const overloads of the search (and the throwing rfind_pdu) have to give the same answers
    const PDU* croot = o.root; const PDU* ck = o.k; const T* cf = croot->find_pdu<T>(); const T* cfk = ck->find_pdu<T>();
    const T* rf = 0; try { rf = &croot->rfind_pdu<T>(); } catch (pdu_not_found&) {} T* rf2 = 0; try { rf2 = &o.root->rfind_pdu<T>(); } catch (pdu_not_found&) {}
    bool overloads_agree = (const void*)cf == (const void*)f && (const void*)cfk == (const void*)fk && (const void*)rf == (const void*)f && (const void*)rf2 == (const void*)f;
    long find = -1, findk = -1;
    if (f) { find = -2; for (size_t i = 0; i < chain.size(); ++i) if ((void*)chain[i] == (void*)f) find = (long)i; }
    if (fk) { findk = -2; for (size_t i = 0; i < chain.size(); ++i) if ((void*)chain[i] == (void*)fk) findk = (long)i; }
    long kidx = 0; for (size_t i = 0; i < chain.size(); ++i) if (chain[i] == o.k) kidx = (long)i;
    bool self = typeid(*o.k) == typeid(T);
    // The wrapper PDUCacher<X> deliberately shares X's type flag (known finding F8).  A pair belongs to that class iff
    // the requested type is a wrapper type (it is then "found" in any X), or the wrapper object itself is asked for
    // the class it wraps or a base of it.  Anything else a wrapper answers to is NOT in that class.
    bool cacher_pair = false;
    { std::string tn = tname; bool t_is_wrapped_or_base = o.wrapped && dynamic_cast<T*>(o.wrapped) != 0;
      cacher_pair = tn.compare(0, 10, "PDUCacher<") == 0 || (t_is_wrapped_or_base && findk != -2 && find != -2); }
    out.begin("\"obj\":\"" + o.label + "\",\"t\":\"" + tname + "\",\"cacher_pair\":" + (cacher_pair ? "true" : "false"));
    vh::W w; w.O().kv("e", "pair").kv("k", o.label).kv("cls", o.cls).kv("t", tname).kv("find", find).kv("findk", findk).kv("kidx", kidx)
        .kv("cast", c != 0).kv("castSame", (void*)c == (void*)o.k).kv("self", self).kv("overloads_agree", overloads_agree);
    w.key("dyn").A(); for (size_t i = 0; i < chain.size(); ++i) w.v(dynamic_cast<T*>(chain[i]) != 0); w.E();
    w.key("chain").A(); for (size_t i = 0; i < chain.size(); ++i) w.v((long)chain[i]->pdu_type()); w.E();
    w.E(); out.event(w); out.end();
}
template <int N> struct ProbeUsers { static void run(const Obj& o, vh::Out& out) { ProbeUsers<N - 1>::run(o, out); std::string n = "UserPDU<" + std::to_string(N) + ">"; probe<UserPDU<N> >(o, n.c_str(), out); } };
template <> struct ProbeUsers<-1> { static void run(const Obj&, vh::Out&) {} };
static void scenario(const vh::Json& sc, vh::Out& out, vh::Rng&, const vh::Args&) {
    if (OBJS.empty()) build_all();
    size_t i = (size_t)sc["k"].num(); if (i >= OBJS.size()) return;
    const Obj& o = OBJS[i];
#define P(T) probe<T >(o, #T, out);
    ALLT(P)
    ProbeUsers<NUSER - 1>::run(o, out);
}
int main(int argc, char** argv) { return vh::run(argc, argv, scenario); }
