// Common support for the replay drivers (DESIGN.md 2.2 step 4, 2.6, 2.9).
//  - tiny JSON reader (scenarios exported by TLC) and writer (ndjson trace events)
//  - seeded RNG
//  - fork-batched scenario runner with crash attribution: a scenario that dies (sanitizer report,
//    abort, hang) is recorded in <out>.crashes with the sanitizer summary, and the run continues.
#ifndef VERIF_VH_H
#define VERIF_VH_H
#include <cstdint>
#include <cstdio>
#include <cstdlib>
#include <cstring>
#include <exception>
#include <fstream>
#include <functional>
#include <map>
#include <sstream>
#include <string>
#include <ctime>
#include <typeinfo>
#include <vector>
#include <fcntl.h>
#include <signal.h>
#include <sys/mman.h>
#include <sys/wait.h>
#include <unistd.h>

namespace vh {

// ---------------------------------------------------------------- JSON value + parser
struct Json {
    enum Kind { Null, Bool, Num, Str, Arr, Obj } kind;
    bool b; long long n; std::string s; std::vector<Json> a; std::vector<std::pair<std::string, Json> > o;
    Json() : kind(Null), b(false), n(0) {}
    bool has(const std::string& k) const { for (size_t i = 0; i < o.size(); ++i) if (o[i].first == k) return true; return false; }
    const Json& operator[](const std::string& k) const {
        static Json nul; for (size_t i = 0; i < o.size(); ++i) if (o[i].first == k) return o[i].second; return nul; }
    const Json& operator[](size_t i) const { return a[i]; }
    size_t size() const { return kind == Arr ? a.size() : o.size(); }
    long long num(long long d = 0) const { return kind == Num ? n : (kind == Bool ? (b ? 1 : 0) : d); }
    const std::string& str() const { return s; }
    bool truth() const { return kind == Bool ? b : (kind == Num ? n != 0 : false); }
    std::string dump() const {
        std::ostringstream os; dump(os); return os.str(); }
    static void esc(std::ostream& os, const std::string& x) {
        os << '"'; for (size_t i = 0; i < x.size(); ++i) { unsigned char c = x[i];
            if (c == '"' || c == '\\') os << '\\' << c; else if (c < 0x20) { char b[8]; snprintf(b, 8, "\\u%04x", c); os << b; } else os << c; }
        os << '"'; }
    void dump(std::ostream& os) const {
        switch (kind) {
        case Null: os << "null"; break; case Bool: os << (b ? "true" : "false"); break; case Num: os << n; break;
        case Str: esc(os, s); break;
        case Arr: os << '['; for (size_t i = 0; i < a.size(); ++i) { if (i) os << ','; a[i].dump(os); } os << ']'; break;
        case Obj: os << '{'; for (size_t i = 0; i < o.size(); ++i) { if (i) os << ','; esc(os, o[i].first); os << ':'; o[i].second.dump(os); } os << '}'; break; } }
};

struct Parser {
    const char* p; const char* e;
    explicit Parser(const std::string& s) : p(s.data()), e(s.data() + s.size()) {}
    void ws() { while (p < e && (*p == ' ' || *p == '\n' || *p == '\t' || *p == '\r')) ++p; }
    Json parse() { ws(); Json j;
        if (p >= e) return j;
        if (*p == '{') { j.kind = Json::Obj; ++p; ws(); if (*p == '}') { ++p; return j; }
            for (;;) { ws(); Json k = parse(); ws(); ++p /* : */; Json v = parse(); j.o.push_back(std::make_pair(k.s, v)); ws(); if (*p == ',') { ++p; continue; } ++p; break; } return j; }
        if (*p == '[') { j.kind = Json::Arr; ++p; ws(); if (*p == ']') { ++p; return j; }
            for (;;) { j.a.push_back(parse()); ws(); if (*p == ',') { ++p; continue; } ++p; break; } return j; }
        if (*p == '"') { j.kind = Json::Str; ++p; while (p < e && *p != '"') { if (*p == '\\' && p + 1 < e) { ++p;
                    if (*p == 'n') j.s += '\n'; else if (*p == 't') j.s += '\t'; else if (*p == 'u' && p + 4 < e) { j.s += (char)strtol(std::string(p + 1, p + 5).c_str(), 0, 16); p += 4; } else j.s += *p; }
                else j.s += *p; ++p; } ++p; return j; }
        if (!strncmp(p, "true", 4)) { j.kind = Json::Bool; j.b = true; p += 4; return j; }
        if (!strncmp(p, "false", 5)) { j.kind = Json::Bool; j.b = false; p += 5; return j; }
        if (!strncmp(p, "null", 4)) { p += 4; return j; }
        j.kind = Json::Num; char* q; j.n = strtoll(p, &q, 10); if (q < e && (*q == '.' || *q == 'e' || *q == 'E')) { strtod(p, &q); } p = q; return j; }
};
inline Json parse(const std::string& s) { Parser P(s); return P.parse(); }

// ---------------------------------------------------------------- JSON writer
struct W {
    std::string s; std::vector<char> first;
    W() { }
    void sep() { if (!first.empty()) { if (!first.back()) s += ','; first.back() = 0; } }
    std::vector<char> kinds;
    W& O() { sep(); s += '{'; first.push_back(1); kinds.push_back('}'); return *this; }
    W& A() { sep(); s += '['; first.push_back(1); kinds.push_back(']'); return *this; }
    W& E() { s += kinds.back(); kinds.pop_back(); first.pop_back(); return *this; }
    W& key(const char* k) { sep(); s += '"'; s += k; s += "\":"; first.back() = 1; return *this; }
    W& v(long long x) { sep(); s += std::to_string(x); return *this; }
    W& v(int x) { return v((long long)x); }
    W& v(unsigned x) { return v((long long)x); }
    W& v(unsigned long x) { return v((long long)x); }
    W& v(long x) { return v((long long)x); }
    W& v(unsigned long long x) { return v((long long)x); }
    W& v(bool x) { sep(); s += x ? "true" : "false"; return *this; }
    W& v(const char* x) { return v(std::string(x)); }
    W& v(const std::string& x) { sep(); std::ostringstream os; Json::esc(os, x); s += os.str(); return *this; }
    W& null() { sep(); s += "null"; return *this; }
    W& raw(const std::string& json) { sep(); s += json; return *this; }
    template <class T> W& kv(const char* k, const T& x) { key(k); return v(x); }
    W& kraw(const char* k, const std::string& json) { key(k); return raw(json); }
    template <class It> W& bytes(It b, It e2) { A(); for (; b != e2; ++b) v((long long)(unsigned char)*b); return E(); }
    template <class C> W& kbytes(const char* k, const C& c) { key(k); return bytes(c.begin(), c.end()); }
};

// ---------------------------------------------------------------- RNG (splitmix64)
struct Rng {
    uint64_t x;
    explicit Rng(uint64_t s) : x(s * 0x9E3779B97F4A7C15ull + 0x1234567ull) {}
    uint64_t next() { uint64_t z = (x += 0x9E3779B97F4A7C15ull); z = (z ^ (z >> 30)) * 0xBF58476D1CE4E5B9ull; z = (z ^ (z >> 27)) * 0x94D049BB133111EBull; return z ^ (z >> 31); }
    uint32_t u32() { return (uint32_t)next(); }
    uint32_t below(uint32_t n) { return n ? (uint32_t)(next() % n) : 0; }
    int range(int lo, int hi) { return lo + (int)below((uint32_t)(hi - lo + 1)); }
    bool coin() { return next() & 1; }
};

// ---------------------------------------------------------------- execution output
struct Out {
    FILE* f; long sid; std::vector<std::string> ev; std::string cfg; bool open; long executions; long events;
    Out() : f(0), sid(0), open(false), executions(0), events(0) {}
    // cfg: JSON object *members* without braces, e.g.  "\"L\":7,\"isn\":\"42\""  (may be empty)
    void begin(const std::string& cfg_members) { ev.clear(); cfg = cfg_members; open = true; }
    void event(const W& w) { ev.push_back(w.s); }
    void event(const std::string& s) { ev.push_back(s); }
    void end() {
        if (!open) return;
        fprintf(f, "{\"e\":\"Reset\",\"n\":%zu,\"sid\":%ld%s%s}\n", ev.size(), sid, cfg.empty() ? "" : ",", cfg.c_str());
        for (size_t i = 0; i < ev.size(); ++i) { fputs(ev[i].c_str(), f); fputc('\n', f); }
        fflush(f); open = false; ++executions; events += (long)ev.size(); }
    void discard() { open = false; ev.clear(); }
};

struct Args {
    std::map<std::string, std::string> m;
    std::string get(const std::string& k, const std::string& d = "") const { std::map<std::string, std::string>::const_iterator i = m.find(k); return i == m.end() ? d : i->second; }
    long num(const std::string& k, long d) const { std::map<std::string, std::string>::const_iterator i = m.find(k); return i == m.end() ? d : atol(i->second.c_str()); }
};

typedef std::function<void(const Json& scen, Out& out, Rng& rng, const Args& args)> ScenFn;

inline std::string sanitizer_summary(const std::string& path) {
    std::ifstream in(path.c_str()); std::string line, best, first_rt, frames;
    int nframes = 0;
    while (std::getline(in, line)) {
        if (line.find("SUMMARY:") != std::string::npos && best.empty()) best = line;
        if (line.find("runtime error:") != std::string::npos && first_rt.empty()) first_rt = line;
        if (line.find("ERROR: AddressSanitizer") != std::string::npos && first_rt.empty()) first_rt = line;
        if (line.find("WARNING: ThreadSanitizer") != std::string::npos && first_rt.empty()) first_rt = line;
        if (line.find("terminate called") != std::string::npos && first_rt.empty()) first_rt = line;
        if (line.find("what():") != std::string::npos) first_rt += " " + line;
        if (nframes < 6 && line.find("    #") != std::string::npos && line.find("Tins::") != std::string::npos) { frames += line.substr(line.find("    #")) + " | "; ++nframes; }
    }
    std::string r = first_rt.empty() ? best : (first_rt + " ; " + best);
    if (!frames.empty()) r += " ; frames: " + frames;
    if (r.size() > 1500) r.resize(1500);
    return r;
}

// Runs every scenario line of --in through fn in forked batches.  Returns process exit code.
inline int run(int argc, char** argv, ScenFn fn) {
    Args args; for (int i = 1; i + 1 < argc; i += 2) if (!strncmp(argv[i], "--", 2)) args.m[argv[i] + 2] = argv[i + 1];
    std::string in = args.get("in"), outp = args.get("out"); uint64_t seed = (uint64_t)args.num("seed", 1);
    long batch = args.num("batch", 200); long sid_base = args.num("sid-base", 0); long per_scen_timeout = args.num("scen-timeout", 30);
    // a run that has already produced this many crashed / hung scenarios stops: every one of them is a candidate the check will
    // confirm alone, and a library that hangs on thousands of scenarios must not turn a violation into a time-out of the check
    long max_crashes = args.num("max-crashes", 30);
    // ... and a run that has used up its wall-clock budget stops as well (the rest of the scenarios is reported as skipped): on the
    // unchanged tree the largest pushes take a few minutes
    long max_seconds = args.num("max-seconds", 1500); time_t t_start = time(0); long skipped = 0;
    std::vector<std::string> lines; { std::ifstream f(in.c_str()); std::string l; while (std::getline(f, l)) if (!l.empty()) lines.push_back(l); }
    { FILE* t = fopen(outp.c_str(), "w"); if (!t) { perror("out"); return 3; } fclose(t); }
    FILE* crashes = fopen((outp + ".crashes").c_str(), "w");
    volatile long* progress = (volatile long*)mmap(0, 4096, PROT_READ | PROT_WRITE, MAP_SHARED | MAP_ANONYMOUS, -1, 0);
    long i = 0, total_exec = 0, total_ev = 0, ncrash = 0;
    std::string errfile = outp + ".stderr";
    while (i < (long)lines.size() && ncrash < max_crashes) {
        if (time(0) - t_start > max_seconds) { skipped = (long)lines.size() - i; break; }
        long hi = std::min<long>(i + batch, (long)lines.size());
        progress[0] = i; progress[1] = 0; progress[2] = 0;
        fflush(0);
        pid_t pid = fork();
        if (pid == 0) {
            int fd = open(errfile.c_str(), O_WRONLY | O_CREAT | O_TRUNC, 0644); dup2(fd, 2); close(fd);
            Out out; out.f = fopen(outp.c_str(), "a");
            for (long k = i; k < hi; ++k) {
                progress[0] = k; alarm((unsigned)per_scen_timeout);
                Json sc = parse(lines[k]); Rng rng(seed * 1000003ull + (uint64_t)(sid_base + k)); out.sid = sid_base + k;
                fn(sc, out, rng, args);
                if (out.open) out.end();
            }
            alarm(0);
            progress[0] = hi; progress[1] = out.executions; progress[2] = out.events;
            fclose(out.f); fflush(0);
            _exit(0);   // leak checking per scenario is done explicitly by drivers that need it
        }
        int st = 0; waitpid(pid, &st, 0);
        long at = progress[0];
        if (WIFEXITED(st) && at >= hi) {
            // every scenario of the batch ran to its end
            total_exec += progress[1]; total_ev += progress[2];
            // ThreadSanitizer reports do not stop the process; its _exit interceptor turns them into the exit status.
            // Attributed to the last scenario of the batch (exact with --batch 1, which is how threaded drivers are run).
            { std::ifstream ef(errfile.c_str()); std::string ln; bool race = false; while (std::getline(ef, ln)) if (ln.find("WARNING: ThreadSanitizer") != std::string::npos) { race = true; break; }
              if (race || WEXITSTATUS(st) != 0) { std::string summ = sanitizer_summary(errfile);
                  W w; w.O().kv("sid", (long long)(sid_base + hi - 1)).kv("why", race ? std::string("ThreadSanitizer report") : ("exit " + std::to_string(WEXITSTATUS(st)) + " after the last scenario")).kv("summary", summ).kraw("scen", lines[hi - 1]).E();
                  fprintf(crashes, "%s\n", w.s.c_str()); fflush(crashes); ++ncrash; } }
            i = hi; continue; }
        // scenario `at` died
        std::string why = WIFSIGNALED(st) ? (WTERMSIG(st) == SIGALRM ? std::string("hang: scenario exceeded the time bound") : ("signal " + std::to_string(WTERMSIG(st)))) : ("exit " + std::to_string(WEXITSTATUS(st)));
        std::string summ = sanitizer_summary(errfile);
        W w; w.O().kv("sid", (long long)(sid_base + at)).kv("why", why).kv("summary", summ).kraw("scen", at < (long)lines.size() ? lines[at] : "null").E();
        fprintf(crashes, "%s\n", w.s.c_str()); fflush(crashes); ++ncrash;
        i = at + 1;
    }
    fclose(crashes); if (!getenv("VH_KEEP_STDERR")) unlink(errfile.c_str());
    if (ncrash >= max_crashes) skipped = (long)lines.size() - i;
    printf("{\"scenarios\":%zu,\"crashed\":%ld,\"skipped\":%ld}\n", lines.size(), ncrash, skipped);
    return 0;
}

}  // namespace vh
#endif
