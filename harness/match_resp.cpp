// C14 driver: response matching (PDU::matches_response).
//
// part "match"  one case of spec/match/Mirror.tla (exported by MirrorGen): an abstract request r and an abstract candidate
//               reply m (the mirror, a single-field perturbation of it, or a destination-unreachable stranger).  MirrorOf /
//               Perturb were evaluated by TLC; this driver only CONCRETISES the abstract values 1,2,3 of every value class
//               (MAC, IPv4, IPv6, 16-bit port / identifier, VLAN id) with seeded, adversarially close values (one bit apart,
//               byte-swapped, +-1), fills the unmatched fields (TTL, TOS, IP id, TCP seq/ack/flags, payloads ...) freely,
//               builds request and reply through the public API, serialises the reply, copies it into an exact-size heap
//               block and asks request.matches_response(block, size).  Request bytes, reply bytes and the verdict are
//               logged; spec/match/MirrorTrace.tla reads the bytes independently and applies Mirror!Expected.
//               Documented wildcards are excluded: every MAC is unicast, IPv4 addresses are unicast host addresses
//               (first octet 1..223, last octet 1..254), IPv6 addresses are unicast (never ff00::/8).
// part "safe"   memory-safety clause: one layer object x one buffer source x one length n in 0..128.  The first n bytes
//               of the source are placed (a) in an exact-size heap block (ASan red zone right behind byte n-1; for n = 0
//               the pointer is the end of a block, i.e. a non-null pointer to an empty buffer) and (b) at the end of a
//               mapping that is followed by 1 MiB of PROT_NONE pages (catches far reads that jump over a red zone).
//               Any read outside kills the batch child; vh::run attributes it to this scenario (crash record).
//               Objects: every concrete layer class default-constructed ("K#alone") and with an inner chain
//               ("K#chain"), field states that open the matcher's gates for all-ones / all-zero buffers, and the
//               request stacks of part "match" with their mirrored replies (so that every truncation point of an
//               otherwise matching reply is visited).
#include "vh.h"
#include "samples.h"
#include <tins/tins.h>
#include <tins/pdu_cacher.h>
#include <tins/loopback.h>
#include <tins/ppi.h>
#include <tins/pktap.h>
#include <tins/ipsec.h>
#include <tins/mpls.h>
#include <tins/vxlan.h>
#include <tins/rtp.h>
#include <memory>
using namespace Tins;
typedef std::vector<uint8_t> Bytes;

// keep this list identical to harness/pdu_types.cpp (tools/families/c14.py cross-checks it against the headers)
// payload sizes of replies: mostly small, now and then a size at which a length field has a zero low octet / is at its
// usual maximum (the reply's payload is "filled freely")
static size_t paylen(vh::Rng& rng) { static const size_t B[] = {248, 504, 760, 1016, 247, 255, 256, 1472}; return rng.below(4) == 0 ? B[rng.below(8)] : (size_t)rng.range(1, 40); }
#define CONCRETE(X) X(SNAP) X(DHCPv6) X(LLC) X(IPSecAH) X(IPSecESP) X(SLL) X(Loopback) X(ARP) X(BootP) X(RawPDU) X(VXLAN) X(EthernetII) X(DNS) X(DHCP) X(IP) X(Dot3) X(RC4EAPOL) X(RSNEAPOL) X(PPI) X(PKTAP) X(PPPoE) X(RadioTap) X(STP) X(TCP) X(ICMPv6) X(Dot11) X(Dot11RTS) X(Dot11PSPoll) X(Dot11CFEnd) X(Dot11EndCFAck) X(Dot11Ack) X(Dot11BlockAckRequest) X(Dot11BlockAck) X(Dot11ProbeRequest) X(Dot11ProbeResponse) X(Dot11Beacon) X(Dot11Disassoc) X(Dot11AssocRequest) X(Dot11AssocResponse) X(Dot11ReAssocRequest) X(Dot11ReAssocResponse) X(Dot11Data) X(Dot11QoSData) X(Dot11Authentication) X(Dot11Deauthentication) X(MPLS) X(IPv6) X(Dot1Q) X(ICMP) X(RTP) X(UDP) X(PDUCacher<IP>) X(PDUCacher<TCP>) X(PDUCacher<EthernetII>) X(PDUCacher<Dot11Data>) X(PDUCacher<RawPDU>)

// ------------------------------------------------------------------------------------------------ concretisation
enum Cls { MAC = 0, IP4, IP6, P16, VID, NCLS };
static bool valid(Cls c, const Bytes& b) {
    switch (c) {
    case MAC: return (b[0] & 1) == 0;                                           // unicast (I/G bit clear)
    case IP4: return b[0] >= 1 && b[0] <= 223 && b[0] != 127 && b[3] >= 1 && b[3] <= 254;   // no multicast / broadcast / 0.x
    case IP6: return !(b[0] == 0xff && b[1] == 0x02) && !(b[0] == 0 && b[1] == 0);   // not ff02::/16 (the documented wildcard), not ::/16
    case VID: return b[0] < 16;
    default: return true;
    }
}
static size_t width(Cls c) { return c == MAC ? 6 : c == IP4 ? 4 : c == IP6 ? 16 : 2; }
static Bytes fresh(Cls c, vh::Rng& rng) {
    for (;;) { Bytes b(width(c)); for (size_t i = 0; i < b.size(); ++i) b[i] = (uint8_t)rng.below(256);
        if (c == VID) b[0] &= 0x0f;
        if (c == IP6 && rng.below(4)) { static const uint8_t lead[] = {0x20, 0x26, 0xfd, 0xfe}; b[0] = lead[rng.below(4)]; if (b[0] == 0xfe) b[1] = 0x80; }
        // multicast scopes other than link-local (ff02) have no documented exemption: every address is matched there too
        if (c == IP6 && rng.below(7) == 0) { static const uint8_t scope[] = {0x01, 0x05, 0x0e, 0x12, 0x08}; b[0] = 0xff; b[1] = scope[rng.below(5)]; }
        if (valid(c, b)) return b; }
}
// a value close to x: one bit flipped, one byte replaced, bytes swapped, +-1
static Bytes near(Cls c, const Bytes& x, vh::Rng& rng) {
    for (int tries = 0; tries < 200; ++tries) {
        Bytes b = x; int how = (int)rng.below(5);
        if (how <= 1) { size_t bit = rng.below((uint32_t)(8 * b.size())); b[bit / 8] ^= (uint8_t)(1u << (bit % 8)); }
        else if (how == 2) { b[rng.below((uint32_t)b.size())] = (uint8_t)rng.below(256); }
        else if (how == 3) { size_t i = rng.below((uint32_t)b.size()), j = rng.below((uint32_t)b.size()); std::swap(b[i], b[j]); }
        else { int d = rng.coin() ? 1 : -1; for (size_t i = b.size(); i-- > 0;) { b[i] = (uint8_t)(b[i] + d); if ((d == 1 && b[i] != 0) || (d == -1 && b[i] != 0xff)) break; } }
        if (b != x && valid(c, b)) return b;
    }
    return fresh(c, rng);
}
struct Table {
    Bytes v[NCLS][5];       // abstract values 1..4 of every class
    explicit Table(vh::Rng& rng) {
        for (int c = 0; c < NCLS; ++c) for (int k = 1; k <= 4; ++k) for (;;) {
            Bytes b = (k == 1 || rng.below(4) == 0) ? fresh((Cls)c, rng) : near((Cls)c, v[c][1 + rng.below((uint32_t)(k - 1))], rng);
            bool dup = false; for (int j = 1; j < k; ++j) if (v[c][j] == b) dup = true;
            if (!dup) { v[c][k] = b; break; } }
        // in one table of six one of the four IPv4 values is 0.0.0.0 - the address of a host that has none yet (a request whose source
        // was left unset): between unicast peers it is matched like any other address (only broadcast destinations are exempt)
        if (rng.below(6) == 0) v[IP4][1 + rng.below(4)] = Bytes(4, 0);
        // ... and in one table of three the "fresh" VLAN identifier (the one a perturbed reply carries) is 0, the priority tag
        if (rng.below(3) == 0 && v[VID][1] != Bytes(2, 0) && v[VID][2] != Bytes(2, 0)) v[VID][3] = Bytes(2, 0);
        // ... and likewise the fresh 16-bit value (a perturbed DNS id, port, ICMP identifier or sequence number) is 0 in one table of four
        if (rng.below(4) == 0 && v[P16][1] != Bytes(2, 0) && v[P16][2] != Bytes(2, 0)) v[P16][3] = Bytes(2, 0);
    }
    const Bytes& get(Cls c, long k) const { return v[c][k >= 1 && k <= 4 ? k : 1]; }
    uint16_t u16(Cls c, long k) const { const Bytes& b = get(c, k); return (uint16_t)((b[0] << 8) | b[1]); }
    EthernetII::address_type mac(long k) const { return EthernetII::address_type(&get(MAC, k)[0]); }
    IPv4Address ip4(long k) const { const Bytes& b = get(IP4, k); uint32_t h = ((uint32_t)b[0] << 24) | (b[1] << 16) | (b[2] << 8) | b[3]; return IPv4Address(Endian::host_to_be(h)); }
    IPv6Address ip6(long k) const { return IPv6Address(&get(IP6, k)[0]); }
};
static Bytes rnd(vh::Rng& rng, size_t n) { Bytes b(n); for (size_t i = 0; i < n; ++i) b[i] = (uint8_t)rng.below(256); return b; }

// ------------------------------------------------------------------------------------------------ packet builder
// a: abstract packet record (spec/match/Mirror.tla).  netvar: "plain" | "opts" (IPv4 options / IPv6 extension headers, the
// same in request and reply; only used by part "safe").  quoted: bytes an "unreach" packet carries after its 8-byte header.
static PDU* build(const vh::Json& a, const Table& T, vh::Rng& rng, const std::string& netvar, const Bytes& quoted) {
    const std::string link = a["link"].str(), net = a["net"].str(), upper = a["upper"].str();
    EthernetII* eth = new EthernetII(T.mac(a["eth_dst"].num()), T.mac(a["eth_src"].num()));
    PDU* tail = eth;
    if (link == "vlan") { Dot1Q* q = new Dot1Q((small_uint<12>)T.u16(VID, a["vid"].num())); q->priority((small_uint<3>)(uint8_t)rng.below(8)); q->cfi((small_uint<1>)(uint8_t)rng.below(2)); tail->inner_pdu(q); tail = q; }
    if (net == "ip4") {
        IP* ip = new IP(T.ip4(a["ip_dst"].num()), T.ip4(a["ip_src"].num()));
        ip->ttl((uint8_t)rng.range(1, 255)); ip->tos((uint8_t)rng.below(256)); ip->id((uint16_t)rng.below(65536)); if (rng.coin()) ip->flags(IP::DONT_FRAGMENT);
        if (netvar == "opts") { Bytes d(7, 0); d[0] = 4; ip->add_option(IP::option(IP::option_identifier((uint8_t)7), d.begin(), d.end())); ip->add_option(IP::option(IP::option_identifier((uint8_t)1))); }
        tail->inner_pdu(ip); tail = ip;
    } else {
        IPv6* ip = new IPv6(T.ip6(a["ip_dst"].num()), T.ip6(a["ip_src"].num()));
        ip->hop_limit((uint8_t)rng.range(1, 255)); ip->traffic_class((uint8_t)rng.below(256)); ip->flow_label((small_uint<20>)(uint32_t)rng.below(1 << 20));
        if (netvar == "opts") { Bytes d(6, 0); d[0] = 1; d[1] = 4; ip->add_header(IPv6::ext_header((uint8_t)0, d.begin(), d.end())); Bytes e(14, 0); e[0] = 1; e[1] = 12; ip->add_header(IPv6::ext_header((uint8_t)60, e.begin(), e.end())); }
        tail->inner_pdu(ip); tail = ip;
    }
    if (upper == "tcp") {
        static const int FL[] = {0x02, 0x12, 0x10, 0x18, 0x04, 0x11, 0x14};
        TCP* t = new TCP(T.u16(P16, a["dport"].num()), T.u16(P16, a["sport"].num()));
        t->seq(rng.u32()); t->ack_seq(rng.u32()); t->window((uint16_t)rng.below(65536)); t->flags((small_uint<12>)(uint16_t)FL[rng.below(7)]);
        if (rng.below(3) == 0) t->mss((uint16_t)rng.below(65536));        // header length is the reply's own business
        tail->inner_pdu(t); tail = t;
        if (rng.coin()) { Bytes p = rnd(rng, paylen(rng)); tail->inner_pdu(new RawPDU(p.begin(), p.end())); }
    } else if (upper == "udp") {
        UDP* u = new UDP(T.u16(P16, a["dport"].num()), T.u16(P16, a["sport"].num())); tail->inner_pdu(u); tail = u;
        Bytes p = rnd(rng, paylen(rng)); tail->inner_pdu(new RawPDU(p.begin(), p.end()));          // "UDP with a payload"
    } else if (upper == "dns") {
        UDP* u = new UDP(T.u16(P16, a["dport"].num()), T.u16(P16, a["sport"].num())); tail->inner_pdu(u); tail = u;
        DNS* d = new DNS(); d->id(T.u16(P16, a["dnsid"].num()));      // questions / answers are added by fill_dns
        tail->inner_pdu(d); tail = d;
    } else if (upper == "echo" || upper == "tstamp" || upper == "mask") {
        ICMP* i = new ICMP((ICMP::Flags)a["type"].num()); i->id(T.u16(P16, a["id"].num())); i->sequence(T.u16(P16, a["seq"].num()));
        if (upper == "tstamp") { i->original_timestamp(rng.u32()); i->receive_timestamp(rng.u32()); i->transmit_timestamp(rng.u32()); }
        if (upper == "mask") i->address_mask(IPv4Address(rng.u32()));
        tail->inner_pdu(i); tail = i;
        if (upper == "echo" && rng.coin()) { Bytes p = rnd(rng, rng.range(1, 32)); tail->inner_pdu(new RawPDU(p.begin(), p.end())); }
    } else if (upper == "echo6") {
        ICMPv6* i = new ICMPv6((ICMPv6::Types)a["type"].num()); i->identifier(T.u16(P16, a["id"].num())); i->sequence(T.u16(P16, a["seq"].num()));
        tail->inner_pdu(i); tail = i;
        if (rng.coin()) { Bytes p = rnd(rng, rng.range(1, 32)); tail->inner_pdu(new RawPDU(p.begin(), p.end())); }
    } else {   // "unreach": ICMP / ICMPv6 destination unreachable quoting `quoted`
        if (net == "ip4") { ICMP* i = new ICMP(ICMP::DEST_UNREACHABLE); i->code((uint8_t)rng.below(16)); tail->inner_pdu(i); tail = i; }
        else { ICMPv6* i = new ICMPv6(ICMPv6::DEST_UNREACHABLE); i->code((uint8_t)rng.below(7)); tail->inner_pdu(i); tail = i; }
        tail->inner_pdu(new RawPDU(quoted.begin(), quoted.end()));
    }
    return eth;
}
static void fill_dns(PDU* root, bool response, vh::Rng& rng) {
    DNS* d = root->find_pdu<DNS>(); if (!d) return;
    static const char* NAMES[] = {"example.com", "a.b", "www.libtins.test", "x"};
    std::string nm = NAMES[rng.below(4)];
    d->type(response ? DNS::RESPONSE : DNS::QUERY); d->recursion_desired((uint8_t)rng.below(2));
    d->add_query(DNS::query(nm, DNS::A, DNS::INTERNET));
    if (response) { d->recursion_available(1); d->add_answer(DNS::resource(nm, "10.1.2.3", DNS::A, DNS::INTERNET, rng.below(100000))); }
}
static size_t net_offset(const Bytes& frame) { return (frame.size() > 13 && frame[12] == 0x81 && frame[13] == 0x00) ? 18 : 14; }
// what a router would quote from this frame: the IP header and the first bytes of its payload
static Bytes quote_of(const Bytes& frame, const std::string& net) {
    size_t o = net_offset(frame); size_t want = net == "ip4" ? (size_t)(frame[o] & 15) * 4 + 8 : 48;
    size_t have = frame.size() > o ? frame.size() - o : 0; if (want > have) want = have;
    return Bytes(frame.begin() + o, frame.begin() + o + want);
}
// a datagram nobody in the scenario sent
static Bytes unrelated_quote(const std::string& net, vh::Rng& rng) {
    Bytes b;
    if (net == "ip4") { Bytes s = fresh(IP4, rng), d = fresh(IP4, rng); IP ip(IPv4Address(Endian::host_to_be(((uint32_t)d[0] << 24) | (d[1] << 16) | (d[2] << 8) | d[3])), IPv4Address(Endian::host_to_be(((uint32_t)s[0] << 24) | (s[1] << 16) | (s[2] << 8) | s[3])));
        ip.id((uint16_t)rng.below(65536)); ip.ttl((uint8_t)rng.range(1, 255)); IP pk = ip / UDP((uint16_t)rng.below(65536), (uint16_t)rng.below(65536)) / RawPDU("unrelated"); b = pk.serialize(); b.resize(28); }
    else { Bytes s = fresh(IP6, rng), d = fresh(IP6, rng); IPv6 pk = IPv6(IPv6Address(&d[0]), IPv6Address(&s[0])) / UDP((uint16_t)rng.below(65536), (uint16_t)rng.below(65536)) / RawPDU("unrelated"); b = pk.serialize(); b.resize(48); }
    return b;
}

// ------------------------------------------------------------------------------------------------ monitored calls
// exact-size heap block: ASan's red zone starts at byte n.  n = 0: the end of a block (a non-null pointer to an empty buffer)
static bool call_heap(const PDU& obj, const uint8_t* src, size_t n) {
    if (n == 0) { uint8_t* blk = (uint8_t*)malloc(16); memset(blk, 0xa5, 16); bool r = obj.matches_response(blk + 16, 0); free(blk); return r; }
    uint8_t* blk = (uint8_t*)malloc(n); memcpy(blk, src, n); bool r = obj.matches_response(blk, (uint32_t)n); free(blk); return r;
}
// the buffer ends where 1 MiB of inaccessible pages begins
static bool call_guard(const PDU& obj, const uint8_t* src, size_t n) {
    static uint8_t* base = 0; static const size_t DATA = 1 << 16, GUARD = 1 << 20;
    if (!base) { base = (uint8_t*)mmap(0, DATA + GUARD, PROT_READ | PROT_WRITE, MAP_PRIVATE | MAP_ANONYMOUS, -1, 0); if (base == MAP_FAILED) abort(); mprotect(base + DATA, GUARD, PROT_NONE); }
    uint8_t* p = base + DATA - n; memcpy(p, src, n); return obj.matches_response(p, (uint32_t)n);
}

// ------------------------------------------------------------------------------------------------ part "match"
static void match_case(const vh::Json& sc, vh::Out& out, vh::Rng& rng) {
    const vh::Json& r = sc["r"]; const vh::Json& m = sc["m"];
    Table T(rng);
    // one concretisation in four carries IPv4 options / IPv6 extension headers (the same structure in request and reply)
    const std::string nv = rng.below(4) == 0 ? "opts" : "plain";
    std::unique_ptr<PDU> req(build(r, T, rng, nv, Bytes())); fill_dns(req.get(), false, rng);
    bool pre = rng.coin();      // the sender serialises a request before it waits for the answer; the matcher must not depend on it
    Bytes reqb; if (pre) reqb = req->serialize(); else { std::unique_ptr<PDU> c(req->clone()); reqb = c->serialize(); }
    Bytes quoted; const std::string net = r["net"].str();
    if (m["upper"].str() == "unreach") quoted = m["quote"].str() == "own" ? quote_of(reqb, net) : unrelated_quote(net, rng);
    std::unique_ptr<PDU> rep(build(m, T, rng, nv, quoted)); fill_dns(rep.get(), true, rng);
    Bytes repb = rep->serialize();
    bool verdict = call_heap(*req, &repb[0], repb.size());
    out.begin("\"part\":\"match\",\"kind\":\"" + sc["kind"].str() + "\",\"field\":\"" + sc["field"].str() + "\",\"net\":\"" + net + "\",\"upper\":\"" + r["upper"].str() + "\"");
    vh::W w; w.O().kv("e", "match").kv("kind", sc["kind"].str()).kv("field", sc["field"].str()).kv("val", sc["val"].num())
        .kraw("r", r.dump()).kraw("m", m.dump()).kbytes("req", reqb).kbytes("rep", repb).kv("netvar", nv).kv("pre", pre).kv("verdict", verdict).E();
    out.event(w); out.end();
}

// ------------------------------------------------------------------------------------------------ part "safe": objects
template <class K> PDU* make() { return new K(); }
template <> PDU* make<PPI>() { return new PPI(SAMPLE_PPI, sizeof(SAMPLE_PPI)); }
template <> PDU* make<PKTAP>() { return new PKTAP(SAMPLE_PKTAP, sizeof(SAMPLE_PKTAP)); }
template <> PDU* make<RawPDU>() { return new RawPDU("abc"); }
template <> PDU* make<PDUCacher<IP> >() { return new PDUCacher<IP>(IP("1.2.3.4", "4.3.2.1") / TCP(80, 90) / RawPDU("xyz")); }
template <> PDU* make<PDUCacher<TCP> >() { return new PDUCacher<TCP>(TCP(1, 2) / RawPDU("q")); }
template <> PDU* make<PDUCacher<EthernetII> >() { return new PDUCacher<EthernetII>(EthernetII() / IP("1.2.3.4", "4.3.2.1") / UDP(1, 2) / RawPDU("zz")); }
template <> PDU* make<PDUCacher<Dot11Data> >() { return new PDUCacher<Dot11Data>(Dot11Data() / SNAP() / RawPDU("d")); }
template <> PDU* make<PDUCacher<RawPDU> >() { return new PDUCacher<RawPDU>(RawPDU("cached")); }

static std::map<std::string, PDU*> OBJS;
template <class K> void build_class(const char* name) {
    PDU* a = 0; try { a = make<K>(); } catch (std::exception&) { a = 0; }
    if (!a) return;
    OBJS[std::string(name) + "#alone"] = a;
    try { PDU* b = a->clone(); PDU* last = b; while (last->inner_pdu()) last = last->inner_pdu();
          IP tail = IP("9.9.9.9", "8.8.8.8") / TCP(7, 8) / RawPDU("tail"); last->inner_pdu(tail.clone()); OBJS[std::string(name) + "#chain"] = b; } catch (std::exception&) {}
}
static void specials() {
    const uint8_t ff16[16] = {255, 255, 255, 255, 255, 255, 255, 255, 255, 255, 255, 255, 255, 255, 255, 255};
    // field states under which an all-ones / all-zero buffer passes the address and port gates, so that the inner matchers
    // and the length arithmetic behind the gates are reached with every truncation
    OBJS["EthernetII#ones_ip_tcp"] = (EthernetII("ff:ff:ff:ff:ff:ff", "ff:ff:ff:ff:ff:ff") / IP("255.255.255.255", "255.255.255.255") / TCP(65535, 65535) / RawPDU("p")).clone();
    // an all-ones TCP header announces a 60-byte header: the layer behind TCP is asked with whatever TCP computes for lengths 20..59
    { DNS d; d.id(0xffff); OBJS["EthernetII#ones_ip_tcp_dns"] = (EthernetII("ff:ff:ff:ff:ff:ff", "ff:ff:ff:ff:ff:ff") / IP("255.255.255.255", "255.255.255.255") / TCP(65535, 65535) / d).clone();
      OBJS["TCP#ones_dns"] = (TCP(65535, 65535) / d).clone(); OBJS["TCP#ones_bootp"] = (TCP(65535, 65535) / BootP()).clone(); }
    OBJS["EthernetII#ones_ip_udp_dns"] = (EthernetII("ff:ff:ff:ff:ff:ff", "ff:ff:ff:ff:ff:ff") / IP("255.255.255.255", "255.255.255.255") / UDP(65535, 65535) / DNS()).clone();
    { DNS d; d.id(0xffff); OBJS["EthernetII#ones_vlan_ip6_udp_dns"] = (EthernetII("ff:ff:ff:ff:ff:ff", "ff:ff:ff:ff:ff:ff") / Dot1Q(4095) / IPv6(IPv6Address("ff02::1"), IPv6Address(ff16)) / UDP(65535, 65535) / d).clone(); }
    OBJS["EthernetII#zeros_ip_tcp"] = (EthernetII("00:00:00:00:00:00", "00:00:00:00:00:00") / IP("0.0.0.0", "0.0.0.0") / TCP() / RawPDU("p")).clone();
    OBJS["EthernetII#zeros_ip_udp_bootp"] = (EthernetII("00:00:00:00:00:00", "00:00:00:00:00:00") / IP("0.0.0.0", "0.0.0.0") / UDP() / BootP()).clone();
    OBJS["EthernetII#zeros_ip_icmp_echo"] = (EthernetII("00:00:00:00:00:00", "00:00:00:00:00:00") / IP("0.0.0.0", "0.0.0.0") / ICMP(ICMP::ECHO_REQUEST)).clone();
    OBJS["EthernetII#zeros_vlan_ip6_tcp"] = (EthernetII("00:00:00:00:00:00", "00:00:00:00:00:00") / Dot1Q(0) / IPv6() / TCP()).clone();
    OBJS["EthernetII#zeros_ip6_icmpv6"] = (EthernetII("00:00:00:00:00:00", "00:00:00:00:00:00") / IPv6() / ICMPv6(ICMPv6::ECHO_REQUEST)).clone();
    OBJS["IP#broadcast_src0_udp_dhcp"] = (IP("255.255.255.255", "0.0.0.0") / UDP(67, 68) / DHCP()).clone();
    OBJS["IPv6#ff02_ones_udp"] = (IPv6(IPv6Address("ff02::1"), IPv6Address(ff16)) / UDP(65535, 65535) / RawPDU("p")).clone();
    OBJS["IPv6#zeros_dhcpv6"] = (IPv6() / UDP() / DHCPv6()).clone();
    OBJS["Dot3#ones_llc"] = (Dot3("ff:ff:ff:ff:ff:ff", "ff:ff:ff:ff:ff:ff") / LLC()).clone();
    OBJS["Dot3#zeros_llc_stp"] = (Dot3("00:00:00:00:00:00", "00:00:00:00:00:00") / LLC() / STP()).clone();
    { ICMP* i = new ICMP(ICMP::TIMESTAMP_REQUEST); OBJS["ICMP#timestamp_request"] = i; }
    { ICMP* i = new ICMP(ICMP::ADDRESS_MASK_REQUEST); OBJS["ICMP#address_mask_request"] = i; }
    { ICMP* i = new ICMP(ICMP::DEST_UNREACHABLE); OBJS["ICMP#dest_unreachable"] = i; }
    { ICMPv6* i = new ICMPv6(ICMPv6::ROUTER_SOLICIT); OBJS["ICMPv6#router_solicit"] = i; }
    { ICMPv6* i = new ICMPv6(ICMPv6::NEIGHBOUR_SOLICIT); OBJS["ICMPv6#neighbour_solicit"] = i; }
    { ICMPv6 ns(ICMPv6::NEIGHBOUR_SOLICIT); ns.target_addr("fe80::1"); OBJS["EthernetII#ip6_icmpv6_neighbour_solicit"] = (EthernetII() / IPv6("ff02::1:ff00:1", "fe80::2") / ns).clone(); }
    { ICMPv6 rs(ICMPv6::ROUTER_SOLICIT); OBJS["IPv6#icmpv6_router_solicit"] = (IPv6("ff02::2", "fe80::2") / rs).clone(); }
    { ICMPv6* i = new ICMPv6(ICMPv6::MGM_QUERY); OBJS["ICMPv6#mld_query"] = i; }
    { ICMP* i = new ICMP(ICMP::INFO_REQUEST); OBJS["ICMP#info_request"] = i; }
    { DHCPv6* d = new DHCPv6(); d->msg_type(DHCPv6::RELAY_FORWARD); OBJS["DHCPv6#relay_forward"] = d; }
    { DHCPv6* d = new DHCPv6(); d->msg_type(DHCPv6::SOLICIT); d->transaction_id(0xffffff); OBJS["DHCPv6#solicit_xid_ones"] = d; }
    { BootP* b = new BootP(); b->xid(0xffffffff); OBJS["BootP#xid_ones"] = b; }
    { DHCP* b = new DHCP(); b->xid(0); b->type(DHCP::DISCOVER); OBJS["DHCP#discover"] = b; }
    { ARP* a = new ARP("255.255.255.255", "255.255.255.255"); OBJS["ARP#ones"] = a; }
    { Loopback* l = new Loopback(); l->family(0xffffffff); OBJS["Loopback#family_ones"] = l; }
    { RadioTap* r = new RadioTap(); OBJS["RadioTap#over_dot11_data"] = (*r / Dot11Data() / SNAP() / IP() / UDP()).clone(); delete r; }
    { PDU* p = new PPI(SAMPLE_PPI, sizeof(SAMPLE_PPI)); OBJS["PPI#sample"] = p; }
    { PDU* p = new PKTAP(SAMPLE_PKTAP, sizeof(SAMPLE_PKTAP)); OBJS["PKTAP#sample"] = p; }
}
static void build_all() {
#define B(K) build_class<K >(#K);
    CONCRETE(B)
    specials();
}
static uint64_t fnv(const std::string& s) { uint64_t h = 1469598103934665603ull; for (size_t i = 0; i < s.size(); ++i) { h ^= (uint8_t)s[i]; h *= 1099511628211ull; } return h; }

static void safe_case(const vh::Json& sc, vh::Out& out, const vh::Args& args) {
    if (OBJS.empty()) build_all();
    const std::string label = sc["obj"].str(), src = sc["src"].str(); size_t n = (size_t)sc["n"].num(); long rep = sc["rep"].num();
    // everything that defines the buffer depends on (seed, object, source, repetition) only -- not on n -- so that the
    // buffers of one (object, source, repetition) really are the prefixes of one byte string
    vh::Rng rng((uint64_t)args.num("seed", 1) * 7919ull + fnv(label + "|" + src) + (uint64_t)rep * 104729ull);
    std::unique_ptr<PDU> owned; PDU* obj = 0; Bytes reply;
    if (label.compare(0, 6, "stack:") == 0) {
        vh::Rng brng((uint64_t)args.num("seed", 1) * 7919ull + fnv(label) + (uint64_t)rep * 104729ull);   // the same packets for every source
        Table T(brng); const std::string nv = sc["netvar"].str();
        owned.reset(build(sc["r"], T, brng, nv, Bytes())); fill_dns(owned.get(), false, brng); obj = owned.get();
        // the request has been sent: serialising it filled in what libtins derives (protocol numbers, lengths, checksums), which the
        // matchers of some layers compare with what an error message quotes
        // (half of the stacks - and every one that is shown the error quoting it; the others are matched as crafted, never serialised)
        if (src == "unreach" || (fnv(label) >> 3) % 2 == 0) try { (void)obj->serialize(); } catch (std::exception&) {}
        std::unique_ptr<PDU> rp(build(sc["m"], T, brng, nv, Bytes())); fill_dns(rp.get(), true, brng); reply = rp->serialize();
        // source "unreach": the destination-unreachable error that quotes THIS request (addresses mirrored as in the reply), so that the
        // quoted-datagram comparison behind the type test sees every truncation of a quote that agrees with the request
        if (src == "unreach") { Bytes reqb; try { std::unique_ptr<PDU> c(obj->clone()); reqb = c->serialize(); } catch (std::exception&) {}
            if (!reqb.empty()) { vh::Json m2 = sc["m"]; for (size_t q = 0; q < m2.o.size(); ++q) if (m2.o[q].first == "upper") { m2.o[q].second.kind = vh::Json::Str; m2.o[q].second.s = "unreach"; }
                try { std::unique_ptr<PDU> er(build(m2, T, brng, nv, quote_of(reqb, sc["r"]["net"].str()))); reply = er->serialize(); } catch (std::exception&) {} } }
    } else {
        std::map<std::string, PDU*>::iterator it = OBJS.find(label);
        if (it == OBJS.end()) { out.begin("\"part\":\"safe\",\"obj\":\"" + label + "\""); vh::W w; w.O().kv("e", "safe").kv("obj", label).kv("src", src).kv("n", (long)n).kv("len", -1).kv("missing", true).kv("heap", false).kv("guard", false).E(); out.event(w); out.end(); return; }
        obj = it->second;
        try { std::unique_ptr<PDU> c(obj->clone()); reply = c->serialize(); } catch (std::exception&) { reply.clear(); }   // the object's own wire image passes most gates
    }
    Bytes buf(128, 0);
    if (src == "reply" || src == "mutated" || src == "unreach") { for (size_t i = 0; i < 128 && i < reply.size(); ++i) buf[i] = reply[i];
        if (src == "mutated") { int k = rng.range(1, 3); for (int i = 0; i < k; ++i) buf[rng.below(reply.empty() ? 128 : (uint32_t)std::min<size_t>(128, reply.size()))] = (uint8_t)rng.below(256); } }
    // the object's own wire image with the leading (type / opcode) octet of its innermost layer changed to a neighbouring value or to 0:
    // what a response to it carries there (ICMP echo 8 -> 0, timestamp 13 -> 14, ICMPv6 solicitations 133 -> 134 and 135 -> 136,
    // BOOTP / ARP / DHCPv6 request -> reply), so that the branches behind the type test see every truncation
    else if (src == "typeup" || src == "typedown" || src == "type0") {
        for (size_t i = 0; i < 128 && i < reply.size(); ++i) buf[i] = reply[i];
        size_t off = 0; for (PDU* q = obj; q && q->inner_pdu(); q = q->inner_pdu()) off += q->header_size();
        if (off < 128) buf[off] = src == "type0" ? 0 : (uint8_t)(buf[off] + (src == "typeup" ? 1 : -1)); }
    // the reply with an 802.1Q tag inserted behind the addresses (a reply that picked up a tag on the way), every truncation
    else if (src == "tagged") { for (size_t i = 0; i < 12 && i < reply.size(); ++i) buf[i] = reply[i];
        if (reply.size() >= 14) { buf[12] = 0x81; buf[13] = 0x00; buf[14] = 0x00; buf[15] = 0x05; for (size_t i = 12; i < reply.size() && i + 4 < 128; ++i) buf[i + 4] = reply[i]; } }
    else if (src == "random") buf = rnd(rng, 128);
    else if (src == "ones") buf.assign(128, 0xff);
    const std::string cls = label.substr(0, label.find_first_of("#:"));
    out.begin("\"part\":\"safe\",\"obj\":\"" + label + "\",\"src\":\"" + src + "\",\"len\":" + std::to_string(n));
    bool h = call_heap(*obj, &buf[0], n);
    // Loopback::matches_response dereferences the caller's pointer as uint32_t; an unaligned *start* would be reported by
    // UBSan, which is not what C14 is about -- the guard-page placement (aligned end) is skipped for that class only
    bool use_guard = cls != "Loopback";
    bool g = use_guard ? call_guard(*obj, &buf[0], n) : h;
    vh::W w; w.O().kv("e", "safe").kv("obj", label).kv("src", src).kv("n", (long)n).kv("len", (long)n).kv("missing", false).kv("heap", h).kv("guard", g).E();
    out.event(w); out.end();
}

static void scenario(const vh::Json& sc, vh::Out& out, vh::Rng& rng, const vh::Args& args) {
    if (sc["part"].str() == "safe") safe_case(sc, out, args); else match_case(sc, out, rng);
}
int main(int argc, char** argv) { return vh::run(argc, argv, scenario); }
