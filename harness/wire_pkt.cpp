// Wire-format driver (C02, C04, C05; inputs for C03): packet descriptions exported by TLC (spec/wire/WireGen)
// are built through the public libtins API, read back through the getters, serialised (with the region monitor
// H1 registered), parsed again and read back once more; libpcap is asked a set of filter predicates derived
// from the values that were set.  The TLA+ dissector (spec/wire/Stack.tla) then reads the bytes independently.
#include "vh.h"
#include "wirebuild.h"
#include <pcap.h>

static std::vector<std::pair<int, long> > OVERWRITES;
static void region_hook(int type, long off) { OVERWRITES.push_back(std::make_pair(type, off)); }

static bool bpf_match(const std::string& expr, const Bytes& pkt, bool& compiled) {
    pcap_t* dead = pcap_open_dead(DLT_EN10MB, 65535); struct bpf_program prog; compiled = pcap_compile(dead, &prog, expr.c_str(), 1, PCAP_NETMASK_UNKNOWN) == 0;
    bool res = false;
    if (compiled) { struct pcap_pkthdr h; memset(&h, 0, sizeof(h)); h.caplen = h.len = (bpf_u_int32)pkt.size(); res = pcap_offline_filter(&prog, &h, &pkt[0]) != 0; pcap_freecode(&prog); }
    pcap_close(dead); return res;
}

static void scenario(const vh::Json& sc, vh::Out& out, vh::Rng& rng, const vh::Args&) {
    Vals v; int ntags = 0;
    const std::string net = sc["net"].str(), tr = sc["tr"].str();
    EthernetII* ethp = build_packet(sc, rng, v, ntags); EthernetII& eth = *ethp;
    out.begin("\"cls\":\"api\"");
    vh::W w; w.O().kv("e", "pkt").kraw("shape", sc.dump());
    w.key("vals"); vals_json(w, v);
    { Vals g; read_back(eth, g); w.key("get"); vals_json(w, g); }
    types_json(w, "types", eth);
    // sizes before serialising
    long size = -1; std::string thrown; Bytes bytes;
    w.key("hs").A(); for (PDU* p = &eth; p; p = p->inner_pdu()) w.A().v((long)p->pdu_type()).v((long)p->header_size()).v((long)p->trailer_size()).E(); w.E();
    OVERWRITES.clear(); Internals::verif_region_hook = &region_hook;
    try { size = (long)eth.size(); bytes = eth.serialize(); } catch (std::exception& e) { thrown = std::string(typeid(e).name()) + ": " + e.what(); }
    Internals::verif_region_hook = 0;
    w.kv("size", size).kv("thrown", thrown).kbytes("bytes", bytes);
    w.key("overwrite").A(); for (size_t i = 0; i < OVERWRITES.size(); ++i) w.A().v(OVERWRITES[i].first).v(OVERWRITES[i].second).E(); w.E();
    // ---- parse it back ----
    w.key("rt").O();
    try {
        if (bytes.empty()) throw std::runtime_error("nothing was serialised");
        EthernetII back(&bytes[0], (uint32_t)bytes.size()); Vals r; read_back(back, r);
        w.kv("ok", true); types_json(w, "types", back); w.key("vals"); vals_json(w, r);
        Bytes b2 = back.serialize(); w.kv("bytes2_eq", b2 == bytes);
    } catch (std::exception& e) { w.kv("ok", false).kraw("types", "[]").kv("bytes2_eq", false); w.key("vals"); Vals r; vals_json(w, r); }
    w.E();
    // ---- the second independent observer: libpcap filter predicates from the values that were set ----
    w.key("bpf").A();
    if (!bytes.empty()) {
        std::vector<std::pair<std::string, bool> > preds;
        std::string pre; for (int i = 0; i < ntags; ++i) pre += "vlan and ";
        if (ntags == 0) preds.push_back(std::make_pair(std::string("vlan"), false));
        if (ntags == 1) { preds.push_back(std::make_pair("vlan " + std::to_string(v.vid[0]), true)); preds.push_back(std::make_pair("vlan " + std::to_string((v.vid[0] + 1) % 4096), false)); }
        if (net == "ip4") { preds.push_back(std::make_pair(pre + "ip src " + ip4s(v.ip_src), true)); preds.push_back(std::make_pair(pre + "ip dst " + ip4s(v.ip_dst), true)); preds.push_back(std::make_pair(pre + "ip6", false));
            preds.push_back(std::make_pair(pre + "ip[8] = " + std::to_string(v.ttl), true)); }
        else { preds.push_back(std::make_pair(pre + "ip6", true)); preds.push_back(std::make_pair(pre + "ip", false)); preds.push_back(std::make_pair(pre + "ip6[7] = " + std::to_string(v.ttl), true)); }
        bool plain6 = net == "ip6" && v.ext.empty();
        if (tr == "tcp" && (net == "ip4" || plain6)) { preds.push_back(std::make_pair(pre + "tcp src port " + std::to_string(v.sport), true)); preds.push_back(std::make_pair(pre + "tcp dst port " + std::to_string(v.dport), true)); preds.push_back(std::make_pair(pre + "udp", false)); }
        if (tr == "udp" && (net == "ip4" || plain6)) { preds.push_back(std::make_pair(pre + "udp src port " + std::to_string(v.sport), true)); preds.push_back(std::make_pair(pre + "udp dst port " + std::to_string((v.dport + 1) % 65536), false)); preds.push_back(std::make_pair(pre + "tcp", false)); }
        if (tr == "icmp") preds.push_back(std::make_pair(pre + "icmp", true));
        if (tr == "icmp6" && plain6) preds.push_back(std::make_pair(pre + "icmp6", true));
        if (net == "ip6" && !v.ext.empty()) preds.push_back(std::make_pair(pre + "ip6 protochain " + std::string(tr == "tcp" ? "6" : tr == "udp" ? "17" : "58"), true));
        for (size_t i = 0; i < preds.size(); ++i) { bool comp; bool r = bpf_match(preds[i].first, bytes, comp); if (comp) w.A().v(preds[i].first).v(r).v(preds[i].second).E(); }
    }
    w.E();
    w.E(); out.event(w); out.end();
    delete ethp;
}
int main(int argc, char** argv) { return vh::run(argc, argv, scenario); }
