// C05, catalogue part: API-built compositions of every layer class libtins derives a field for are serialised and the
// bytes handed to the TLA+ dissector (spec/wire/Stack2 through CatTrace), together with the entry point and the kinds of
// the layers the builder stacked.  Compositions: the 52-entry catalogue (catalogue.h; entry 9 stacks an LLC and a
// libtins SNAP - which already contains the LLC octets - and is left out as non-standard) and the extras below.
#include "vh.h"
#include "catalogue.h"
#include <tins/ipsec.h>
#include <tins/pppoe.h>
#include <tins/mpls.h>
#include <tins/pdu_cacher.h>
#include <tins/rtp.h>

typedef std::vector<uint8_t> Bytes;
// region monitor (hook H1): a layer that changes bytes of its inner layers while serialising is reported here
static std::vector<std::pair<int, long> > OVERWRITES;
static void region_hook(int type, long off) { OVERWRITES.push_back(std::make_pair(type, off)); }
static void __attribute__((noinline)) dirty_stack(int v) { volatile uint8_t junk[24576]; for (size_t i = 0; i < sizeof(junk); ++i) junk[i] = (uint8_t)v; (void)junk[sizeof(junk) - 1]; }
// kind names of the dissector; "" = a layer the dissector does not interpret (payload from there on)
static const char* kind_of(PDU::PDUType t) {
    switch (t) {
    case PDU::ETHERNET_II: return "eth"; case PDU::DOT1Q: return "vlan"; case PDU::IP: return "ip4"; case PDU::IPv6: return "ip6";
    case PDU::TCP: return "tcp"; case PDU::UDP: return "udp"; case PDU::ICMP: return "icmp"; case PDU::ICMPv6: return "icmp6";
    case PDU::ARP: return "arp"; case PDU::MPLS: return "mpls"; case PDU::PPPOE: return "pppoe"; case PDU::IEEE802_3: return "dot3";
    case PDU::LLC: return "llc"; case PDU::SNAP: return "snap"; case PDU::SLL: return "sll"; case PDU::LOOPBACK: return "loop";
    case PDU::IPSEC_AH: return "ah"; case PDU::IPSEC_ESP: return "esp"; case PDU::RADIOTAP: return "radiotap"; case PDU::STP: return "stp";
    case PDU::RC4EAPOL: case PDU::RSNEAPOL: return "eapol";
    default: break;
    }
    if (t >= PDU::DOT11 && t <= PDU::DOT11_QOS_DATA) return "dot11";
    return "";
}
static bool leaf(const std::string& k) { return k == "tcp" || k == "udp" || k == "icmp" || k == "icmp6" || k == "arp" || k == "eapol" || k == "esp" || k == "pppoe" || k == "stp"; }

static Bytes quoted4(vh::Rng& rng, int pay) { IP q = ip0() / UDP(33434, 40000) / raw(rng, pay); return q.serialize(); }
static Bytes quoted6(vh::Rng& rng, int pay) { IPv6 q = ip60() / UDP(33434, 40000) / raw(rng, pay); return q.serialize(); }
static ICMPExtension some_ext(vh::Rng& rng) { ICMPExtension x(1, 1); ICMPExtension::payload_type pl; int n = 4 * rng.range(1, 4); for (int k = 0; k < n; ++k) pl.push_back((uint8_t)(rng.coin() ? 0xff : rng.below(256))); x.payload(pl); return x; }

static PDU* extra(int id, vh::Rng& rng, Entry& e) {
    e = E_ETH;
    switch (id) {
    // IPv4 first fragments (More Fragments, offset 0) built with their transport layer
    case 100: { IP ip = ip0(); ip.flags(IP::MORE_FRAGMENTS); return (eth0() / ip / UDP(1000, 2000) / raw(rng, 24)).clone(); }
    case 101: { IP ip = ip0(); ip.flags(IP::MORE_FRAGMENTS); return (eth0() / ip / TCP(1000, 2000) / raw(rng, 24)).clone(); }
    case 102: { IP ip = ip0(); ip.flags(IP::MORE_FRAGMENTS); ICMP ic(ICMP::ECHO_REQUEST); ic.id(1); ic.sequence(2); return (eth0() / Dot1Q(5) / ip / ic / raw(rng, 16)).clone(); }
    // PPPoE below VLAN tags: session (code 0) and discovery
    case 103: { PPPoE p; p.code(0); p.session_id((uint16_t)rng.below(65536)); return (eth0() / Dot1Q(9) / p / raw(rng, 40)).clone(); }
    case 104: { PPPoE p; p.code(0x09); p.service_name("svc"); p.host_uniq(std::vector<uint8_t>(6, 0x42)); return (eth0() / Dot1Q(9) / p).clone(); }
    case 105: { PPPoE p; p.code(0); p.session_id(3); return (eth0() / p / raw(rng, 60)).clone(); }
    // MPLS stacks
    case 106: { MPLS a, b, c; a.label(16); b.label(17); c.label(18); return (eth0() / a / b / c / ip60() / UDP(1, 2) / raw(rng, 9)).clone(); }
    case 107: { MPLS a; a.label(rng.below(1 << 20)); a.ttl(3); return (eth0() / Dot1Q(100) / a / ip0() / TCP(80, 81) / raw(rng, 11)).clone(); }
    // authentication headers
    case 108: { IPSecAH ah; ah.spi(rng.u32()); ah.seq_number(1); ah.icv(std::vector<uint8_t>(12, 0x11)); return (eth0() / ip60() / ah / TCP(7, 8) / raw(rng, 13)).clone(); }
    case 109: { IPSecAH ah; ah.spi(rng.u32()); ah.seq_number(2); ah.icv(std::vector<uint8_t>(16, 0x22)); ICMP ic(ICMP::ECHO_REPLY); return (eth0() / ip0() / ah / ic / raw(rng, 10)).clone(); }
    // ICMP errors: RFC 4884 length attribute and extension structure; original datagrams below, at and above 128 octets
    case 110: { ICMP ic(ICMP::DEST_UNREACHABLE); ic.code(1); ic.use_length_field(true); Bytes q = quoted4(rng, 4 * rng.range(0, 17)); return (eth0() / ip0() / ic / RawPDU(q.begin(), q.end())).clone(); }
    case 111: { ICMP ic(ICMP::TIME_EXCEEDED); ic.use_length_field(true); ic.extensions().add_extension(some_ext(rng)); Bytes q = quoted4(rng, 4 * rng.range(0, 17)); return (eth0() / ip0() / ic / RawPDU(q.begin(), q.end())).clone(); }
    case 112: { ICMP ic(ICMP::PARAM_PROBLEM); ic.pointer(1); ic.use_length_field(true); ic.extensions().add_extension(some_ext(rng)); ic.extensions().add_extension(some_ext(rng)); Bytes q = quoted4(rng, 100 + 4 * rng.range(0, 20)); return (eth0() / ip0() / ic / RawPDU(q.begin(), q.end())).clone(); }
    case 113: { ICMP ic(ICMP::DEST_UNREACHABLE); ic.code(3); ic.extensions().add_extension(some_ext(rng)); Bytes q = quoted4(rng, 4 * rng.range(0, 30)); return (eth0() / ip0() / ic / RawPDU(q.begin(), q.end())).clone(); }
    case 114: { ICMPv6 ic(ICMPv6::DEST_UNREACHABLE); ic.use_length_field(true); ic.extensions().add_extension(some_ext(rng)); Bytes q = quoted6(rng, 8 * rng.range(0, 14)); return (eth0() / ip60() / ic / RawPDU(q.begin(), q.end())).clone(); }
    case 115: { ICMPv6 ic(ICMPv6::TIME_EXCEEDED); ic.use_length_field(true); Bytes q = quoted6(rng, 8 * rng.range(0, 8)); return (eth0() / ip60() / ic / RawPDU(q.begin(), q.end())).clone(); }
    // RadioTap with a frame check sequence
    case 116: { e = E_RADIOTAP; RadioTap rt; rt.flags(RadioTap::FCS); return (rt / data0() / SNAP() / ip0() / UDP(5, 6) / raw(rng, rng.range(1, 40))).clone(); }
    case 117: { e = E_RADIOTAP; RadioTap rt; rt.tsft(rng.next()); rt.flags((RadioTap::FrameFlags)(RadioTap::FCS | RadioTap::PREAMBLE)); rt.antenna(1);
                Dot11QoSData q; q.addr1("00:01:02:03:04:05"); q.addr2("10:11:12:13:14:15"); q.addr3("20:21:22:23:24:25"); q.from_ds(1); q.qos_control(6); return (rt / q / SNAP() / ip60() / TCP(9, 10) / raw(rng, rng.range(0, 30))).clone(); }
    // loopback and cooked capture with the other families
    case 118: { e = E_LOOP; Loopback l; return (l / ip60() / UDP(7, 7) / raw(rng, 5)).clone(); }
    case 119: { e = E_LOOP; Loopback l; LLC llc(0x10, 0x20); llc.type(LLC::UNNUMBERED); llc.modifier_function(LLC::UI); return (l / llc / raw(rng, 5)).clone(); }
    case 120: { e = E_SLL; SLL s; s.lladdr_type(1); s.lladdr_len(6); ICMPv6 ic(ICMPv6::ECHO_REQUEST); ic.identifier(1); ic.sequence(2); return (s / ip60() / ic / raw(rng, 12)).clone(); }
    case 121: { e = E_SLL; SLL s; s.lladdr_type(1); s.lladdr_len(6); return (s / ARP("192.0.2.1", "192.0.2.2", "00:aa:bb:cc:dd:ee", "00:11:22:33:44:55")).clone(); }
    // EAPOL below two tags; 802.3 with SNAP and STP; tunnels
    case 122: { RSNEAPOL eap; eap.key_t(1); eap.key_ack(1); eap.replay_counter(9); eap.key_length(16); eap.key(RSNEAPOL::key_type(rng.range(0, 30), 0x77)); return (eth0() / Dot1Q(1) / Dot1Q(2) / eap).clone(); }
    case 123: { e = E_DOT3; Dot3 d("00:11:22:33:44:55", "66:77:88:99:aa:bb"); return (d / SNAP() / ip0() / UDP(9, 9) / raw(rng, rng.range(0, 50))).clone(); }
    case 124: { e = E_DOT3; Dot3 d("01:80:c2:00:00:00", "66:77:88:99:aa:bb"); LLC llc; STP s; s.root_path_cost(rng.u32()); return (d / llc / s).clone(); }
    case 125: { e = E_IP; return (ip0() / ip60() / UDP(11, 12) / raw(rng, 6)).clone(); }
    case 126: { e = E_IP6; return (ip60() / ip0() / ICMP(ICMP::ECHO_REQUEST) / raw(rng, 6)).clone(); }
    case 127: { IPv6 ip = ip60(); uint8_t pad[6] = {1, 4, 0, 0, 0, 0}; ip.add_header(IPv6::ext_header(0, pad, pad + 6)); IPSecAH ah; ah.spi(5); ah.icv(std::vector<uint8_t>(12, 0x33)); return (eth0() / ip / ah / UDP(1, 2) / raw(rng, 7)).clone(); }
    // original datagrams that do not end on a word boundary, with the length attribute in use
    case 129: { ICMP ic(ICMP::TIME_EXCEEDED); ic.use_length_field(true); Bytes q = quoted4(rng, rng.range(1, 40)); return (eth0() / ip0() / ic / RawPDU(q.begin(), q.end())).clone(); }
    case 130: { ICMP ic(ICMP::DEST_UNREACHABLE); ic.use_length_field(true); ic.extensions().add_extension(some_ext(rng)); Bytes q = quoted4(rng, rng.range(90, 140)); return (eth0() / ip0() / ic / RawPDU(q.begin(), q.end())).clone(); }
    case 131: { ICMPv6 ic(ICMPv6::TIME_EXCEEDED); ic.use_length_field(true); Bytes q = quoted6(rng, rng.range(1, 40)); return (eth0() / ip60() / ic / RawPDU(q.begin(), q.end())).clone(); }
    case 132: { ICMPv6 ic(ICMPv6::TIME_EXCEEDED); ic.use_length_field(true); ic.extensions().add_extension(some_ext(rng)); Bytes q = quoted6(rng, rng.range(60, 110)); return (eth0() / ip60() / ic / RawPDU(q.begin(), q.end())).clone(); }
    // PPPoE discovery packets that belong to an established session (PADS, PADT carry a non-zero session id)
    case 133: { PPPoE p; p.code(0x65); p.session_id((uint16_t)(1 + rng.below(65535))); p.service_name("svc"); return (eth0() / p).clone(); }
    case 134: { PPPoE p; p.code(0xa7); p.session_id((uint16_t)(1 + rng.below(65535))); p.generic_error("bye"); return (eth0() / p).clone(); }
    case 135: { PPPoE p; p.code(0xa7); p.session_id((uint16_t)(1 + rng.below(65535))); p.host_uniq(std::vector<uint8_t>(3, 0x5a)); return (eth0() / Dot1Q(12) / p).clone(); }
    // VLAN tags that do not pad by themselves (append_padding off, as every parsed tag is) above a short payload: the
    // Ethernet layer has to bring the frame to the minimum
    case 136: { Dot1Q q(5, false); return (eth0() / q / ip0() / UDP(7, 9) / raw(rng, rng.range(0, 12))).clone(); }
    case 137: { Dot1Q q1(7); q1.append_padding(false); Dot1Q q2(8, false); return (eth0() / q1 / q2 / ARP("192.0.2.1", "192.0.2.2", "00:aa:bb:cc:dd:ee", "00:11:22:33:44:55")).clone(); }
    case 138: { Dot1Q q(5, false); EthernetII parsed; { Bytes b0 = (eth0() / q / ip0() / UDP(7, 9) / raw(rng, rng.range(0, 12))).serialize(); parsed = EthernetII(&b0[0], (uint32_t)b0.size()); } return parsed.clone(); }
    // PPPoE discovery packet with tags AND a payload layer behind them: the length field counts both
    case 139: { PPPoE p; p.code(0x09); p.service_name("svc"); p.host_uniq(std::vector<uint8_t>(5, 0x33)); return (eth0() / p / raw(rng, rng.range(1, 30))).clone(); }
    // ---- C02 only (the dissector of C05 has nothing to say about them): a PDUCacher with layers stacked below it, and objects
    //      whose type was changed after extensions / options had been added
    // (a transport layer directly below a PDUCacher<IP> is not generated: TCP/UDP tins_cast their parent to IP, and the wrapper
    //  answers to IP's type - the known finding F8 of C13, here inside serialize())
    case 141: { PDUCacher<UDP> c(UDP(7, 9)); c /= raw(rng, rng.range(1, 40)); return (eth0() / ip0() / c).clone(); }
    case 142: { ICMP ic(ICMP::TIME_EXCEEDED); ic.extensions().add_extension(some_ext(rng)); Bytes q = quoted4(rng, 4 * rng.range(0, 40)); ic.type(ICMP::ECHO_REPLY); return (eth0() / ip0() / ic / RawPDU(q.begin(), q.end())).clone(); }
    case 143: { ICMPv6 ic(ICMPv6::TIME_EXCEEDED); ic.extensions().add_extension(some_ext(rng)); Bytes q = quoted6(rng, 8 * rng.range(0, 14)); ic.type(ICMPv6::ECHO_REPLY); return (eth0() / ip60() / ic / RawPDU(q.begin(), q.end())).clone(); }
    // label stacks over something that is not an IP datagram (opaque payload, an Ethernet pseudowire): the last label ends the stack
    case 149: { MPLS a; a.label(rng.below(1 << 20)); a.ttl(9); Bytes pl(1 + rng.below(30), 0x01); return (eth0() / a / RawPDU(pl.begin(), pl.end())).clone(); }
    case 150: { MPLS a; a.label(16 + rng.below(1000)); a.ttl(9); MPLS b; b.label(rng.below(1 << 20)); b.ttl(8); Bytes pl(4 + rng.below(30), 0x02); return (eth0() / Dot1Q(3) / a / b / RawPDU(pl.begin(), pl.end())).clone(); }
    // ICMP / ICMPv6 errors with several extension objects, one of odd length in front of another (the structure's checksum covers all)
    case 147: { ICMP ic(ICMP::TIME_EXCEEDED); ICMPExtension a(1, 1); a.payload(ICMPExtension::payload_type(3, 0xa1)); ICMPExtension b(2, 1); b.payload(ICMPExtension::payload_type(4 + rng.below(4), 0xb2)); ICMPExtension c(3, 2); c.payload(ICMPExtension::payload_type(1, 0xc3));
                ic.extensions().add_extension(a); ic.extensions().add_extension(b); ic.extensions().add_extension(c); Bytes q = quoted4(rng, 4 * rng.range(25, 40)); return (eth0() / ip0() / ic / RawPDU(q.begin(), q.end())).clone(); }
    case 148: { ICMPv6 ic(ICMPv6::TIME_EXCEEDED); ICMPExtension a(1, 1); a.payload(ICMPExtension::payload_type(5, 0xa1)); ICMPExtension b(2, 1); b.payload(ICMPExtension::payload_type(8, 0xb2));
                ic.extensions().add_extension(a); ic.extensions().add_extension(b); Bytes q = quoted6(rng, 8 * rng.range(11, 14)); return (eth0() / ip60() / ic / RawPDU(q.begin(), q.end())).clone(); }
    // an RTP packet with padding whose payload is more than one layer; an AH whose ICV is not a multiple of 4 octets (with and without
    // a layer behind it): what size() promises and where each layer writes
    case 144: { RTP r; r.payload_type(96); r.padding_size((uint8_t)rng.range(1, 8)); return (eth0() / ip0() / UDP(5004, 5004) / r / raw(rng, rng.range(1, 12)) / raw(rng, rng.range(1, 12))).clone(); }
    // a top-level IPv4 datagram whose source was left unset: libtins fills in the address of the outgoing interface when it serialises,
    // and the transport checksum has to be computed over the address that is written (if this host has no route the source is set by hand)
    case 153: { e = E_IP; IP ip("127.0.0.1"); ip.ttl(9); PDU* p = rng.coin() ? (ip / TCP(1, 2) / raw(rng, rng.range(1, 20))).clone() : (ip / UDP(7, 9) / raw(rng, rng.range(1, 20))).clone();
                try { std::unique_ptr<PDU> c(p->clone()); (void)c->serialize(); } catch (std::exception&) { static_cast<IP*>(p)->src_addr("127.0.0.1"); }
                return p; }
    case 154: { ICMPv6 ic(ICMPv6::TIME_EXCEEDED); { std::vector<uint8_t> od(6, 0x11); ic.add_option(ICMPv6::option(1, od.begin(), od.end())); } ic.extensions().add_extension(some_ext(rng));      // options AND an extension structure
                Bytes q = quoted6(rng, 8 * rng.range(11, 14)); return (eth0() / ip60() / ic / RawPDU(q.begin(), q.end())).clone(); }
    // a DHCPv6 message with one option of the largest sizes its 16-bit length field can describe (65532..65535 octets of data)
    case 155: { DHCPv6 d; d.msg_type(DHCPv6::SOLICIT); d.transaction_id(7); std::vector<uint8_t> big((size_t)(65532 + rng.below(4)), 0x42); d.add_option(DHCPv6::option(1000, big.begin(), big.end())); return d.clone(); }
    case 151: { RTP r; r.payload_type(96); r.padding_size((uint8_t)rng.range(1, 8)); if (rng.coin()) r.padding_size((uint8_t)rng.range(1, 8)); r.padding_size(0);      // padding switched on, changed, and off again
                return (eth0() / ip0() / UDP(5004, 5004) / r / raw(rng, rng.range(1, 12))).clone(); }
    case 152: { IPSecAH ah; ah.spi(7); ah.seq_number(9); ah.icv(byte_array((size_t)(8 * rng.range(1, 4)), 0x5a)); return (eth0() / ip60() / ah / UDP(7, 9) / raw(rng, rng.range(1, 20))).clone(); }
    case 145: { IPSecAH ah; ah.spi(7); ah.seq_number(9); ah.icv(byte_array((size_t)(rng.coin() ? 13 : 6), 0x5a)); return (eth0() / ip60() / ah / UDP(7, 9) / raw(rng, rng.range(1, 20))).clone(); }
    case 146: { IPSecAH ah; ah.spi(7); ah.icv(byte_array((size_t)rng.range(1, 15), 0x5a)); return (eth0() / ip0() / ah).clone(); }
    case 128: { IP ip = ip0(); ip.add_option(IP::option(IP::option_identifier(IP::NOOP, IP::CONTROL, 0))); ICMP ic(ICMP::TIME_EXCEEDED); ic.extensions().add_extension(some_ext(rng)); ic.use_length_field(true); Bytes q = quoted4(rng, 4 * rng.range(20, 40));
                return (eth0() / ip / ic / RawPDU(q.begin(), q.end())).clone(); }
    }
    return 0;
}

static void scenario(const vh::Json& sc, vh::Out& out, vh::Rng& rng, const vh::Args&) {
    int id = (int)sc["id"].num(); Entry e;
    const vh::Rng rng0 = rng;
    dirty_stack(0xA5);
    std::unique_ptr<PDU> p(id < 100 ? catalogue(id, rng, e) : extra(id, rng, e));
    if (!p) throw std::runtime_error("no such composition");
    // re-linking history: composition `id` is serialised (which fills whatever its layers cache and derive), then the layers
    // below depth `d` are replaced by those of composition `re`; what is judged is the serialisation AFTER the change
    const bool relinked = sc.has("re");
    if (relinked) {
        int re = (int)sc["re"].num(), d = (int)sc["d"].num(); Entry e2;
        std::unique_ptr<PDU> b(re < 100 ? catalogue(re, rng, e2) : extra(re, rng, e2));
        if (!b) throw std::runtime_error("no such composition");
        try { p->serialize(); } catch (std::exception&) {}
        PDU* x = p.get(); PDU* y = b.get();
        for (int i = 0; i < d && x && y; ++i) { x = x->inner_pdu(); y = y->inner_pdu(); }
        if (!x || !y || !y->inner_pdu()) throw std::runtime_error("infeasible relink");
        x->inner_pdu(y->release_inner_pdu());
    }
    // input class of ICMP / ICMPv6 error messages (for the signatures of known findings): is the RFC 4884 length attribute
    // requested, how many extension objects, does the original datagram end on a word boundary
    bool lenattr = false, unaligned = false; long next = 0;
    for (PDU* q = p.get(); q; q = q->inner_pdu()) {
        if (q->pdu_type() == PDU::ICMP) { ICMP* ic = static_cast<ICMP*>(q); lenattr = ic->length() != 0; next = (long)ic->extensions().extensions().size(); unaligned = ic->inner_pdu() && ic->inner_pdu()->size() % 4 != 0; break; }
        if (q->pdu_type() == PDU::ICMPv6) { ICMPv6* ic = static_cast<ICMPv6*>(q); lenattr = ic->length() != 0; next = (long)ic->extensions().extensions().size(); unaligned = ic->inner_pdu() && ic->inner_pdu()->size() % 8 != 0; break; }
    }
    out.begin(std::string("\"cls\":\"cat\",\"lenattr\":") + (lenattr ? "true" : "false") + ",\"next\":" + std::to_string(next) + ",\"unaligned\":" + (unaligned ? "true" : "false"));
    vh::W w; w.O().kv("e", "cat").kv("id", id).kv("entry", e == E_IP ? "ip4" : entry_name(e));
    w.key("kinds").A();
    for (PDU* q = p.get(); q; q = q->inner_pdu()) { std::string k = kind_of(q->pdu_type()); if (k.empty()) break; w.v(k); if (leaf(k)) break; }
    w.E();
    // C02: size() and the per-layer header/trailer sizes BEFORE serialising, the region monitor while serialising
    long size = -1; Bytes b; std::string thrown;
    w.key("hs").A(); for (PDU* q = p.get(); q; q = q->inner_pdu()) w.A().v((long)q->pdu_type()).v((long)q->header_size()).v((long)q->trailer_size()).E(); w.E();
    OVERWRITES.clear(); Internals::verif_region_hook = &region_hook;
    try { size = (long)p->size(); b = p->serialize(); } catch (std::exception& ex) { thrown = std::string(typeid(ex).name()) + ": " + ex.what(); }
    Internals::verif_region_hook = 0;
    w.kv("size", size);
    w.key("overwrite").A(); for (size_t i = 0; i < OVERWRITES.size(); ++i) w.A().v(OVERWRITES[i].first).v(OVERWRITES[i].second).E(); w.E();
    // a second serialisation of the same object gives the same bytes (sizes cached by the first one stay right)
    bool again_same = false; try { again_same = p->serialize() == b; } catch (std::exception&) {}
    w.kv("again_same", again_same);
    // C12: "a copy or clone is deep and equal to its source ... same ... serialization" - with the stack filled with different
    // garbage before each step, so that a member the implicit copy does not carry (padding in a header struct) shows
    bool clone_same = false; try { dirty_stack(0xA5); std::unique_ptr<PDU> c(p->clone()); dirty_stack(0x5A); Bytes cb = c->serialize(); dirty_stack(0x3C); clone_same = cb == b; } catch (std::exception&) {}
    w.kv("clone_same", clone_same);
    // the same composition built a second time from the same values over a differently filled stack: operator/ and clone()
    // make copies of the layers; if a copy did not equal its source the two results would differ
    bool rebuild_same = relinked; if (!relinked) try { vh::Rng r2 = rng0; Entry e2; dirty_stack(0x5A); std::unique_ptr<PDU> p2(id < 100 ? catalogue(id, r2, e2) : extra(id, r2, e2)); rebuild_same = p2 && p2->serialize() == b; } catch (std::exception&) {}
    w.kv("rebuild_same", rebuild_same);
    // C04: "Parsing the packet's serialization with libtins yields the same layers ... and payload": the layers libtins dissects
    // on its own (everything down to the transport / leaf layer) must come back with the same classes, and the parsed packet
    // must serialise to the same bytes
    bool rt_types = false, rt_bytes = false; std::string rt_thrown;
    try { if (b.empty()) throw std::runtime_error("nothing serialised");
          std::unique_ptr<PDU> q(parse_entry(e, &b[0], (uint32_t)b.size()));
          rt_types = true; PDU* x = p.get(); PDU* y = q.get();
          for (; x && y; x = x->inner_pdu(), y = y->inner_pdu()) { std::string k = kind_of(x->pdu_type()); if (k.empty()) break; if (x->pdu_type() != y->pdu_type()) rt_types = false; if (leaf(k)) break;
              if (x->pdu_type() == PDU::IP && static_cast<IP*>(x)->is_fragmented()) break; }      // what a fragment carries is opaque to the parser
          // the same bytes; the two may differ in how much Ethernet padding follows (a tag built through the API pads to 64, a parsed
          // one leaves the padding to the Ethernet layer - both satisfy "padded to the 60-byte minimum", C05 judges that)
          Bytes b2 = q->serialize(); size_t m = std::min(b.size(), b2.size());
          rt_bytes = std::equal(b.begin(), b.begin() + m, b2.begin());
          for (size_t i = m; i < b.size(); ++i) if (b[i]) rt_bytes = false;
          for (size_t i = m; i < b2.size(); ++i) if (b2[i]) rt_bytes = false;
          if (b.size() != b2.size() && (e != E_ETH || m < 60)) rt_bytes = false;
    } catch (std::exception& ex) { rt_thrown = typeid(ex).name(); }
    w.kv("rt_types", rt_types).kv("rt_bytes", rt_bytes).kv("rt_thrown", rt_thrown);
    w.kv("thrown", thrown).kbytes("bytes", b).E(); out.event(w); out.end();
}
int main(int argc, char** argv) { return vh::run(argc, argv, scenario); }
