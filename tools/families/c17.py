"""C17 - Capture files round-trip and the capture loop survives any frame (DESIGN.md section 4, C17)."""
import json
import os
import random
import shutil
import time

import vlib

PROP = "C17"
LTS = ["EN10MB", "IEEE802_11", "IEEE802_11_RADIO", "NULL", "LINUX_SLL", "RAW", "PPI"]
NFILTERS = 14           # harness/capture_file.cpp FILTERS[]; 0 = no filter
SECS = [0, 1, 1234567890, 2147483647]
USECS = [0, 1, 999999]
NSHAPES = 9
MUTANTS = ["stop_on_malformed", "ignore_functor", "tv_first", "foreign"]
# filter expressions libpcap refuses for a link type ("ether dst", "vlan" need a MAC header): outside the quantifier; only
# every 8th such combination is kept (the oracle is silent on them, they only exercise the constructor's error path)
REFUSED = {(lt, f) for lt in ("NULL", "LINUX_SLL", "RAW") for f in (5, 10)} | {("PPI", 5)}


def usable(s, i):
    if (s["lt"], s["filter"]) in REFUSED and i % 8:
        s["filter"] = [1, 9, 12, 2][(i // 8) % 4]
    return s


def concretise(scen, i):
    """TLC's BFS enumerates the structure (class sequence x call program); link type, filter, timestamps and packet
    shapes rotate over the fixed tables (DESIGN 2.5).  Every structure meets every link type: the rotation index of
    the link type advances with the scenario number, the others with co-prime strides."""
    s = {"lt": LTS[i % len(LTS)], "filter": [0, 1, 0, 3, 8, 0, 2, 6, 0, 9, 4, 10, 0, 13, 5, 7, 11, 12][(i // len(LTS)) % 18],
         "calls": scen["calls"], "frames": []}
    for j, f in enumerate(scen["frames"]):
        s["frames"].append({"cls": f["cls"], "ts": [SECS[(i + j) % 4], USECS[(i // 3 + 2 * j) % 3]], "pkt": (i + 5 * j) % NSHAPES})
    if i % 7 == 3:
        s["raw"] = True          # set_extract_raw_pdus(true): every record is delivered as its bytes
    return usable(s, i)


def long_files(count, rng, nframes):
    """the property's upper bound: files of ~10^3 frames, every class mixed, read by a program of stopping loops"""
    out = []
    for c in range(count):
        n = nframes - rng.randrange(0, 8)
        fr = [{"cls": rng.choice(["Good", "Good", "Good", "Malformed", "Empty", "Arb"]), "ts": [rng.choice(SECS), rng.choice(USECS)],
               "pkt": rng.randrange(NSHAPES)} for _ in range(n)]
        calls = [{"api": rng.choice(["loop", "loopmax", "iter"]), "k": rng.randrange(1, n // 2)}, {"api": "next", "k": 0},
                 {"api": rng.choice(["loop", "iter"]), "k": rng.choice([0, rng.randrange(1, n)])}, {"api": "next", "k": 0}]
        out.append({"lt": LTS[c % len(LTS)], "filter": rng.choice([0, 0, 1, 2, 9, 12]), "frames": fr, "calls": calls})
    return out


def malformed_runs(rng):
    """a long run of consecutive records that do not parse (150 and 700 of them), then good ones: "skips malformed ones" has no limit"""
    out = []
    for k, n in enumerate((150, 700)):
        fr = [{"cls": "Good", "ts": [1, 0], "pkt": 0}] + [{"cls": rng.choice(["Malformed", "Empty"]), "ts": [2, j % 1000], "pkt": j % NSHAPES} for j in range(n)] + \
             [{"cls": "Good", "ts": [3, 1], "pkt": 1}, {"cls": "Good", "ts": [3, 2], "pkt": 2}]
        for lt in ("EN10MB", "RAW", "LINUX_SLL"):
            out.append({"lt": lt, "filter": 0, "frames": fr, "calls": [{"api": "next", "k": 0}, {"api": ["iter", "loop", "next"][k % 3], "k": 0}, {"api": "next", "k": 0}]})
    return out


def walks(count, rng):
    """seeded descriptions over the same alphabet as CaptureGen with more arbitrary-byte frames"""
    out = []
    for _ in range(count):
        n = rng.randrange(0, 13)
        fr = [{"cls": rng.choice(["Good", "Arb", "Arb", "Malformed", "Empty"]), "ts": [rng.choice(SECS), rng.choice(USECS)],
               "pkt": rng.randrange(NSHAPES)} for _ in range(n)]
        calls = []
        for _ in range(rng.randrange(1, 5)):
            api = rng.choice(["next", "loop", "loopmax", "iter", "next", "loop", "loopmax", "iter", "setfilter"])
            calls.append({"api": api, "k": rng.choice([0, 0, rng.randrange(NFILTERS)]) if api == "setfilter" else
                          0 if api == "next" else rng.randrange(1 if api == "loopmax" else 0, 6)})
        out.append({"lt": rng.choice(LTS), "filter": rng.randrange(NFILTERS) if rng.random() < 0.6 else 0, "frames": fr, "calls": calls})
    return out


def library_mapping_probe():
    """Observation, not a verdict: files written with the library's own DataLinkType<Loopback> mapping.  The trace spec
    checks them fully if libpcap reports a supported link type for the written file and is silent otherwise."""
    fr = [{"cls": c, "ts": [1, u], "pkt": p} for c, u, p in (("Good", 0, 0), ("Malformed", 1, 1), ("Good", 999999, 3), ("Good", 1, 1))]
    return [{"lt": "LOOP_LIB", "filter": f, "frames": fr, "calls": [{"api": "loop", "k": 1}, {"api": "next", "k": 0}, {"api": "iter", "k": 0}]}
            for f in (0, 1, 6)]


def nontrivial(s):
    cls = [f["cls"] for f in s["frames"]]
    bad_before_good = any(c != "Good" and "Good" in cls[i + 1:] for i, c in enumerate(cls))
    resumed = len(s["calls"]) >= 2 and s["calls"][0]["k"] > 0
    return bad_before_good and (resumed or s["filter"] != 0)


def sig(scen, kind, detail, rec=None):
    return {"family": "capture", "lt": scen.get("lt"), "kind": kind}


def observations(paths):
    """what libpcap reported for files written through DataLinkType<Loopback> (read from this run's recorded traces)"""
    seen = {}
    for path in paths:
        with open(path) as f:
            want = False
            for line in f:
                if line.startswith('{"e":"Reset"'):
                    want = '"lt":"LOOP_LIB"' in line
                elif want and line.startswith('{"e":"file"'):
                    k = "file link type " + json.loads(line)["flt"]
                    seen[k] = seen.get(k, 0) + 1
                elif want and (line.startswith('{"e":"next"') or line.startswith('{"e":"loop"')):
                    e = json.loads(line).get("exc", "none")
                    if e != "none":
                        seen["exception " + e] = seen.get("exception " + e, 0) + 1
    return seen


def run(tier):
    t0 = time.time()
    quick = tier == "quick"
    rng = random.Random(vlib.seed())
    v = vlib.Verdict(PROP)
    mc = [vlib.model_check("capture/CaptureLoop", "CaptureLoop_q.cfg" if quick else "CaptureLoop_t.cfg", timeout=2400),
          vlib.model_check("capture/CaptureLoop", "CaptureLoop_live.cfg", timeout=900)]
    refuted = []
    for m in MUTANTS:
        vlib.expect_violation("capture/CaptureLoop", "CaptureLoop_mut_%s.cfg" % m, timeout=300)
        refuted.append(m)
    bfs, _ = vlib.tlc_generate("capture/CaptureGen", "CaptureGen_bfs_q.cfg" if quick else "CaptureGen_bfs_t.cfg", timeout=900)
    bfs = [concretise(s, i) for i, s in enumerate(bfs)]
    sim, _ = vlib.tlc_generate("capture/CaptureGen", "CaptureGen_sim.cfg", simulate=400 if quick else 6000, depth=14, workers=4, timeout=900)
    u = {}
    for s in sim:
        u[vlib.canon_hash(s)] = s
    sim = list(u.values())
    wl = walks(1500 if quick else 30000, rng)
    lf = long_files(3 if quick else 42, rng, 1000)
    probe = library_mapping_probe()
    scen = bfs + [usable(x, i) for i, x in enumerate(sim + wl + lf + malformed_runs(rng))] + probe
    p = vlib.Pipeline(PROP, "capture_file", "capture/CaptureTrace")
    chunk = 25000
    traces = []
    for i in range(0, len(scen), chunk):
        p.push(scen[i:i + chunk], "s%d" % (i // chunk))
        traces.append(os.path.join(p.dir, "capture_file-s%d.trace.ndjson" % (i // chunk)))
    p.confirm(v, sig)
    rc = v.finish()
    obs = observations(traces)
    for d in os.listdir(p.dir):                     # files of a scenario that died are left behind by the driver
        if d.startswith("capture-tmp-"):
            shutil.rmtree(os.path.join(p.dir, d), ignore_errors=True)
    distinct = {vlib.canon_hash(s) for s in scen if nontrivial(s)}
    cov = {
        "states": sum(r.distinct for r in mc) + p.stats["tlc_states"],
        "transitions": sum(r.generated for r in mc) + p.stats["tlc_generated"],
        "traces_validated_against_impl": p.stats["executions"],
        "samples": [bfs[len(bfs) // 2], sim[0] if sim else None, wl[0]] + p.samples[:3],
        "evaluations": len(scen),
        "distinct_nontrivial": len(distinct),
        "rule": "scenario = capture file (sequence of frames of class Good / Malformed / Empty / arbitrary bytes with timestamps) of one "
                "of the 7 link types, optionally a filter of a 13-expression grammar, read by a program of next_packet / "
                "sniff_loop(functor false at k) / sniff_loop(max_packets k) / begin()..end() with break at k; TLC BFS over all class "
                "sequences of <=%d frames x all programs of <=2 calls, TLC -simulate (<=8 frames, <=3 calls), seeded walks (<=12 frames), "
                "%d files of ~1000 frames; non-trivial = a frame that does not parse precedes one that does and (a stopped loop is "
                "followed by another call, or a filter is installed)" % (3 if quick else 5, len(lf)),
        "model_checked": {"CaptureLoop": {"max_frames": 4 if quick else 6, "distinct": mc[0].distinct, "generated": mc[0].generated},
                          "CaptureLoop termination (liveness)": {"distinct": mc[1].distinct},
                          "model_mutants_refuted": refuted},
        "observations": {"files written with DataLinkType<Loopback> (link type libpcap reports / exceptions; outside the property's "
                         "link-type set unless it reads NULL)": obs},
        "replay": p.stats, "exhaustive": False,
    }
    vlib.write_evidence(PROP, tier, "model_checking", cov, time.time() - t0, len(v.violations), [
        "'parses' is decided by calling the link type's top-level parser directly (the sniffer's own dispatch: Dot3/EthernetII, "
        "Dot11::from_bytes, RadioTap, Loopback, SLL, IP/IPv6 by version nibble, PPI); parser correctness is C01/C03",
        "filter reference = pcap_compile on the same savefile (sniffer) / on a dead handle of the link type (OfflinePacketFilter) + "
        "pcap_offline_filter on the same bytes; filters libpcap refuses for a link type are outside the quantifier (counted as oracle_silent)",
        "byte identity of a delivered packet = its re-serialisation equals the re-serialisation of the directly parsed frame",
        "PPI cannot be serialised by libtins (pdu_not_serializable), so PPI files are written with pcap_dump and only read back",
        "timestamps: seconds in 0..2^31-1, microseconds in {0,1,999999}; frames up to ~1.5 kB; files up to 1000 frames",
        "model bounds: <=%d frames, every class sequence, filter on/off, unbounded call programs; conformance on replayed executions only"
        % (4 if quick else 6),
    ])
    return rc


def replay(path):
    return vlib.Pipeline(PROP, "capture_file", "capture/CaptureTrace").replay_file(path)
