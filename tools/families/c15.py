"""C15 - Header field accessors are exact inverses and do not disturb neighbours (DESIGN.md section 4, C15)."""
import glob
import json
import os
import re
import time

import vlib

PROP = "C15"
HARNESS = "field_set"
TRACE = "layout/FieldTrace"
EXH = 12          # thorough: every value of fields up to this width is validated by TLC; wider ones (<= 16 bits) are swept


def export_layouts(quick):
    """Model-check the tables + Write/Read semantics and take the table TLC exports (Layouts!Export)."""
    r = vlib.model_check("layout/MCLayouts", "MCLayouts.cfg", timeout=1800)
    lay = None
    for line in r.out.splitlines():
        if line.startswith('"LAYOUT '):
            lay = json.loads(json.loads(line)[7:])
    if not lay:
        raise vlib.ToolFailure("MCLayouts did not export the layout table")
    path = os.path.join(vlib.workdir(PROP), "layouts.json")
    with open(path, "w") as f:
        json.dump(lay, f)
    return lay, path, r


def libtins_pdu_classes():
    """every class with a pdu_flag in libtins' headers (to report classes that are NOT in Layouts)"""
    names = set()
    for h in glob.glob(os.path.join(vlib.REPO, "include/tins/**/*.h"), recursive=True):
        cls = None
        for line in open(h, errors="replace").read().splitlines():
            m = re.match(r"\s*class\s+(?:TINS_API\s+)?(\w+)\s*(?::|\{)", line)
            if m:
                cls = m.group(1)
            if "static const PDU::PDUType pdu_flag" in line and cls:
                names.add(cls)
    return names


def scenarios(lay, quick):
    sets, ranges, sweeps = [], [], []
    for c in sorted(lay):
        for f in sorted(lay[c]["fields"]):
            w = lay[c]["fields"][f]["w"]
            sets.append({"cls": c, "field": f, "mode": "set", "exh": 0 if quick else EXH, "nseed": 12 if quick else 64})
            if w not in (8, 16, 32, 64) and lay[c]["fields"][f]["ord"] != "bytes":
                ranges.append({"cls": c, "field": f, "mode": "range"})
            if not quick and EXH < w <= 16 and lay[c]["fields"][f]["ord"] != "bytes":
                sweeps.append({"cls": c, "field": f, "mode": "sweep", "sample": 509})
    return sets, ranges, sweeps


class Classifier:
    """names the violated clauses of a rejected execution: FieldTrace prints <<"FAIL", line, {clauses}>> for every event it
    cannot accept; the execution is re-validated on its own and those lines are collected (diagnosis only - the verdict
    is the rejection itself)"""
    ORDER = ["spurious_reject", "getter_mismatch", "neighbour_changed", "bytes_mismatch", "truncated_not_rejected"]

    def __init__(self, pipeline):
        self.p = pipeline
        self.kinds = {}
        self.details = {}

    def note(self, trace_path, rec):
        key = (rec["cls"], rec["field"], rec["mode"])
        if key in self.kinds:
            return
        one = os.path.join(self.p.dir, "classify.ndjson")
        vlib.extract_execution(trace_path, rec["line"], one)
        _, r = vlib.validate(TRACE, one, "FieldTrace.cfg")
        fails = [f for f in re.findall(r'<<\s*"FAIL",\s*(\d+),\s*\{([^}]*)\}\s*>>', r.out) if f[1].strip()]
        ks = set()
        for _, body in fails:
            ks |= set(re.findall(r'"(\w+)"', body))
        self.kinds[key] = [k for k in self.ORDER if k in ks] or ["rejected"]
        if fails:
            with open(one) as f:
                lines = f.readlines()
            ev = json.loads(lines[int(fails[0][0]) - 1])
            head = json.loads(lines[0])
            d = {"value": ev.get("v"), "setter_threw": ev.get("rej"), "event_index": int(fails[0][0]) - 1}
            if ev["e"] == "set":
                gi = head["getters"].index(rec["field"])
                d["getter_after"] = ev["ga"][gi]
                d["other_getters_changed"] = [head["getters"][i] for i in range(len(head["getters"]))
                                              if i != gi and ev["ga"][i] != ev["gb"][i]]
                d["header_octets_changed (index, before, after)"] = [
                    (i, ev["hb"][i], ev["ha"][i]) for i in range(min(len(ev["hb"]), len(ev["ha"]))) if ev["hb"][i] != ev["ha"][i]][:12]
            else:
                d["field_before"], d["field_after"] = ev.get("before"), ev.get("after")
            self.details[key] = d

    def kind(self, rec):
        return "+".join(self.kinds.get((rec["cls"], rec["field"], rec["mode"]), ["rejected"]))


def run(tier):
    t0 = time.time()
    quick = tier == "quick"
    for old in glob.glob(os.path.join(vlib.workdir(PROP), "viol-*.json")):
        os.unlink(old)          # replay files of an earlier run must not be mistaken for this run's
    v = vlib.Verdict(PROP)
    lay, lpath, mc = export_layouts(quick)
    refuted = []
    for m in ["overlap", "hole", "le_as_be"]:
        vlib.expect_violation("layout/MCLayouts", "MCLayouts_mut_%s.cfg" % m, timeout=900)
        refuted.append(m)
    sets, ranges, sweeps = scenarios(lay, quick)
    p = vlib.Pipeline(PROP, HARNESS, TRACE, "FieldTrace.cfg", harness_args=["--layouts", lpath])
    cl = Classifier(p)
    bound, unbound, getter_only, swept, noprobe = set(), [], [], 0, 0
    for tag, scen in (("set", sets), ("range", ranges), ("sweep", sweeps)):
        if not scen:
            continue
        before = len(p.candidates)
        p.push(scen, tag, ["--batch", "40", "--scen-timeout", "600"], timeout=3000)
        tp = os.path.join(p.dir, "%s-%s.trace.ndjson" % (HARNESS, tag))
        for rec in vlib.read_trace_index(tp).values():
            if tag == "set":
                if rec["bound"]:
                    bound.add((rec["cls"], rec["field"]))
                else:
                    (getter_only if rec.get("getter") else unbound).append("%s.%s" % (rec["cls"], rec["field"]))
            swept += rec.get("swept", 0)
        for c in p.candidates[before:]:
            if c[2] == "rejected":
                cl.note(tp, c[5])

    def sig(scen, kind, detail, rec=None):
        s = {"family": "layout", "cls": scen["cls"], "field": scen["field"]}
        s["kind"] = cl.kind(rec) if (kind == "rejected" and rec) else kind
        return s

    # one candidate per (class, field, kind): a pair rejected in the boundary run and again in the sweep is one finding
    seen, uniq = set(), []
    for c in p.candidates:
        k = json.dumps(sig(c[0], c[2], c[3], c[5]), sort_keys=True)
        if k not in seen:
            seen.add(k)
            uniq.append(c)
    p.candidates = uniq
    t1 = time.time()
    p.confirm(v, sig, limit=200)
    vlib.log("[c15] %d events in %d executions, replay %.1fs, validation %.1fs, confirmation %.1fs" % (
        p.stats["events"], p.stats["executions"], p.stats["replay_s"], p.stats["validate_s"], time.time() - t1))
    findings = []
    for (c, f, mode), ks in sorted(cl.kinds.items()):
        findings.append({"cls": c, "field": f, "mode": mode, "kind": "+".join(ks), "first_failing_event": cl.details.get((c, f, mode))})
        vlib.log("[c15] rejected: %s.%s (%s) %s  %s" % (c, f, mode, "+".join(ks), json.dumps(cl.details.get((c, f, mode)))[:400]))
    rc = v.finish()
    classes = sorted({c for c, _ in bound})
    libcls = libtins_pdu_classes()
    base = {c.split("_")[0] for c in lay}
    not_covered = sorted(c for c in libcls if c not in base)
    cov = {
        "states": mc.distinct + p.stats["tlc_states"], "transitions": mc.generated + p.stats["tlc_generated"],
        "traces_validated_against_impl": p.stats["executions"],
        "samples": p.samples[:3],
        "evaluations": p.stats["events"] + swept, "distinct_nontrivial": len(bound),
        "rule": "one execution per (layout class, field) pair and mode; set: boundary values (0, 1, max, max-1, 0101.., 1010.., "
                "every single bit set / cleared) + %d seeded values%s, each from a seeded random prior state of all other fields; "
                "range: 2^w, 2^w+1, all-ones / top bit of the parameter type, seeded values >= 2^w; %s; "
                "distinct non-trivial = (class, field) pairs with a setter binding" % (
                    12 if quick else 64, "" if quick else " (all values for widths <= %d)" % EXH,
                    "no exhaustive sweep in this tier" if quick else
                    "sweep: all 2^w values of every field of 13..16 bits, pre-filtered by an interpreter of the table TLC exported, "
                    "every disagreement and every 509th call validated by TLC"),
        "classes_covered": classes, "class_count": len(classes), "field_pairs_covered": len(bound),
        "layout_fields_without_setter_binding": sorted(getter_only), "layout_fields_without_any_binding": sorted(unbound),
        "libtins_classes_not_in_Layouts (not covered)": not_covered,
        "rejected_pairs": findings,
        "range_probe_pairs": len(ranges), "exhaustive_setter_calls": swept,
        "model_checked": {"MCLayouts": {"distinct": mc.distinct, "generated": mc.generated}, "model_mutants_refuted": refuted},
        "replay": p.stats, "exhaustive": False,
    }
    vlib.write_evidence(PROP, tier, "model_checking", cov, time.time() - t0, len(v.violations), [
        "coverage = the classes and fields present in spec/layout/Layouts.tla (transcribed from the cited RFC / IEEE clauses); "
        "classes listed under 'libtins_classes_not_in_Layouts' are NOT covered",
        "each header is serialised as the outermost layer (IP, IPv6, Dot1Q with an opaque RawPDU payload so that the user's "
        "next-protocol tag is kept); option lists, tagged parameters and variable parts are empty",
        "Loopback: DLT_NULL is host byte order; the table states the little-endian host this check runs on",
        "Dot11 BlockAck(Req) bar_control is bound to bits B0-B3 of the BAR control word; STP timer accessors to the whole-seconds octet",
        "the range rule is applied to fields whose width is not 8/16/32/64 and only where the setter's parameter type can carry 2^w",
        "conformance covers the replayed calls only",
    ])
    return rc


def replay(path):
    lay, lpath, _ = export_layouts(True)
    return vlib.Pipeline(PROP, HARNESS, TRACE, "FieldTrace.cfg", harness_args=["--layouts", lpath]).replay_file(path)
