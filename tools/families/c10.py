"""C10 - DNS messages stay coherent under parsing, editing and name compression (DESIGN.md section 4, C10)."""
import random
import time

import vlib

PROP = "C10"


def nontrivial(s):
    """an insertion into a section that is followed by a non-empty section (pointers must be shifted)"""
    if "fault" in s:
        return s["fault"] != "count"
    order = ["q", "an", "ns", "ar"]
    sizes = {k: len(s["init"][k]) for k in order}
    for e in s["edits"]:
        if any(sizes[k] > 0 for k in order[order.index(e["sec"]) + 1:]):
            return True
        sizes[e["sec"]] += 1
    return False


def sig(scen, kind, detail, rec=None):
    return {"family": "dns", "kind": kind, "cls": "fault" if "fault" in scen else "edit"}


def run(tier):
    t0 = time.time()
    quick = tier == "quick"
    v = vlib.Verdict(PROP)
    mc = [vlib.model_check("dns/MCDNSEdit", "MCDNSEdit_q.cfg" if quick else "MCDNSEdit_t.cfg", timeout=2400)]
    refuted = []
    for m in ["shift_gt", "walk_short", "soa_skip"]:
        vlib.expect_violation("dns/MCDNSEdit", "MCDNSEdit_mut_%s.cfg" % m, timeout=300)
        refuted.append(m)
    edits, _ = vlib.tlc_generate("dns/DNSGen", "DNSGen_q.cfg" if quick else "DNSGen_t.cfg", timeout=2400)
    faults, _ = vlib.tlc_generate("dns/DNSFaultGen", "DNSFaultGen.cfg", timeout=900)
    # concretisation (DESIGN 2.5): the model's record data are a few fixed values; in two of three scenarios the inserted
    # A / AAAA / TXT data and the TTLs are replaced by values from the classes a text or length conversion distinguishes
    # (one, two and three digit octets with a zero in any place, 0 and 255; zero runs in an IPv6 address; empty and long text)
    rng = random.Random(vlib.seed())
    OCT = [0, 1, 9, 10, 11, 19, 20, 90, 99, 100, 101, 105, 109, 110, 111, 119, 120, 190, 199, 200, 201, 205, 209, 210, 249, 250, 255]
    for i, sc in enumerate(edits):
        if i % 3 == 0:
            continue
        for ed in sc["edits"]:
            r = ed["rec"]
            if r.get("t") == 1 and len(r.get("v", [])) == 4:
                r["v"] = [rng.choice(OCT) if rng.random() < 0.8 else rng.randrange(256) for _ in range(4)]
            elif r.get("t") == 28 and len(r.get("v", [])) == 16:
                k = rng.randrange(4)
                r["v"] = ([rng.randrange(256) for _ in range(16)] if k == 0 else
                          [0] * 16 if k == 1 else
                          [rng.choice([0, 0, 0, 1, 0xff, rng.randrange(256)]) for _ in range(16)] if k == 2 else
                          [0] * 10 + [0xff, 0xff] + [rng.choice(OCT) for _ in range(4)])
            if "ttl" in r and rng.random() < 0.5:
                r["ttl"] = rng.choice([0, 1, 255, 256, 65535, 65536, 0x7fffffff])
    p = vlib.Pipeline(PROP, "dns_edit", "dns/DNSTrace")
    chunk = 20000
    for i in range(0, len(edits), chunk):
        p.push(edits[i:i + chunk], "e%d" % (i // chunk))
    p.push(faults, "faults")
    p.confirm(v, sig)
    rc = v.finish()
    scen = edits + faults
    distinct = {vlib.canon_hash(s) for s in scen if nontrivial(s)}
    cov = {
        "states": sum(r.distinct for r in mc) + p.stats["tlc_states"],
        "transitions": sum(r.generated for r in mc) + p.stats["tlc_generated"],
        "traces_validated_against_impl": p.stats["executions"],
        "samples": [edits[len(edits) // 2], faults[len(faults) // 2]] + p.samples[:2],
        "evaluations": len(scen),
        "distinct_nontrivial": len(distinct),
        "rule": "edit scenario = initial message (11 model messages incl. SOA/MX/CNAME/TXT records, root names, partially compressed owner names, 63-octet labels, 34- and "
                "127-label names, 255-octet names; wire bytes produced by the TLA+ reference encoder with and without "
                "compression) + every sequence of %d insertions of 16 record kinds into any of the 4 sections (a third insertion: 3 record kinds); non-trivial "
                "= an insertion in front of a non-empty later section.  fault scenario = every truncation, every single-"
                "byte replacement by 10 values at every position, pointer loops / out-of-range / into-header pointers, "
                "count lies on the 5 smaller messages" % (2 if quick else 3),
        "model_checked": {"DNSEditImpl": {"distinct": mc[0].distinct, "generated": mc[0].generated},
                          "model_mutants_refuted": refuted},
        "replay": p.stats, "exhaustive": False,
    }
    vlib.write_evidence(PROP, tier, "model_checking", cov, time.time() - t0, len(v.violations), [
        "names are built from uniform labels <<len, ch>>; record types A, AAAA, NS, CNAME, PTR, MX, SOA, TXT",
        "editing is applied to fresh messages and to wires of the reference encoder only (as the property says); "
        "hostile wires are only parsed and read",
        "conformance covers the replayed executions only",
    ])
    return rc


def replay(path):
    return vlib.Pipeline(PROP, "dns_edit", "dns/DNSTrace").replay_file(path)
