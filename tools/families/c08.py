"""C08 - IPv4 fragment reassembly reconstructs the original datagram (DESIGN.md section 4, C08)."""
import random
import time

import vlib

PROP = "C08"
MODES = ["distinct_id", "distinct_pair", "reverse"]


def shuffles(count, rng):
    """Seeded schedules over the FragGen alphabet that actually complete datagrams: every fragment of both
    datagrams, shuffled, with duplicates (also after completion) and unfragmented packets in between."""
    out = []
    for _ in range(count):
        n = [rng.randrange(1, 9), rng.randrange(1, 9)]
        pk = []
        for d in (1, 2):
            cuts = sorted(set([0, n[d - 1]] + [rng.randrange(1, n[d - 1]) for _ in range(rng.randrange(0, 5)) if n[d - 1] > 1]))
            for a, b in zip(cuts, cuts[1:]):
                pk.append({"d": d, "off": a, "len": b - a, "mf": b != n[d - 1]})
        rng.shuffle(pk)
        for _ in range(rng.randrange(0, 4)):
            pk.insert(rng.randrange(len(pk) + 1), dict(rng.choice([p for p in pk if p["d"]])))
        for _ in range(rng.randrange(0, 2)):
            pk.insert(rng.randrange(len(pk) + 1), {"d": 0, "off": 0, "len": 0, "mf": False})
        out.append({"n": n, "pkts": pk})
    return out


def many(count, rng):
    """3..6 concurrent datagrams of 2..3 fragments each, fully interleaved, identifications and address pairs drawn independently
    from small sets (mode "mixed"): the reassembler's table holds several contexts whose keys agree in some components"""
    out = []
    for _ in range(count):
        k = rng.randrange(3, 7)
        n = [rng.randrange(2, 5) for _ in range(k)]
        pk = []
        for d in range(1, k + 1):
            cuts = sorted(set([0, n[d - 1]] + [rng.randrange(1, n[d - 1]) for _ in range(rng.randrange(1, 3))]))
            for a, b in zip(cuts, cuts[1:]):
                pk.append({"d": d, "off": a, "len": b - a, "mf": b != n[d - 1]})
        rng.shuffle(pk)
        for _ in range(rng.randrange(0, 3)):
            pk.insert(rng.randrange(len(pk) + 1), dict(rng.choice(pk)))
        out.append({"n": n, "pkts": pk, "mode": "mixed", "scale": 1})
    return out


def reuse(count, rng):
    """the identification is reused between the same hosts: datagram 1 is completed (any order, duplicates before completion), then
    datagram 2 - of another size - arrives under the same key, and then datagram 1's size again"""
    out = []
    for _ in range(count):
        n = [rng.randrange(1, 6), rng.randrange(1, 9)]
        pk = []
        for d in (1, 2):
            cuts = sorted(set([0, n[d - 1]] + [rng.randrange(1, n[d - 1]) for _ in range(rng.randrange(0, 4)) if n[d - 1] > 1]))
            part = [{"d": d, "off": a, "len": b - a, "mf": b != n[d - 1]} for a, b in zip(cuts, cuts[1:])]
            if len(part) == 1:
                part = [{"d": d, "off": 0, "len": n[d - 1], "mf": True}] if False else part
            rng.shuffle(part)
            # duplicates only in front of the completing fragment
            if len(part) > 1 and rng.random() < 0.5:
                part.insert(rng.randrange(len(part) - 1) + 1, dict(part[0]))
            pk += part
        out.append({"n": n, "pkts": [p for p in pk if p["mf"] or p["off"]] if False else pk, "mode": "same_key", "scale": 1})
    return out


def nontrivial(s):
    fr = [p for p in s["pkts"] if p["d"] and (p["mf"] or p["off"])]
    offs = [p["off"] for p in fr if p["d"] == 1]
    return len(fr) >= 3 and offs != sorted(offs) or len({p["d"] for p in fr}) == 2


def sig(scen, kind, detail, rec=None):
    return {"family": "ip-frag", "mode": scen.get("mode"), "kind": kind}


def run(tier):
    t0 = time.time()
    quick = tier == "quick"
    rng = random.Random(vlib.seed())
    v = vlib.Verdict(PROP)
    mc = []
    for km in MODES:
        mc.append(vlib.model_check("ip/IPv4ReassemblerImpl", "IPv4ReassemblerImpl_%s_%s.cfg" % ("q" if quick else "t", km), timeout=1800))
    refuted = []
    for m in (["sorted_pair", "no_dup_check"] if quick else ["sorted_pair", "no_dup_check", "total_no_offset"]):
        vlib.expect_violation("ip/IPv4ReassemblerImpl", "IPv4ReassemblerImpl_mut_%s.cfg" % m, timeout=300)
        refuted.append(m)
    bfs, _ = vlib.tlc_generate("ip/FragGen", "FragGen_bfs.cfg", timeout=600)
    sim, _ = vlib.tlc_generate("ip/FragGen", "FragGen_sim.cfg", simulate=500 if quick else 20000, depth=10, workers=4, timeout=900)
    u = {}
    for s in sim:
        u[vlib.canon_hash(s)] = s
    sim = list(u.values())[: (4000 if quick else 150000)]
    sh = shuffles(1500 if quick else 40000, rng)
    scen = bfs + sim + sh
    scales = [1, 1, 2, 5, 185]     # unit = 8*scale bytes; 185 -> fragments of 1480 bytes, datagrams up to ~12 kB
    for i, s in enumerate(scen):
        s["mode"] = MODES[i % 3]
        s["scale"] = scales[(i // 3) % len(scales)]
        if max(s["n"]) * s["scale"] * 8 > 65000:
            s["scale"] = 1
    # one scenario class with the largest payloads the property names (up to 65515 bytes)
    big = [{"n": [8, 2], "scale": 1023, "mode": "distinct_id",
            "pkts": [{"d": 1, "off": o, "len": 1, "mf": o != 7} for o in order] + [{"d": 2, "off": 0, "len": 2, "mf": False}]}
           for order in ([7, 6, 5, 4, 3, 2, 1, 0], [0, 2, 4, 6, 1, 3, 5, 7], [3, 3, 0, 1, 2, 4, 5, 6, 7])]
    scen += big
    scen += many(800 if quick else 20000, rng)
    scen += [x for x in reuse(600 if quick else 15000, rng) if all(p["mf"] or p["off"] for p in x["pkts"])]      # fragments only
    # the upper end of the quantifier: header + payload = 65535 octets exactly (payload 65515), one and two octets below it,
    # in several arrival orders (unit 8192 octets, the last unit cut short by `trim`)
    for trim in (21, 22, 23, 29):
        for order in ([7, 6, 5, 4, 3, 2, 1, 0], [0, 1, 2, 3, 4, 5, 6, 7], [7, 0, 3, 3, 1, 2, 6, 5, 4]):
            scen.append({"n": [8, 1], "scale": 1024, "mode": "distinct_id", "trim": trim,
                         "pkts": [{"d": 1, "off": o, "len": 1, "mf": o != 7} for o in order] + [{"d": 2, "off": 0, "len": 1, "mf": False}]})
    # adversarial concretisation (DESIGN 2.5): every single bit of the 13-bit fragment-offset field, alone, on a
    # final fragment (MF clear) and on a middle fragment (MF set), in both arrival orders
    for kbit in range(13):
        o = 1 << kbit
        a = {"d": 1, "off": 0, "len": o, "mf": True}
        b = {"d": 1, "off": o, "len": 1, "mf": False}
        scen.append({"n": [o + 1, 1], "scale": 1, "mode": "distinct_id", "pkts": [a, b]})
        scen.append({"n": [o + 1, 1], "scale": 1, "mode": "distinct_pair", "pkts": [b, dict(b), a]})
        if o + 2 <= 8189:
            c = {"d": 1, "off": o, "len": 1, "mf": True}
            e = {"d": 1, "off": o + 1, "len": 1, "mf": False}
            scen.append({"n": [o + 2, 1], "scale": 1, "mode": "reverse", "pkts": [c, e, a]})
    p = vlib.Pipeline(PROP, "ip_frag", "ip/FragTrace")
    chunk = 40000
    for i in range(0, len(scen), chunk):
        p.push(scen[i:i + chunk], "s%d" % (i // chunk))
    p.confirm(v, sig)
    rc = v.finish()
    distinct = {vlib.canon_hash(s) for s in scen if nontrivial(s)}
    cov = {
        "states": sum(r.distinct for r in mc) + p.stats["tlc_states"],
        "transitions": sum(r.generated for r in mc) + p.stats["tlc_generated"],
        "traces_validated_against_impl": p.stats["executions"],
        "samples": [sh[0], bfs[len(bfs) // 2]] + p.samples[:3],
        "evaluations": len(scen),
        "distinct_nontrivial": len(distinct),
        "rule": "scenario = two (and, in mode mixed, three to six) concurrent datagrams (1..8 units, any partition) whose fragments arrive in any order "
                "with duplicates, interleaved with unfragmented packets; TLC BFS (depth 4), TLC -simulate (depth 9) and "
                "seeded complete shuffles; key relation rotates over {different id, different host, reverse direction}; "
                "unit size rotates over 8..8192 bytes (payloads up to the 65515 octets the length field allows), protocols UDP/TCP/ICMP and ten numbers libtins has no class for; non-trivial = fragments of both datagrams "
                "interleaved or >=3 fragments out of offset order",
        "model_checked": {"IPv4ReassemblerImpl": [{"mode": km, "distinct": r.distinct, "generated": r.generated} for km, r in zip(MODES, mc)],
                          "model_mutants_refuted": refuted},
        "replay": p.stats, "exhaustive": False,
    }
    vlib.write_evidence(PROP, tier, "model_checking", cov, time.time() - t0, len(v.violations), [
        "fragments of one datagram do not overlap unless identical (property precondition)",
        "model bounds: 2 datagrams, <=4 units, <=8 packets; conformance on replayed executions only",
        "payload identity is checked unit by unit against the original serialisation produced by libtins itself",
    ])
    return rc


def replay(path):
    return vlib.Pipeline(PROP, "ip_frag", "ip/FragTrace").replay_file(path)
