"""Typed-option part of C04 (spec/wire/TypedOpts.tla, TypedOptsGen.tla, TypedTrace.tla; harness/typed_opts.cpp).

run_part(prop, v, quick) generates the scenarios with TLC, replays them on the real classes, validates the log with the
trace specification, confirms every candidate on its own and enters it into the vlib.Verdict `v`; it returns a dict of
measured statistics for the evidence file.  replay(prop, path) re-runs one replay file.
"""
import json
import os
import re
import time

import vlib

HARNESS = "typed_opts"
TRACE = "wire/TypedTrace"
TRACE_CFG = "TypedTrace.cfg"
GEN = "wire/TypedOptsGen"
BIG = 300            # = TypedOpts!BigLen
RULE = ("scenario = (class, typed option, structural shape) enumerated by TLC from the table spec/wire/TypedOpts.tla: every "
        "list length of the table (0 where the wire grammar allows it / 1 / 2 / many / largest representable), every string "
        "and vector length class incl. empty, 255/256 and the largest the option can carry inside its carrier packet, x 7 leaf "
        "value classes (0, 1, max, max-1, high bit, alternating bits, seeded random x %d); plus every ordered pair of different "
        "options of a class (x %d) - the second setter must not disturb the first.  Checked on every option: setter does not "
        "throw, getter = value set (right after the setter and after the later setter), getter on parse(serialize(packet)) = "
        "value set (TypedOpts!RoundTripOK; three documented zero-padding normalisations)")


def pipeline(prop):
    return vlib.Pipeline(prop, HARNESS, TRACE, TRACE_CFG)


def _max_len(shape):
    k = shape.get("k")
    if k in ("str", "bytes", "dom", "listn"):
        m = shape["n"]
        return max(m, _max_len(shape["of"])) if k == "listn" else m
    if k == "list":
        return max([len(shape["items"])] + [_max_len(s) for s in shape["items"]])
    if k == "rec":
        return max([0] + [_max_len(f[1]) for f in shape["fs"]])
    return 0


def _has_empty(shape):
    k = shape.get("k")
    if k in ("str", "bytes", "dom", "listn"):
        return shape["n"] == 0
    if k == "list":
        return not shape["items"] or any(_has_empty(s) for s in shape["items"])
    if k == "rec":
        return any(_has_empty(f[1]) for f in shape["fs"])
    return False


def opts_of(scen):
    return [s["opt"] for s in scen["steps"]]


def _cfg(quick):
    return "TypedOptsGen_q.cfg" if quick else "TypedOptsGen_t.cfg"


def _reps(quick):
    """(Reps, PairReps) as the generator configuration states them"""
    with open(os.path.join(vlib.SPEC, "wire", _cfg(quick))) as f:
        t = f.read()
    return tuple(int(re.search(r"CONSTANT\s+%s\s*=\s*(\d+)" % k, t).group(1)) for k in ("Reps", "PairReps"))


def generate(quick):
    sc, g = vlib.tlc_generate(GEN, _cfg(quick), workers=4, timeout=1200)
    u = {}
    for s in sc:
        u[vlib.canon_hash(s)] = s
    sc = sorted(u.values(), key=vlib.canon_hash)
    # the largest-length shapes exercise length arithmetic, not values: two seeds of each are enough (bounds the log TLC reads)
    sc = [s for s in sc if s["rep"] <= 2 or max(_max_len(st["shape"]) for st in s["steps"]) <= BIG]
    return sc, g


class Classifier:
    """Names the violated clauses of rejected executions (diagnosis and finding signatures only - the verdict is the
    rejection itself): the rejected executions of one replay are copied into one file and validated once more; TypedTrace
    prints <<"FAIL", line, {clauses}>> for every event it cannot accept."""

    def __init__(self, p):
        self.p = p
        self.by_exec = {}      # (tag, sid) -> [(opt, [clauses], event)]

    def note(self, tag, trace_path, recs):
        if not recs:
            return
        with open(trace_path) as f:
            lines = f.readlines()
        one = os.path.join(self.p.dir, "%s-classify.ndjson" % HARNESS)
        owner = {}
        with open(one, "w") as g:
            at = 0
            for rec in recs:
                chunk = lines[rec["line"] - 1: rec["line"] + rec["n"]]
                for i in range(len(chunk)):
                    owner[at + i + 1] = rec["sid"]
                g.writelines(chunk)
                at += len(chunk)
        with open(one) as f:
            cl = f.readlines()
        _, r = vlib.validate(TRACE, one, TRACE_CFG)
        seen = set()
        for ln, body in re.findall(r'<<\s*"FAIL",\s*(\d+),\s*\{([^}]*)\}\s*>>', r.out):
            ln = int(ln)
            if ln in seen or ln not in owner:
                continue
            seen.add(ln)
            ev = json.loads(cl[ln - 1])
            self.by_exec.setdefault((tag, owner[ln]), []).append((ev["opt"], sorted(re.findall(r'"(\w+)"', body)), ev))

    def failing(self, tag, sid):
        return self.by_exec.get((tag, sid), [])


def _short(x, n=240):
    s = json.dumps(x, separators=(",", ":"))
    return s if len(s) <= n else s[:n] + "...(%d chars)" % len(s)


def confirm_batch(p, v, cands, sigfn):
    """DESIGN 5 rule 4: a candidate counts only if the single scenario fails again on its own.  Every candidate scenario is
    re-run ALONE in a fresh driver process with its original seed and sid; the single-execution logs are then validated by
    TLC in one run (per-execution verdicts), which keeps the confirmation of many candidates within the quick budget."""
    if not cands:
        return 0
    runs = []
    allp = os.path.join(p.dir, "%s-confirm-all.trace.ndjson" % HARNESS)
    with open(allp, "w") as allf:
        at = 0
        for i, (scen, sid, kind, detail, args, rec, tag) in enumerate(cands):
            sp = os.path.join(p.dir, "%s-confirm.scen.jsonl" % HARNESS)
            tp = os.path.join(p.dir, "%s-confirm.trace.ndjson" % HARNESS)
            vlib.write_lines(sp, [scen])
            res = vlib.run_harness(p.exe, list(args) + ["--sid-base", str(sid)], sp, tp)
            with open(tp) as f:
                lines = f.readlines()
            runs.append({"crash": res["crashes"][0] if res["crashes"] else None, "start": at + 1, "lines": lines})
            allf.writelines(lines)
            at += len(lines)
    rejected_starts = set()
    if at:
        rej, _ = vlib.validate(TRACE, allp, TRACE_CFG)
        rejected_starts = {r["line"] for r in rej}
    n = 0
    for (scen, sid, kind, detail, args, rec, tag), run in zip(cands, runs):
        sig = sigfn(scen, kind, detail, rec, tag)
        if run["crash"]:
            k2, d2 = "crash", run["crash"].get("why", "") + " " + run["crash"].get("summary", "")
        elif run["lines"] and run["start"] in rejected_starts and (rec is None or vlib.Pipeline._same_exec(json.loads(run["lines"][0]), rec) or kind == "crash"):
            k2, d2 = "rejected", "execution rejected by %s" % TRACE
        else:
            vlib.log("[confirm] scenario %d (%s) did not repeat - not reported" % (sid, kind))
            continue
        n += 1
        v.candidate(sig, "%s: %s | %s" % (k2, d2 or detail, detail),
                    {"harness": HARNESS, "args": list(args), "sid": sid, "scenario": scen, "execution": rec if k2 == "rejected" and kind == "rejected" else None,
                     "trace_module": TRACE, "trace": [x.rstrip("\n")[:3000] for x in run["lines"][:8]]})
    return n


def run_part(prop, v, quick):
    t0 = time.time()
    scen, g = generate(quick)
    p = pipeline(prop)
    cl = Classifier(p)
    chunk = 4000
    tagged = []          # candidates with the tag of the replay they came from
    covered, classes, pair_execs = set(), {}, 0
    for i in range(0, len(scen), chunk):
        tag = "t%d" % (i // chunk)
        before = len(p.candidates)
        p.push(scen[i:i + chunk], tag, timeout=3000)
        tp = os.path.join(p.dir, "%s-%s.trace.ndjson" % (HARNESS, tag))
        new = p.candidates[before:]
        cl.note(tag, tp, [c[5] for c in new if c[2] == "rejected"])
        tagged += [c + (tag,) for c in new]
    for s in scen:
        for o in opts_of(s):
            covered.add((s["cls"], o))
        pair_execs += len(s["steps"]) > 1
    for c, o in covered:
        classes[c] = classes.get(c, 0) + 1

    # options that fail when set alone: a pair containing one of them is a consequence, not a new finding
    broken = {}
    for scn, sid, kind, detail, args, rec, tag in tagged:
        if len(scn["steps"]) == 1:
            o = scn["steps"][0]["opt"]
            ks = "crash" if kind == "crash" else "+".join(sorted({k for _, kk, _ in cl.failing(tag, sid) for k in kk})) or "rejected"
            broken.setdefault((scn["cls"], o), set()).add((ks, _has_empty(scn["steps"][0]["shape"])))

    def kind_of(scn, kind, rec, tag):
        if kind == "crash":
            return "crash"
        return "+".join(sorted({k for _, kk, _ in cl.failing(tag, rec["sid"]) for k in kk})) or "rejected"

    def sig(scn, kind, detail, rec, tag):
        os_ = opts_of(scn)
        if len(os_) > 1:
            b = [o for o in os_ if (scn["cls"], o) in broken]
            if b:
                k0, e0 = sorted(broken[(scn["cls"], b[0])])[0]
                return {"family": "typed", "cls": scn["cls"], "opt": b[0], "kind": k0, "has_empty": e0}
            return {"family": "typed", "cls": scn["cls"], "opt": "+".join(sorted(os_)), "kind": kind_of(scn, kind, rec, tag)}
        # has_empty (the value holds an empty list / string / vector) separates boundary findings from general ones, so that a
        # recorded boundary finding cannot mask a later failure of the same option on ordinary values
        return {"family": "typed", "cls": scn["cls"], "opt": os_[0], "kind": kind_of(scn, kind, rec, tag), "has_empty": _has_empty(scn["steps"][0]["shape"])}

    def describe(scn, kind, detail, rec, tag):
        if kind == "crash":
            return detail
        out = []
        for o, ks, ev in cl.failing(tag, rec["sid"])[:2]:
            out.append("%s.%s %s: set %s, getter %s, after re-parse %s%s" % (
                scn["cls"], o, "+".join(ks), _short(ev["val"], 160), _short(ev["got"], 160), _short(ev["back"], 160),
                (", setter threw " + ev["set_thrown"]) if ev["set_thrown"] else ""))
        return "; ".join(out) or detail

    # one confirmed example per signature, single-option scenarios first (they are the minimal reproductions)
    tagged.sort(key=lambda c: (len(c[0]["steps"]), c[6], c[1]))
    seen, uniq, per_sig = set(), [], {}
    for c in tagged:
        s = sig(c[0], c[2], c[3], c[5], c[6])
        ks = json.dumps(s, sort_keys=True)
        per_sig[ks] = per_sig.get(ks, 0) + 1
        if ks not in seen:
            seen.add(ks)
            uniq.append((c[0], c[1], c[2], describe(c[0], c[2], c[3], c[5], c[6]), c[4], c[5], c[6]))
    t1 = time.time()
    confirmed = confirm_batch(p, v, uniq, sig)
    findings = []
    for c in uniq:
        s = sig(c[0], c[2], c[3], c[5], c[6])
        findings.append(dict(s, executions=per_sig[json.dumps(s, sort_keys=True)], example=c[3][:600]))
        vlib.log("[typed] rejected: %s" % json.dumps(findings[-1])[:900])
    vlib.log("[typed] %d scenarios (%d pairs), %d executions, %d events, %d (class, option) pairs in %d classes; replay %.1fs, "
             "validation %.1fs, confirmation of %d candidates %.1fs; %d rejected, %d crashed" % (
                 len(scen), pair_execs, p.stats["executions"], p.stats["events"], len(covered), len(classes), p.stats["replay_s"],
                 p.stats["validate_s"], len(uniq), time.time() - t1, p.stats["rejected"], p.stats["crashes"]))
    return {
        "typed_scenarios": len(scen), "typed_pair_scenarios": pair_execs, "typed_executions": p.stats["executions"],
        "typed_events": p.stats["events"], "typed_options_covered": len(covered), "typed_options_per_class": dict(sorted(classes.items())),
        "typed_classes": sorted(classes), "typed_replay": p.stats, "typed_generator_states": g.distinct,
        "typed_rule": RULE % _reps(quick),
        "typed_rejected_signatures": findings, "typed_confirmed": confirmed, "typed_wall_s": round(time.time() - t0, 1),
        "typed_sample": p.samples[1:2],
    }


def replay(prop, path):
    return pipeline(prop).replay_file(path)
