"""C07 - Stream follower tracks connections, directions and lifetimes correctly (DESIGN.md section 4, C07)."""
import time

import vlib

PROP = "C07"


def nontrivial(s):
    conns = {p["conn"] for p in s["pkts"]}
    return len(conns) == 2 and any(p["len"] > 0 for p in s["pkts"])


def sig(scen, kind, detail, rec=None):
    return {"family": "follower", "kind": kind, "mode": scen.get("mode")}


def run(tier):
    t0 = time.time()
    quick = tier == "quick"
    v = vlib.Verdict(PROP)
    mc = [vlib.model_check("tcp/FollowerKey", "FollowerKey_code.cfg", workers=2, timeout=300),
          vlib.model_check("tcp/FollowerSweep", "FollowerSweep_code.cfg", timeout=900),
          # the whole follower (table, Stream/Flow state machine, logical DataTracker, limits, sweep) against FollowerAbs!Judge
          # for every interleaving and time increment of two scripted connections
          vlib.model_check("tcp/FollowerImpl", "FollowerImpl_q.cfg" if quick else "FollowerImpl_t.cfg", timeout=3000)]
    refuted = []
    for m, c in (("tcp/FollowerKey", "zero_pad"), ("tcp/FollowerKey", "sort_each"),
                 ("tcp/FollowerSweep", "never_sweep"), ("tcp/FollowerSweep", "strict_lt"),
                 ("tcp/FollowerImpl", "mut_limit_client_only"), ("tcp/FollowerImpl", "mut_finish_any_fin"),
                 ("tcp/FollowerImpl", "mut_state_frozen_after_fin"), ("tcp/FollowerImpl", "mut_sweep_by_create_time"),
                 ("tcp/FollowerImpl", "mut_announce_on_any_syn"), ("tcp/FollowerImpl", "mut_ignore_before_state"),
                 ("tcp/FollowerImpl", "reach")):
        vlib.expect_violation(m, "%s_%s.cfg" % (m.split("/")[1], c), timeout=300)
        refuted.append(c)
    sim, g = vlib.tlc_generate("tcp/FollowerGen", "FollowerGen_sim.cfg", simulate=500 if quick else 12000, depth=45,
                               workers=4, timeout=1800)
    u = {}
    for s in sim:
        u[vlib.canon_hash(s)] = s
    scen = list(u.values())[: (8000 if quick else 200000)]
    for i, s in enumerate(scen):
        s["mode"] = i % 10
        s["ignore"] = ["none", "none", "client", "none", "server", "none", "none"][i % 7]      # Stream::ignore_client_data / ignore_server_data
        # in every fourth scenario a third party's segments (never tracked: no SYN, no payload) let time pass at the end: 19 and 21
        # ticks after the last packet (keep-alive 10): whatever is still tracked is idle for more than one period at the first and
        # for more than two at the second, and no sweep is due in between
        if i % 4 == 1 and s["pkts"]:
            t = s["pkts"][-1]["ts"]
            for dt in (19, 21):
                s["pkts"].append({"from": "c", "syn": False, "ack": True, "fin": False, "rst": False, "off": 0, "len": 0, "ackoff": 0,
                                  "inc": False, "x": 0, "conn": "c3", "ts": t + dt})
    p = vlib.Pipeline(PROP, "tcp_follower", "tcp/FollowerTrace")
    chunk = 20000
    for i in range(0, len(scen), chunk):
        p.push(scen[i:i + chunk], "s%d" % (i // chunk))
    p.confirm(v, sig)
    rc = v.finish()
    distinct = {vlib.canon_hash(s) for s in scen if nontrivial(s)}
    cov = {
        "states": sum(r.distinct for r in mc) + p.stats["tlc_states"],
        "transitions": sum(r.generated for r in mc) + p.stats["tlc_generated"],
        "traces_validated_against_impl": p.stats["executions"],
        "samples": [scen[0]] + p.samples[:2],
        "evaluations": len(scen), "distinct_nontrivial": len(distinct),
        "rule": "scenario = two connections, each following one of 14 scripts (handshake, data both ways with "
                "reordering/duplication/overlap, FIN/FIN and RST closes incl. RST after FIN, mid-stream attach, chunk and "
                "byte limit overflow per direction and across directions, retransmitted SYN, reuse of the 4-tuple after "
                "close, idle, an ECN-setup handshake with ECE/CWR/URG bits on later segments), interleaved by TLC -simulate with capture-time gaps {0,3,10,25} (keep-alive 10), attach "
                "on/off; endpoint relation rotates over 10 adversarial classes (another host, crossed ports, swapped hosts, both ends of a connection on the same port, both ends on the same address, "
                "one-bit port differences, same 4-tuple in IPv4 and IPv6), both families, ISNs next to 0/2^31/2^32; "
                "non-trivial = both connections present and some data",
        "model_checked": {"FollowerKey": "all endpoint pairs over 2 families x 3 addresses x 2 ports",
                          "FollowerSweep": {"distinct": mc[1].distinct},
                          "FollowerImpl": {"distinct": mc[2].distinct, "generated": mc[2].generated,
                                           "what": "every interleaving and time increment {0, keep-alive, > 2 keep-alives} of two scripted "
                                                   "connections (14 scripts x %s), attach on/off, judged step by step by FollowerAbs!Judge" % (
                                                       "the idle script" if quick else "5 scripts")},
                          "model_mutants_refuted": refuted},
        "replay": p.stats, "exhaustive": False,
    }
    vlib.write_evidence(PROP, tier, "model_checking", cov, time.time() - t0, len(v.violations), [
        "scripts are well-formed per connection (in-order handshake); interleavings and capture times are arbitrary",
        "buffer limits are set to the model's values (2 chunks / 6 bytes) through the guarded hook verif_set_limits",
        "TLC checks the table key, the sweep schedule and an implementation-shaped model of the whole follower (FollowerImpl, "
        "logical sequence coordinates; wrap-around is C06's subject) against FollowerAbs!Judge, the same operator that decides the "
        "verdict on recorded executions of the real code; self-connections are excluded",
    ])
    return rc


def replay(path):
    return vlib.Pipeline(PROP, "tcp_follower", "tcp/FollowerTrace").replay_file(path)
