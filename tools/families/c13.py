"""C13 - Layer look-up and casts never hand back an object of the wrong type (DESIGN.md section 4, C13)."""
import glob
import os
import re
import time

import vlib

PROP = "C13"


def header_classes():
    """every class that defines a pdu_flag in libtins' headers (static cross-check: a class the driver's type
    list does not cover must not escape silently -> tool failure, exit 2)"""
    names = set()
    for h in glob.glob(os.path.join(vlib.REPO, "include/tins/**/*.h"), recursive=True):
        txt = open(h, errors="replace").read()
        cls = None
        for line in txt.splitlines():
            m = re.match(r"\s*class\s+(?:TINS_API\s+)?(\w+)\s*(?::|\{)", line)
            if m:
                cls = m.group(1)
            if "static const PDU::PDUType pdu_flag" in line and cls:
                names.add(cls)
    return names


def driver_types():
    src = open(os.path.join(vlib.HARNESS, "pdu_types.cpp")).read()
    out = set()
    for macro in ("CONCRETE", "ABSTRACT"):
        body = re.search(r"#define %s\(X\) (.*)" % macro, src).group(1)
        out |= set(re.findall(r"X\(([\w<>]+)\)", body))
    return out


def sig(scen, kind, detail, rec=None):
    return {"family": "types", "kind": kind, "cacher_pair": bool(rec and rec.get("cacher_pair"))}


def run(tier):
    t0 = time.time()
    v = vlib.Verdict(PROP)
    hdr, drv = header_classes(), driver_types()
    missing = {c for c in hdr if c not in drv and c != "PDUCacher"}
    if missing:
        raise vlib.ToolFailure("classes with a pdu_flag that the C13 driver's type list does not cover: %s "
                               "(add them to harness/pdu_types.cpp)" % sorted(missing))
    p = vlib.Pipeline(PROP, "pdu_types", "pdu/TypeTable", extra_flags=["-fno-sanitize=vptr"])
    p.push([{"k": i} for i in range(600)], "all", ["--batch", "600"])
    p.confirm(v, sig, limit=60)
    rc = v.finish()
    idx = vlib.read_trace_index(os.path.join(p.dir, "pdu_types-all.trace.ndjson"))
    objs = {r["obj"] for r in idx.values()}
    types = {r["t"] for r in idx.values()}
    cov = {
        "states": p.stats["tlc_states"], "transitions": p.stats["tlc_generated"],
        "traces_validated_against_impl": p.stats["executions"],
        "samples": p.samples[:4],
        "evaluations": p.stats["executions"], "distinct_nontrivial": len(idx),
        "rule": "one evaluation per (object, requested type) pair: %d objects (every concrete class alone, over an "
                "IP/TCP/Raw tail, under Ethernet+802.1Q, under RadioTap+QoS data+SNAP, plus field states that must not "
                "change identity, RawPDU objects holding no bytes, objects of user-defined classes and 5 PDUCacher wrappers) x %d requestable types (every shipped class with a flag and 80 user-defined classes, flags USER_DEFINED_PDU + 0..79); all pairs are distinct; the "
                "relation is finite and enumerated completely for these objects" % (len(objs), len(types)),
        "objects": len(objs), "types": len(types), "header_classes_covered": len(hdr),
        "known_finding_pairs": p.stats["rejected"] - len(v.violations),
        "replay": p.stats, "exhaustive": True,
    }
    vlib.write_evidence(PROP, tier, "model_checking", cov, time.time() - t0, len(v.violations), [
        "objects are the listed instances of each class; a class whose type identity depended on a field state not "
        "listed in harness/pdu_types.cpp specials() would escape",
        "ground truth is dynamic_cast on the same objects (RTTI of the same build)",
    ])
    return rc


def replay(path):
    return vlib.Pipeline(PROP, "pdu_types", "pdu/TypeTable", extra_flags=["-fno-sanitize=vptr"]).replay_file(path)
