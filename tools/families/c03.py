"""C03 - Re-serializing a parsed packet preserves it (DESIGN.md section 4, C03; spec/wire/RoundTrip.tla)."""
import random
import time

import vlib
import pyenc

PROP = "C03"


def sig(scen, kind, detail, rec=None):
    b = scen["base"]
    return {"family": "roundtrip", "kind": kind, "mut": scen["mut"]["k"],
            "base": "cat%d" % b["cat"] if "cat" in b else ("golden" if "raw" in b else "wire")}


def run(tier):
    t0 = time.time()
    quick = tier == "quick"
    rng = random.Random(vlib.seed())
    v = vlib.Verdict(PROP)
    muts, g = vlib.tlc_generate("wire/RoundTripGen", "RoundTripGen.cfg", timeout=600)
    u = {}
    for s in muts:
        u[vlib.canon_hash(s)] = s
    muts = sorted(u.values(), key=vlib.canon_hash)
    reps = 3 if quick else 25
    scen = [{"base": {"cat": s["cat"]}, "mut": s["mut"], "rep": r} for r in range(reps) for s in muts]
    # the application-layer classes as entry points of their own (nothing below UDP is dissected automatically)
    scen += [{"base": {"cat": c, "sub": True}, "mut": m, "rep": r} for r in range(reps) for c in (1, 2, 3, 4, 5, 45, 52, 53)
             for m in ({"k": "none", "layer": 0, "n": 0}, {"k": "trail", "layer": 0, "n": 1}, {"k": "trail", "layer": 0, "n": 4})]
    shapes, g2 = vlib.tlc_generate("wire/WireGen", "WireGen.cfg", timeout=900)
    u = {}
    for s in shapes:
        u[vlib.canon_hash(s)] = s
    shapes = [s for s in sorted(u.values(), key=vlib.canon_hash) if s["pay"] != "huge"]
    sample = shapes if not quick else rng.sample(shapes, 700)
    mset = sorted({vlib.canon_hash(s["mut"]): s["mut"] for s in muts}.values(), key=vlib.canon_hash)
    for s in sample:
        for m in (mset if not quick else rng.sample(mset, 3)):
            scen.append({"base": s, "mut": m})
    # inputs from an independent encoder (tools/pyenc.py): what libtins parses here was not produced by its own serializer
    gold = pyenc.goldens(rng)
    for name, b in gold:
        for m in mset:
            scen.append({"base": {"raw": list(b), "name": name}, "mut": m})
    for name, cls, b in pyenc.app_goldens(rng):
        for m in ({"k": "none", "layer": 0, "n": 0}, {"k": "trail", "layer": 0, "n": 1}, {"k": "trail", "layer": 0, "n": 4}):
            scen.append({"base": {"raw": list(b), "name": name, "cls": cls}, "mut": m})
    # damaged inputs: one octet of an independent-encoder packet replaced (mutation "lie": layer = position, n = value);
    # judged by the weak clause set (same stack, re-parse succeeds, idempotent) - see RoundTrip!WeakRoundTripOK
    lie_vals = [0, 1, 2, 3, 4, 63, 64, 127, 128, 192, 255]
    lies = []
    for name, b in gold:
        if name.startswith("dns_"):
            continue
        for pos in range(12, min(len(b), 100)):
            for val in set(lie_vals + [(b[pos] - 1) & 255, (b[pos] + 1) & 255, b[pos] ^ 0x80]):
                if val != b[pos]:
                    lies.append({"base": {"raw": list(b), "name": name}, "mut": {"k": "lie", "layer": pos, "n": val}})
    rng.shuffle(lies)
    scen += lies[: (15000 if quick else len(lies))]
    p = vlib.Pipeline(PROP, "wire_rt", "wire/RoundTripTrace")
    chunk = 8000
    for i in range(0, len(scen), chunk):
        p.push(scen[i:i + chunk], "r%d" % (i // chunk), timeout=3000)
    p.confirm(v, sig)
    rc = v.finish()
    judged = p.stats["executions"] - p.stats["oracle_silent"]
    cov = {
        "states": g.distinct + g2.distinct + p.stats["tlc_states"], "transitions": g.generated + g2.generated + p.stats["tlc_generated"],
        "traces_validated_against_impl": p.stats["executions"],
        "samples": [scen[0], scen[-1]] + [{k: (x[k] if k not in ("b", "y", "y2") else x[k][:48]) for k in x} for x in p.samples[1:2]],
        "evaluations": len(scen), "distinct_nontrivial": len({vlib.canon_hash(s) for s in scen if s["mut"]["k"] != "none"}),
        "judged_by_oracle": judged,
        "rule": "scenario = base packet (48 catalogue packets over the layer classes outside the WireGen shapes - ARP, DNS, DHCP, "
                "DHCPv6, RTP, VXLAN, MPLS, PPPoE, Dot3/LLC (all three control formats)/SNAP/STP, SLL, Loopback, AH, ESP, ICMP "
                "errors with RFC 4884 extensions, ICMPv6 ND/RA/MLD2, RadioTap, 802.11 management/control/data incl. 4-address "
                "and QoS, EAPOL, IP-in-IP - a seeded sample of WireGen shapes, and packets from the independent Python encoder tools/pyenc.py incl. IPv6 chains of up to 4 extension headers, IPv4 options and unpadded short frames / fragments) x structural mutation enumerated by TLC "
                "(unknown next-protocol value in layer i, trailing bytes, none); non-trivial = mutated; inputs libtins rejects or "
                "mutations that do not apply are outside the property and counted as oracle_silent; plus single-octet lies on the independent "
                "encoder's packets (every position below 100 x 14 values, sampled in quick) judged by the weak clause set",
        "replay": p.stats, "exhaustive": False,
    }
    vlib.write_evidence(PROP, tier, "exploration", cov, time.time() - t0, len(v.violations), [
        "header bytes are compared between input and re-serialisation outside the derived-field masks of spec/wire/RoundTrip.tla "
        "(transcribed from the RFCs); layer classes not in its Known set are compared for stack shape, payload and byte "
        "idempotence only",
        "inputs are serialisations produced by libtins plus structural mutations, not arbitrary accepted byte strings",
    ])
    return rc


def replay(path):
    return vlib.Pipeline(PROP, "wire_rt", "wire/RoundTripTrace").replay_file(path)
