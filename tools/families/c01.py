"""C01 - Parsing untrusted bytes is memory-safe and fails only as malformed-packet (DESIGN.md section 4, C01)."""
import random
import time

import vlib
import pyenc

PROP = "C01"


def sig(scen, kind, detail, rec=None):
    b = scen["base"]
    name = "cat%d" % b["cat"] if "cat" in b else ("golden" if "raw" in b else ("sample:" + b["sample"] if "sample" in b else "wire"))
    return {"family": "parse", "kind": kind, "base": name}


def typed_option_bases(quick):
    """Packets carrying one typed option each, built by the typed-option driver (harness/typed_opts.cpp) from the shapes of
    spec/wire/TypedOptsGen; returned as raw bases for fault injection."""
    import json
    import os
    from families import typed
    shapes, _ = vlib.tlc_generate(typed.GEN, "TypedOptsGen_q.cfg", workers=4, timeout=600)
    best, small = {}, {}
    for s in shapes:
        if len(s["steps"]) != 1:
            continue
        n = typed._max_len(s["steps"][0]["shape"])
        key = (s["cls"], s["steps"][0]["opt"])
        # two small but non-trivial values: the longest shape that keeps the packet short, and the shortest non-empty one
        if n <= 12 and (key not in best or n > best[key][0]):
            best[key] = (n, s)
        if 1 <= n <= 12 and (key not in small or n < small[key][0]):
            small[key] = (n, s)
    picked = {}
    for k, v in list(best.items()) + list(small.items()):
        picked[(k, v[0])] = v[1]
    scen = [dict(v, emit_bytes=True) for k, v in sorted(picked.items(), key=lambda kv: (kv[0][0], kv[0][1]))]
    exe = vlib.build_harness(typed.HARNESS)
    d = vlib.workdir(PROP)
    sp, tp = os.path.join(d, "typed-bases.scen.jsonl"), os.path.join(d, "typed-bases.trace.ndjson")
    vlib.write_lines(sp, scen)
    vlib.run_harness(exe, [], sp, tp, timeout=600)
    out = []
    with open(tp) as f:
        for line in f:
            r = json.loads(line)
            if r.get("e") == "opt" and r.get("wire"):
                out.append({"raw": r["wire"], "name": "typed_%s_%s_%d" % (r["cls"], r["opt"], len(r["wire"])), **({"entry": "dot11"} if r["cls"] == "Dot11" else {})})
    return out if not quick else out


def ppi_bases():
    """PPI captures of 802.11 frames whose field area is cut at every interesting length of the 802.11-Common field (4-octet field
    header + 20 octets; its flags word - bit 0: the frame ends in an FCS - sits at offset 12 of the field area), with and without
    the FCS flag and the 4 FCS octets."""
    import struct
    m1, m2, m3 = bytes([0, 0x11, 0x22, 0x33, 0x44, 0x55]), bytes([0x66, 0x77, 0x88, 0x99, 0xaa, 0xbb]), bytes([2, 0, 0, 0, 0, 1])
    dot11 = bytes([0x08, 0x02, 0x2c, 0x00]) + m1 + m2 + m3 + bytes([0x10, 0x00]) + bytes([0xaa, 0xaa, 3, 0, 0, 0, 0x99, 0x99]) + bytes([1, 2, 3, 4, 5, 6])
    out = []
    for flen in (0, 4, 8, 11, 12, 13, 14, 16, 24):
        for fcs in (0, 1):
            field = bytearray(struct.pack("<HH", 2, 20) + bytes(8) + struct.pack("<HHHHBB", fcs, 2, 2412, 0x00a0, 0xd8, 0xa0) + bytes(2))
            hdr = bytes([0, 0]) + struct.pack("<H", 8 + flen) + struct.pack("<I", 105)
            b = hdr + bytes(field[:flen]) + dot11 + (bytes([0xde, 0xad, 0xbe, 0xef]) if fcs else b"")
            out.append({"raw": list(b), "name": "ppi_dot11_f%d_fcs%d" % (flen, fcs), "special": "ppi"})
    return out


def scenarios(rng, quick, option_shapes=False):
    """(scenarios, bases, chunks, generator results).  option_shapes: instead of a random sample of WireGen shapes take one shape
    per (network-layer option shape, transport option shape) - the packets whose re-serialisation has something to compute."""
    chunks, g = vlib.tlc_generate("wire/Faults", "Faults_q.cfg" if quick else "Faults_t.cfg", timeout=900)
    u = {}
    for s in chunks:
        u[s["chunk"]] = s
    chunks = [u[k] for k in sorted(u)]
    shapes, g2 = vlib.tlc_generate("wire/WireGen", "WireGen.cfg", timeout=900)
    us = {}
    for s in shapes:
        us[vlib.canon_hash(s)] = s
    shapes = [s for s in sorted(us.values(), key=vlib.canon_hash) if s["pay"] not in ("huge", "big")]
    bases = [{"cat": i} for i in range(55)] + [{"sample": "ppi"}, {"sample": "pktap"}]
    bases += ppi_bases()
    gold = pyenc.goldens(rng)
    bases += [{"raw": list(b), "name": n} for n, b in gold if n.startswith("dns_")]
    bases += [{"raw": list(b), "name": n} for n, b in gold if not n.startswith("dns_")][:: (4 if quick else 1)]
    # double faults: a mode-switching lie first (IPv6 payload length 0 = jumbogram path, IPv4 total length 0 = TSO path)
    for n, b in gold:
        o = pyenc.l3_offset(b)
        if n.startswith("ip6_hbh") and (not quick or n.endswith("udp_v0")):
            bases.append({"raw": list(b), "name": n + "+plen0", "pre": [[o + 4, 0], [o + 5, 0]]})
        if n.startswith("ip4_") and (not quick or n.endswith("rr_udp_v0")):
            bases.append({"raw": list(b), "name": n + "+totlen0", "pre": [[o + 2, 0], [o + 3, 0]]})
    # one packet per typed option (106 accessor pairs of spec/wire/TypedOpts), so that faults land in every option decoder
    bases += typed_option_bases(quick)
    if option_shapes:
        seen = {}
        for s in shapes:
            if s["pay"] == "even" and (s["link"] == "eth" or not quick):
                seen.setdefault((s["link"], s["net"], s["ip4opts"], s["ext"], s["tr"], s["tcpopts"]), s)
        bases += list(seen.values())
    else:
        bases += rng.sample(shapes, 25 if quick else 400)
    scen = [dict({"base": {k: x for k, x in b.items() if k != "pre"}, "faults": c["faults"], "chunk": c["chunk"]},
                 **({"pre": b["pre"]} if "pre" in b else {})) for b in bases for c in chunks]
    return scen, bases, chunks, (g, g2)


def parsed_serialize_part(prop, v, quick):
    """C02 over parsed packets: every packet a damaged buffer is accepted as must serialize to exactly size() bytes."""
    rng = random.Random(vlib.seed())
    scen, bases, chunks, _ = scenarios(rng, quick, option_shapes=True)
    p = vlib.Pipeline(prop, "parse_safe", "wire/FaultTrace", "FaultTrace_%s.cfg" % prop)
    for i in range(0, len(scen), 4000):
        p.push(scen[i:i + 4000], "pf%d" % (i // 4000), ["--batch", "40", "--scen-timeout", "60"], timeout=3400)
    p.confirm(v, sig)
    return {"parsed_packets_bases": len(bases), "parsed_packets_faults_per_base": sum(len(c["faults"]) for c in chunks),
            "parsed_packets_evaluations": p.stats["events"], "parsed_packets_replay": p.stats,
            "parsed_packets_rule": "every packet that the entry point or a layer constructor accepts from a damaged buffer (catalogue, "
                                   "independent-encoder packets, one WireGen shape per option-shape combination; every truncation and "
                                   "14 byte lies at every header offset) must serialize without throwing to exactly size() bytes"}


def run(tier):
    t0 = time.time()
    quick = tier == "quick"
    rng = random.Random(vlib.seed())
    v = vlib.Verdict(PROP)
    scen, bases, chunks, (g, g2) = scenarios(rng, quick)
    p = vlib.Pipeline(PROP, "parse_safe", "wire/FaultTrace", "FaultTrace_C01.cfg")
    chunk = 4000
    for i in range(0, len(scen), chunk):
        p.push(scen[i:i + chunk], "f%d" % (i // chunk), ["--batch", "40", "--scen-timeout", "60"], timeout=3400)
    p.confirm(v, sig)
    rc = v.finish()
    nfaults = sum(len(c["faults"]) for c in chunks)
    cov = {
        "states": g.distinct + g2.distinct + p.stats["tlc_states"], "transitions": g.generated + g2.generated + p.stats["tlc_generated"],
        "traces_validated_against_impl": p.stats["executions"],
        "samples": [{"base": scen[0]["base"], "faults": scen[0]["faults"][:3]}] + p.samples[1:3],
        "evaluations": p.stats["events"], "distinct_nontrivial": p.stats["events"],
        "rule": "one evaluation per (base packet, fault): %d bases (52 catalogue packets over ~45 layer classes, PPI and PKTAP "
                "sample captures, packets of the independent encoder, sampled WireGen shapes) x %d faults enumerated by TLC "
                "(truncation at every length, 14 byte lies at every header offset); each damaged buffer goes to the link-layer "
                "entry point and to the class constructor at every layer boundary, every accepted packet gets ~200 read "
                "accessors; all pairs are distinct" % (len(bases), nfaults),
        "bases": len(bases), "faults_per_base": nfaults,
        "replay": p.stats, "exhaustive": False,
    }
    vlib.write_evidence(PROP, tier, "exploration", cov, time.time() - t0, len(v.violations), [
        "explores the single-fault neighbourhood (every truncation, every single-byte lie in the first %d bytes) of well-formed "
        "packets - not all byte strings" % (100 if quick else 260),
        "memory safety / undefined behaviour / leaks are observed by ASan+UBSan (enum range checks off: C++11), hangs by a "
        "per-scenario alarm; the outcome class is validated by TLC",
        "accessor list: harness/touch.h (typed option decoders of TCP, IP, IPv6 extension headers, ICMPv6, DHCP, DHCPv6, DNS, "
        "PPPoE, RadioTap, 802.11 management, EAPOL, RTP, ICMP extensions; size, serialize, clone, destroy for every class)",
    ])
    return rc


def replay(path):
    return vlib.Pipeline(PROP, "parse_safe", "wire/FaultTrace", "FaultTrace_C01.cfg").replay_file(path)
