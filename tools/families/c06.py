"""C06 - TCP stream reassembly delivers exactly the sent byte stream (DESIGN.md section 4, C06)."""
import random
import time

import vlib
import h3

PROP = "C06"


def nontrivial(segs):
    """out of order, overlapping, duplicated or stale arrival somewhere (App. C)"""
    end = 0
    for off, ln in segs:
        if off != end:
            return True
        end = off + ln
    return False


def walks(n, L, depth, rng):
    """Seeded walks over the same action alphabet as ReassemblyGen (segments of one L-byte stream plus
    stale/straddling ones); validated by the same trace spec, so this generator is not trusted."""
    out = []
    for _ in range(n):
        segs = []
        # a segmentation of the stream, shuffled, with retransmissions using different boundaries
        cuts = sorted(set([0, L] + [rng.randrange(1, L) for _ in range(rng.randrange(2, 12))]))
        base = [[a, b - a] for a, b in zip(cuts, cuts[1:])]
        rng.shuffle(base)
        for s in base:
            segs.append(s)
            r = rng.random()
            if r < 0.35:      # retransmission with other boundaries (overlap)
                off = rng.randrange(-2, L - 1)
                ln = rng.randrange(1, min(9, L - off) + 1)
                segs.append([off, ln])
            elif r < 0.45:    # exact duplicate
                segs.append(list(rng.choice(segs)))
        out.append(segs[:depth])
    return out


def sig(scen, kind, detail, rec=None):
    return {"family": "tcp-reassembly", "kind": kind}


def run(tier):
    t0 = time.time()
    quick = tier == "quick"
    rng = random.Random(vlib.seed())
    v = vlib.Verdict(PROP)
    mc = []
    # (2) the design: implementation-shaped spec refines the abstract one for every ISN (incl. wrap)
    mc.append(vlib.model_check("common/MCSeqNum", "MCSeqNum_16.cfg", workers=2, timeout=120))
    # the same window lemma at the code's modulus 2^32, symbolically (Apalache); never gates the check
    apa = {"window_lemma_M_2^32": vlib.apalache_lemma("common/apa/SeqLemma.tla"),
           "window_widened_to_2^31 (must be refuted)": vlib.apalache_lemma("common/apa/SeqLemmaBad.tla", expect_error=True)}
    mc.append(vlib.model_check("tcp/DataTrackerImpl", "DataTrackerImpl_q.cfg" if quick else "DataTrackerImpl_t.cfg",
                               timeout=1500))
    mc.append(vlib.model_check("tcp/DataTrackerImpl", "DataTrackerImpl_legacy_q.cfg" if quick else "DataTrackerImpl_legacy_t.cfg",
                               timeout=1500))
    refuted = []
    for m in (["no_wrap"] if quick else ["no_wrap", "keep_shorter", "slice_no_account"]):
        vlib.expect_violation("tcp/DataTrackerImpl", "DataTrackerImpl_mut_%s.cfg" % m, timeout=300)
        refuted.append(m)
    if not quick:
        mc.append(vlib.model_check("tcp/DataTrackerImpl", "DataTrackerImpl_equiv_stale_le.cfg", timeout=600))
    # (3) behaviours
    scen, g = vlib.tlc_generate("tcp/ReassemblyGen", "ReassemblyGen_q.cfg" if quick else "ReassemblyGen_t.cfg",
                                timeout=900)
    wl = walks(300 if quick else 6000, 48 if quick else 64, 30 if quick else 40, rng)
    # (4)+(5) replay on the real classes, validate against ReassemblyAbs
    p = vlib.Pipeline(PROP, "tcp_reasm", "tcp/ReassemblyTrace")
    chunk = 30000
    for i in range(0, len(scen), chunk):
        p.push(scen[i:i + chunk], "gen%d" % (i // chunk), ["--isns", "2"])
    p.push(wl, "walk", ["--isns", "3"])
    p.confirm(v, sig)
    # (6) the repository's own tcp_ip tests on the hooked build: every DataTracker call they make, validated by TLC (hook H3)
    h3stats = h3.datatracker_part(PROP, v)
    rc = v.finish()
    allsc = scen + wl
    distinct = {vlib.canon_hash(s) for s in allsc if nontrivial(s)}
    cov = {
        "states": sum(r.distinct for r in mc) + p.stats["tlc_states"],
        "transitions": sum(r.generated for r in mc) + p.stats["tlc_generated"],
        "traces_validated_against_impl": p.stats["executions"] + h3stats["executions"],
        "samples": [{"scenario": allsc[0]}, {"walk": wl[0]}] + p.samples,
        "evaluations": len(allsc),
        "distinct_nontrivial": len(distinct),
        "rule": "scenario = arrival sequence of (offset,len) segments of one stream; exhaustive TLC enumeration "
                "(ReassemblyGen) plus seeded walks; distinct by SHA-1 of the sequence; non-trivial = some segment "
                "does not start where the previous one ended (reordered / overlapping / duplicate / stale); each "
                "scenario is replayed on DataTracker, Flow (v4/v6 packets) and legacy TCPStream at ISNs incl. "
                "2^32-k with the wrap inside the stream",
        "apalache": apa,
        "repo_tests_trace_validation": h3stats,
        "model_checked": {"DataTrackerImpl": {"distinct": mc[1].distinct, "generated": mc[1].generated,
                                              "cfg": ("M=16, all 16 ISNs, L=5" if quick else "M=32, all 32 ISNs, L=7")},
                          "DataTrackerImpl[legacy TCPStream]": {"distinct": mc[2].distinct, "generated": mc[2].generated},
                          "model_mutants_refuted": refuted},
        "replay": p.stats,
        "exhaustive": False,
    }
    vlib.write_evidence(PROP, tier, "model_checking", cov, time.time() - t0, len(v.violations), [
        "TLC bounds: sequence space M=16 (every ISN), stream length <= 7; the step from M=16 to 2^32 rests on "
        "the SeqNum window lemma (TLC for small M, Apalache for 2^32) and on replays at ISNs adjacent to 2^31/2^32",
        "conformance covers the executions replayed, not all executions of the C++ code",
        "segments stay within half the sequence space and carry bytes of one underlying stream (property precondition)",
    ])
    return rc


def replay(path):
    import json
    with open(path) as f:
        if json.load(f)["replay"]["harness"] == "repo_tcp_ip_test":
            return h3.datatracker_replay(PROP)
    p = vlib.Pipeline(PROP, "tcp_reasm", "tcp/ReassemblyTrace")
    return p.replay_file(path)
