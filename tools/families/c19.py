"""C19 - ACK/SACK tracker agrees with a set-of-acknowledged-bytes model (DESIGN.md section 4, C19)."""
import random
import time

import vlib

PROP = "C19"


def receiver_walk(L, rng, max_blocks=4, loss=0.2):
    """Seeded simulation of an RFC 2018 receiver (independent re-statement of AckGen's receiver):
    segments of an L-byte stream arrive in random order with duplicates; every arrival triggers an ACK with
    up to max_blocks SACK blocks, the block containing the newest segment first; ACK packets may be lost."""
    cuts = sorted(set([0, L] + [rng.randrange(1, L) for _ in range(rng.randrange(3, 14))]))
    segs = [(a, b) for a, b in zip(cuts, cuts[1:])]
    order = segs[:]
    rng.shuffle(order)
    for _ in range(rng.randrange(0, 4)):
        order.insert(rng.randrange(len(order) + 1), rng.choice(segs))
    received, recent, hist = set(), [], []
    for (a, b) in order:
        received |= set(range(a, b))
        fm = 0
        while fm in received:
            fm += 1
        runs, p = [], fm
        while p < L:
            if p in received:
                q = p
                while q in received:
                    q += 1
                runs.append((p, q))
                p = q
            else:
                p += 1
        def run_of(x):
            for r in runs:
                if r[0] <= x < r[1]:
                    return r
            return None
        starts = ([a] if run_of(a) else []) + [s for s in recent if run_of(s) and run_of(s) != run_of(a)]
        blocks, seen = [], set()
        for s in starts:
            r = run_of(s)
            if r and r not in seen and len(blocks) < max_blocks:
                seen.add(r)
                blocks.append([r[0], r[1]])
        recent = starts
        if rng.random() >= loss:
            hist.append({"ack": fm, "blocks": blocks})
    return hist


def nontrivial(h):
    return any(p["blocks"] for p in h)


def sig(scen, kind, detail, rec=None):
    return {"family": "tcp-ack", "kind": kind}


def run(tier):
    t0 = time.time()
    quick = tier == "quick"
    rng = random.Random(vlib.seed())
    v = vlib.Verdict(PROP)
    mc = [vlib.model_check("tcp/AckTrackerImpl", "AckTrackerImpl_q.cfg" if quick else "AckTrackerImpl_t.cfg", timeout=2400)]
    refuted = []
    for m in (["no_cleanup", "no_split"] if quick else ["no_split", "no_minus_one", "no_cleanup", "query_gt"]):
        vlib.expect_violation("tcp/AckTrackerImpl", "AckTrackerImpl_mut_%s.cfg" % m, timeout=300)
        refuted.append(m)
    scen, g = vlib.tlc_generate("tcp/AckGen", "AckGen_q.cfg" if quick else "AckGen_t.cfg", timeout=1200)
    u = {}
    for s in scen:
        u[vlib.canon_hash(s)] = s
    scen = list(u.values())
    wl = [h for h in (receiver_walk(rng.choice([24, 40, 64]), rng) for _ in range(400 if quick else 8000)) if len(h) >= 2]
    p = vlib.Pipeline(PROP, "tcp_ack", "tcp/AckTrace")
    chunk = 20000
    for i in range(0, len(scen), chunk):
        p.push(scen[i:i + chunk], "gen%d" % (i // chunk), ["--isns", "2" if quick else "3"])
    p.push(wl, "walk", ["--isns", "3"])
    p.confirm(v, sig)
    rc = v.finish()
    allsc = scen + wl
    distinct = {vlib.canon_hash(s) for s in allsc if nontrivial(s)}
    cov = {
        "states": sum(r.distinct for r in mc) + p.stats["tlc_states"],
        "transitions": sum(r.generated for r in mc) + p.stats["tlc_generated"],
        "traces_validated_against_impl": p.stats["executions"],
        "samples": [{"history": allsc[len(allsc) // 3]}, {"walk": wl[0]}] + p.samples[:2],
        "evaluations": len(allsc),
        "distinct_nontrivial": len(distinct),
        "rule": "scenario = history of (ACK, SACK blocks) packets a conforming receiver emits; TLC enumeration of all "
                "arrival orders/loss patterns (AckGen, de-duplicated by SHA-1) plus seeded receiver simulations on "
                "24..64-byte streams; non-trivial = at least one packet carries a SACK block; each is replayed into the "
                "real AckTracker (directly and via Flow) through serialised TCP SACK options at ISNs with the 2^32 wrap "
                "inside the stream; every interval set and a family of is_segment_acked queries is validated",
        "model_checked": {"AckTrackerImpl": {"distinct": mc[0].distinct, "generated": mc[0].generated,
                                             "cfg": "M=16, all ISNs, L=%d, <=3 blocks, all loss patterns, all queries" % (4 if quick else 6)},
                          "model_mutants_refuted": refuted},
        "replay": p.stats,
        "exhaustive": False,
    }
    vlib.write_evidence(PROP, tier, "model_checking", cov, time.time() - t0, len(v.violations), [
        "only histories of a conforming receiver (ACK monotone, SACK blocks strictly above it) - as the property says",
        "TLC bounds M=16, stream <= 6 bytes; bridge to 2^32 by the SeqNum window lemma and replays at wrap-adjacent ISNs",
        "conformance covers the replayed executions only",
    ])
    return rc


def replay(path):
    return vlib.Pipeline(PROP, "tcp_ack", "tcp/AckTrace").replay_file(path)
