"""C09 - WEP / WPA2 (TKIP, CCMP) decryption recovers exactly the plaintext, safely (DESIGN.md section 4, C09)."""
import glob
import json
import os
import time

import vlib

PROP = "C09"
HARNESS = "wifi_crypt"
TRACE = "wifi/WifiTrace"


def _flags():
    # the driver is split over wifi_*.h headers that vlib's build key does not see: make them part of the key
    hs = sorted(glob.glob(os.path.join(vlib.HARNESS, "wifi_*.h")))
    return ("-DWIFI_HDRS_%s" % vlib.sha(*[vlib._read(h) for h in hs]),)


def nontrivial(s):
    if s.get("kind") == "frame":
        return s["fault"] != "none" or s["a3"] == "peer" or s["ds"] == "wds" or s["len"] in (8, 24) or s["qos"]
    if s.get("kind") == "hs":
        return any(c not in ("in_order", "none") for c in s["cls"].values())
    return False


def sig(scen, kind, detail, rec=None):
    """Scenario signature (never the symptom): for a frame its cipher / fault / packet-number class and whether the third
    address is another station with a known key; for a handshake history the class label of the focus station."""
    if scen.get("kind") == "frame":
        return {"family": "wifi", "cls": "frame", "kind": kind, "cipher": scen["cipher"], "fault": scen["fault"],
                "pn": scen.get("pn", "high"), "a3peer": scen["a3"] == "peer", "hclass": "-"}
    if scen.get("kind") == "hs":
        order = ["none", "in_order", "adjacent_duplicate", "late_retransmission", "restart_by_m1", "snonce_renewed",
                 "crossing_retransmission"]
        hclass = rec.get("hclass") if rec else max(scen["cls"].values(), key=order.index)
        cipher = rec.get("cipher") if rec else "?"
        return {"family": "wifi", "cls": "hs", "kind": kind, "cipher": cipher, "fault": "none", "pn": "low", "a3peer": False,
                "hclass": hclass}
    return {"family": "wifi", "cls": scen.get("kind", "?"), "kind": kind}


def selftest(exe):
    """The independent encryptor must reproduce libtins' own captured test frames and the standard's test vectors before
    anything it produces is trusted; a failure is a tool failure, never a VIOLATION."""
    d = vlib.workdir(PROP)
    sp, tp = os.path.join(d, "selftest.scen.jsonl"), os.path.join(d, "selftest.trace.ndjson")
    vlib.write_lines(sp, [{"kind": "selftest"}])
    res = vlib.run_harness(exe, [], sp, tp)
    with open(tp) as f:
        lines = [json.loads(x) for x in f if x.strip()]
    ev = [x for x in lines if x.get("e") == "selftest"]
    if res["crashes"] or len(ev) != 1:
        raise vlib.ToolFailure("encryptor self-test did not run: %s" % (res["crashes"] or lines))
    bad = [k for k, v in ev[0].items() if k != "e" and v is not True]
    if bad:
        raise vlib.ToolFailure("independent encryptor failed its self-test: " + ", ".join(bad))
    vlib.log("[selftest] independent encryptor validated: " + ", ".join(sorted(k for k in ev[0] if k != "e")))
    return ev[0]


def run(tier):
    t0 = time.time()
    quick = tier == "quick"
    for old in glob.glob(os.path.join(vlib.workdir(PROP), "viol-*.json")):      # replay files of earlier runs would only confuse
        os.unlink(old)
    v = vlib.Verdict(PROP)
    # ---- design level: four-way handshake, capturer, key table
    mc_cfgs = ["FourWay_code_strict_q.cfg", "FourWay_ideal_q.cfg", "FourWay_ideal_1sta.cfg", "FourWay_ideal_1sta_fresh.cfg"]
    if not quick:
        mc_cfgs += ["FourWay_ideal_1sta_strict.cfg", "FourWay_ideal_1sta_strict_fresh.cfg",
                    "FourWay_code_strict_t.cfg", "FourWay_ideal_t.cfg", "FourWay_ideal_fresh_t.cfg"]
    mc = [vlib.model_check("wifi/FourWay", c, timeout=1800) for c in mc_cfgs]
    # the capturer AS WRITTEN against a lenient authenticator: expected to be refuted -- a DESIGN finding (F17), reported
    # below, which does not fail the check (the conformance part decides about the real code)
    r17 = vlib.expect_violation("wifi/FourWay", "FourWay_code_lenient.cfg", timeout=600)
    inv = [x.split("Invariant ")[1].split(" ")[0] for x in r17.out.splitlines() if "Invariant " in x and "violated" in x]
    vlib.log("DESIGN-FINDING: property=%s RSNHandshakeCapturer as written (spec/wifi/HandshakeCapturerImpl.tla, Variant \"code\") "
             "violates %s for conforming peers: sniffer-visible history M1, M2, M1(re-sent), M3, M4 (F17)" % (PROP, "/".join(inv) or "CapturerHasKeys"))
    r17b = vlib.expect_violation("wifi/FourWay", "FourWay_code_strict_fresh.cfg", timeout=600)
    vlib.log("DESIGN-FINDING: property=%s RSNHandshakeCapturer as written keeps the FIRST message 2 (\"skip repeated\"): with a supplicant "
             "that draws a new SNonce for every message 1 (IEEE 802.11-2012 11.6.6.2) the history M1, M1(re-sent), M2(SNonce 1), "
             "M2(SNonce 2), M3, M4 yields a PTK from the stale SNonce, the MIC of message 4 fails and the keys are never learned" % PROP)
    vlib.expect_violation("wifi/FourWay", "FourWay_noskip_strict.cfg", timeout=600)
    refuted = ["code_lenient (F17, design finding)", "code_strict_fresh (stale message 2, design finding)", "no_skip_strict (model mutant)"]
    # ---- generation
    frames, _ = vlib.tlc_generate("wifi/WifiGen", "WifiGen.cfg", timeout=900)
    frames.sort(key=vlib.canon_hash)                       # TLC's output order depends on worker scheduling
    reps = 1 if quick else 4
    fscen = [dict(f, rep=r) for r in range(reps) for f in frames]
    hist = {}
    bfs, _ = vlib.tlc_generate("wifi/FourWayGen", "FourWayGen_bfs.cfg", timeout=900)
    for s in bfs:
        hist[vlib.canon_hash(s)] = s
    for c in ("lenient", "strict", "fresh"):
        sim, _ = vlib.tlc_generate("wifi/FourWayGen", "FourWayGen_sim_%s.cfg" % c, simulate=250 if quick else 6000, depth=70,
                                   workers=4, timeout=1800)
        for s in sim:
            hist[vlib.canon_hash(s)] = s
    hscen = [dict(hist[k], kind="hs") for k in sorted(hist)][: (1800 if quick else 45000)]
    # ---- replay + validation
    p = vlib.Pipeline(PROP, HARNESS, TRACE, extra_flags=_flags())
    st = selftest(p.exe)
    chunk = 20000
    allf = [{"kind": "selftest"}] + fscen
    for i in range(0, len(allf), chunk):
        p.push(allf[i:i + chunk], "f%d" % (i // chunk))
    for i in range(0, len(hscen), chunk):
        p.push(hscen[i:i + chunk], "h%d" % (i // chunk))
    p.confirm(v, sig, limit=90)
    rc = v.finish()
    sigs = {}
    for path, _ in v.violations:
        with open(path) as f:
            k = json.dumps({a: b for a, b in json.load(f)["sig"].items() if a != "family"}, sort_keys=True)
        sigs[k] = sigs.get(k, 0) + 1
    for k in sorted(sigs):
        vlib.log("[signature] %d confirmed: %s" % (sigs[k], k))
    scen = fscen + hscen
    distinct = {vlib.canon_hash({k: x for k, x in s.items() if k != "rep"}) for s in scen if nontrivial(s)}
    classes = {}
    for s in hscen:
        for c in s["cls"].values():
            classes[c] = classes.get(c, 0) + 1
    cov = {
        "states": sum(r.distinct for r in mc) + p.stats["tlc_states"],
        "transitions": sum(r.generated for r in mc) + p.stats["tlc_generated"],
        "traces_validated_against_impl": p.stats["executions"],
        "samples": [frames[len(frames) // 2], hscen[len(hscen) // 2] if hscen else None] + p.samples[:2],
        "evaluations": len(scen), "distinct_nontrivial": len(distinct),
        "rule": "frame scenario = one protected data frame from the independent encryptor (cipher WEP40/WEP104/TKIP/CCMP x ToDS/FromDS/"
                "4-address x third address {AP, host behind the AP, another station with a known key} x QoS x payload length "
                "{1,8,15,16,17,24,32,1500} x key source {direct, passphrase+name+handshake} x access path {wire re-parse, API object, "
                "DecrypterProxy} x fault {none, flipped ciphertext / ICV / MIC / AAD field, truncation to every length 0..IV+MIC+1, "
                "arbitrary bodies, wrong key, no key}); handshake scenario = sniffer-visible history of the FourWay model (two stations, "
                "re-sends, re-association, lossy medium, beacons and data frames interleaved), replayed once per station; non-trivial = "
                "any fault, QoS, 4-address, peer-station third address, block-multiple length, or a history class other than in_order",
        "model_checked": {"FourWay": [{"cfg": c, "distinct": r.distinct, "generated": r.generated, "wall_s": round(r.wall, 1)}
                                      for c, r in zip(mc_cfgs, mc)],
                          "model_mutants_refuted": refuted,
                          "design_findings": ["Variant code + lenient authenticator refuted (%d states): M1,M2,M1',M3,M4" % r17.distinct,
                                              "Variant code + strict authenticator + fresh SNonce per message 1 refuted (%d states): "
                                              "M1,M1',M2(sn1),M2(sn2),M3,M4" % r17b.distinct]},
        "history_classes": classes, "encryptor_selftest": st,
        "levels": {"handshake_and_key_table": "model_checking", "ciphers": "exploration (seeded keys, IVs, addresses, payloads)"},
        "replay": p.stats, "exhaustive": False,
    }
    vlib.write_evidence(PROP, tier, "model_checking", cov, time.time() - t0, len(v.violations), [
        "the independent encryptor (RC4, CRC-32, TKIP mixing, Michael from their public descriptions; AES-CCM, PBKDF2, HMAC via OpenSSL) "
        "is validated at start-up against libtins' own captured test frames and the IEEE 802.11 / RFC 6229 test vectors",
        "cipher correctness is sampled (seeded keys / packet numbers / addresses / payloads), not proved; Michael MICs are produced "
        "correctly by the encryptor but libtins does not verify them and the property does not demand it",
        "handshake histories are those of the FourWay model (conforming peers); the bssid is associated with the network name (beacon "
        "or explicit) before the handshake completes, otherwise the oracle is silent (counted as oracle_silent)",
        "key selection for 4-address frames whose DA/SA are not the link ends, and for WEP 4-address frames, is unspecified: the "
        "oracle only demands that whatever is reported as decrypted is right; group-addressed frames are outside the property",
        "conformance covers the replayed executions only",
    ])
    return rc


def replay(path):
    return vlib.Pipeline(PROP, HARNESS, TRACE, extra_flags=_flags()).replay_file(path)
