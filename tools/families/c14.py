"""C14 - Response matching accepts mirrored replies, rejects strangers, is memory-safe (DESIGN.md section 4, C14)."""
import glob
import os
import re
import time

import vlib

PROP = "C14"
MUTANTS = ["eth_src_unchecked", "unreach_any", "wrong_port", "one_port", "no_dns_id", "swapped_id_seq", "no_seq",
           "ip_src_unchecked", "no_vlan_id"]
# the class that owns a matched field (scenario signatures name the matcher a case is aimed at)
OWNER = {"eth_src": "EthernetII", "eth_dst": "EthernetII", "vid": "Dot1Q"}


def header_classes():
    """every class that defines a pdu_flag in libtins' headers: "for every layer class" must not silently lose one"""
    names = set()
    for h in glob.glob(os.path.join(vlib.REPO, "include/tins/**/*.h"), recursive=True):
        cls = None
        for line in open(h, errors="replace").read().splitlines():
            m = re.match(r"\s*class\s+(?:TINS_API\s+)?(\w+)\s*(?::|\{)", line)
            if m:
                cls = m.group(1)
            if "static const PDU::PDUType pdu_flag" in line and cls:
                names.add(cls)
    return names


def driver_objects():
    """labels of the layer objects harness/match_resp.cpp builds for the memory-safety clause"""
    src = open(os.path.join(vlib.HARNESS, "match_resp.cpp")).read()
    classes = re.findall(r"X\(([\w<>]+)\)", re.search(r"#define CONCRETE\(X\) (.*)", src).group(1))
    labels = [c + v for c in classes for v in ("#alone", "#chain")]
    labels += re.findall(r'OBJS\["([^"]+)"\]\s*=', src)
    return classes, labels


def owner(scen):
    f, r = scen.get("field"), scen.get("r", {})
    if f in OWNER:
        return OWNER[f]
    if f in ("ip_src", "ip_dst"):
        return "IP" if r.get("net") == "ip4" else "IPv6"
    if f == "dnsid":
        return "DNS"
    if f in ("sport", "dport"):
        return "TCP" if r.get("upper") == "tcp" else "UDP"
    if f in ("id", "seq"):
        return "ICMP" if r.get("net") == "ip4" else "ICMPv6"
    return "%s/%s/%s" % (r.get("link"), r.get("net"), r.get("upper"))      # a mirror that was not recognised: the whole stack


def sig(scen, kind, detail, rec=None):
    """A predicate over the SCENARIO (never the symptom).  part "match": which case (mirror / perturbed field /
    unreachable stranger) aimed at which layer's matcher; part "safe": the class of the object that was called."""
    if scen.get("part") == "safe":
        return {"family": "match", "part": "safe", "kind": kind, "cls": re.split("[#:]", scen["obj"])[0],
                "short": scen["n"] < 8}
    return {"family": "match", "part": "match", "kind": kind, "case": scen.get("kind"), "field": scen.get("field"),
            "layer": owner(scen)}


def stack_label(r, netvar):
    return "stack:%s/%s/%s/%s" % (r["link"], r["net"], r["upper"], netvar)


def run(tier):
    t0 = time.time()
    quick = tier == "quick"
    v = vlib.Verdict(PROP)

    # ---- the relation and the case space (TLC)
    mc = vlib.model_check("match/MirrorImpl", "MirrorImpl_intended.cfg", timeout=600)
    refuted = []
    for m in MUTANTS:
        vlib.expect_violation("match/MirrorImpl", "MirrorImpl_mut_%s.cfg" % m, timeout=300)
        refuted.append(m)
    cases, g1 = vlib.tlc_generate("match/MirrorGen", "MirrorGen_match.cfg", timeout=600)
    cases = sorted({vlib.canon_hash(c): c for c in cases}.values(), key=vlib.canon_hash)
    bufs, g2 = vlib.tlc_generate("match/MirrorGen", "MirrorGen_safe.cfg", timeout=600)
    bufs = sorted({vlib.canon_hash(c): c for c in bufs}.values(), key=lambda b: (b["src"], b["n"]))

    # ---- "for every layer class": the driver's object list must cover every class the headers define
    classes, labels = driver_objects()
    missing = {c for c in header_classes() if c not in classes and c != "PDUCacher"
               and c not in ("EAPOL", "Dot11ManagementFrame", "Dot11Control", "Dot11ControlTA")}     # abstract bases
    if missing:
        raise vlib.ToolFailure("layer classes that harness/match_resp.cpp does not instantiate: %s" % sorted(missing))

    p = vlib.Pipeline(PROP, "match_resp", "match/MirrorTrace")

    # ---- part "match": every case, several concretisations
    reps = 4 if quick else 150
    scen = [dict(c, part="match", rep=k) for k in range(reps) for c in cases]
    expected_silent = sum(1 for s in scen if s["kind"] == "unreach" and s["m"]["quote"] == "own")
    chunk = 12000
    for i in range(0, len(scen), chunk):
        p.push(scen[i:i + chunk], "m%d" % (i // chunk), ["--batch", "400"])

    # ---- part "safe": every layer object x every buffer source x every length 0..128
    mirrors = [c for c in cases if c["kind"] == "mirror" and (c["r"]["sport"], c["r"]["dport"], c["r"]["id"], c["r"]["seq"]) in ((1, 2, 0, 0), (0, 0, 1, 2))]
    stacks = [dict(obj=stack_label(c["r"], nv), r=c["r"], m=c["m"], netvar=nv) for c in mirrors for nv in ("plain", "opts")]
    objs = [dict(obj=l) for l in labels] + stacks
    sreps = 1 if quick else 6
    safe = []
    for k in range(sreps):
        for o in objs:
            for b in bufs:
                if k and b["src"] in ("ones", "zeros") and not o["obj"].startswith("stack:"):
                    continue            # constant buffers do not depend on the repetition (stack packets do)
                safe.append(dict(o, part="safe", src=b["src"], n=b["n"], rep=k))
    chunk = 60000
    for i in range(0, len(safe), chunk):
        p.push(safe[i:i + chunk], "s%d" % (i // chunk), ["--batch", "3000"])

    is_silent = lambda s: s.get("kind") == "unreach" and s["m"]["quote"] == "own"
    expected_silent -= sum(1 for c in p.candidates if c[2] == "crash" and is_silent(c[0]))     # a dead scenario leaves no execution
    if p.stats["oracle_silent"] != expected_silent:
        raise vlib.ToolFailure("the driver did not build what the generator asked for: %d executions skipped by MirrorTrace, "
                               "%d expected (ICMP errors quoting the request itself)" % (p.stats["oracle_silent"], expected_silent))
    p.confirm(v, sig, limit=60)
    rc = v.finish()
    cov = {
        "states": mc.distinct + g1.distinct + g2.distinct + p.stats["tlc_states"],
        "transitions": mc.generated + g1.generated + g2.generated + p.stats["tlc_generated"],
        "traces_validated_against_impl": p.stats["executions"],
        "samples": [cases[0], cases[len(cases) // 2], safe[len(safe) // 3]] + [
            {k: (x[k] if k not in ("req", "rep") else x[k][:48]) for k in x} for x in p.samples[1:2]],
        "evaluations": len(scen) + len(safe),
        "distinct_nontrivial": len(cases) + len(objs) * len(bufs),
        "rule": "part match: one evaluation per (case of Mirror!Cases, concretisation): %d cases = 40 requests (2 link x 10 "
                "network/upper stacks x distinct|equal port or id/seq pair) x {mirror, every matched field perturbed to each "
                "other abstract value, 4 destination-unreachable strangers}, %d seeded concretisations each (values one bit / "
                "one byte / +-1 apart); all cases distinct and non-trivial.  part safe: one evaluation per (layer object, "
                "buffer source, length): %d objects (%d classes alone and over an inner chain, %d field states opening the "
                "gates for constant buffers, %d request stacks with their mirrored replies) x %d (source, length 0..128) "
                "pairs, each placed in an exact-size heap block and in front of guard pages"
                % (len(cases), reps, len(objs), len(classes), len(labels) - 2 * len(classes), len(stacks), len(bufs)),
        "cases": len(cases), "concretisations_per_case": reps, "objects": len(objs), "classes": len(classes),
        "buffers_per_object": len(bufs), "oracle_silent_expected": expected_silent,
        "model_checked": {"MirrorImpl_intended": {"distinct": mc.distinct, "generated": mc.generated},
                          "model_mutants_refuted": refuted},
        "known_finding_scenarios": dict(v.known),
        "replay": p.stats, "exhaustive": False,
    }
    vlib.write_evidence(PROP, tier, "model_checking", cov, time.time() - t0, len(v.violations), [
        "the case STRUCTURE (stack x matched field x perturbation value) is enumerated completely by TLC; field VALUES are sampled",
        "replies have the header structure of the request (one concretisation in four with an IPv4 record-route option / IPv6 hop-by-hop + destination-options headers on both sides)",
        "documented wildcards excluded from generation: broadcast / multicast Ethernet destination, IPv4 255.255.255.255 "
        "(and any IPv4 multicast / .0 / .255 address), IPv6 multicast",
        "ICMP errors that quote the request itself, and packets of another shape whose outer addresses agree with the mirror, "
        "are outside the property (oracle silent)",
        "memory safety is observed by ASan/UBSan red zones and guard pages on the replayed (object, buffer) pairs; buffers are "
        "prefixes of 5 sources per object, lengths 0..128",
        "Loopback objects are not called on the guard-page placement (its uint32_t load needs an aligned start)",
    ])
    return rc


def replay(path):
    return vlib.Pipeline(PROP, "match_resp", "match/MirrorTrace").replay_file(path)
