"""C12 - Packet object trees keep sound ownership under copy, move, clone and re-linking (DESIGN.md section 4, C12)."""
import time

import vlib

PROP = "C12"
COPYISH = {"clone", "copyctor", "copyassign", "movector", "moveassign", "stackassign", "stack", "setinnerptr",
           "setinnerref", "release", "pwrap", "pown", "pcopy", "pmove", "prelease"}


def nontrivial(s):
    """a copy/move/assign/release/re-link after something has been stacked"""
    stacked = False
    for o in s:
        if o["op"] in ("stack", "stackassign", "setinnerptr", "setinnerref"):
            stacked = True
        elif stacked and o["op"] in COPYISH:
            return True
    return False


def sig(scen, kind, detail, rec=None):
    return {"family": "forest", "kind": kind}


def run(tier):
    t0 = time.time()
    quick = tier == "quick"
    v = vlib.Verdict(PROP)
    mc = [vlib.model_check("pdu/PDUForestMC", "PDUForestMC_q.cfg" if quick else "PDUForestMC_t.cfg", timeout=2400)]
    bfs, _ = vlib.tlc_generate("pdu/PDUForestMC", "PDUForestGen_bfs.cfg", timeout=900)
    sim, _ = vlib.tlc_generate("pdu/PDUForestMC", "PDUForestGen_sim.cfg", simulate=400 if quick else 8000, depth=10,
                               workers=4, timeout=1800)
    u = {}
    for s in sim:
        u[vlib.canon_hash(s)] = s
    sim = list(u.values())[: (2500 if quick else 40000)]
    scen = bfs + sim
    p = vlib.Pipeline(PROP, "pdu_forest", "pdu/PDUForestTrace")
    chunk = 15000
    for i in range(0, len(scen), chunk):
        p.push(scen[i:i + chunk], "s%d" % (i // chunk), ["--batch", "25"], timeout=3000)
    p.confirm(v, sig)
    # every layer class once more: the 87 catalogue compositions, cloned between stack-dirtying calls - the clone must serialise
    # like its source (a member the implicit copy constructor does not carry, e.g. padding of a header struct, shows here: F36)
    cat, _ = vlib.tlc_generate("wire/CatGen", "CatGen.cfg" if quick else "CatGen_t.cfg", timeout=900)
    cat = sorted({vlib.canon_hash(s): s for s in cat}.values(), key=lambda s: (s["id"], s["rep"]))
    p3 = vlib.Pipeline(PROP, "wire_cat", "wire/CatTrace", "CatTrace_C12.cfg")
    p3.push(cat, "cat", timeout=3000)
    p3.confirm(v, lambda scen, kind, detail, rec=None: {"family": "wire_cat", "kind": kind, "id": scen.get("id")})
    # the two library classes that keep layers of the user's packets across calls (anchors src/ip_reassembler.cpp,
    # src/tcp_stream.cpp): the ownership contract of spec/pdu/Holders, validated on the fragment schedules of C08 and on the
    # segment schedules of C06 (the legacy follower), with every way a connection can end while segments are still buffered
    hm = [vlib.model_check("pdu/Holders", "Holders.cfg" if quick else "Holders_t.cfg", timeout=1800)]
    for m in ["free_keeps_map", "dup_drops_payload", "steal_without_take"]:
        vlib.expect_violation("pdu/Holders", "Holders_%s.cfg" % m, timeout=300)
    import random
    from families import c08
    rng = random.Random(vlib.seed())
    fr, _ = vlib.tlc_generate("ip/FragGen", "FragGen_bfs.cfg", timeout=600)
    fr = fr[:: (4 if quick else 1)] + c08.shuffles(600 if quick else 20000, rng)
    for i, s in enumerate(fr):
        s["mode"] = c08.MODES[i % 3]
        s["scale"] = [1, 2, 5][(i // 3) % 3]
    ph = vlib.Pipeline(PROP, "ip_frag", "pdu/HolderTrace", "HolderTrace.cfg", harness_args=["--own", "1", "--batch", "50"])
    ph.push(fr, "own", timeout=3000)
    ph.confirm(v, lambda scen, kind, detail, rec=None: {"family": "holder-reasm", "kind": kind})
    segs, _ = vlib.tlc_generate("tcp/ReassemblyGen", "ReassemblyGen_q.cfg", timeout=900)
    segs = sorted({vlib.canon_hash(s): s for s in segs}.values(), key=vlib.canon_hash)[: (1500 if quick else 30000)]
    pl = vlib.Pipeline(PROP, "tcp_reasm", "pdu/HolderTrace", "HolderTrace.cfg", harness_args=["--own", "1", "--objects", "legacy", "--isns", "2", "--batch", "50"])
    pl.push(segs, "own", timeout=3000)
    pl.confirm(v, lambda scen, kind, detail, rec=None: {"family": "holder-follower", "kind": kind})
    # the option value type (anchor include/tins/pdu_option.h): copy / move construction and assignment between values in the
    # inline buffer and on the heap (spec/pdu/OptionPool)
    om = vlib.model_check("pdu/OptionPool", "OptionPool_bfs.cfg", timeout=900)
    ob, _ = vlib.tlc_generate("pdu/OptionPool", "OptionPool_bfs.cfg", timeout=900)
    osim, _ = vlib.tlc_generate("pdu/OptionPool", "OptionPool_sim.cfg", simulate=300 if quick else 5000, depth=11, workers=4, timeout=900)
    osim = sorted({vlib.canon_hash(s): s for s in osim}.values(), key=vlib.canon_hash)[: (3000 if quick else 20000)]
    if quick:
        ob = ob[vlib.seed() % 4::4]
    po = vlib.Pipeline(PROP, "option_pool", "pdu/OptionPoolTrace", "OptionPoolTrace.cfg", harness_args=["--batch", "100"])
    po.push(ob + osim, "opt", timeout=3000)
    po.confirm(v, lambda scen, kind, detail, rec=None: {"family": "option-pool", "kind": kind})
    rc = v.finish()
    classes = set()
    for rec in vlib.read_trace_index(p.dir + "/pdu_forest-s0.trace.ndjson").values():
        classes |= set(rec.get("cnames", "").split(","))
    distinct = {vlib.canon_hash(s) for s in scen if nontrivial(s)}
    cov = {
        "states": sum(r.distinct for r in mc) + p.stats["tlc_states"],
        "transitions": sum(r.generated for r in mc) + p.stats["tlc_generated"],
        "traces_validated_against_impl": p.stats["executions"] + p3.stats["executions"] + ph.stats["executions"] + pl.stats["executions"],
        "option_pool": {"model_states": om.distinct, "programs": po.stats["executions"],
                        "rule": "programs of new / copy-construct / copy-assign (incl. self) / move-construct / move-assign / delete over 3 slots of real "
                                "PDUOption objects with payloads of 0, 3, 8, 9, 20, 64 octets (inline capacity 8): all programs of length 4 (a quarter per seed in "
                                "quick) + TLC-simulated programs of length 10; every slot holds the model's value after every step; LSan at the end"},
        "holders": {"model": {"distinct": hm[0].distinct, "generated": hm[0].generated, "mutants_refuted": ["free_keeps_map", "dup_drops_payload", "steal_without_take"]},
                    "reassembler_executions": ph.stats["executions"], "legacy_follower_executions": pl.stats["executions"],
                    "rule": "IPv4Reassembler on fragment schedules (duplicates before and after completion, two datagrams) and the legacy "
                            "TCPStreamFollower on segment schedules ending in nothing / FIN / RST / both FINs with segments still buffered: "
                            "the user's packet keeps every layer the contract does not take, parent links sound, no leak once the holder is gone"},
        "catalogue_clone_checks": p3.stats["executions"],
        "samples": [bfs[len(bfs) // 2], sim[0]] + p.samples[:2],
        "evaluations": len(scen), "distinct_nontrivial": len(distinct),
        "rule": "scenario = program over 19 operations (new, clone, copy/move construction and assignment, / and /=, "
                "inner_pdu(ptr/ref), release, delete, mutate, Packet wrap/own/copy/move/release/drop) on 3 user slots and "
                "1 packet slot; all programs of length 3 (TLC BFS) plus TLC -simulate programs of length 9; abstract "
                "classes are concretised over %d libtins classes rotating with the scenario id; non-trivial = a "
                "copy/move/assign/release/re-link after stacking; LSan leak check per scenario" % len(classes),
        "concrete_classes_used": sorted(classes),
        "model_checked": {"PDUForestMC": {"distinct": mc[0].distinct, "generated": mc[0].generated,
                                          "cfg": "all programs of length %d, invariants Forest + freed-once" % (4 if quick else 5)}},
        "replay": p.stats, "exhaustive": False,
    }
    vlib.write_evidence(PROP, tier, "model_checking", cov, time.time() - t0, len(v.violations), [
        "API contract in the guards: inner_pdu(ptr) takes a user-owned root that is not part of the target's chain; "
        "assignments are between objects of the same class",
        "tags (identity tokens) are stored in a scalar field where the class has one that serialisation does not "
        "rewrite; fields of moved-from objects are unspecified and not compared",
        "PPI and PKTAP (not default-constructible / not serialisable) are not part of the class rotation",
        "double free / use after free are observed by ASan, leaks by LSan at the end of every scenario",
    ])
    return rc


def replay(path):
    import json
    with open(path) as f:
        if json.load(f)["replay"]["harness"] == "wire_cat":
            return vlib.Pipeline(PROP, "wire_cat", "wire/CatTrace", "CatTrace_C12.cfg").replay_file(path)
        f.seek(0)
        h = json.load(f)["replay"]
        if h["harness"] == "option_pool":
            return vlib.Pipeline(PROP, "option_pool", "pdu/OptionPoolTrace", "OptionPoolTrace.cfg").replay_file(path)
        if h["harness"] in ("ip_frag", "tcp_reasm"):
            return vlib.Pipeline(PROP, h["harness"], "pdu/HolderTrace", "HolderTrace.cfg").replay_file(path)
    return vlib.Pipeline(PROP, "pdu_forest", "pdu/PDUForestTrace").replay_file(path)
