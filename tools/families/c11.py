"""C11 - RadioTap fields can be set in any order and read back (DESIGN.md section 4, C11)."""
import random
import time

import vlib

PROP = "C11"
SETTABLE = [0, 1, 2, 3, 5, 6, 7, 11, 12, 14, 15, 17, 18, 19]


def nontrivial(s):
    """a setter for a field lower than an already present one (forces re-padding of later fields)"""
    pres = set(s.get("bits", [0, 1, 3, 5, 11, 14]))
    for f in s["ops"]:
        if f not in pres and any(b > f for b in pres):
            return True
        pres.add(f)
    return False


def walks(n, rng, depth):
    out = []
    for _ in range(n):
        out.append({"start": "default", "ops": [rng.choice(SETTABLE) for _ in range(rng.randrange(depth // 2, depth + 1))]})
    return out


def sig(scen, kind, detail, rec=None):
    return {"family": "radiotap", "kind": kind}


def run(tier):
    t0 = time.time()
    quick = tier == "quick"
    rng = random.Random(vlib.seed())
    v = vlib.Verdict(PROP)
    mc = [vlib.model_check("radiotap/RadioTapWriterImpl", "RadioTapWriterImpl_q.cfg" if quick else "RadioTapWriterImpl_t.cfg", timeout=2400),
          vlib.model_check("radiotap/RadioTapParserSpec", "RadioTapParserSpec_q.cfg" if quick else "RadioTapParserSpec_t.cfg", timeout=2400)]
    refuted = []
    for m in ["abs_offset", "no_pad_term"]:
        vlib.expect_violation("radiotap/RadioTapWriterImpl", "RadioTapWriterImpl_mut_%s.cfg" % m, timeout=300)
        refuted.append(m)
    d, _ = vlib.tlc_generate("radiotap/RadioTapGen", "RadioTapGen_%s_default.cfg" % ("q" if quick else "t"), timeout=900)
    ps, _ = vlib.tlc_generate("radiotap/RadioTapGen", "RadioTapGen_%s_parsed.cfg" % ("q" if quick else "t"), timeout=900)
    wl = walks(300 if quick else 5000, rng, 12)
    p = vlib.Pipeline(PROP, "radiotap_set", "radiotap/RadioTapTrace")
    scen = d + ps + wl
    chunk = 30000
    for i in range(0, len(scen), chunk):
        p.push(scen[i:i + chunk], "s%d" % (i // chunk))
    p.confirm(v, sig)
    rc = v.finish()
    distinct = {vlib.canon_hash(s) for s in scen if nontrivial(s)}
    cov = {
        "states": sum(r.distinct for r in mc) + p.stats["tlc_states"],
        "transitions": sum(r.generated for r in mc) + p.stats["tlc_generated"],
        "traces_validated_against_impl": p.stats["executions"],
        "samples": [d[len(d) // 2], ps[len(ps) // 2], wl[0]] + p.samples[:2],
        "evaluations": len(scen),
        "distinct_nontrivial": len(distinct),
        "rule": "scenario = starting header (default-constructed, or parsed from canonical bytes produced by the TLA+ "
                "encoder for every set of <=2 of the 22 defined fields and 5 dense sets) + every sequence of setters over "
                "the 14 settable fields up to depth %d (default) / %d (parsed), plus seeded walks to depth 12; values are "
                "boundary/seeded and logged; non-trivial = some setter inserts a field below an already present one" % (
                    (3, 1) if quick else (4, 2)),
        "model_checked": {"RadioTapWriterImpl": {"distinct": mc[0].distinct, "generated": mc[0].generated},
                          "RadioTapParserSpec(all subsets)": {"distinct": mc[1].distinct},
                          "model_mutants_refuted": refuted},
        "replay": p.stats, "exhaustive": False,
    }
    vlib.write_evidence(PROP, tier, "model_checking", cov, time.time() - t0, len(v.violations), [
        "field table (size, alignment) transcribed from the radiotap standard; extended present words and vendor namespaces are not generated",
        "FLAGS values with FAILED_FCS are excluded (the parser rejects such frames on purpose)",
        "conformance covers the replayed executions only",
    ])
    return rc


def replay(path):
    return vlib.Pipeline(PROP, "radiotap_set", "radiotap/RadioTapTrace").replay_file(path)
