"""C16 - Address types: text round-trip, ordering and range arithmetic are exact (DESIGN.md section 4, C16).

spec/addr:  AddrRange (property level, W-bit space)   AddrRangeImpl (+cfgs: code-shaped iterator, Style v4|buf, Variant mutants)
            AddrBytes + MCAddrBytes (real-width digit-wise operators and the bridge lemma)   AddrText (recognisers, accept/reject/unspec)
            AddrRangeGen, AddrTextGen (scenario generators)   AddrTrace (the oracle for harness/addr_replay.cpp)
Known-finding signatures can use the fields of sig(): family, kind, what (range|postinc|cmp|rt|wide|parse), t, win, k,
spec_iterable, cls, colons_ge6.
"""
import collections
import json
import random
import time

import vlib

PROP = "C16"
TYPES = {"v4": 4, "v6": 16, "hw": 6}
MUTANTS_Q = ["contains_strict", "stop_on_flag", "iterable_wrap"]
MUTANTS_T = ["contains_strict", "end_is_last", "stop_on_flag", "prefix0_shift", "hosts_keep_broadcast", "iterable_wrap"]


# ----------------------------------------------------------------------------- scenario tables (seeded; the oracle is AddrTrace)
def tobytes(x, n):
    return list((x % (1 << (8 * n))).to_bytes(n, "big"))


def boundary_set(n, rng, count=64):
    """adversarial table (DESIGN 2.5): sign bit, byte order, single differing byte, carries"""
    top = (1 << (8 * n)) - 1
    vals = [0, 1, 2, top, top - 1, 1 << (8 * n - 1), (1 << (8 * n - 1)) - 1, (1 << (8 * n - 1)) + 1, 255, 256, 257,
            0x7f, 0x80, 0xff << (8 * (n - 1)), 1 << (8 * (n - 1)), 0x0100, 0x0001 << 16 if n > 2 else 3]
    for i in sorted({0, 1, n // 2 - 1, n // 2, n - 2, n - 1}):
        for b in (1, 0x7f, 0x80, 0xff):
            vals.append(b << (8 * (n - 1 - i)))
    # byte-swapped pairs: numerically far apart, equal as multisets of bytes
    vals += [int.from_bytes(bytes([1] + [0] * (n - 2) + [2]), "big"), int.from_bytes(bytes([2] + [0] * (n - 2) + [1]), "big")]
    vals += [int.from_bytes(bytes([0x7f] + [0xff] * (n - 1)), "big"), int.from_bytes(bytes([0x80] + [0] * (n - 1)), "big")]
    out, seen = [], set()
    for v in vals:
        v %= top + 1
        if v not in seen:
            seen.add(v)
            out.append(v)
    while len(out) < count:
        v = rng.getrandbits(8 * n)
        if rng.random() < 0.5 and out:       # a neighbour of an existing one: differs in one byte
            v = out[rng.randrange(len(out))] ^ (rng.randrange(1, 256) << (8 * rng.randrange(n)))
        if v not in seen:
            seen.add(v)
            out.append(v)
    return out[:count]


def cmp_scenarios(rng, count):
    sc = []
    for t, n in TYPES.items():
        addrs = [tobytes(v, n) for v in boundary_set(n, rng, count)]
        for i in range(len(addrs)):
            sc.append({"kind": "cmp", "t": t, "i": i, "addrs": addrs})
    return sc


def rt_scenarios(rng, nrandom):
    sc = []
    for t, n in TYPES.items():
        vals = boundary_set(n, rng, 64) + [rng.getrandbits(8 * n) for _ in range(nrandom)]
        if t == "v6":
            # every pattern of zero / non-zero 16-bit groups ("::" placement), with small and large group values
            for pat in range(256):
                g = [(0 if (pat >> (7 - k)) & 1 == 0 else rng.choice([1, 0xa, 0xff, 0x100, 0xabcd, 0xffff])) for k in range(8)]
                vals.append(int.from_bytes(b"".join(x.to_bytes(2, "big") for x in g), "big"))
            for _ in range(40):     # IPv4-mapped / IPv4-compatible / well-known prefixes
                v4 = rng.getrandbits(32)
                vals += [(0xffff << 32) | v4, v4, (0x64ff9b << 96) | v4, (0xfe80 << 112) | rng.getrandbits(64)]
        if t == "v4":
            vals += [int.from_bytes(bytes(q), "big") for q in ([10, 0, 0, 1], [100, 200, 9, 99], [1, 10, 100, 255], [9, 99, 199, 249])]
        addrs = [tobytes(v, n) for v in vals]
        for i in range(0, len(addrs), 64):
            sc.append({"kind": "rt", "t": t, "addrs": addrs[i:i + 64]})
    return sc


def wide_scenarios(rng, quick):
    """real-width prefix ranges: every prefix length 0..8n for a few addresses; the probes are placed at and around
    the ends here (generator side), their membership is decided by AddrBytes in TLC"""
    sc = []
    for t, n in TYPES.items():
        bits = 8 * n
        top = (1 << bits) - 1
        bases = [0, top, (1 << (bits - 1)) - 1, rng.getrandbits(bits)] + ([] if quick else [rng.getrandbits(bits) for _ in range(4)] + [1 << (bits - 1)])
        for ai, a in enumerate(bases):
            for p in range(bits + 1):
                mask = top ^ ((1 << (bits - p)) - 1)
                first, last = a & mask, a | (top ^ mask)
                pr = {first, last, a, (first + last) // 2, 0, top, a ^ 1, a ^ (1 << (bits - 1))}
                for d in (1, 2, 255, 256):
                    pr |= {first - d, last + d, first + d, last - d}
                pr |= {rng.getrandbits(bits) for _ in range(3)}
                if p > 0:
                    pr |= {first ^ (1 << (bits - p)), last ^ (1 << (bits - p))}       # the sibling block
                pr = sorted(x for x in pr if 0 <= x <= top)
                size = 1 << (bits - p)
                lim = (1 << 16) if (not quick and ai == 1) else (1 << 10 if quick else 1 << 12)
                sc.append({"kind": "wide", "t": t, "a": tobytes(a, n), "p": p, "base": tobytes(first, n),
                           "probes": [tobytes(x, n) for x in pr], "size": min(size, 1 << 20),
                           "iterate": 4 <= size <= lim})
    return sc


def widepair_scenarios(rng, quick):
    """real-width explicit ranges (two-address constructor) of at most 2^16 elements: at the bottom, at the top (ending at all-ones),
    across octet carries, single addresses - and the WHOLE address space of HWAddress<1> / HWAddress<2>"""
    sc = []
    types = dict(TYPES, hw1=1, hw2=2)
    big = 1 << (10 if quick else 16)
    for t, n in sorted(types.items()):
        bits = 8 * n
        top = (1 << bits) - 1
        pairs = [(0, min(top, big - 1)), (max(0, top - big + 1), top), (top, top), (0, 0), (max(0, top - 1), top)]
        if bits <= 16:
            pairs += [(0, top), (1, top), (0, top - 1)]             # all of it, and all but one end
        for _ in range(3 if quick else 12):
            c = rng.randrange(1, min(big, top) + 1)
            f = rng.randrange(0, top - c + 2)
            pairs.append((f, f + c - 1))
        if bits > 16:
            for k in (1, 2, n - 1):                                  # ranges that run across a carry into a higher octet
                edge = (rng.getrandbits(bits) | ((1 << (8 * k)) - 1)) & top
                f = max(0, edge - rng.randrange(1, 200)); pairs.append((f, min(top, f + rng.randrange(200, 600))))
        for i, (f, l) in enumerate(sorted(set(pairs))):
            pr = {f, l, 0, top, (f + l) // 2}
            for d in (1, 2, 255, 256):
                pr |= {f - d, l + d, f + d, l - d}
            pr |= {rng.getrandbits(bits) for _ in range(3)}
            sc.append({"kind": "widepair", "t": t, "first": tobytes(f, n), "last": tobytes(l, n), "count": l - f + 1, "post": i % 2 == 1,
                       "probes": [tobytes(x, n) for x in sorted(pr) if 0 <= x <= top]})
    return sc


def widemask_scenarios(rng, quick):
    """real-width ranges from arbitrary masks: every octet of the mask drawn from {00, ff, f0, 0f, seeded}, so that zero octets
    are followed by non-zero ones, plus the all-ones and all-zero masks; probes at and around the two ends"""
    sc = []
    for t, n in TYPES.items():
        bits = 8 * n
        top = (1 << bits) - 1
        for _ in range(12 if quick else 200):
            mb = [rng.choice([0x00, 0xff, 0xf0, 0x0f, 0x00, 0xff, rng.randrange(256)]) for _ in range(n)]
            if rng.randrange(6) == 0:
                mb = [0xff] * n
            m = int.from_bytes(bytes(mb), "big")
            a = rng.getrandbits(bits)
            first, last = a & m, a | (top ^ m)
            if first > last:
                continue
            pr = {first, last, a, (first + last) // 2, 0, top}
            for d in (1, 2, 255, 256, 65536):
                pr |= {first - d, last + d, first + d, last - d}
            pr |= {rng.getrandbits(bits) for _ in range(3)}
            sc.append({"kind": "widemask", "t": t, "a": tobytes(a, n), "m": tobytes(m, n), "probes": [tobytes(x, n) for x in sorted(pr) if 0 <= x <= top]})
    return sc


def text_types(s, i, quick):
    """each string goes to the parser of its own family; to the two others for every string in thorough, every 4th in quick"""
    own = s["mode"]
    if not quick or i % 4 == 0:
        return [own] + [t for t in TYPES if t != own]
    return [own]


def string_of(s):
    return "".join("".join(t) for t in s["toks"])


def nontrivial(s):
    if "toks" in s:
        return any(c != "reject" for c in s["cls"].values())       # near-valid for at least one family
    k = s.get("kind")
    if k == "range":
        return s.get("iterable", False) or s.get("top", False)
    return True


def sig(scen, kind, detail, rec=None):
    g = {"family": "addr", "kind": kind}
    if rec:
        g["t"] = rec.get("t")
        if "win" in rec:
            g["win"] = rec["win"]
    if "toks" in scen:
        g["what"] = "parse"
        g["colons_ge6"] = string_of(scen).count(":") >= 6          # more than six ':'-separated groups
        if rec:
            g["cls"] = scen.get("cls", {}).get(rec.get("t"))
    else:
        g["what"] = scen.get("kind")
        if "k" in scen:
            g["k"] = scen["k"]
        if "t" in scen:
            g["t"] = scen["t"]
        if "iterable" in scen:
            g["spec_iterable"] = scen["iterable"]                    # AddrRange!IsIterable of the model range
    return g


def pipeline(W):
    return vlib.Pipeline(PROP, "addr_replay", "addr/AddrTrace", "AddrTrace_w%d.cfg" % W, libs=("-lpthread",))


def run(tier):
    t0 = time.time()
    quick = tier == "quick"
    rng = random.Random(vlib.seed())
    v = vlib.Verdict(PROP)
    W = 5 if quick else 6
    # ---- the design, exhaustively in the small
    mc = [vlib.model_check("addr/AddrRangeImpl", "AddrRangeImpl_%s_%s.cfg" % ("q" if quick else "t", st), timeout=1800) for st in ("v4", "buf")]
    mc.append(vlib.model_check("addr/MCAddrBytes", "MCAddrBytes.cfg", timeout=300))
    refuted = []
    for m in (MUTANTS_Q if quick else MUTANTS_T):
        vlib.expect_violation("addr/AddrRangeImpl", "AddrRangeImpl_mut_%s.cfg" % m, timeout=300)
        refuted.append(m)
    # model-level observation outside the property's quantifier (range of 2^32 elements): see AddrRangeImpl header
    vlib.expect_violation("addr/AddrRangeImpl", "AddrRangeImpl_obs_v4_fullspace.cfg", timeout=300)
    vlib.log("[note] model-level observation (outside the quantifier, no verdict): with the IPv4 increment the explicit range "
             "[0.0.0.0, 255.255.255.255] has begin() == end(), its iteration is empty")
    # ---- scenarios
    rg, _ = vlib.tlc_generate("addr/AddrRangeGen", "AddrRangeGen_w%d.cfg" % W, timeout=600)
    rg = sorted({vlib.canon_hash(s): s for s in rg}.values(), key=lambda s: (s["k"], s["a"], s["b"]))
    texts, gen_states = [], 0
    for m in ("v4", "v6", "hw"):
        s, r = vlib.tlc_generate("addr/AddrTextGen", "AddrTextGen_b1_%s.cfg" % m, timeout=900)
        texts += s
        gen_states += r.distinct
        if not quick:
            # -simulate evaluates Emit on every successor it draws from, so a few dozen walks of 3 mutations already
            # export ~10^5 strings with 2 and 3 mutations; a seeded sample of them is replayed
            s, r = vlib.tlc_generate("addr/AddrTextGen", "AddrTextGen_sim_%s.cfg" % m, simulate=40, depth=4, workers=4, timeout=900)
            s = [x for _, x in sorted({string_of(x): x for x in s}.items())]     # TLC's output order is not deterministic
            rng.shuffle(s)
            texts += s[:25000]
    u = {}
    for s in texts:
        u.setdefault(s["mode"] + "|" + string_of(s), s)
    texts = [u[k] for k in sorted(u)]
    for i, s in enumerate(texts):
        s["types"] = text_types(s, i, quick)
    cmps = cmp_scenarios(rng, 48 if quick else 64)
    rts = rt_scenarios(rng, 200 if quick else 6000)
    wides = wide_scenarios(rng, quick) + widemask_scenarios(rng, quick) + widepair_scenarios(rng, quick)
    # the same loops written with the forward iterator's post-increment: every range of the generator (explicit, prefix- and
    # mask-derived, in all four windows - "top" ends at the all-ones address), the address type rotating
    post = [dict(s, kind="postinc", t=sorted(TYPES)[i % len(TYPES)]) for i, s in enumerate(rg)]
    post += [{"kind": "postinc", "W": W, "k": "pair", "a": 1, "b": 4, "t": t} for t in TYPES]
    p = pipeline(W)
    p.push(post, "postinc", ["--batch", "50", "--scen-timeout", "20"])
    scen = rg + cmps + rts + wides + texts
    chunk = 12000
    for i in range(0, len(scen), chunk):
        p.push(scen[i:i + chunk], "s%d" % (i // chunk))
    p.confirm(v, sig, limit=24)
    rc = v.finish()
    cls = collections.Counter()
    for s in texts:
        for t in s["types"]:
            cls[t + ":" + s["cls"][t]] += 1
    distinct = {vlib.canon_hash(s) for s in scen if nontrivial(s)}
    cov = {
        "states": sum(r.distinct for r in mc) + gen_states + p.stats["tlc_states"],
        "transitions": sum(r.generated for r in mc) + p.stats["tlc_generated"],
        "traces_validated_against_impl": p.stats["executions"],
        "samples": [rg[len(rg) // 2], {k: texts[len(texts) // 3][k] for k in ("mode", "toks", "cls")}, wides[7]] + p.samples[:2],
        "evaluations": len(scen) + len(post),
        "distinct_nontrivial": len(distinct),
        "rule": "ranges: every derivation of the %d-bit model space (%d = all addresses x prefix lengths, x masks, all explicit pairs), "
                "each embedded into IPv4Address, IPv6Address, HWAddress<6> at the bottom / middle / top window (explicit pairs also "
                "across the 0x7f..ff/0x80..00 carry); contains() probed at every window address and outside; iteration with a step "
                "budget of 2*size+4; real-width prefix ranges for every prefix length 0..32/0..128/0..48 (%d) with probes around both "
                "ends and iteration up to %d addresses; ordering/equality/hash: all ordered pairs of a %d-address boundary table per "
                "type; text: to_string/parse round trip of %d addresses and %d near-valid strings (TLC: skeleton + 1 mutation "
                "exhaustively%s) classified accept/reject/unspec by AddrText; non-trivial = iterable or all-ones-ending range, "
                "string near-valid for some family, every table row" % (
                    W, len(rg), len(wides), (1 << 10) if quick else (1 << 16), 48 if quick else 64,
                    sum(len(s["addrs"]) for s in rts), len(texts), "" if quick else ", + simulated chains of up to 3 mutations"),
        "model_checked": {"AddrRangeImpl": [{"style": st, "W": W, "distinct": r.distinct, "generated": r.generated} for st, r in zip(("v4", "buf"), mc)],
                          "MCAddrBytes": "digit-wise order/mask/prefix/contains = numeric, 3 digits of 2 bits",
                          "model_mutants_refuted": refuted,
                          "model_observation_refuted": "v4 explicit full-space range iterates nothing (outside the quantifier)"},
        "text_classes": dict(cls), "oracle_silent_unspec": p.stats["oracle_silent"],
        "replay": p.stats, "exhaustive": False,
    }
    vlib.write_evidence(PROP, tier, "model_checking", cov, time.time() - t0, len(v.violations), [
        "model bound W=%d; the real widths are reached by embedding at aligned windows and by the digit-wise lemma MCAddrBytes" % W,
        "iteration is demanded for ranges with at least two hosts between the ends (prefix <= width-2) and for every range "
        "whose is_iterable() returns true; ranges of more than 2^16 addresses are not iterated (the property's quantifier)",
        "strings classified 'unspec' (inet_aton shorthand, leading zeros, over-long zero-padded IPv6 groups, '::' for zero groups, "
        "short / hyphenated hardware forms) carry no verdict and are counted in oracle_silent_unspec",
        "IPv4/IPv6 text goes through libc inet_pton/inet_ntop of this machine",
        "conformance covers the replayed executions only",
    ])
    return rc


def replay(path):
    with open(path) as f:
        o = json.load(f)
    scen = (o.get("replay") or {}).get("scenario") or {}
    ex = (o.get("replay") or {}).get("execution") or {}
    W = scen.get("W") or ex.get("W") or 5
    return pipeline(W).replay_file(path)
