"""C18 - independent objects can be used from different threads without data races (DESIGN.md section 4, C18)."""
import json
import os
import random
import re
import subprocess
import time

import vlib

PROP = "C18"
WL = ["catalogue", "dns", "tags", "reasm", "addr", "radiotap", "wifi", "build", "pcap", "handshakes"]
LIBS = ("-lpcap", "-lcrypto", "-lpthread", "-ldl")
FLAGS = ("-rdynamic",)

# classes of writable namespace-scope objects (spec/threads/SharedCells.tla, "Cells")
CLASSES = [
    (r"^Tins::(IPv4Address::broadcast|private_ranges|loopback_range|multicast_range|loopback_address|local_unicast_range)$", "ns_const"),
    (r"^Tins::HWAddress<\d+ul?>::broadcast$", "ns_const"),
    (r"^Tins::(EthernetII|Dot3|Dot11)::BROADCAST$", "ns_const"),
    (r"crc_table$", "const_table"),
    (r"^Tins::Internals::PDUAllocator<.*>::(allocators|pdu_types)$", "registry"),
    (r"^Tins::Internals::verif_region_hook$", "hook"),          # TINS_VERIF_HOOKS only; written by the C02 driver alone
    (r"^std::|^__gnu_cxx::|^guard variable for (std::|Tins::HWAddress|Tins::Internals::PDUAllocator)", "foreign"),
]


def inventory(lib, exe):
    """Writable (.data/.bss/unique) symbols of libtins' object files, and libtins template statics instantiated in the driver."""
    cells = {}
    for path, only_tins in ((lib, False), (exe, True)):
        out = subprocess.run(["nm", "-C", path], stdout=subprocess.PIPE, stderr=subprocess.DEVNULL).stdout.decode(errors="replace")
        for line in out.splitlines():
            m = re.match(r"^[0-9a-f]*\s+([bBdDuVsSgG])\s+(.*)$", line)
            if not m:
                continue
            name = m.group(2)
            if re.match(r"^(typeinfo|vtable|VTT|DW\.ref|construction vtable)", name) or name.startswith("__") or name.startswith("."):
                continue
            if only_tins and "Tins::" not in name:
                continue
            if only_tins and re.search(r"UserPDU|^guard variable", name):
                continue      # the driver's own protocol class
            if "tsan" in name or "sanitizer" in name:
                continue
            cls = "unmodelled"
            for pat, c in CLASSES:
                if re.search(pat, name):
                    cls = c
                    break
            cells[name] = cls
    return [{"name": n, "cls": c} for n, c in sorted(cells.items())]


def sig(scen, kind, detail, rec=None):
    return {"family": "threads", "kind": kind}


def pipeline():
    return vlib.Pipeline(PROP, "threads", "threads/ThreadsTrace", "ThreadsTrace.cfg", harness_args=["--batch", "1", "--scen-timeout", "300"],
                         variant="tsan", libs=LIBS, extra_flags=FLAGS)


def run(tier):
    t0 = time.time()
    quick = tier == "quick"
    rng = random.Random(vlib.seed())
    v = vlib.Verdict(PROP)
    # ---- the design: every interleaving of the access scripts, for the code's protocols and for the mutants
    mc = [vlib.model_check("threads/SharedCells", "SharedCells_code_q.cfg" if quick else "SharedCells_code.cfg", timeout=1800),
          vlib.model_check("threads/SharedCells", "SharedCells_lazy_guarded_q.cfg" if quick else "SharedCells_lazy_guarded.cfg", timeout=1800)]
    refuted = []
    for m in ["static_scratch", "static_scratch_iso", "insert_on_lookup", "lazy_unguarded", "lazy_dcl", "register_during"]:
        vlib.expect_violation("threads/SharedCells", "SharedCells_mut_%s.cfg" % m, timeout=300)
        refuted.append(m)
    vlib.expect_violation("threads/SharedCells", "SharedCells_reach.cfg", timeout=300)      # the model does run to completion
    # ---- the code
    p = pipeline()
    cells = inventory(os.path.join(vlib.build_lib("tsan"), "libtins.a"), p.exe)
    unmodelled = [c["name"] for c in cells if c["cls"] == "unmodelled"]
    for n in unmodelled:
        vlib.log("UNMODELLED-GLOBAL: property=%s %s (writable namespace-scope object outside the modelled classes; the race detector decides)" % (PROP, n))
    pairs, g1 = vlib.tlc_generate("threads/ThreadsGen", "ThreadsGen_q.cfg", timeout=600)
    many, g2 = vlib.tlc_generate("threads/ThreadsGen", "ThreadsGen_sim.cfg", simulate=(60 if quick else 1500), depth=17, timeout=900)
    many = list({vlib.canon_hash(s): s for s in many}.values())
    rng.shuffle(many)
    many = many[:(40 if quick else 1200)]
    if not quick:
        for s in pairs + many:
            s["reps"] = 6
            s["iters"] = 6
    scen = [{"cells": cells}] + pairs + many
    chunk = 400
    for i in range(0, len(scen), chunk):
        p.push(scen[i:i + chunk], "s%d" % (i // chunk), timeout=3000)
    p.confirm(v, sig)
    rc = v.finish()
    ks = sorted({len(s["wl"]) for s in scen if "wl" in s})
    cov = {
        "states": sum(r.distinct for r in mc) + p.stats["tlc_states"],
        "transitions": sum(r.generated for r in mc) + p.stats["tlc_generated"],
        "traces_validated_against_impl": p.stats["executions"],
        "samples": [pairs[0], many[0] if many else pairs[-1]] + p.samples[:2],
        "evaluations": sum(s.get("reps", 1) * len(s["wl"]) for s in scen if "wl" in s),
        "distinct_nontrivial": len({vlib.canon_hash(s) for s in scen if "wl" in s}),
        "rule": "scenario = assignment of one of %d workloads (thread-private parse/touch/clone/serialise of the 52-entry catalogue, DNS "
                "encode/decode, protocol-table lookups incl. unknown and user-registered ids, IPv4 reassembly + TCP stream following, "
                "address text/ranges, RadioTap setters + FCS, WEP/CCMP/TKIP decryption with per-thread keys, API building/copying/moving, "
                "a capture file per thread written with PacketWriter and read back with FileSniffer, dozens of four-way handshakes per thread) "
                "to each of k threads: all ordered pairs (k=2), seeded assignments for k in %s; every scenario with distinct and with "
                "identical per-thread data, repeated with randomised yields; each workload first run alone, then concurrently under "
                "ThreadSanitizer" % (len(WL), ks),
        "threads": ks,
        "inventory": {"cells": len(cells), "by_class": {c: sum(1 for x in cells if x["cls"] == c) for c in sorted({x["cls"] for x in cells})},
                      "unmodelled": unmodelled},
        "model_checked": {"SharedCells(code)": {"distinct": mc[0].distinct, "generated": mc[0].generated},
                          "SharedCells(lazy_guarded)": {"distinct": mc[1].distinct},
                          "model_mutants_refuted": refuted},
        "replay": p.stats, "exhaustive": False,
    }
    vlib.write_evidence(PROP, tier, "model_checking", cov, time.time() - t0, len(v.violations), [
        "schedules are explored by repetition with randomised yields under a happens-before detector, not exhaustively; the exhaustive "
        "part is the TLA+ model of the access protocols (SharedCells), bound to the code by the inventory of writable globals and the detector",
        "libcrypto and libpcap are not instrumented: races inside them (not libtins state) would not be seen",
        "the user registers protocols before starting threads (the property's premise); SharedCells shows a late registration races",
        "live sniffing and sending (OS interaction) are not part of the workloads",
    ])
    return rc


def replay(path):
    return pipeline().replay_file(path)
