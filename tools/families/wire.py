"""Shared driver for the wire-format properties C02, C04, C05 (DESIGN.md section 4; spec/wire)."""
import json
import os
import random
import time

import vlib
from families import typed

TEXT = {
    "C05": "derived fields (lengths, header-length fields, next-protocol tags, Ethernet padding, IPv4/TCP/UDP/ICMP/ICMPv6 "
           "checksums) as read by the independent TLA+ dissector, plus libpcap filter predicates",
    "C04": "values set through the API = getters = what the TLA+ dissector reads off the bytes = what libtins reads after "
           "parsing its own serialization (layers, fields, option lists in order with the same bytes, payload)",
    "C02": "serialize() succeeds, |bytes| = size() = sum of header and trailer sizes, option-container sizes follow the RFC "
           "formulas (Containers.tla), no layer writes into its inner layers' bytes (region monitor hook H1)",
}


def sig(scen, kind, detail, rec=None):
    return {"family": "wire", "kind": kind, "ip4opts": scen.get("ip4opts"), "ext": scen.get("ext"), "tcpopts": scen.get("tcpopts")}


def nontrivial(s):
    return s["ip4opts"] != "none" or s["ext"] != "none" or s["tcpopts"] != "none" or s["link"] != "eth" or s["pay"] in ("ones", "zeros", "carry", "huge", "empty", "one")


def lazy_histories():
    """Histories in which the driver serialises only at "ser": an entry is replaced by one of the same size (and one of another
    size) between two serialisations, with and without a neighbour - what a layer caches while serialising must not go stale."""
    sizes = {"tcp": [0, 4, 7], "ip4": [0, 4, 7], "icmp6": [6, 14], "dhcp": [1, 8, 9], "dhcp6": [1, 8, 9], "dot11": [1, 8, 9]}
    A = lambda c, s: {"op": "add", "code": c, "size": s, "spoof": -1}
    R = lambda c: {"op": "remove", "code": c, "size": 0, "spoof": -1}
    S = {"op": "ser", "code": 0, "size": 0, "spoof": -1}
    out = []
    for k, ss in sizes.items():
        for s1 in ss:
            for s2 in ss:
                for c in (0, 1):
                    out.append({"kind": k, "lazy": True, "ops": [A(c, s1), S, R(c), A(c, s2), S]})
                    out.append({"kind": k, "lazy": True, "ops": [A(c, s1), A(1 - c, s2), S, R(c), A(c, s1), S, R(1 - c), S]})
                    out.append({"kind": k, "lazy": True, "ops": [A(c, s1), S, A(1 - c, s2), R(c), S, A(c, s1), S]})
    return out


def capacity_histories():
    """A list that has a capacity (RTP: at most 15 CSRC identifiers): filled to the limit, one more entry offered (it must be refused
    and leave no trace), an entry removed, another one added, with serialisations in between."""
    A = lambda c: {"op": "add", "code": c, "size": 0, "spoof": -1}
    R = lambda c: {"op": "remove", "code": c, "size": 0, "spoof": -1}
    out = []
    for first in (0, 1):
        fill = [A((first + i) % 2) for i in range(15)]
        out.append({"kind": "rtp", "ops": fill + [A(0), A(1), R(first), A(1 - first), A(first)]})
        out.append({"kind": "rtp", "ops": fill[:14] + [R(first), A(1), A(1), A(0), R(1), R(1), A(0)]})
    return out


def run(prop, tier, extra=None):
    t0 = time.time()
    quick = tier == "quick"
    rng = random.Random(vlib.seed())
    v = vlib.Verdict(prop)
    shapes, g = vlib.tlc_generate("wire/WireGen", "WireGen.cfg", timeout=900)
    u = {}
    for s in shapes:
        u[vlib.canon_hash(s)] = s
    shapes = sorted(u.values(), key=vlib.canon_hash)
    if quick:
        # every shape once, but the 64 KiB payload class only for a seeded sample (TLC folds every byte of a checksum)
        shapes = [s for s in shapes if s["pay"] != "huge" or rng.random() < 0.04]
        reps = 1
    else:
        reps = 6
    scen = [dict(s, rep=r) for r in range(reps) for s in shapes]
    p = vlib.Pipeline(prop, "wire_pkt", "wire/WireTrace", "WireTrace_%s.cfg" % prop)
    chunk = 6000
    for i in range(0, len(scen), chunk):
        p.push(scen[i:i + chunk], "w%d" % (i // chunk), timeout=3000)
    st2 = {}
    p2 = None
    cat_exec = 0
    if prop in ("C02", "C04"):
        # edit histories of every option container (spec/wire/ContainerGen, ContainerAbs)
        hist, g3 = vlib.tlc_generate("wire/ContainerGen", "ContainerGen_q.cfg" if quick else "ContainerGen_t.cfg", timeout=1800)
        uh = {}
        for s in hist:
            uh[vlib.canon_hash(s)] = s
        hist = sorted(uh.values(), key=vlib.canon_hash)
        hist += lazy_histories() + capacity_histories()
        p2 = vlib.Pipeline(prop, "containers", "wire/ContainerTrace", "ContainerTrace_%s.cfg" % prop)
        for i in range(0, len(hist), 40000):
            p2.push(hist[i:i + 40000], "c%d" % (i // 40000), timeout=3000)
        p2.confirm(v, lambda scen, kind, detail, rec=None: {"family": "containers", "kind": kind, "container": scen.get("kind")})
        st2 = {"container_histories": len(hist), "container_replay": p2.stats,
               "container_rule": "every sequence of %d add / add-with-spoofed-length / remove / serialize operations over 12 container "
                                 "kinds (TCP, IPv4, IPv6 extension headers, ICMPv6, DHCP, DHCP with its single-octet Pad / End codes, DHCPv6, 802.11 tagged parameters, PPPoE tags, "
                                 "RTP CSRC list, LLC frame formats, MLDv2 records), checked after every operation" % (3 if quick else 4)}
    if prop in ("C05", "C02", "C04"):
        # every other layer class: catalogue compositions.  C05: read by the extended dissector (Stack2);
        # C02: size-exactness and the region monitor on the same compositions
        cat, g4 = vlib.tlc_generate("wire/CatGen", ("CatGen_%s.cfg" % prop if quick else "CatGen_%s_t.cfg" % prop) if prop in ("C02", "C04") else ("CatGen.cfg" if quick else "CatGen_t.cfg"), timeout=900)
        cat = sorted({vlib.canon_hash(s): s for s in cat}.values(), key=lambda s: (s["id"], s["rep"]))
        p3 = vlib.Pipeline(prop, "wire_cat", "wire/CatTrace", "CatTrace_%s.cfg" % prop)
        p3.push(cat, "cat", timeout=3000)
        if prop in ("C05", "C02"):
            # re-linking histories: serialise composition a, replace its layers below depth d by those of composition b, judge the
            # second serialisation.  Feasible triples: same kind of layer at depth d in both, different kinds below it (inventory
            # from the trace of the run above)
            kinds = {}
            with open(os.path.join(p3.dir, "wire_cat-cat.trace.ndjson")) as f:
                for line in f:
                    ev = json.loads(line)
                    if ev.get("e") == "cat":
                        kinds.setdefault(ev["id"], ev["kinds"])
            rel, g5 = vlib.tlc_generate("wire/CatRelinkGen", "CatRelinkGen.cfg", timeout=900)
            feas = [s for s in rel if s["id"] in kinds and s["re"] in kinds and s["id"] < 140 and s["re"] < 140
                    and s["d"] + 1 < min(len(kinds[s["id"]]), len(kinds[s["re"]]))
                    and kinds[s["id"]][s["d"]] == kinds[s["re"]][s["d"]] and kinds[s["id"]][s["d"] + 1] != kinds[s["re"]][s["d"] + 1]]
            feas.sort(key=lambda s: (s["id"], s["re"], s["d"]))
            if quick:
                feas = [s for i, s in enumerate(feas) if i % 3 == vlib.seed() % 3]
            p3.push(feas, "relink", timeout=3000)
            st2.update({"relink_histories": len(feas), "relink_rule": "composition a serialised, then re-linked at depth d to the lower layers of composition b "
                        "(every feasible (a, b, d): same kind of layer at d, different kinds below), the second serialisation judged like any other"})
        p3.confirm(v, lambda scen, kind, detail, rec=None: {"family": "wire_cat", "kind": kind, "id": scen.get("id"),
                                                             "lenattr": (rec or {}).get("lenattr"), "next": (rec or {}).get("next"),
                                                             "unaligned": (rec or {}).get("unaligned")})
        st2.update({"catalogue_compositions": len({s["id"] for s in cat}), "catalogue_packets": len(cat), "catalogue_replay": p3.stats,
               "catalogue_rule": "87 API-built compositions (51 catalogue entries + 36 extras: IPv4 first fragments with transport headers, "
                                 "PPPoE/MPLS/EAPOL below VLAN tags, AH in IPv4/IPv6, ICMP/ICMPv6 errors with and without RFC 4884 length and "
                                 "extension structures around the 128-octet boundary, RadioTap with FCS, loopback/SLL families, 802.3+SNAP/STP, "
                                 "tunnels), each with %d seeded value sets, read by the TLA+ dissector Stack2 from 8 entry points (C05) / judged on size-exactness "
                                 "and by the region monitor (C02)" % (6 if quick else 40)})
        cat_exec = p3.stats["executions"]
    if prop == "C02":
        # parsed packets: whatever a (damaged) buffer is accepted as must serialize to exactly size() bytes
        from families import c01
        st2.update(c01.parsed_serialize_part(prop, v, quick))
    if prop == "C04":
        # typed option setters/getters: mutual inverses on the object and through the wire (spec/wire/TypedOpts)
        st2.update(typed.run_part(prop, v, quick))
    p.confirm(v, sig)
    rc = v.finish()
    distinct = {vlib.canon_hash(s) for s in scen if nontrivial(s)}
    cov = {
        "states": g.distinct + p.stats["tlc_states"], "transitions": g.generated + p.stats["tlc_generated"],
        "traces_validated_against_impl": p.stats["executions"] + (p2.stats["executions"] if p2 else 0) + cat_exec,
        "samples": [scen[len(scen) // 3]] + [{k: (x[k] if k != "bytes" else x[k][:64]) for k in x if k in ("shape", "vals", "size", "bytes", "bpf", "hs")} for x in p.samples[1:2]],
        "evaluations": len(scen) + st2.get("container_histories", 0) + st2.get("catalogue_packets", 0),
        "distinct_nontrivial": len(distinct) + st2.get("container_histories", 0) + st2.get("catalogue_packets", 0),
        "rule": "scenario = packet shape enumerated by TLC (WireGen: link {eth, 802.1Q, QinQ} x IPv4 with 7 option shapes | IPv6 "
                "with 9 extension-header shapes x TCP with 8 option shapes | UDP | ICMP | ICMPv6 x 9 payload classes) with field "
                "values concretised by the seeded driver (%d value sets per shape); checked clauses: %s; non-trivial = options / "
                "extension headers / tags present or a checksum corner-case payload" % (reps, TEXT[prop]),
        "replay": p.stats, "exhaustive": False,
    }
    cov.update(st2)
    vlib.write_evidence(prop, tier, "exploration", cov, time.time() - t0, len(v.violations), [
        "layers read by the TLA+ dissector: Ethernet II, 802.1Q/802.1ad, IPv4(+options), IPv6(+hop-by-hop/routing/destination/"
        "fragment headers), TCP(+options), UDP, ICMP, ICMPv6 (Stack); for C05 also 802.3/LLC/SNAP/STP, SLL, loopback, RadioTap(+FCS)/"
        "802.11 data, MPLS, PPPoE, EAPOL, ARP, AH, ESP, RFC 4884 length + extension structures (Stack2); application layers are opaque",
        "generators build representable packets only (sizes <= 65535, IPv4/TCP options <= 40 bytes, root never a bare IP)",
        "values are sampled; the structure (shapes) is enumerated",
    ])
    return rc


def replay(prop, path):
    import json
    with open(path) as f:
        h = json.load(f)["replay"]["harness"]
    if h == "parse_safe":
        return vlib.Pipeline(prop, "parse_safe", "wire/FaultTrace", "FaultTrace_%s.cfg" % prop).replay_file(path)
    if h == "typed_opts":
        return typed.replay(prop, path)
    if h == "wire_cat":
        return vlib.Pipeline(prop, "wire_cat", "wire/CatTrace", "CatTrace_%s.cfg" % prop).replay_file(path)
    if h == "containers":
        return vlib.Pipeline(prop, "containers", "wire/ContainerTrace", "ContainerTrace_%s.cfg" % prop).replay_file(path)
    return vlib.Pipeline(prop, "wire_pkt", "wire/WireTrace", "WireTrace_%s.cfg" % prop).replay_file(path)
