"""C04 - wire-format property checked through the TLA+ dissector (see tools/families/wire.py, spec/wire)."""
from families import wire


def run(tier):
    return wire.run("C04", tier)


def replay(path):
    return wire.replay("C04", path)
