#!/usr/bin/env python3
"""Common orchestration for the libtins TLA+/TLC verification checks (DESIGN.md section 2).

Standard library only.  Everything a check does goes through this module:
  build_lib / build_harness   content-addressed sanitizer builds from /repo's *working tree*
  tlc / tlc_generate          model checking and behaviour export
  validate                    trace validation of recorded executions (per-execution verdicts)
  Findings, report, evidence  verdict rules, known findings, evidence json
Exit codes of a check: 0 property held on everything explored (KNOWN-FINDING lines allowed),
1 + "VIOLATION property=<id> replay=<path>", 2 tool/model failure (never a VIOLATION line).
"""
import fcntl
import glob
import hashlib
import json
import os
import re
import shutil
import subprocess
import sys
import time

VERIF = os.path.dirname(os.path.dirname(os.path.abspath(__file__)))
REPO = os.environ.get("VERIF_REPO", "/repo")
BUILD = os.environ.get("VERIF_BUILD_DIR") or os.path.join(VERIF, "build")      # selftest/mutants.py gives every worker a cache of its own
OUT = os.environ.get("VERIF_OUT_DIR") or os.path.join(VERIF, "out")
EVID = os.environ.get("VERIF_EVIDENCE_DIR") or os.path.join(VERIF, "evidence")   # selftest runs must not overwrite real evidence
SPEC = os.path.join(VERIF, "spec")
HARNESS = os.path.join(VERIF, "harness")
GUARD = "TINS_VERIF_HOOKS"
NCPU = min(16, os.cpu_count() or 4)
TLA_CP = "/opt/veriftools/tla/tla2tools.jar:/opt/veriftools/tla/CommunityModules-deps.jar"

VARIANTS = {
    # libtins is always compiled with the monitor (DESIGN 2.6)
    # -fno-sanitize=enum: libtins is C++11, where converting an out-of-range integer to an unscoped enumeration
    # yields an unspecified value (not undefined behaviour; that changed with CWG 1766 / C++17) and GCC does not
    # exploit it without -fstrict-enums; reporting every parsed QueryClass/Flags value would be a false alarm.
    "asan": ["-O1", "-g", "-fsanitize=address,undefined", "-fno-sanitize=enum", "-fno-sanitize-recover=undefined",
             "-fno-omit-frame-pointer"],
    "tsan": ["-O1", "-g", "-fsanitize=thread", "-fno-omit-frame-pointer"],
    "plain": ["-O1", "-g"],
}
COMMON_FLAGS = ["-std=c++11", "-w", "-D" + GUARD, "-DTINS_STATIC", "-I" + os.path.join(REPO, "include")]


class ToolFailure(Exception):
    """A broken model / tool / build: exit 2, never a VIOLATION (DESIGN 5 rule 4)."""


def log(*a):
    print(*a, flush=True)


def seed():
    try:
        return int(os.environ.get("VERIF_SEED", "1"))
    except ValueError:
        return 1


def sha(*parts):
    h = hashlib.sha256()
    for p in parts:
        h.update(p if isinstance(p, bytes) else str(p).encode())
        h.update(b"\0")
    return h.hexdigest()[:20]


def _read(p):
    with open(p, "rb") as f:
        return f.read()


def _lock(name):
    os.makedirs(BUILD, exist_ok=True)
    f = open(os.path.join(BUILD, name + ".lock"), "w")
    fcntl.flock(f, fcntl.LOCK_EX)
    return f


def ensure_config_h():
    """config.h is git-ignored in libtins; regenerate the baseline option set if a restore lacks it."""
    p = os.path.join(REPO, "include/tins/config.h")
    if os.path.exists(p):
        return
    src = _read(p + ".in").decode()
    on = ["TINS_HAVE_CXX11", "TINS_HAVE_DOT11", "TINS_HAVE_WPA2_DECRYPTION", "TINS_HAVE_TCPIP",
          "TINS_HAVE_ACK_TRACKER", "TINS_HAVE_TCP_STREAM_CUSTOM_DATA", "TINS_HAVE_GCC_BUILTIN_SWAP",
          "TINS_HAVE_WPA2_CALLBACKS", "TINS_HAVE_PCAP"]
    out = []
    for line in src.splitlines():
        m = re.match(r"#cmakedefine\s+(\w+)", line)
        if m:
            out.append(("#define %s" % m.group(1)) if m.group(1) in on else "/* #undef %s */" % m.group(1))
        else:
            line = line.replace("${TINS_VERSION_MAJOR}", "4").replace("${TINS_VERSION_MINOR}", "6")
            out.append(line.replace("${TINS_VERSION_PATCH}", "0"))
    with open(p, "w") as f:
        f.write("\n".join(out) + "\n")


def repo_sources():
    return sorted(glob.glob(os.path.join(REPO, "src", "**", "*.cpp"), recursive=True))


def headers_hash():
    hs = sorted(glob.glob(os.path.join(REPO, "include", "**", "*.h"), recursive=True))
    return sha(*[p + ":" + hashlib.sha256(_read(p)).hexdigest() for p in hs])


def _run_parallel(cmds, what):
    procs = []
    failed = []
    pending = list(cmds)
    while pending or procs:
        while pending and len(procs) < NCPU:
            c = pending.pop()
            procs.append((c, subprocess.Popen(c, stdout=subprocess.PIPE, stderr=subprocess.STDOUT)))
        c, p = procs.pop(0)
        out, _ = p.communicate()
        if p.returncode != 0:
            failed.append((c, out.decode(errors="replace")))
    if failed:
        raise ToolFailure("%s failed: %s\n%s" % (what, " ".join(failed[0][0]), failed[0][1][-3000:]))


def build_lib(variant="asan"):
    """Compile every source under /repo/src (current working tree) into build/lib-<key>/libtins.a.
    Objects are cached per (flags, source content, all-header hash): an unchanged tree costs nothing,
    a changed file is always recompiled."""
    ensure_config_h()
    flags = COMMON_FLAGS + VARIANTS[variant]
    hh = headers_hash()
    srcs = repo_sources()
    okeys = [(s, sha(variant, " ".join(flags), hh, _read(s))) for s in srcs]
    key = sha(*[k for _, k in okeys])
    libdir = os.path.join(BUILD, "lib-%s-%s" % (variant, key))
    lib = os.path.join(libdir, "libtins.a")
    lk = _lock("lib-" + variant)
    try:
        if os.path.exists(lib):
            os.utime(libdir)
            return lib
        t0 = time.time()
        objdir = os.path.join(BUILD, "obj-" + variant)
        os.makedirs(objdir, exist_ok=True)
        cmds, objs = [], []
        for s, k in okeys:
            o = os.path.join(objdir, k + ".o")
            objs.append(o)
            if not os.path.exists(o):
                cmds.append(["g++"] + flags + ["-c", s, "-o", o])
        _run_parallel(cmds, "libtins build (%s)" % variant)
        tmp = libdir + ".tmp"
        shutil.rmtree(tmp, ignore_errors=True)
        os.makedirs(tmp)
        r = subprocess.run(["ar", "rcs", os.path.join(tmp, "libtins.a")] + objs, capture_output=True)
        if r.returncode != 0:
            raise ToolFailure("ar failed: " + r.stderr.decode())
        shutil.rmtree(libdir, ignore_errors=True)
        os.rename(tmp, libdir)
        log("[build] libtins (%s): %d/%d objects compiled in %.1fs -> %s" %
            (variant, len(cmds), len(srcs), time.time() - t0, libdir))
        _gc()
        return lib
    finally:
        lk.close()


def _gc(keep=4):
    """Bound disk use: keep the newest few lib/harness dirs and at most ~600 cached objects per variant."""
    for pat in ("lib-*-*", "h-*"):
        ds = [d for d in glob.glob(os.path.join(BUILD, pat)) if os.path.isdir(d)]
        ds.sort(key=os.path.getmtime, reverse=True)
        limit = keep * (3 if pat.startswith("lib") else 40)
        for d in ds[limit:]:
            shutil.rmtree(d, ignore_errors=True)
    for od in glob.glob(os.path.join(BUILD, "obj-*")):
        objs = sorted(glob.glob(os.path.join(od, "*.o")), key=os.path.getmtime, reverse=True)
        for o in objs[600:]:
            os.unlink(o)


def build_harness(name, variant="asan", libs=("-lpcap", "-lcrypto", "-lpthread"), extra_flags=()):
    """Compile harness/<name>.cpp against the freshly built libtins; returns the binary path."""
    lib = build_lib(variant)
    src = os.path.join(HARNESS, name + ".cpp")
    common = sorted(glob.glob(os.path.join(HARNESS, "common", "*.h")) + glob.glob(os.path.join(HARNESS, "*.h")))
    flags = COMMON_FLAGS + VARIANTS[variant] + ["-I" + os.path.join(HARNESS, "common"), "-I" + HARNESS] + list(extra_flags)
    key = sha(lib, " ".join(flags), _read(src), *[_read(c) for c in common], " ".join(libs))
    d = os.path.join(BUILD, "h-%s-%s" % (name, key))
    exe = os.path.join(d, name)
    lk = _lock("h-" + name)
    try:
        if os.path.exists(exe):
            os.utime(d)
            return exe
        t0 = time.time()
        os.makedirs(d + ".tmp", exist_ok=True)
        cmd = ["g++"] + flags + [src, lib] + list(libs) + ["-o", os.path.join(d + ".tmp", name)]
        r = subprocess.run(cmd, capture_output=True)
        if r.returncode != 0:
            shutil.rmtree(d + ".tmp", ignore_errors=True)
            raise ToolFailure("harness build failed: %s\n%s" % (name, r.stderr.decode(errors="replace")[-4000:]))
        shutil.rmtree(d, ignore_errors=True)
        os.rename(d + ".tmp", d)
        log("[build] harness %s in %.1fs" % (name, time.time() - t0))
        return exe
    finally:
        lk.close()


# ----------------------------------------------------------------------------- TLC

class TLCResult:
    def __init__(self, rc, out, wall):
        self.rc, self.out, self.wall = rc, out, wall
        m = re.findall(r"(\d+) states generated, (\d+) distinct states found", out)
        self.generated = int(m[-1][0]) if m else 0
        self.distinct = int(m[-1][1]) if m else 0
        m = re.search(r"depth of the complete state graph search is (\d+)", out)
        self.depth = int(m.group(1)) if m else 0
        self.ok = rc == 0
        # 10..13: safety / liveness / postcondition / deadlock reported by TLC on a well-formed model
        self.property_failure = rc in (10, 11, 12, 13)
        self.tool_failure = not (self.ok or self.property_failure)

    def tail(self, n=40):
        return "\n".join(self.out.splitlines()[-n:])


def tlc(module, cfg=None, workers=None, env=None, timeout=900, simulate=None, depth=None, extra=(),
        heap="8g", tag=None, deque=False):
    """Run TLC on spec/<module>.tla (path relative to spec/ or absolute)."""
    mpath = module if os.path.isabs(module) else os.path.join(SPEC, module)
    if not mpath.endswith(".tla"):
        mpath += ".tla"
    d = os.path.dirname(mpath)
    cfgp = cfg if cfg and os.path.isabs(cfg) else os.path.join(d, cfg or os.path.basename(mpath)[:-4] + ".cfg")
    meta = os.path.join(OUT, "tlc-meta", "%s-%d-%s" % (tag or os.path.basename(cfgp), os.getpid(), sha(time.time())))
    os.makedirs(meta, exist_ok=True)
    # every spec directory may use the shared modules in spec/common
    libpath = os.pathsep.join([os.path.join(SPEC, "common")] + sorted(
        p for p in glob.glob(os.path.join(SPEC, "*")) if os.path.isdir(p)))
    jopts = ["-XX:+UseParallelGC", "-Xmx" + heap, "-Xss64m", "-DTLA-Library=" + libpath]
    if deque:
        jopts.append("-Dtlc2.tool.queue.IStateQueue=StateDeque")
    cmd = ["java"] + jopts + ["-cp", TLA_CP, "tlc2.TLC", "-metadir", meta, "-config", cfgp,
                              "-workers", str(workers or NCPU), "-noGenerateSpecTE"]
    if simulate is not None:
        cmd += ["-simulate", "num=%d" % simulate]
        cmd += ["-seed", str(seed())]
    if depth is not None:
        cmd += ["-depth", str(depth)]
    cmd += list(extra) + [mpath]
    e = dict(os.environ)
    e.update(env or {})
    t0 = time.time()
    try:
        r = subprocess.run(cmd, cwd=d, env=e, stdout=subprocess.PIPE, stderr=subprocess.STDOUT, timeout=timeout)
        rc, out = r.returncode, r.stdout.decode(errors="replace")
    except subprocess.TimeoutExpired as ex:
        rc, out = 124, (ex.stdout or b"").decode(errors="replace") + "\n[timeout after %ds]" % timeout
    finally:
        shutil.rmtree(meta, ignore_errors=True)
    return TLCResult(rc, out, time.time() - t0)


def model_check(module, cfg=None, **kw):
    """Model-check a spec whose invariants must hold: anything but success is a model failure (exit 2)."""
    r = tlc(module, cfg, **kw)
    if not r.ok:
        raise ToolFailure("model check of %s/%s failed (rc=%d):\n%s" % (module, cfg, r.rc, r.tail(60)))
    log("[tlc] %s %s: %d generated / %d distinct states, depth %d, %.1fs" %
        (module, cfg or "", r.generated, r.distinct, r.depth, r.wall))
    return r


def expect_violation(module, cfg, **kw):
    """Non-vacuity: a deliberately broken model configuration must be refuted by TLC."""
    r = tlc(module, cfg, **kw)
    if not r.property_failure:
        raise ToolFailure("expected TLC to refute %s/%s but rc=%d:\n%s" % (module, cfg, r.rc, r.tail(30)))
    log("[tlc] %s %s: refuted as expected (%.1fs)" % (module, cfg, r.wall))
    return r


def apalache_lemma(relpath, inv="Lemma", expect_error=False, timeout=180):
    """Symbolic side lemma (never gates a check): returns "discharged" / "refuted" / "unavailable: ...".  Used for the
    SeqNum window lemma at the real modulus 2^32 (DESIGN 2.4)."""
    import tempfile
    d = tempfile.mkdtemp(prefix="apa-")
    try:
        r = subprocess.run(["apalache-mc", "check", "--length=0", "--inv=" + inv, "--out-dir=" + d, os.path.join(SPEC, relpath)],
                           stdout=subprocess.PIPE, stderr=subprocess.STDOUT, timeout=timeout, cwd=d)
        out = r.stdout.decode(errors="replace")
        if "The outcome is: NoError" in out:
            res = "discharged"
        elif "The outcome is: Error" in out or "violat" in out:
            res = "refuted"
        else:
            res = "unavailable: rc=%d" % r.returncode
    except (subprocess.TimeoutExpired, OSError) as e:
        res = "unavailable: %s" % type(e).__name__
    finally:
        shutil.rmtree(d, ignore_errors=True)
    log("[apalache] %s %s: %s%s" % (relpath, inv, res, " (a refutation is expected here)" if expect_error else ""))
    return res


def scenarios_from(out):
    """Behaviours exported by `CONSTRAINT Emit` as PrintT("SCN " \\o ToJson(..)) lines."""
    res = []
    for line in out.splitlines():
        if line.startswith('"SCN '):
            try:
                res.append(json.loads(json.loads(line)[4:]))
            except ValueError:
                pass  # a torn line is dropped, never guessed
    return res


def tlc_generate(module, cfg=None, **kw):
    r = tlc(module, cfg, **kw)
    if r.tool_failure or (r.rc != 0 and kw.get("simulate") is None):
        raise ToolFailure("generation with %s/%s failed (rc=%d):\n%s" % (module, cfg, r.rc, r.tail(40)))
    sc = scenarios_from(r.out)
    log("[gen] %s %s: %d behaviours exported (%d distinct states, %.1fs)" %
        (module, cfg or "", len(sc), r.distinct, r.wall))
    return sc, r


# ----------------------------------------------------------------------------- replay + validation

def run_harness(exe, args, scen_path, trace_path, timeout=1200, env=None):
    """Run a replay driver: reads scenarios (one JSON per line), writes the ndjson trace and
    <trace>.crashes (one JSON per scenario that died, with the sanitizer summary)."""
    e = dict(os.environ)
    e["ASAN_OPTIONS"] = "detect_leaks=1:exitcode=77:abort_on_error=0:allocator_may_return_null=1:detect_stack_use_after_return=0"
    e["UBSAN_OPTIONS"] = "print_stacktrace=1:halt_on_error=1:exitcode=77"
    e["LSAN_OPTIONS"] = "exitcode=78"
    e["TSAN_OPTIONS"] = "exitcode=79:halt_on_error=0:second_deadlock_stack=1"
    e.update(env or {})
    cmd = [exe] + list(args) + ["--in", scen_path, "--out", trace_path, "--seed", str(seed())]
    if "--max-seconds" not in cmd:
        cmd += ["--max-seconds", str(int(timeout * 0.75))]     # the driver stops by itself (and says what it skipped) before it is killed
    t0 = time.time()
    try:
        r = subprocess.run(cmd, env=e, stdout=subprocess.PIPE, stderr=subprocess.STDOUT, timeout=timeout)
    except subprocess.TimeoutExpired:
        raise ToolFailure("replay driver timed out: " + " ".join(cmd))
    out = r.stdout.decode(errors="replace")
    if r.returncode != 0:
        raise ToolFailure("replay driver failed rc=%d: %s\n%s" % (r.returncode, " ".join(cmd), out[-3000:]))
    crashes = []
    cp = trace_path + ".crashes"
    if os.path.exists(cp):
        with open(cp) as f:
            crashes = [json.loads(x) for x in f if x.strip()]
    m = re.search(r'"skipped":(\d+)', out)
    if m and int(m.group(1)):
        log("[replay] WARNING: %s stopped early (%d crashed / hung scenarios, or its time budget): %s scenarios were not run" % (
            os.path.basename(exe), len(crashes), m.group(1)))
    return {"wall": time.time() - t0, "crashes": crashes, "out": out}


def read_trace_index(trace_path):
    """sid of every execution (by 1-based line number of its Reset line) and its event count."""
    idx = {}
    with open(trace_path) as f:
        for i, line in enumerate(f, 1):
            if line.startswith('{"e":"Reset"'):
                o = json.loads(line)
                idx[i] = o
    return idx


def validate(module, trace_path, cfg=None, timeout=1800, heap="12g", env=None, deque=False):
    """Trace validation (DESIGN 2.2 step 5).  Returns (rejected: [Reset records], TLCResult).
    The trace spec marks an execution accepted when its last line has been consumed; the
    POSTCONDITION prints the set of rejected execution start lines."""
    e = {"TRACE": trace_path}
    e.update(env or {})
    idx = read_trace_index(trace_path)
    if not idx:
        raise ToolFailure("empty trace " + trace_path)
    r = tlc(module, cfg, workers=1, env=e, timeout=timeout, heap=heap, deque=deque)
    m = re.search(r'<<\s*"SKIPPED",\s*(\d+)\s*>>', r.out)
    r.skipped = int(m.group(1)) if m else 0
    if r.ok:
        return [], r
    m = re.search(r'<<\s*"REJECTED",\s*\{([^}]*)\}\s*>>', r.out)
    if r.rc in (10, 11, 12, 13) and m:
        starts = [int(x) for x in re.findall(r"\d+", m.group(1))]
        return [dict(idx[s], line=s) for s in starts], r
    raise ToolFailure("trace validation with %s failed (rc=%d):\n%s" % (module, r.rc, r.tail(60)))


def extract_execution(trace_path, start_line, out_path):
    """Copy one execution (its Reset line and its events) into its own file (for re-validation and replay)."""
    with open(trace_path) as f:
        lines = f.readlines()
    rec = json.loads(lines[start_line - 1])
    with open(out_path, "w") as g:
        g.writelines(lines[start_line - 1: start_line + rec["n"]])
    return rec


# ----------------------------------------------------------------------------- findings, verdicts, evidence

class Findings:
    """known_findings.jsonl: committed, read-only at run time.  Signatures are predicates over the
    *scenario* (subset match on its "sig" record), never over the symptom."""

    def __init__(self):
        self.entries = []
        p = os.path.join(VERIF, "known_findings.jsonl")
        if os.path.exists(p):
            with open(p) as f:
                for line in f:
                    line = line.strip()
                    if line and not line.startswith("#"):
                        self.entries.append(json.loads(line))

    @staticmethod
    def _match(sig, scen):
        for k, v in sig.items():
            if k.endswith("_in"):
                if scen.get(k[:-3]) not in v:
                    return False
            elif k.endswith("_ge"):
                if not (isinstance(scen.get(k[:-3]), (int, float)) and scen.get(k[:-3]) >= v):
                    return False
            elif scen.get(k) != v:
                return False
        return True

    def lookup(self, prop, scen_sig):
        for e in self.entries:
            if e.get("status") == "open" and e.get("property") == prop and self._match(e["signature"], scen_sig):
                return e
        return None


class Verdict:
    def __init__(self, prop):
        self.prop = prop
        self.findings = Findings()
        self.violations = []
        self.known = {}
        os.makedirs(os.path.join(OUT, prop), exist_ok=True)
        for old in glob.glob(os.path.join(OUT, prop, "viol-*.json")):      # replay files of earlier runs
            os.remove(old)

    def candidate(self, scen_sig, what, replay_obj):
        """scen_sig: dict describing the scenario class (matched against known findings)."""
        e = self.findings.lookup(self.prop, scen_sig)
        if e is not None:
            k = e.get("id") or e["what"]
            self.known[k] = self.known.get(k, 0) + 1
            return False
        n = len(self.violations) + 1
        path = os.path.join(OUT, self.prop, "viol-%d.json" % n)
        with open(path, "w") as f:
            json.dump({"property": self.prop, "what": what, "sig": scen_sig, "replay": replay_obj,
                       "seed": seed()}, f, indent=1)
        self.violations.append((path, what))
        return True

    def finish(self):
        for e in self.findings.entries:
            k = e.get("id") or e["what"]
            if k in self.known:
                log("KNOWN-FINDING: property=%s %s (%d scenarios)" % (self.prop, e["what"], self.known[k]))
        for path, what in self.violations[:20]:
            log("VIOLATION property=%s replay=%s" % (self.prop, path))
            log("   " + what[:300])
        return 1 if self.violations else 0


def write_evidence(prop, tier, level, coverage, wall, violations, assumptions):
    os.makedirs(EVID, exist_ok=True)
    ev = {"property_id": prop, "tier": tier, "seed": seed(), "level": level, "coverage": coverage,
          "assumptions": assumptions, "wall_s": round(wall, 2), "violations": violations}
    tmp = os.path.join(EVID, prop + ".json.tmp")
    with open(tmp, "w") as f:
        json.dump(ev, f, indent=1, sort_keys=True)
    os.replace(tmp, os.path.join(EVID, prop + ".json"))


def write_lines(path, objs):
    os.makedirs(os.path.dirname(path), exist_ok=True)
    with open(path, "w") as f:
        for o in objs:
            f.write(json.dumps(o, separators=(",", ":")) + "\n")


def canon_hash(o):
    return hashlib.sha1(json.dumps(o, sort_keys=True, separators=(",", ":")).encode()).hexdigest()


def workdir(prop):
    d = os.path.join(OUT, prop)
    os.makedirs(d, exist_ok=True)
    return d


# ----------------------------------------------------------------------------- generic replay pipeline

class Pipeline:
    """generate -> replay on the real classes -> validate with the trace spec -> confirm -> verdict.
    One instance per (harness, trace spec); several scenario sets may be pushed through it."""

    def __init__(self, prop, harness, trace_module, trace_cfg=None, harness_args=(), variant="asan",
                 libs=("-lpcap", "-lcrypto", "-lpthread"), extra_flags=()):
        self.prop, self.harness, self.module, self.cfg = prop, harness, trace_module, trace_cfg
        self.hargs = list(harness_args)
        self.exe = build_harness(harness, variant, libs, extra_flags)
        self.dir = workdir(prop)
        self.candidates = []      # (scenario, sid, kind, detail)
        self.stats = {"scenarios": 0, "executions": 0, "events": 0, "tlc_states": 0, "tlc_generated": 0,
                      "replay_s": 0.0, "validate_s": 0.0, "crashes": 0, "rejected": 0, "oracle_silent": 0}
        self.samples = []
        self.runs = 0

    def push(self, scenarios, tag, extra_args=(), timeout=2400):
        if not scenarios:
            return
        self.runs += 1
        sp = os.path.join(self.dir, "%s-%s.scen.jsonl" % (self.harness, tag))
        tp = os.path.join(self.dir, "%s-%s.trace.ndjson" % (self.harness, tag))
        write_lines(sp, scenarios)
        args = self.hargs + list(extra_args)
        res = run_harness(self.exe, args, sp, tp, timeout=timeout)
        self.stats["scenarios"] += len(scenarios)
        self.stats["replay_s"] += res["wall"]
        for c in res["crashes"]:
            self.stats["crashes"] += 1
            self.candidates.append((scenarios[c["sid"]], c["sid"], "crash", c.get("why", "") + " " + c.get("summary", ""), args, None))
        idx = read_trace_index(tp)
        self.stats["executions"] += len(idx)
        self.stats["events"] += sum(v["n"] for v in idx.values())
        if idx:
            rejected, r = validate(self.module, tp, self.cfg, timeout=timeout)
            self.stats["validate_s"] += r.wall
            self.stats["tlc_states"] += r.distinct
            self.stats["tlc_generated"] += r.generated
            self.stats["oracle_silent"] += r.skipped
            seen = set()
            for rec in rejected:
                self.stats["rejected"] += 1
                key = json.dumps({k: v for k, v in rec.items() if k not in ("line", "n", "e")}, sort_keys=True)
                if key in seen:
                    continue
                seen.add(key)
                self.candidates.append((scenarios[rec["sid"]], rec["sid"], "rejected",
                                        "trace of the real code rejected by %s: execution %s" % (
                                            self.module, json.dumps({k: v for k, v in rec.items() if k not in ("e",)})), args, rec))
            if not self.samples:
                with open(tp) as f:
                    self.samples = [json.loads(x) for _, x in zip(range(4), f)]
        log("[replay] %s/%s: %d scenarios, %d executions, %d crashes, %d rejected (replay %.1fs)" % (
            self.harness, tag, len(scenarios), len(idx), len(res["crashes"]),
            self.stats["rejected"], res["wall"]))

    @staticmethod
    def _same_exec(a, b):
        strip = lambda r: {k: v for k, v in r.items() if k not in ("line", "n", "e")}
        return strip(a) == strip(b)

    def rerun_one(self, scen, sid, args, tag="confirm", rec=None):
        """Re-run one scenario alone in a fresh process with the same seed/sid; returns (kind, detail, trace lines).
        If rec is given, only a rejection of that same execution (same Reset record) counts."""
        sp = os.path.join(self.dir, "%s-%s.scen.jsonl" % (self.harness, tag))
        tp = os.path.join(self.dir, "%s-%s.trace.ndjson" % (self.harness, tag))
        write_lines(sp, [scen])
        res = run_harness(self.exe, list(args) + ["--sid-base", str(sid)], sp, tp)
        lines = []
        if os.path.exists(tp):
            with open(tp) as f:
                lines = [x.rstrip("\n") for x in f]
        if res["crashes"]:
            c = res["crashes"][0]
            return "crash", c.get("why", "") + " " + c.get("summary", ""), lines
        if lines:
            rejected, r = validate(self.module, tp, self.cfg)
            for rj in rejected:
                if rec is None or self._same_exec(rj, rec):
                    bad = lines[rj["line"] - 1: rj["line"] + rj["n"]]
                    return "rejected", "execution rejected by %s" % self.module, bad
        return None, "", lines

    def confirm(self, verdict, sigfn, limit=40):
        """DESIGN 5 rule 4: a candidate counts only if the single scenario fails again on its own."""
        done = 0
        by_sig = {}
        for scen, sid, kind, detail, args, rec in self.candidates:
            sig = sigfn(scen, kind, detail, rec)
            ks = json.dumps(sig, sort_keys=True)
            by_sig[ks] = by_sig.get(ks, 0) + 1
            if by_sig[ks] > 3 or done >= limit:     # a handful of confirmed examples per class is enough
                if verdict.findings.lookup(self.prop, sig) is not None:
                    verdict.candidate(sig, detail, None)
                continue
            done += 1
            k2, d2, lines = self.rerun_one(scen, sid, args, rec=rec if kind == "rejected" else None)
            if k2 is None:
                log("[confirm] scenario %d (%s) did not repeat - not reported" % (sid, kind))
                continue
            verdict.candidate(sig, "%s: %s" % (k2, d2 or detail),
                              {"harness": self.harness, "args": list(args), "sid": sid, "scenario": scen, "execution": rec,
                               "trace_module": self.module, "trace": lines[:60]})

    def replay_file(self, path):
        with open(path) as f:
            o = json.load(f)
        rp = o["replay"]
        k, d, lines = self.rerun_one(rp["scenario"], rp["sid"], rp["args"], tag="replay", rec=rp.get("execution"))
        log("replay of %s: %s %s" % (path, k or "accepted", d))
        for x in lines[:40]:
            log("   " + x)
        return 1 if k else 0


def first_bad_event(module, lines, cfg=None):
    """For one rejected execution (its Reset line + events) find the first event the trace spec cannot match, by
    validating prefixes (binary search).  Returns the 1-based event index."""
    head = json.loads(lines[0])
    lo, hi = 0, head["n"]          # prefix of length lo accepted, hi rejected
    d = os.path.join(OUT, "explain-%d" % os.getpid())
    os.makedirs(d, exist_ok=True)
    tp = os.path.join(d, "prefix.ndjson")
    while hi - lo > 1:
        mid = (lo + hi) // 2
        h2 = dict(head, n=mid)
        with open(tp, "w") as f:
            f.write(json.dumps(h2, separators=(",", ":")) + "\n")
            f.write("\n".join(lines[1:1 + mid]) + "\n")
        rej, _ = validate(module, tp, cfg)
        if rej:
            hi = mid
        else:
            lo = mid
    shutil.rmtree(d, ignore_errors=True)
    return hi
