"""H3: traces recorded by the guarded hooks while the repository's own unit tests run (DESIGN.md 2.8).
Converts the raw DataTracker lines to logical coordinates, one execution per (tracker object, initialisation)."""
import json
import os
import subprocess

import vlib

GTEST_FLAGS = ("-I/repo/googletest/googletest/include", "-I/repo/googletest/googletest", "-I/repo/tests/src", "-fno-sanitize=vptr")
BIG = 1 << 20


def s32(x):
    x &= 0xffffffff
    return x - (1 << 32) if x >= (1 << 31) else x


def run_tests(name, raw_path, timeout=900):
    """Builds harness/<name>.cpp (the unedited test source + gtest) against the hooked build and runs it with the trace on.
    Returns (exit code, tail of the output)."""
    exe = vlib.build_harness(name, extra_flags=GTEST_FLAGS)
    if os.path.exists(raw_path):
        os.remove(raw_path)
    env = dict(os.environ, TINS_VERIF_TRACE=raw_path, ASAN_OPTIONS="detect_leaks=0:exitcode=77", UBSAN_OPTIONS="halt_on_error=1:exitcode=77")
    try:
        r = subprocess.run([exe], env=env, stdout=subprocess.PIPE, stderr=subprocess.STDOUT, timeout=timeout)
    except subprocess.TimeoutExpired:
        raise vlib.ToolFailure("the repository's test binary %s timed out" % name)
    return r.returncode, r.stdout.decode(errors="replace")[-3000:]


def convert_datatracker(raw_path, out_path):
    """-> number of executions written.  Execution = calls on one tracker between two (re)initialisations; it ends at an
    advance_sequence (recovery mode skips data on purpose: outside C06)."""
    cur = {}       # id -> {"base": raw k at init, "k": raw k now, "ev": [...], "ok": bool}
    done = []

    def close(i):
        x = cur.pop(i, None)
        if x and x["ev"]:
            done.append(x)

    with open(raw_path) as f:
        for line in f:
            line = line.strip()
            if not line:
                continue
            r = json.loads(line)
            i = r["id"]
            if r["e"] == "dt_init":
                close(i)
                cur[i] = {"base": r["k"], "k": r["k"], "ev": [], "half": True}
            elif r["e"] == "dt_adv":
                close(i)
            elif r["e"] == "dt_seg" and i in cur:
                x = cur[i]
                off = s32(r["seq"] - x["base"])
                rel = s32(r["seq"] - x["k"])              # position relative to the delivery point before the call
                if abs(rel) >= (1 << 30) or abs(off) > BIG or len(r["b"]) > 4096:
                    x["half"] = False                     # outside "within half the sequence space" (or too big to model)
                ev = {"e": "seg", "off": off if abs(off) <= BIG else 0, "b": r["b"], "k": max(-BIG, min(BIG, s32(r["k"] - x["base"]))),
                      "deliv": r["deliv"], "total": r["total"],
                      "buf": [{"off": max(-BIG, min(BIG, s32(c["seq"] - x["base"]))), "b": c["b"]} for c in r["buf"]]}
                x["ev"].append(ev)
                x["k"] = r["k"]
    for i in list(cur):
        close(i)
    MAXEV, MAXBYTES = 120, 900
    with open(out_path, "w") as f:
        for n, x in enumerate(done):
            # the property is prefix-closed: long executions are validated on a prefix (TLC evaluates Prefix(arrived) at every step)
            evs, tot = [], 0
            for ev in x["ev"]:
                if len(evs) >= MAXEV or tot + len(ev["b"]) > MAXBYTES:
                    break
                evs.append(ev)
                tot += len(ev["b"])
            # the underlying stream, taken from the execution itself: first writer of each position; "onestream" = nobody disagrees
            stream, one = {}, True
            for ev in evs:
                for j, b in enumerate(ev["b"]):
                    q = ev["off"] + j
                    if q < 0:
                        continue
                    if q in stream and stream[q] != b:
                        one = False
                    stream.setdefault(q, b)
            top = max(stream) + 1 if stream else 0
            if top > 4000:
                one = False
                top = 0
            f.write(json.dumps({"e": "Reset", "n": len(evs), "sid": n, "halfspace": x["half"], "onestream": one, "truncated": len(evs) < len(x["ev"]),
                                "stream": [stream.get(q, 0) for q in range(top)]}, separators=(",", ":")) + "\n")
            for ev in evs:
                f.write(json.dumps(ev, separators=(",", ":")) + "\n")
    return len(done), sum(min(len(x["ev"]), MAXEV) for x in done)


def datatracker_part(prop, verdict, tag="h3"):
    """Runs the repository's tcp_ip tests on the hooked build, validates the recorded DataTracker calls against
    ReassemblyAbs (spec/tcp/ReassemblyTraceH3) and files confirmed rejections with the verdict.  Returns stats."""
    d = vlib.workdir(prop)
    raw, tp = os.path.join(d, "%s-raw.ndjson" % tag), os.path.join(d, "%s.trace.ndjson" % tag)
    rc, tail = run_tests("repo_tcp_ip_test", raw)
    if not os.path.exists(raw) or os.path.getsize(raw) == 0:
        raise vlib.ToolFailure("the hooked test binary wrote no trace (rc=%d):\n%s" % (rc, tail[-1500:]))
    nex, nev = convert_datatracker(raw, tp)
    rejected, r = vlib.validate("tcp/ReassemblyTraceH3", tp, "ReassemblyTraceH3.cfg", timeout=1200)
    stats = {"test_binary_rc": rc, "executions": nex, "events": nev, "rejected": len(rejected), "oracle_silent": r.skipped,
             "tlc_states": r.distinct, "tlc_generated": r.generated}
    vlib.log("[h3] tcp_ip_test on the hooked build: rc=%d, %d tracker executions, %d events, %d rejected, %d silent" % (
        rc, nex, nev, len(rejected), r.skipped))
    if rejected:
        # the test binary is deterministic: run it again and keep only executions rejected both times
        raw2, tp2 = raw + ".2", tp + ".2"
        run_tests("repo_tcp_ip_test", raw2)
        convert_datatracker(raw2, tp2)
        rejected2, _ = vlib.validate("tcp/ReassemblyTraceH3", tp2, "ReassemblyTraceH3.cfg", timeout=1200)
        again = {x["sid"] for x in rejected2}
        with open(tp) as f:
            lines = [x.rstrip("\n") for x in f]
        for rj in [x for x in rejected if x["sid"] in again][:3]:
            bad = lines[rj["line"] - 1: rj["line"] + rj["n"]]
            verdict.candidate({"family": "tcp-reassembly", "kind": "rejected", "source": "repo-tests"},
                              "DataTracker calls made by the repository's own tcp_ip tests rejected by tcp/ReassemblyTraceH3: execution %d" % rj["sid"],
                              {"harness": "repo_tcp_ip_test", "sid": rj["sid"], "args": [], "scenario": {"source": "tests/src/tcp_ip_test.cpp"},
                               "execution": {k: v for k, v in rj.items() if k not in ("e", "stream")}, "trace": bad[:40]})
    return stats


def datatracker_replay(prop):
    v = vlib.Verdict(prop)
    st = datatracker_part(prop, v, tag="h3-replay")
    rc = v.finish()
    vlib.log("replay of the repository's tcp_ip tests: %d rejected executions" % st["rejected"])
    return rc
