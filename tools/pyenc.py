"""A small independent packet encoder (Python, from the RFCs) used to hand libtins inputs that were NOT produced by its
own serializer: Ethernet II / 802.1Q / IPv4 (+options) / IPv6 (+extension-header chains) / UDP / TCP (+options) /
ICMP / ICMPv6 with correct lengths and checksums.  Used by C03 (round trip of independent inputs) and C01."""
import struct


def csum(data):
    if len(data) % 2:
        data += b"\0"
    s = sum(struct.unpack("!%dH" % (len(data) // 2), data))
    while s >> 16:
        s = (s & 0xffff) + (s >> 16)
    return (~s) & 0xffff


def udp(sport, dport, payload, pseudo):
    ln = 8 + len(payload)
    h = struct.pack("!HHHH", sport, dport, ln, 0)
    c = csum(pseudo(17, ln) + h + payload) or 0xffff
    return struct.pack("!HHHH", sport, dport, ln, c) + payload


def tcp(sport, dport, seq, ack, flags, win, options, payload, pseudo):
    opts = options + b"\0" * ((4 - len(options) % 4) % 4)
    doff = (20 + len(opts)) // 4
    h = struct.pack("!HHIIBBHHH", sport, dport, seq, ack, doff << 4, flags, win, 0, 0) + opts
    c = csum(pseudo(6, len(h) + len(payload)) + h + payload)
    return h[:16] + struct.pack("!H", c) + h[18:] + payload


def icmp_echo(ident, seq, payload, reply=False):
    h = struct.pack("!BBHHH", 0 if reply else 8, 0, 0, ident, seq)
    c = csum(h + payload)
    return struct.pack("!BBHHH", 0 if reply else 8, 0, c, ident, seq) + payload


def icmp6_echo(ident, seq, payload, pseudo, reply=False):
    t = 129 if reply else 128
    h = struct.pack("!BBHHH", t, 0, 0, ident, seq)
    c = csum(pseudo(58, len(h) + len(payload)) + h + payload)
    return struct.pack("!BBHHH", t, 0, c, ident, seq) + payload


def ipv4(src, dst, proto, upper, options=b"", ident=0x1234, ttl=64, tos=0, flags_frag=0x4000):
    opts = options + b"\0" * ((4 - len(options) % 4) % 4)
    ihl = (20 + len(opts)) // 4
    body = upper(lambda p, ln: src + dst + struct.pack("!BBH", 0, p, ln)) if callable(upper) else upper
    h = struct.pack("!BBHHHBBH", 0x40 | ihl, tos, 20 + len(opts) + len(body), ident, flags_frag, ttl, proto, 0) + src + dst + opts
    c = csum(h)
    return h[:10] + struct.pack("!H", c) + h[12:] + body


def ipv6(src, dst, chain, proto, upper, hop=64, tc=0, flow=0):
    """chain: list of (type, data) extension headers; data is padded to 8n-2 bytes with PadN-style zeros"""
    body = upper(lambda p, ln: src + dst + struct.pack("!IBBBB", ln, 0, 0, 0, p)) if callable(upper) else upper
    ext = b""
    types = [t for t, _ in chain] + [proto]
    for i, (t, data) in enumerate(chain):
        total = 2 + len(data)
        total += (8 - total % 8) % 8
        ext += bytes([types[i + 1], total // 8 - 1]) + data + b"\0" * (total - 2 - len(data))
    h = struct.pack("!IHBB", (6 << 28) | (tc << 20) | flow, len(ext) + len(body), types[0], hop) + src + dst
    return h + ext + body


def ether(dst, src, etype, body, vlans=()):
    tags = b""
    types = [0x88a8 if (len(vlans) == 2 and i == 0) else 0x8100 for i in range(len(vlans))] + [etype]
    for i, v in enumerate(vlans):
        tags += struct.pack("!HH", v, types[i + 1])
    frame = dst + src + struct.pack("!H", types[0]) + tags + body
    return frame


def goldens(rng):
    """independent inputs: list of (name, bytes)"""
    out = []
    m1, m2 = bytes([0, 0x11, 0x22, 0x33, 0x44, 0x55]), bytes([0x66, 0x77, 0x88, 0x99, 0xaa, 0xbb])
    a4, b4 = bytes([192, 0, 2, 7]), bytes([198, 51, 100, 9])
    a6 = bytes([0x20, 1, 0xd, 0xb8] + [0] * 11 + [7])
    b6 = bytes([0x20, 1, 0xd, 0xb8] + [0] * 11 + [9])
    pay = lambda n: bytes(rng.randrange(1, 256) for _ in range(n))
    padn = lambda n: bytes([1, n - 2]) + b"\0" * (n - 2)            # one PadN option filling n bytes
    chains = {
        "hbh": [(0, padn(6))], "dst": [(60, padn(14))], "hbh_dst": [(0, padn(6)), (60, padn(6))],
        "hbh_rt_dst": [(0, padn(6)), (43, bytes([0, 0]) + b"\0" * 4), (60, padn(14))], "dst_dst": [(60, padn(6)), (60, padn(6))],
        "hbh_dst_rt_dst": [(0, padn(6)), (60, padn(6)), (43, bytes([0, 0]) + b"\0" * 4), (60, padn(6))],
    }
    for name, ch in chains.items():
        for vl in ((), (0x2007,), (0x4064, 0x0005)):
            p = pay(rng.randrange(1, 40))
            out.append(("ip6_%s_udp_v%d" % (name, len(vl)), ether(m1, m2, 0x86dd, ipv6(a6, b6, ch, 17, lambda ps: udp(4000, 53, p, ps)), vl)))
            out.append(("ip6_%s_tcp_v%d" % (name, len(vl)), ether(m1, m2, 0x86dd, ipv6(a6, b6, ch, 6, lambda ps: tcp(80, 4001, 7, 9, 0x18, 512, bytes([2, 4, 5, 0xb4, 1, 3, 3, 7]), p, ps)), vl)))
            out.append(("ip6_%s_icmp6_v%d" % (name, len(vl)), ether(m1, m2, 0x86dd, ipv6(a6, b6, ch, 58, lambda ps: icmp6_echo(5, 6, p, ps)), vl)))
    ip4opts = {"none": b"", "nop": bytes([1]), "rr": bytes([7, 7, 4, 1, 2, 3, 4]), "nop_nop_ts": bytes([1, 1, 68, 8, 5, 0, 1, 2, 3, 4]), "sec": bytes([130, 11] + [9] * 9)}
    for name, o in ip4opts.items():
        for vl in ((), (0x2007,)):
            p = pay(rng.randrange(1, 40))
            out.append(("ip4_%s_udp_v%d" % (name, len(vl)), ether(m1, m2, 0x0800, ipv4(a4, b4, 17, lambda ps: udp(4000, 53, p, ps), o), vl)))
            out.append(("ip4_%s_tcp_v%d" % (name, len(vl)), ether(m1, m2, 0x0800, ipv4(a4, b4, 6, lambda ps: tcp(80, 4001, 7, 9, 0x18, 512, bytes([8, 10, 0, 0, 0, 1, 0, 0, 0, 2]), p, ps), o), vl)))
            out.append(("ip4_%s_icmp_v%d" % (name, len(vl)), ether(m1, m2, 0x0800, ipv4(a4, b4, 1, icmp_echo(5, 6, p), o), vl)))
    # short frames without Ethernet padding (as captured on the sending host), incl. IPv4 fragments
    out.append(("ip4_frag_first_short", ether(m1, m2, 0x0800, ipv4(a4, b4, 17, pay(8), b"", flags_frag=0x2000))))
    out.append(("ip4_frag_last_short", ether(m1, m2, 0x0800, ipv4(a4, b4, 17, pay(8), b"", flags_frag=0x0003))))
    out.append(("ip4_frag_mid_vlan", ether(m1, m2, 0x0800, ipv4(a4, b4, 6, pay(16), b"", flags_frag=0x2005), (0x0001,))))
    out.append(("ip4_udp_short", ether(m1, m2, 0x0800, ipv4(a4, b4, 17, lambda ps: udp(1, 2, pay(1), ps)))))
    # ICMP errors with the RFC 4884 length attribute describing LESS than 128 octets and a valid extension structure right
    # behind the original datagram (RFC 4884 requires 128: compliant parsers - libtins included - do not take it as extensions)
    def icmp_err(typ, quote, length_words, ext_payload):
        ext = struct.pack("!BBH", 0x20, 0, 0) + struct.pack("!HBB", 4 + len(ext_payload), 1, 1) + ext_payload
        ext = ext[:2] + struct.pack("!H", csum(ext)) + ext[4:]
        body = struct.pack("!BBHBBH", typ, 0, 0, 0, length_words, 0) + quote + ext
        return body[:2] + struct.pack("!H", csum(body)) + body[4:]
    for words in (9, 16, 31):
        q = ipv4(a4, b4, 17, lambda ps: udp(33434, 40000, pay(words * 4 - 28), ps))
        out.append(("ip4_icmp_ttlx_len%d_ext" % words, ether(m1, m2, 0x0800, ipv4(a4, b4, 1, icmp_err(11, q, words, pay(8))))))
    # PPPoE frames whose payload length is 0, captured before Ethernet padding (20 octets): PADT without tags, empty session packet
    out.append(("pppoe_padt_empty_short", ether(m1, m2, 0x8863, struct.pack("!BBHH", 0x11, 0xa7, 0x1234, 0))))
    out.append(("pppoe_session_empty_short", ether(m1, m2, 0x8864, struct.pack("!BBHH", 0x11, 0, 0x1234, 0))))
    out.append(("pppoe_pads_tag_short", ether(m1, m2, 0x8863, struct.pack("!BBHH", 0x11, 0x65, 0x0042, 8) + struct.pack("!HH", 0x0103, 4) + pay(4))))
    # DNS messages with names at and just beyond the legal limits (255 octets on the wire / 253 characters as text)
    for labels in ([63, 63, 63, 61], [63, 63, 63, 62], [63, 63, 63, 62, 1], [63, 63, 63, 63], [1] * 126, [1] * 127, [1] * 128, [62, 63, 63, 63]):
        qname = b"".join(bytes([n]) + bytes([97 + (i % 26)]) * n for i, n in enumerate(labels)) + b"\0"
        msg = struct.pack("!HHHHHH", 0x4242, 0x8180, 1, 1, 0, 0) + qname + struct.pack("!HH", 1, 1) + bytes([0xc0, 12]) + struct.pack("!HHIH", 5, 1, 60, 2) + bytes([0xc0, 12])
        out.append(("dns_name_%d_%d" % (len(labels), sum(labels)), ether(m1, m2, 0x0800, ipv4(a4, b4, 17, lambda ps: udp(53, 4000, msg, ps)))))
    # ICMPv6 error messages: Parameter Problem (its second word is a POINTER, RFC 4443 3.4 - no RFC 4884 length), Destination
    # Unreachable / Time Exceeded (fifth octet = RFC 4884 length), each quoting more than 128 octets
    def icmp6_err(typ, word2, quote, pseudo):
        h = struct.pack("!BBH", typ, 0, 0) + word2
        c = csum(pseudo(58, len(h) + len(quote)) + h + quote)
        return h[:2] + struct.pack("!H", c) + word2 + quote
    q6 = ipv6(a6, b6, [], 17, lambda ps: udp(33434, 40000, pay(136), ps))
    out.append(("ip6_icmp6_paramprob_ptr40_long", ether(m1, m2, 0x86dd, ipv6(a6, b6, [], 58, lambda ps: icmp6_err(4, struct.pack("!I", 0x28), q6, ps)))))
    out.append(("ip6_icmp6_paramprob_bigptr_long", ether(m1, m2, 0x86dd, ipv6(a6, b6, [], 58, lambda ps: icmp6_err(4, struct.pack("!I", 0x01000030), q6, ps)))))
    out.append(("ip6_icmp6_unreach_len0_long", ether(m1, m2, 0x86dd, ipv6(a6, b6, [], 58, lambda ps: icmp6_err(1, bytes(4), q6, ps)))))
    out.append(("ip6_icmp6_pkttoobig_long", ether(m1, m2, 0x86dd, ipv6(a6, b6, [], 58, lambda ps: icmp6_err(2, struct.pack("!I", 1280), q6, ps)))))
    q4 = ipv4(a4, b4, 17, lambda ps: udp(33434, 40000, pay(132), ps))
    def icmp4_err(typ, code, word2, quote):
        h = struct.pack("!BBH", typ, code, 0) + word2
        return h[:2] + struct.pack("!H", csum(h + quote)) + word2 + quote
    out.append(("ip4_icmp_redirect_long", ether(m1, m2, 0x0800, ipv4(a4, b4, 1, icmp4_err(5, 1, bytes([10, 1, 2, 3]), q4)))))
    out.append(("ip4_icmp_srcquench_long", ether(m1, m2, 0x0800, ipv4(a4, b4, 1, icmp4_err(4, 0, bytes([0, 7, 0, 9]), q4)))))
    out.append(("ip4_icmp_fragneeded_mtu_long", ether(m1, m2, 0x0800, ipv4(a4, b4, 1, icmp4_err(3, 4, struct.pack("!HH", 0, 1400), q4)))))
    # TCP segments with payloads longer than any option could be (a length octet that lies then still points inside the buffer),
    # with an empty, a typical and a full (40 octets) option area
    topts = {"none": b"", "mss_ws": bytes([2, 4, 5, 0xb4, 1, 3, 3, 7]), "ts_sack": bytes([8, 10, 0, 0, 0, 1, 0, 0, 0, 2, 1, 1, 5, 10, 0, 0, 0, 9, 0, 0, 0, 19]),
             "full40": bytes([8, 10, 0, 0, 0, 1, 0, 0, 0, 2, 1, 1, 5, 26] + [0, 0, 1, 0, 0, 0, 1, 9] * 3)}
    for name, o in topts.items():
        p = pay(rng.randrange(64, 200))
        out.append(("ip4_tcp_long_%s" % name, ether(m1, m2, 0x0800, ipv4(a4, b4, 6, lambda ps, p=p, o=o: tcp(80, 4001, 7, 9, 0x18, 512, o, p, ps)))))
        out.append(("ip6_tcp_long_%s" % name, ether(m1, m2, 0x86dd, ipv6(a6, b6, [], 6, lambda ps, p=p, o=o: tcp(443, 4002, 0xfffffff0, 9, 0x10, 1024, o, p, ps)))))
    # every ICMP message format (RFC 792, 950, 1256): fixed part + trailing data of several lengths
    def icmp_msg(typ, code, rest, body):
        h = struct.pack("!BBH", typ, code, 0) + rest
        return h[:2] + struct.pack("!H", csum(h + body)) + rest + body
    ts = struct.pack("!III", 0x01020304, 0x05060708, 0x090a0b0c)
    for trail in (0, 1, 12, 40):
        for typ, nm in ((13, "tsreq"), (14, "tsrep")):
            out.append(("ip4_icmp_%s_t%d" % (nm, trail), ether(m1, m2, 0x0800, ipv4(a4, b4, 1, icmp_msg(typ, 0, struct.pack("!HH", 0x1111, 7), ts + pay(trail))))))
        for typ, nm in ((17, "maskreq"), (18, "maskrep")):
            out.append(("ip4_icmp_%s_t%d" % (nm, trail), ether(m1, m2, 0x0800, ipv4(a4, b4, 1, icmp_msg(typ, 0, struct.pack("!HH", 0x2222, 8), bytes([255, 255, 240, 0]) + pay(trail))))))
        for typ, nm in ((15, "inforeq"), (16, "inforep"), (0, "echorep")):
            out.append(("ip4_icmp_%s_t%d" % (nm, trail), ether(m1, m2, 0x0800, ipv4(a4, b4, 1, icmp_msg(typ, 0, struct.pack("!HH", 0x3333, 9), pay(trail))))))
    out.append(("ip4_icmp_rtrsol", ether(m1, m2, 0x0800, ipv4(a4, b4, 1, icmp_msg(10, 0, bytes(4), b"")))))
    # ICMPv6 informational and neighbour-discovery formats (RFC 4443, 4861, 2710) with options / trailing data
    def icmp6_msg(typ, code, body, pseudo):
        h = struct.pack("!BBH", typ, code, 0)
        c = csum(pseudo(58, len(h) + len(body)) + h + body)
        return h[:2] + struct.pack("!H", c) + body
    lla = bytes([1, 1]) + m1                    # source link-layer address option
    tla = bytes([2, 1]) + m2
    mtu = bytes([5, 1, 0, 0]) + struct.pack("!I", 1500)
    nd = {"rs": (133, bytes(4) + lla), "rs_plain": (133, bytes(4)), "ra": (134, bytes([64, 0xc0]) + struct.pack("!HII", 1800, 30000, 1000) + lla + mtu),
          "ns": (135, bytes(4) + b6 + lla), "ns_plain": (135, bytes(4) + b6), "na": (136, bytes([0x60, 0, 0, 0]) + b6 + tla), "na_plain": (136, bytes([0xe0, 0, 0, 0]) + b6),
          "redirect": (137, bytes(4) + b6 + a6 + tla), "mld_query": (130, struct.pack("!HH", 1000, 0) + bytes(16)), "mld_report": (131, struct.pack("!HH", 0, 0) + bytes([0xff, 2] + [0] * 13 + [0x16])),
          "mld_done": (132, struct.pack("!HH", 0, 0) + bytes([0xff, 2] + [0] * 13 + [0x16])), "echorep": (129, struct.pack("!HH", 5, 6) + pay(20))}
    for nm, (typ, body) in nd.items():
        out.append(("ip6_icmp6_%s" % nm, ether(m1, m2, 0x86dd, ipv6(a6, b6, [], 58, lambda ps, typ=typ, body=body: icmp6_msg(typ, 0, body, ps), hop=255))))
    # short DNS responses whose LAST record is of a fixed-size type (A, AAAA) or ends in a name (MX, NS): lies on the record
    # length then make the decoder want more than the message holds
    q = bytes([1, 97, 2, 98, 99, 0]) + struct.pack("!HH", 1, 1)
    ptr = bytes([0xc0, 12])
    rr = lambda t, rdata: ptr + struct.pack("!HHIH", t, 1, 60, len(rdata)) + rdata
    tails = {"a": rr(1, bytes([192, 0, 2, 1])), "aaaa": rr(28, a6), "mx": rr(15, struct.pack("!H", 10) + bytes([2, 109, 120]) + ptr),
             "ns": rr(2, bytes([2, 110, 115]) + ptr), "cname_a": rr(5, bytes([1, 120]) + ptr) + rr(1, bytes([198, 51, 100, 7]))}
    # ... and records whose length field is honest but too short for their type, at the very end of the message
    for k in (0, 1, 2, 3):
        tails["a_short%d" % k] = rr(1, bytes([192, 0, 2, 1])[:k])
        tails["aaaa_short%d" % (4 * k)] = rr(28, a6[:4 * k])
    tails["mx_short1"] = rr(15, bytes([0]))
    for name, tail in tails.items():
        for sect in (1, 3):      # the record(s) in the answer / in the additional section
            cnt = 2 if name == "cname_a" else 1
            hdr = struct.pack("!HHHHHH", 0x5151, 0x8180, 1, cnt if sect == 1 else 0, 0, cnt if sect == 3 else 0)
            out.append(("dns_last_%s_s%d" % (name, sect), ether(m1, m2, 0x0800, ipv4(a4, b4, 17, lambda ps, m=hdr + q + tail: udp(53, 4000, m, ps)))))
    return out


def app_goldens(rng):
    """independent inputs for the application-layer classes, which are entry points of their own: (name, class, bytes)"""
    out = []
    pay = lambda n: bytes(rng.randrange(1, 256) for _ in range(n))
    rtp = lambda flags, pt, body: struct.pack("!BBHII", flags, pt, 0x1235, 2, 0xdeadbeef) + body
    out.append(("rtp_padding_only", "RTP", rtp(0xa0, 0x60, bytes(6) + bytes([7]))))
    out.append(("rtp_payload_padding", "RTP", rtp(0xa0, 0x60, pay(9) + bytes(3) + bytes([4]))))
    out.append(("rtp_plain", "RTP", rtp(0x80, 0x61, pay(12))))
    out.append(("rtp_csrc_ext_padding", "RTP", struct.pack("!BBHII", 0xb2, 0x62, 7, 8, 9) + struct.pack("!II", 0x11, 0x22) + struct.pack("!HHI", 0xbede, 1, 0x01020304) + pay(8) + bytes([0, 2])))
    out.append(("rtp_padding_one", "RTP", rtp(0xa0, 0x60, bytes([1]))))
    # RadioTap captures: FLAGS with the FCS-at-end bit and nothing but the 4 FCS octets behind the header; the same with an ACK frame
    # in between; without the flag
    rt = lambda flags: struct.pack("<BBHI", 0, 0, 9, 2) + bytes([flags])
    ack = bytes([0xd4, 0, 0, 0, 0, 0x11, 0x22, 0x33, 0x44, 0x55])
    out.append(("radiotap_fcs_only", "RadioTap", rt(0x10) + bytes([0xde, 0xad, 0xbe, 0xef])))
    out.append(("radiotap_fcs_ack", "RadioTap", rt(0x10) + ack + bytes([0xde, 0xad, 0xbe, 0xef])))
    out.append(("radiotap_fcs_other_flags_ack", "RadioTap", rt(0x12) + ack + bytes([1, 2, 3, 4])))
    out.append(("radiotap_nofcs_ack", "RadioTap", rt(0x00) + ack))
    # BOOTP / DHCP: fixed part + cookie + options, END, PAD octets behind it
    bootp = struct.pack("!BBBBIHH", 1, 1, 6, 0, 0x3903f326, 0, 0x8000) + bytes(16) + bytes([0, 0x11, 0x22, 0x33, 0x44, 0x55]) + bytes(10) + bytes(64) + bytes(128)
    opts = bytes([53, 1, 1, 50, 4, 192, 0, 2, 50, 12, 4, 104, 111, 115, 116])
    out.append(("dhcp_end", "DHCP", bootp + bytes([0x63, 0x82, 0x53, 0x63]) + opts + bytes([255])))
    out.append(("dhcp_end_pads", "DHCP", bootp + bytes([0x63, 0x82, 0x53, 0x63]) + opts + bytes([255, 0, 0, 0, 0, 0])))
    out.append(("dhcp_pad_between", "DHCP", bootp + bytes([0x63, 0x82, 0x53, 0x63]) + bytes([0, 53, 1, 2, 0, 0, 51, 4, 0, 0, 14, 16, 255])))
    out.append(("dhcp_no_end", "DHCP", bootp + bytes([0x63, 0x82, 0x53, 0x63]) + opts))
    # options whose length octet is 0 (Rapid Commit, RFC 4039) between and behind ordinary options; a zero-length option last
    out.append(("dhcp_zero_len_between", "DHCP", bootp + bytes([0x63, 0x82, 0x53, 0x63]) + bytes([53, 1, 1, 80, 0, 12, 3, 97, 98, 99, 255])))
    out.append(("dhcp_zero_len_last", "DHCP", bootp + bytes([0x63, 0x82, 0x53, 0x63]) + bytes([53, 1, 1, 12, 3, 97, 98, 99, 80, 0, 255])))
    out.append(("dhcp_zero_len_first_no_end", "DHCP", bootp + bytes([0x63, 0x82, 0x53, 0x63]) + bytes([80, 0, 53, 1, 5])))
    # DHCPv6 message types above Relay-reply (Leasequery 14, Leasequery-reply 15, ... 17): client/server layout (type + transaction id)
    for mt in (14, 15, 16, 17, 36):
        out.append(("dhcp6_type%d" % mt, "DHCPv6", bytes([mt, 0x0a, 0x0b, 0x0c]) + struct.pack("!HH", 1, 6) + bytes([0, 1, 2, 3, 4, 5]) + struct.pack("!HH", 8, 2) + bytes([0, 9])))
    # ... and the same types with a transaction id whose low octets read as an option header (00 01 | 00 04 ...), so that a parser
    # that starts the options two octets early still finds a well-formed message
    for mt in (14, 15, 17):
        out.append(("dhcp6_type%d_xid_like_option" % mt, "DHCPv6", bytes([mt, 0x00, 0x00, 0x01, 0x00, 0x04, 0x00, 0x02, 0xaa, 0xbb])))
    # DHCPv6 options of length 0 as well (Rapid Commit, option 14)
    out.append(("dhcp6_rapid_commit", "DHCPv6", bytes([1, 0x12, 0x34, 0x56]) + struct.pack("!HH", 14, 0) + struct.pack("!HH", 8, 2) + bytes([0, 0]) + struct.pack("!HH", 14, 0)))
    # DHCPv6: SOLICIT with client id (DUID-LL), elapsed time, option request, IA_NA with a nested address
    d6 = bytes([1, 0x12, 0x34, 0x56]) + struct.pack("!HH", 1, 10) + struct.pack("!HH", 3, 1) + bytes([0, 1, 2, 3, 4, 5]) + struct.pack("!HHH", 8, 2, 100) + struct.pack("!HHHH", 6, 4, 23, 24) \
        + struct.pack("!HHIII", 3, 12 + 28, 9, 1000, 2000) + struct.pack("!HH", 5, 24) + bytes([0x20, 1, 0xd, 0xb8] + [0] * 11 + [5]) + struct.pack("!II", 300, 400)
    out.append(("dhcp6_solicit", "DHCPv6", d6))
    out.append(("dhcp6_relay", "DHCPv6", bytes([12, 1]) + bytes([0xfe, 0x80] + [0] * 13 + [1]) + bytes([0xfe, 0x80] + [0] * 13 + [2]) + struct.pack("!HH", 9, len(d6)) + d6))
    # VXLAN over an Ethernet frame; DNS bare
    out.append(("vxlan_eth", "VXLAN", struct.pack("!II", 0x08000000, 0x123456 << 8) + bytes(6) + bytes([2, 0, 0, 0, 0, 1]) + struct.pack("!H", 0x88b5) + pay(20)))
    qn = bytes([3, 119, 119, 119, 2, 98, 99, 0])
    out.append(("dns_bare_mx", "DNS", struct.pack("!HHHHHH", 7, 0x8180, 1, 1, 0, 0) + qn + struct.pack("!HH", 15, 1) + bytes([0xc0, 12]) + struct.pack("!HHIH", 15, 1, 60, 7) + struct.pack("!H", 10) + bytes([2, 109, 120, 0xc0, 16])))
    return out


def l3_offset(frame):
    """offset of the network header in an Ethernet frame built by ether()"""
    o = 12
    while frame[o:o + 2] in (b"\x81\x00", b"\x88\xa8"):
        o += 4
    return o + 2
