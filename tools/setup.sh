#!/bin/sh
# MANIFEST.setup_cmd: offline preparation after a fresh restore (DESIGN.md Appendix B).
# Verifies the tools, regenerates libtins' git-ignored config.h if missing, parses every spec,
# and pre-builds the sanitizer library from /repo's working tree so that the first check starts warm.
set -e
cd "$(dirname "$0")/.."
for t in java g++ ar python3; do command -v $t >/dev/null || { echo "missing tool: $t"; exit 1; }; done
test -f /opt/veriftools/tla/tla2tools.jar || { echo "missing tla2tools.jar"; exit 1; }
mkdir -p build out evidence
python3 - <<'PY'
import sys
sys.path.insert(0, "tools")
import vlib
vlib.ensure_config_h()
print("lib:", vlib.build_lib("asan"))
PY
echo "setup ok"
