------------------------------ MODULE DNSTrace ------------------------------
(* Trace specification for C10: validates executions of the real Tins::DNS (harness/dns_edit.cpp) against the
   four-sequences model.
     init {"init": abstract message, "comp", "bytes": wire produced by the reference encoder, "obs", "rt"}
     add  {"sec", "rec", "obs": sections+counts after the call, "rt": the same after serialize -> parse}
   Sentences of C10:
     "the four section getters return exactly the records inserted or originally present, in order, with fully
      expanded domain names ... and correctly typed data, and the header counts agree" ........ SectionsOK(obs)
     "Serializing and re-parsing gives the same sections" ........ SectionsOK(rt)
   The init step also re-derives the wire bytes from the abstract message with DNSWire!EncMsg, so the bytes the
   real parser was given are known to encode `init`. *)
EXTENDS TraceIO, DNSWire
VARIABLE abs
vars == <<ex, l, abs>>
Init == \E s \in Starts : TraceInit(s) /\ abs = <<>>
QView(q) == [n |-> q.n, t |-> q.t]
RView(r) == [n |-> r.n, t |-> r.t, ttl |-> r.ttl, d1 |-> r.d1, d2 |-> r.d2, v |-> r.v]
View(s, isQ) == [i \in 1..Len(s) |-> IF isQ THEN QView(s[i]) ELSE RView(s[i])]
SectionsOK(o, m) == /\ o.thrown = ""
                    /\ View(o.q, TRUE) = View(m.q, TRUE) /\ View(o.an, FALSE) = View(m.an, FALSE)
                    /\ View(o.ns, FALSE) = View(m.ns, FALSE) /\ View(o.ar, FALSE) = View(m.ar, FALSE)
                    /\ o.counts = <<Len(m.q), Len(m.an), Len(m.ns), Len(m.ar)>>
InitEv == /\ IsEvent("init")
          /\ abs' = Ev.init
          /\ Ev.bytes = EncMsg(Ev.init, Ev.comp).bytes            \* the generator's wire really encodes `init`
          /\ Ev.ctor_thrown = ""
          /\ SectionsOK(Ev.obs, Ev.init) /\ SectionsOK(Ev.rt, Ev.init)
AddEv == /\ IsEvent("add")
         /\ LET m2 == IF Ev.sec = "q" THEN [abs EXCEPT !.q = Append(@, [n |-> Ev.rec.n, t |-> Ev.rec.t])]
                      ELSE [abs EXCEPT ![Ev.sec] = Append(@, Ev.rec)] IN
            /\ abs' = m2
            /\ Ev.thrown = ""
            /\ SectionsOK(Ev.obs, m2) /\ SectionsOK(Ev.rt, m2)
\* "malformed names, pointer loops and out-of-range pointers are reported as errors without touching memory
\* outside the message": a hostile wire yields a packet or a libtins error -- never another exception type (a
\* memory error kills the process and is reported by the driver); a pointer loop / out-of-range pointer in a
\* name the getters must expand has to be reported as an error
FaultEv == /\ IsEvent("fault")
           /\ Ev.outcome \in {"ok", "tins"}
           /\ Ev.mustErr => Ev.outcome = "tins"
           /\ UNCHANGED abs
Next == InitEv \/ AddEv \/ FaultEv
Spec == Init /\ [][Next]_vars
=============================================================================
