SPECIFICATION Spec
CONSTANT Variant = "code"
CONSTANT MaxEdits = 2
CONSTANT InitMsgs <- MCInit
CONSTANT NewRecs <- MCNew
INVARIANT Inv
CHECK_DEADLOCK FALSE
