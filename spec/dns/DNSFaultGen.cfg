SPECIFICATION FSpec
CONSTANT Variant = "code"
CONSTANT MaxEdits = 0
CONSTANT InitMsgs <- MCInit
CONSTANT NewRecs <- MCNew
CONSTRAINT Emit
CHECK_DEADLOCK FALSE
