SPECIFICATION Spec
CONSTANT Variant = "shift_gt"
CONSTANT MaxEdits = 2
CONSTANT InitMsgs <- MCInit
CONSTANT NewRecs <- MCNew
INVARIANT Inv
CHECK_DEADLOCK FALSE
