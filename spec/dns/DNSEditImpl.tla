----------------------------- MODULE DNSEditImpl -----------------------------
(* Implementation-shaped specification of Tins::DNS as an editor of wire bytes (src/dns.cpp): the message is
   records_data_ (all bytes after the 12-byte header) + answers_idx_/authority_idx_/additional_idx_ + the four
   header counts; add_query / add_answer / add_authority / add_additional encode the new record UNCOMPRESSED,
   walk every LATER section shifting each compression pointer whose target lies at or after the splice point
   (update_records / update_dname), bump those sections' offsets, splice the bytes in and bump the count.

   Checked: in every reachable state  Decode(bytes) = the abstract sections  (Coherent) -- i.e. the
   splice-and-shift DESIGN is right, for messages produced by the reference encoder with and without
   compression and every sequence of up to MaxEdits insertions.

   Variant "code"       as the code is after the repairs F1/F2/F20
   Variant "shift_gt"   update_dname's original test `index > threshold`, comparing a MESSAGE offset with a
                        RECORD-DATA offset (12 apart): refuted -- defect F2
   Variant "walk_short" update_dname returning the pointer AT the terminating zero of an uncompressed name, so
                        the record walker is one byte short: refuted -- defect F1
   Variant "soa_skip"   update_records not descending into SOA rdata (two names): refuted -- defect F20 *)
EXTENDS DNSWire
CONSTANTS Variant, MaxEdits, InitMsgs, NewRecs

\* update_dname on the name starting at i: returns <<bytes, index after the name>>
ShiftName(bs, i, thr, off) ==
    LET RECURSIVE W(_)
        W(j) == LET b == bs[j + 1] IN
                IF b = 0 THEN <<bs, IF Variant = "walk_short" THEN j ELSE j + 1>>
                ELSE IF b >= 192 THEN
                     LET idx == (b - 192) * 256 + bs[j + 2]
                         doShift == IF Variant = "shift_gt" THEN idx > thr ELSE idx >= thr + 12
                         nv == Ptr(idx + off)
                     IN <<IF doShift THEN [bs EXCEPT ![j + 1] = nv[1], ![j + 2] = nv[2]] ELSE bs, j + 2>>
                ELSE W(j + 1 + b)
    IN W(i)
\* update_records over n records starting at i
RECURSIVE ShiftSection(_, _, _, _, _)
ShiftSection(bs, i, n, thr, off) ==
    IF n = 0 \/ i >= Len(bs) THEN bs
    ELSE LET s1 == ShiftName(bs, i, thr, off)
             p == s1[2]
             t == Rd16(s1[1], p)
             rl == Rd16(s1[1], p + 8)
             d == p + 10
             b2 == IF t = TMX THEN ShiftName(s1[1], d + 2, thr, off)[1]
                   ELSE IF OneName(t) THEN ShiftName(s1[1], d, thr, off)[1]
                   ELSE IF t = TSOA /\ Variant # "soa_skip"
                        THEN LET m == ShiftName(s1[1], d, thr, off) IN ShiftName(m[1], m[2], thr, off)[1]
                   ELSE s1[1]
         IN ShiftSection(b2, d + rl, n - 1, thr, off)
Splice(bs, at, new) == SubSeq(bs, 1, at) \o new \o SubSeq(bs, at + 1, Len(bs))
EncNew(r) == EncRR(r, 0, <<>>, FALSE)[1]

VARIABLES w, abs, edits
vars == <<w, abs, edits>>
Init == \E m \in InitMsgs, c \in BOOLEAN : w = EncMsg(m, c) /\ abs = m /\ edits = 0
AddQ(r) ==
   LET new == EncPlain(r.n) \o U16(r.t) \o U16(1)  off == Len(new)  thr == w.ansIdx
       b1 == ShiftSection(w.bytes, w.ansIdx, w.counts[2], thr, off)
       b2 == ShiftSection(b1, w.authIdx, w.counts[3], thr, off)
       b3 == ShiftSection(b2, w.addIdx, w.counts[4], thr, off)
   IN /\ w' = [bytes |-> Splice(b3, thr, new), ansIdx |-> w.ansIdx + off, authIdx |-> w.authIdx + off, addIdx |-> w.addIdx + off,
               counts |-> [w.counts EXCEPT ![1] = @ + 1]]
      /\ abs' = [abs EXCEPT !.q = Append(@, [n |-> r.n, t |-> r.t])]
AddAN(r) ==
   LET new == EncNew(r) off == Len(new) thr == w.authIdx
       b2 == ShiftSection(w.bytes, w.authIdx, w.counts[3], thr, off)
       b3 == ShiftSection(b2, w.addIdx, w.counts[4], thr, off)
   IN /\ w' = [w EXCEPT !.bytes = Splice(b3, thr, new), !.authIdx = @ + off, !.addIdx = @ + off, !.counts[2] = @ + 1]
      /\ abs' = [abs EXCEPT !.an = Append(@, r)]
AddNS(r) ==
   LET new == EncNew(r) off == Len(new) thr == w.addIdx
       b3 == ShiftSection(w.bytes, w.addIdx, w.counts[4], thr, off)
   IN /\ w' = [w EXCEPT !.bytes = Splice(b3, thr, new), !.addIdx = @ + off, !.counts[3] = @ + 1]
      /\ abs' = [abs EXCEPT !.ns = Append(@, r)]
AddAR(r) ==
   /\ w' = [w EXCEPT !.bytes = @ \o EncNew(r), !.counts[4] = @ + 1]
   /\ abs' = [abs EXCEPT !.ar = Append(@, r)]
Add(sec, r) == CASE sec = "q" -> AddQ(r) [] sec = "an" -> AddAN(r) [] sec = "ns" -> AddNS(r) [] OTHER -> AddAR(r)
Next == edits < MaxEdits /\ edits' = edits + 1 /\ \E sec \in {"q", "an", "ns", "ar"}, r \in NewRecs : Add(sec, r)
Spec == Init /\ [][Next]_vars

Coherent == Decode(w) = abs
\* every compression pointer that the decoder follows lands inside the record data, and decoding terminates
PointersOK == \A sec \in {"an", "ns", "ar"} : \A i \in 1..Len(Decode(w)[sec]) :
                  LET r == Decode(w)[sec][i] IN ~IsErr(r.n) /\ ~IsErr(r.d1) /\ ~IsErr(r.d2)
IndicesOK == w.ansIdx <= w.authIdx /\ w.authIdx <= w.addIdx /\ w.addIdx <= Len(w.bytes)
Inv == Coherent /\ PointersOK /\ IndicesOK
=============================================================================
