----------------------------- MODULE DNSFaultGen -----------------------------
(* Structured hostile inputs for the "malformed names, pointer loops and out-of-range pointers are reported as
   errors without touching memory outside the message" clause of C10 (and for C01).  Starting from every
   well-formed model message (both encodings) one fault is applied:
     trunc(k)        the wire is cut after k bytes of record data, for EVERY k (counts unchanged)
     byte(p, v)      the byte at EVERY position p is replaced by v in {0, 1, 63, 64, 128, 192, 193, 255, old-1, old+1}
                     (turns terminators into labels, lengths into lies, labels into pointers, and so on)
     ploop / pself   the owner name of the first answer becomes a pointer to itself / a two-pointer cycle
     pout(k)         ... a pointer k bytes past the end of the message (k = 0, 1, 1000) or the largest offset
     phdr(o)         ... a pointer into the 12-byte header (o = 0, 11)
     count(sec, n)   a header count is raised by 1 or to 65535
   For the pointer faults on a name that a section getter must decode, the required outcome is an error
   (mustErr); for all others the only requirement is: a packet or a libtins error, nothing else. *)
EXTENDS MCDNSEdit, Json
VARIABLES msg, comp, fault
fvars == <<msg, comp, fault, w, abs, edits>>
GenInitF == MCInit \ {[q |-> <<>>, an |-> <<>>, ns |-> <<>>, ar |-> <<>>]}
W0 == EncMsg(msg, comp)
Vals(old) == {0, 1, 63, 64, 128, 192, 193, 255, (old + 255) % 256, (old + 1) % 256} \ {old}
HasAnswer == Len(msg.an) > 0
FirstAnswerNameLen == NameLen(W0.bytes, W0.ansIdx)
\* replace the owner name of the first answer by the two bytes ptr (the rest of the record follows directly)
WithOwner(ptr) == SubSeq(W0.bytes, 1, W0.ansIdx) \o ptr \o SubSeq(W0.bytes, W0.ansIdx + FirstAnswerNameLen + 1, Len(W0.bytes))
Faults ==
    {[kind |-> "trunc", bytes |-> SubSeq(W0.bytes, 1, k), counts |-> W0.counts, mustErr |-> FALSE] : k \in 0..(Len(W0.bytes) - 1)}
    \cup UNION {{[kind |-> "byte", bytes |-> [W0.bytes EXCEPT ![p] = v], counts |-> W0.counts, mustErr |-> FALSE] : v \in Vals(W0.bytes[p])} : p \in 1..Len(W0.bytes)}
    \cup (IF HasAnswer THEN
            {[kind |-> "pself", bytes |-> WithOwner(Ptr(12 + W0.ansIdx)), counts |-> W0.counts, mustErr |-> TRUE]}
            \cup {[kind |-> "pout", bytes |-> WithOwner(Ptr(12 + (Len(W0.bytes) - FirstAnswerNameLen + 2) + k)), counts |-> W0.counts, mustErr |-> TRUE] : k \in {0, 1, 1000}}
            \cup {[kind |-> "pout", bytes |-> WithOwner(<<255, 255>>), counts |-> W0.counts, mustErr |-> TRUE]}
            \cup {[kind |-> "phdr", bytes |-> WithOwner(Ptr(o)), counts |-> W0.counts, mustErr |-> TRUE] : o \in {0, 11}}
          ELSE {})
    \cup UNION {{[kind |-> "count", bytes |-> W0.bytes, counts |-> [W0.counts EXCEPT ![s] = n], mustErr |-> FALSE] : n \in {W0.counts[s] + 1, 65535}} : s \in 1..4}
NoFault == [kind |-> "none", bytes |-> <<>>, counts |-> <<0, 0, 0, 0>>, mustErr |-> FALSE]
FInit == /\ msg \in GenInitF /\ comp \in BOOLEAN /\ fault = NoFault /\ w = EncMsg(msg, comp) /\ abs = msg /\ edits = 0
FNext == fault = NoFault /\ \E f \in Faults : fault' = f /\ UNCHANGED <<msg, comp, w, abs, edits>>
FSpec == FInit /\ [][FNext]_fvars
Emit == (fault # NoFault) => PrintT("SCN " \o ToJson([fault |-> fault.kind, bytes |-> fault.bytes, counts |-> fault.counts, mustErr |-> fault.mustErr]))
=============================================================================
