SPECIFICATION GSpec
CONSTANT Variant = "code"
CONSTANT MaxEdits = 3
CONSTANT InitMsgs <- MCInit
CONSTANT NewRecs <- MCNew
CONSTRAINT Emit
CHECK_DEADLOCK FALSE
