------------------------------- MODULE DNSWire -------------------------------
(* Property C10 -- the DNS wire format (RFC 1035 section 4) as far as C10 needs it: a REFERENCE ENCODER with
   and without name compression, a DECODER that chases compression pointers with loop and bounds detection,
   and the abstract message both speak about.

   Abstract message: four sequences (q, an, ns, ar).
     question  [n, t]                    n = name, t = type
     record    [n, t, ttl, d1, d2, v]    d1, d2 = names inside the rdata (<<>> if none), v = numbers
        A(1)      v = 4 octets                NS(2) CNAME(5) PTR(12)   d1 = target
        MX(15)    v = <<preference>>, d1      SOA(6)   d1 = mname, d2 = rname, v = 20 octets (serial ... minimum)
        TXT(16)   v = opaque octets           AAAA(28) v = 16 octets
   A name is a sequence of labels; a label is <<len, ch>> = len copies of the character ch, which lets the model
   speak about 63-octet labels and 255-octet names without enumerating alphabets.

   All offsets in `bytes` are 0-based offsets into the record data, i.e. MESSAGE offset - 12 (libtins keeps the
   12-byte header separately); compression pointers on the wire hold MESSAGE offsets. *)
EXTENDS Naturals, Integers, Sequences, FiniteSets, TLC

TA == 1  TNS == 2  TCNAME == 5  TSOA == 6  TPTR == 12  TMX == 15  TTXT == 16  TAAAA == 28
OneName(t) == t \in {TNS, TCNAME, TPTR, TMX}
U16(n) == <<n \div 256, n % 256>>
U32(n) == <<0, 0, n \div 256, n % 256>>            \* model TTLs are small
Ptr(msgoff) == <<192 + (msgoff \div 256), msgoff % 256>>
LabelBytes(lb) == <<lb[1]>> \o [i \in 1..lb[1] |-> lb[2]]
NameOctets(nm) == LET RECURSIVE S(_) S(i) == IF i > Len(nm) THEN 1 ELSE 1 + nm[i][1] + S(i + 1) IN S(1)   \* wire length, uncompressed
Suffix(nm, i) == SubSeq(nm, i, Len(nm))

RECURSIVE EncPlain(_)
EncPlain(nm) == IF nm = <<>> THEN <<0>> ELSE LabelBytes(Head(nm)) \o EncPlain(Tail(nm))
\* compressing encoder: <<bytes, table>>; pos = MESSAGE offset of the first byte; table: suffix -> message offset
RECURSIVE EncC(_, _, _)
EncC(nm, pos, tab) == IF nm = <<>> THEN <<<<0>>, tab>>
                      ELSE IF nm \in DOMAIN tab THEN <<Ptr(tab[nm]), tab>>
                      ELSE LET r == EncC(Tail(nm), pos + 1 + Head(nm)[1], tab) IN
                           << LabelBytes(Head(nm)) \o r[1], IF pos < 16384 THEN (nm :> pos) @@ r[2] ELSE r[2] >>
EncName(nm, pos, tab, c) == IF c THEN EncC(nm, pos, tab) ELSE <<EncPlain(nm), tab>>

EncRData(r, pos, tab, c) ==
    IF OneName(r.t) THEN LET pre == IF r.t = TMX THEN U16(r.v[1]) ELSE <<>>
                             m == EncName(r.d1, pos + Len(pre), tab, c) IN <<pre \o m[1], m[2]>>
    ELSE IF r.t = TSOA THEN LET m1 == EncName(r.d1, pos, tab, c)
                                m2 == EncName(r.d2, pos + Len(m1[1]), m1[2], c) IN <<m1[1] \o m2[1] \o r.v, m2[2]>>
    ELSE <<r.v, tab>>
EncRR(r, pos, tab, c) ==
    LET n == EncName(r.n, pos, tab, c)
        rd == EncRData(r, pos + Len(n[1]) + 10, n[2], c)
    IN << n[1] \o U16(r.t) \o U16(1) \o U32(r.ttl) \o U16(Len(rd[1])) \o rd[1], rd[2] >>
EncQ(q, pos, tab, c) == LET n == EncName(q.n, pos, tab, c) IN << n[1] \o U16(q.t) \o U16(1), n[2] >>
RECURSIVE EncList(_, _, _, _, _, _)
EncList(items, i, bytes, tab, c, isQ) ==
    IF i > Len(items) THEN <<bytes, tab>>
    ELSE LET e == IF isQ THEN EncQ(items[i], 12 + Len(bytes), tab, c) ELSE EncRR(items[i], 12 + Len(bytes), tab, c)
         IN EncList(items, i + 1, bytes \o e[1], e[2], c, isQ)
\* the wire form libtins keeps: record data + the three section offsets + the four counts
EncMsg(m, c) ==
    LET q == EncList(m.q, 1, <<>>, <<>>, c, TRUE)
        a == EncList(m.an, 1, q[1], q[2], c, FALSE)
        n == EncList(m.ns, 1, a[1], a[2], c, FALSE)
        r == EncList(m.ar, 1, n[1], n[2], c, FALSE)
    IN [bytes |-> r[1], ansIdx |-> Len(q[1]), authIdx |-> Len(a[1]), addIdx |-> Len(n[1]),
        counts |-> <<Len(m.q), Len(m.an), Len(m.ns), Len(m.ar)>>]

---------------------------------------------------------------------------
(* decoder.  Err is the value of a name that cannot be decoded: pointer loop (fuel), pointer outside the
   message or into the header, truncation, or reserved label type bits *)
Err == <<<<0, 0>>>>
IsErr(nm) == nm = Err
RECURSIVE NameAt(_, _, _)
NameAt(bs, i, fuel) ==
    IF fuel = 0 \/ i < 0 \/ i >= Len(bs) THEN Err
    ELSE LET b == bs[i + 1] IN
         IF b = 0 THEN <<>>
         ELSE IF b >= 192 THEN (IF i + 1 >= Len(bs) THEN Err ELSE NameAt(bs, (b - 192) * 256 + bs[i + 2] - 12, fuel - 1))
         ELSE IF b >= 64 THEN Err
         ELSE IF i + 1 + b > Len(bs) THEN Err
         ELSE LET rest == NameAt(bs, i + 1 + b, fuel - 1) IN
              IF IsErr(rest) THEN Err ELSE <<<<b, bs[i + 2]>>>> \o rest
\* length of the name field in place (a pointer ends it)
RECURSIVE NameLen(_, _)
NameLen(bs, i) == IF i >= Len(bs) THEN 1 ELSE LET b == bs[i + 1] IN IF b = 0 THEN 1 ELSE IF b >= 192 THEN 2 ELSE 1 + b + NameLen(bs, i + 1 + b)
Rd16(bs, i) == bs[i + 1] * 256 + bs[i + 2]
Fuel == 140        \* > 127 labels + pointers of the longest legal name
RRAt(bs, i) ==
    LET nl == NameLen(bs, i)  t == Rd16(bs, i + nl)  rl == Rd16(bs, i + nl + 8)  d == i + nl + 10
        n1len == NameLen(bs, d) IN
    [n |-> NameAt(bs, i, Fuel), t |-> t, ttl |-> Rd16(bs, i + nl + 6),
     d1 |-> IF t = TMX THEN NameAt(bs, d + 2, Fuel) ELSE IF OneName(t) \/ t = TSOA THEN NameAt(bs, d, Fuel) ELSE <<>>,
     d2 |-> IF t = TSOA THEN NameAt(bs, d + n1len, Fuel) ELSE <<>>,
     v  |-> IF t = TMX THEN <<Rd16(bs, d)>>
            ELSE IF OneName(t) THEN <<>>
            ELSE IF t = TSOA THEN SubSeq(bs, d + n1len + NameLen(bs, d + n1len) + 1, d + rl)
            ELSE SubSeq(bs, d + 1, d + rl),
     next |-> d + rl]
QAt(bs, i) == LET nl == NameLen(bs, i) IN [n |-> NameAt(bs, i, Fuel), t |-> Rd16(bs, i + nl), next |-> i + nl + 4]
RECURSIVE DecQ(_, _, _)
DecQ(bs, i, n) == IF n = 0 THEN <<>> ELSE LET q == QAt(bs, i) IN <<[n |-> q.n, t |-> q.t]>> \o DecQ(bs, q.next, n - 1)
RECURSIVE DecRR(_, _, _)
DecRR(bs, i, n) == IF n = 0 THEN <<>> ELSE LET r == RRAt(bs, i) IN
                   <<[n |-> r.n, t |-> r.t, ttl |-> r.ttl, d1 |-> r.d1, d2 |-> r.d2, v |-> r.v]>> \o DecRR(bs, r.next, n - 1)
Decode(w) == [q |-> DecQ(w.bytes, 0, w.counts[1]), an |-> DecRR(w.bytes, w.ansIdx, w.counts[2]),
              ns |-> DecRR(w.bytes, w.authIdx, w.counts[3]), ar |-> DecRR(w.bytes, w.addIdx, w.counts[4])]
=============================================================================
