SPECIFICATION Spec
CONSTANT Variant = "walk_short"
CONSTANT MaxEdits = 2
CONSTANT InitMsgs <- MCInit
CONSTANT NewRecs <- MCNew
INVARIANT Inv
CHECK_DEADLOCK FALSE
