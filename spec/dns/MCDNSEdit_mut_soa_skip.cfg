SPECIFICATION Spec
CONSTANT Variant = "soa_skip"
CONSTANT MaxEdits = 2
CONSTANT InitMsgs <- MCInit
CONSTANT NewRecs <- MCNew
INVARIANT Inv
CHECK_DEADLOCK FALSE
