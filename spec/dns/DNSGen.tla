------------------------------- MODULE DNSGen -------------------------------
(* Scenario generator for C10: an initial message (fresh, or the wire bytes of a model message produced by the
   reference encoder DNSWire!EncMsg with or without compression) followed by every sequence of up to MaxEdits
   insertions into any of the four sections.  The longer name classes the property names (63-octet labels,
   many labels, 255-octet names) are part of GenInit / GenNew.  Exported per behaviour:
     {"init": abstract message, "comp": bool, "bytes": [...], "counts": [q,an,ns,ar], "edits": [{"sec","rec"}]} *)
EXTENDS MCDNSEdit, Json
VARIABLE hist, comp, init0
gvars == <<w, abs, edits, hist, comp, init0>>
c63 == <<<<63, 99>>>>                                   \* one 63-octet label
l34 == [i \in 1..34 |-> <<1, 100>>]                     \* 34 one-octet labels (ip6.arpa style)
n255 == <<<<63, 101>>, <<63, 102>>, <<63, 103>>, <<61, 104>>>>     \* 255 octets on the wire, 253 as text
n127 == [i \in 1..127 |-> <<1, 105>>]                   \* the maximum number of labels (255 octets)
\* the root name (no labels; "" in libtins' text form) as owner and as record data: the null MX "0 .", a root name server, an SOA whose
\* responsible-person name is the root
root == <<>>
GenInit == MCInit \cup {
  [q |-> <<Q(n255, TA)>>, an |-> <<R(n255, TCNAME, c63 \o ab, <<>>, <<>>)>>, ns |-> <<>>, ar |-> <<R(c63 \o ab, TA, <<>>, <<>>, <<8,8,8,8>>)>>],
  [q |-> <<Q(root, TNS)>>, an |-> <<R(root, TNS, ab, <<>>, <<>>), R(ab, TMX, root, <<>>, <<0>>)>>, ns |-> <<>>, ar |-> <<R(ab, TA, <<>>, <<>>, <<10,0,0,1>>)>>],
  [q |-> <<Q(l34, TPTR)>>, an |-> <<R(l34, TPTR, ab, <<>>, <<>>)>>, ns |-> <<R(ab, TNS, c63, <<>>, <<>>)>>, ar |-> <<>>],
  \* records BEHIND every insertion point whose OWNER name is partially compressed (a label, then a pointer to "b" in the first
  \* section), followed by records whose owner is a pointer to a name that is written out behind the insertion point
  [q |-> <<Q(b, TA)>>, an |-> <<R(b, TA, <<>>, <<>>, <<1,1,1,1>>)>>, ns |-> <<R(ab, TNS, c63, <<>>, <<>>)>>, ar |-> <<R(c63, TA, <<>>, <<>>, <<2,2,2,2>>)>>],
  [q |-> <<>>, an |-> <<R(b, TA, <<>>, <<>>, <<3,3,3,3>>)>>, ns |-> <<>>,
        ar |-> <<R(ab, TMX, c63, <<>>, <<5>>), R(bab, TSOA, c63, l34, Z20), R(l34, TA, <<>>, <<>>, <<6,6,6,6>>), R(c63, TA, <<>>, <<>>, <<7,7,7,7>>)>>] }
\* record types libtins has no typed view for (MB 7, MG 8, MR 9, an unassigned one): their data are opaque octets - also when they
\* look like a name or contain the octets of a compression pointer
GenNew == MCNew \cup { R(a, 7, <<>>, <<>>, <<1, 97, 192, 12>>), R(ab, 8, <<>>, <<>>, <<192, 12>>), R(b, 9, <<>>, <<>>, <<3, 119, 119, 119, 0>>),
                       R(ab, 65280, <<>>, <<>>, <<192, 192, 0, 5>>),
                       R(root, TNS, ab, <<>>, <<>>), R(ab, TMX, root, <<>>, <<0>>), R(b, TSOA, root, ab, Z20), R(a, TCNAME, root, <<>>, <<>>),
                       R(l34, TPTR, n255, <<>>, <<>>), R(c63, TTXT, <<>>, <<>>, <<2, 0, 255>>), R(ab, TSOA, b, ab, Z20),
                       R(n127, TNS, a, <<>>, <<>>), R(b, TAAAA, <<>>, <<>>, [i \in 1..16 |-> i * 3]) }
GInit == \E m \in GenInit, c \in BOOLEAN : /\ w = EncMsg(m, c) /\ abs = m /\ edits = 0 /\ hist = <<>> /\ comp = c /\ init0 = m
GNext == /\ edits < MaxEdits /\ edits' = edits + 1 /\ UNCHANGED <<comp, init0>>
         \* the first two insertions range over all record kinds, a third one (thorough tier) over the three of the model-checked set
         /\ \E sec \in {"q", "an", "ns", "ar"}, r \in (IF edits < 2 THEN GenNew ELSE MCNew) : Add(sec, r) /\ hist' = Append(hist, [sec |-> sec, rec |-> r])
GSpec == GInit /\ [][GNext]_gvars
W0 == EncMsg(init0, comp)
Emit == (edits = MaxEdits) => PrintT("SCN " \o ToJson([init |-> init0, comp |-> comp, bytes |-> W0.bytes, counts |-> W0.counts, edits |-> hist]))
=============================================================================
