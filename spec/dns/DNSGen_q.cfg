SPECIFICATION GSpec
CONSTANT Variant = "code"
CONSTANT MaxEdits = 2
CONSTANT InitMsgs <- MCInit
CONSTANT NewRecs <- MCNew
CONSTRAINT Emit
CHECK_DEADLOCK FALSE
