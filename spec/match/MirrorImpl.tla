----------------------------- MODULE MirrorImpl -----------------------------
(* Implementation-shaped model of libtins' matcher chain for C14, one operator per layer class, transcribed from
   matches_response in src/ethernetII.cpp, dot1q.cpp, ip.cpp, ipv6.cpp, tcp.cpp, udp.cpp, icmp.cpp, icmpv6.cpp, dns.cpp:
   "per-layer matcher checks its own header against the reply bytes and delegates the rest to the inner layer".

   TLC evaluates it on EVERY case of Mirror!Cases and compares it with Mirror!Expected.  Two purposes:
     1. the relation itself is sane (MirrorSound: the mirror differs in nothing, a perturbation differs in exactly
        the perturbed field) and the INTENDED matcher design (Variant = "intended") agrees with the property on the
        whole case space;
     2. non-vacuity of the case space: each listed way of getting a matcher wrong (CONSTANT Variant) is refuted by
        at least one enumerated case, i.e. the scenarios that are replayed on the real classes are able to tell
        these designs apart.  Two of the variants are the code as it is written today:
          "eth_src_unchecked"  EthernetII compares  header_.src_mac == reply.dst_mac  twice and never looks at the
                               reply's source address
          "unreach_any"        IP treats every ICMP destination-unreachable as a match (memcmp(...) != 0 taken as
                               "same header", and the comparison starts 4 bytes early)
   This level never raises VIOLATION (DESIGN 2.3); only the trace validation of the real code does. *)
EXTENDS Mirror, TLC
CONSTANT Variant
VARIABLE c
Is(v) == Variant = v

UpperCode(r, m) ==
    CASE r.upper \in {"tcp", "udp"} ->
            /\ m.upper = r.upper
            /\ IF Is("wrong_port") THEN m.sport = r.sport /\ m.dport = r.dport        \* compares the wrong port
               ELSE IF Is("one_port") THEN m.sport = r.dport
               ELSE m.sport = r.dport /\ m.dport = r.sport
      [] r.upper = "dns" ->
            /\ m.upper = "dns" /\ m.sport = r.dport /\ m.dport = r.sport
            /\ (Is("no_dns_id") \/ m.dnsid = r.dnsid)
      [] OTHER ->                                                                  \* ICMP / ICMPv6 queries
            /\ m.upper = r.upper /\ m.type = ReplyType(r.upper)
            /\ (IF Is("swapped_id_seq") THEN m.id = r.seq /\ m.seq = r.id
                ELSE m.id = r.id /\ (Is("no_seq") \/ m.seq = r.seq))
NetCode(r, m) ==
    IF r.net = "ip4" /\ m.upper = "unreach" /\ (Is("unreach_any") \/ m.quote = "own") THEN TRUE
    ELSE /\ m.ip_dst = r.ip_src
         /\ (Is("ip_src_unchecked") \/ m.ip_src = r.ip_dst)
         /\ UpperCode(r, m)
VlanCode(r, m) == IF r.link = "vlan" THEN (Is("no_vlan_id") \/ m.vid = r.vid) /\ NetCode(r, m) ELSE NetCode(r, m)
MatchCode(r, m) == /\ m.eth_dst = r.eth_src
                   /\ (Is("eth_src_unchecked") \/ m.eth_src = r.eth_dst)
                   /\ VlanCode(r, m)

Init == c \in Cases
Next == UNCHANGED c
Spec == Init /\ [][Next]_c

MirrorSound == /\ c.kind = "mirror" => Diff(c.r, c.m) = {} /\ Expected(c.r, c.m) = "yes"
               /\ c.kind = "perturb" => Diff(c.r, c.m) = {c.field} /\ Expected(c.r, c.m) = "no"
               /\ c.kind = "unreach" => Expected(c.r, c.m) = (IF c.m.quote = "own" THEN "silent" ELSE "no")
Agree == LET e == Expected(c.r, c.m) IN e = "silent" \/ MatchCode(c.r, c.m) = (e = "yes")
=============================================================================
