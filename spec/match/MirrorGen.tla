------------------------------ MODULE MirrorGen ------------------------------
(* Scenario generator for C14.  Part = "match": every case of Mirror!Cases (request r over every listed stack and
   value pattern; candidate reply m = the mirror, every single-field perturbation of the mirror on every matched field
   with every other abstract value, and the destination-unreachable strangers), exported as
       {"r":{...},"m":{...},"kind":"mirror|perturb|unreach","field":f,"val":v}
   MirrorOf / Perturb are evaluated HERE; the driver only concretises field values (harness/match_resp.cpp).
   Part = "safe": the buffer dimension of the memory-safety clause -- "every buffer of any length, including zero"
   is rendered as every prefix length 0..128 of every buffer source; tools/families/c14.py crosses it with every
   layer object ("for every layer class"). *)
EXTENDS Mirror, Sequences, TLC, Json
CONSTANT Part
Sources == {"reply", "mutated", "random", "ones", "zeros", "typeup", "typedown", "type0", "unreach", "tagged"}      \* type*: own image, leading type octet of the innermost layer +1 / -1 / 0
SafeCases == {[src |-> s, n |-> n] : s \in Sources, n \in 0..128}
VARIABLE c
Init == c \in (IF Part = "match" THEN Cases ELSE SafeCases)
Next == UNCHANGED c
Spec == Init /\ [][Next]_c
Emit == PrintT("SCN " \o ToJson(c))
=============================================================================
