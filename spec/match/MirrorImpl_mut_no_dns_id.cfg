SPECIFICATION Spec
CONSTANT Variant = "no_dns_id"
INVARIANT MirrorSound
INVARIANT Agree
CHECK_DEADLOCK FALSE
