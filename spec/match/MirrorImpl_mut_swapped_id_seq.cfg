SPECIFICATION Spec
CONSTANT Variant = "swapped_id_seq"
INVARIANT MirrorSound
INVARIANT Agree
CHECK_DEADLOCK FALSE
