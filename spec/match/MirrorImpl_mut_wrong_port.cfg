SPECIFICATION Spec
CONSTANT Variant = "wrong_port"
INVARIANT MirrorSound
INVARIANT Agree
CHECK_DEADLOCK FALSE
