SPECIFICATION Spec
CONSTANT Variant = "unreach_any"
INVARIANT MirrorSound
INVARIANT Agree
CHECK_DEADLOCK FALSE
