----------------------------- MODULE MirrorTrace -----------------------------
(* Trace specification for C14: validates what the real PDU::matches_response answered (harness/match_resp.cpp).

   event "match"   {"r":abstract request,"m":abstract candidate reply,"req":[bytes],"rep":[bytes],"verdict":bool}
       The request and the candidate reply are READ OFF THE SERIALISED BYTES here (Ethernet II / 802.1Q / IPv4 / IPv6 /
       TCP / UDP / ICMP / ICMPv6 / DNS header offsets from IEEE 802.3, 802.1Q, RFC 791, 8200, 9293, 768, 792, 4443,
       1035 -- independent of libtins' structs) into packet records of the shape Mirror.tla defines, and
       Mirror!Expected -- the property -- is applied to those records.  The verdict libtins returned has to be the
       expected one unless the property is silent.
       The abstract records the scenario was generated from are used only to check that the driver built what TLC
       asked for (same expectation, same set of differing fields).  A disagreement there is a defect of the DRIVER, not
       of libtins: the execution is then counted as skipped (register 3) and tools/families/c14.py turns any unexpected
       skip into a tool failure (exit 2), never into a VIOLATION.
   event "safe"    {"obj","src","n","len","heap":bool,"guard":bool}
       "For every layer class and every buffer of any length, including zero, response matching reads only inside the
        buffer."  The read itself is observed by the monitors (ASan red zone behind an exact-size heap block, PROT_NONE
       pages behind the second placement): an execution that is present in the trace returned from both calls.  What
       is checked here: the call was made with exactly the generated length, and both placements of the same n bytes
       gave the same answer (a matcher that reads only inside the buffer is a function of its content). *)
EXTENDS TraceIO, Integers
VARIABLE note            \* "ok" | "silent" (property does not speak) | "unfaithful" (driver did not build the scenario)
vars == <<ex, l, note>>
M == INSTANCE Mirror

B(bs, o) == bs[o + 1]
U16(bs, o) == B(bs, o) * 256 + B(bs, o + 1)
Slice(bs, o, n) == SubSeq(bs, o + 1, o + n)

(* IPv6 extension-header chain (RFC 8200 4: hop-by-hop 0, routing 43, destination options 60; Hdr Ext Len counts 8-octet
   units beyond the first): <<offset of the upper-layer header, its protocol number>> *)
RECURSIVE SkipExt(_, _, _, _)
SkipExt(bs, o, nh, fuel) == IF nh \in {0, 43, 60} /\ fuel > 0 THEN SkipExt(bs, o + (B(bs, o + 1) + 1) * 8, B(bs, o), fuel - 1)
                            ELSE <<o, nh>>

(* the packet record of a serialised frame.  hint: the request's upper layer -- only used to tell "dns" from "udp" (both
   are UDP on the wire, ports are arbitrary); reqQuote: what an ICMP error would quote if it quoted the request *)
Read(bs, hint, reqQuote) ==
    LET tagged == U16(bs, 12) = 33024                                   \* 0x8100, IEEE 802.1Q TPID
        o3 == IF tagged THEN 18 ELSE 14
        et == IF tagged THEN U16(bs, 16) ELSE U16(bs, 12)
        net == IF et = 2048 THEN "ip4" ELSE IF et = 34525 THEN "ip6" ELSE "other"
        ip4 == net = "ip4"
        x6 == SkipExt(bs, o3 + 40, B(bs, o3 + 6), 4)
        o4 == IF ip4 THEN o3 + (B(bs, o3) % 16) * 4 ELSE x6[1]                 \* IHL (RFC 791) / end of the extension chain
        proto == IF ip4 THEN B(bs, o3 + 9) ELSE x6[2]
        t == B(bs, o4)
        upper == CASE proto = 6 -> "tcp"
                   [] proto = 17 -> (IF hint = "dns" THEN "dns" ELSE "udp")
                   [] proto = 1 /\ ip4 -> (CASE t \in {8, 0} -> "echo" [] t \in {13, 14} -> "tstamp" [] t \in {17, 18} -> "mask"
                                             [] t = 3 -> "unreach" [] OTHER -> "other")
                   [] proto = 58 /\ ~ip4 -> (CASE t \in {128, 129} -> "echo6" [] t = 1 -> "unreach" [] OTHER -> "other")
                   [] OTHER -> "other"
        ports == upper \in {"tcp", "udp", "dns"}
        idseq == upper \in {"echo", "tstamp", "mask", "echo6"}
        qlen == IF ip4 THEN 20 ELSE 40
    IN [link |-> IF tagged THEN "vlan" ELSE "eth", net |-> net, upper |-> upper,
        type |-> IF idseq \/ upper = "unreach" THEN t ELSE 0,
        eth_dst |-> Slice(bs, 0, 6), eth_src |-> Slice(bs, 6, 6),
        vid |-> IF tagged THEN (B(bs, 14) % 16) * 256 + B(bs, 15) ELSE 0,
        ip_src |-> IF ip4 THEN Slice(bs, o3 + 12, 4) ELSE Slice(bs, o3 + 8, 16),
        ip_dst |-> IF ip4 THEN Slice(bs, o3 + 16, 4) ELSE Slice(bs, o3 + 24, 16),
        sport |-> IF ports THEN U16(bs, o4) ELSE 0, dport |-> IF ports THEN U16(bs, o4 + 2) ELSE 0,
        id |-> IF idseq THEN U16(bs, o4 + 4) ELSE 0, seq |-> IF idseq THEN U16(bs, o4 + 6) ELSE 0,
        dnsid |-> IF upper = "dns" THEN U16(bs, o4 + 8) ELSE 0,
        quote |-> IF upper # "unreach" THEN "none"
                  ELSE IF Len(bs) >= o4 + 8 + qlen /\ Slice(bs, o4 + 8, qlen) = reqQuote THEN "own" ELSE "other"]
IPHeader(bs) == LET tagged == U16(bs, 12) = 33024  o3 == IF tagged THEN 18 ELSE 14
                    et == IF tagged THEN U16(bs, 16) ELSE U16(bs, 12)
                IN Slice(bs, o3, IF et = 2048 THEN 20 ELSE 40)

Init == \E s \in Starts : TraceInit(s) /\ note = "ok"

Match == /\ IsEvent("match")
         /\ LET creq == Read(Ev.req, Ev.r.upper, <<>>)
                crep == Read(Ev.rep, Ev.r.upper, IPHeader(Ev.req))
                exp == M!Expected(creq, crep)                           \* the property, applied to the bytes
                faithful == /\ exp = M!Expected(Ev.r, Ev.m)
                            /\ M!Diff(creq, crep) = M!Diff(Ev.r, Ev.m)
                            /\ creq.upper = Ev.r.upper /\ creq.link = Ev.r.link /\ creq.net = Ev.r.net
            IN IF ~faithful THEN note' = "unfaithful"
               ELSE IF exp = "silent" THEN note' = "silent"
               ELSE /\ Ev.verdict = (exp = "yes")                       \* "is recognised" / "is not"
                    /\ note' = "ok"
Safe == /\ IsEvent("safe")
        /\ ~Ev.missing
        /\ Ev.len = Ev.n                     \* "every buffer of any length, including zero"
        /\ Ev.heap = Ev.guard                \* reads only inside the buffer => the answer is a function of its content
        /\ note' = "ok"
Next == Match \/ Safe
MarkSilent == NoteSkipped(note # "ok")
Spec == Init /\ [][Next]_vars
=============================================================================
