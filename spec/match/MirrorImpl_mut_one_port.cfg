SPECIFICATION Spec
CONSTANT Variant = "one_port"
INVARIANT MirrorSound
INVARIANT Agree
CHECK_DEADLOCK FALSE
