SPECIFICATION Spec
CONSTANT Variant = "no_seq"
INVARIANT MirrorSound
INVARIANT Agree
CHECK_DEADLOCK FALSE
