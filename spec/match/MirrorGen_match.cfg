SPECIFICATION Spec
CONSTANT Part = "match"
CONSTRAINT Emit
CHECK_DEADLOCK FALSE
