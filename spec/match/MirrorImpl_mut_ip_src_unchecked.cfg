SPECIFICATION Spec
CONSTANT Variant = "ip_src_unchecked"
INVARIANT MirrorSound
INVARIANT Agree
CHECK_DEADLOCK FALSE
