SPECIFICATION Spec
CONSTANT Part = "safe"
CONSTRAINT Emit
CHECK_DEADLOCK FALSE
