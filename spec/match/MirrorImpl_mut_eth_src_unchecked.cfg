SPECIFICATION Spec
CONSTANT Variant = "eth_src_unchecked"
INVARIANT MirrorSound
INVARIANT Agree
CHECK_DEADLOCK FALSE
