SPECIFICATION Spec
CONSTANT Variant = "no_vlan_id"
INVARIANT MirrorSound
INVARIANT Agree
CHECK_DEADLOCK FALSE
