------------------------------- MODULE Mirror -------------------------------
(* Property C14 -- the request <-> reply relation that PDU::matches_response has to decide, property level.

   "For any request built from Ethernet, 802.1Q, IPv4 or IPv6 carrying TCP, UDP with a payload, ICMP or ICMPv6
    echo/timestamp/address-mask queries, or DNS, the serialization of the mirrored reply (addresses and ports
    swapped, matching reply type with the same identifier and sequence number, same DNS id) is recognised as a
    response to that request, while a packet that differs in any matched address, port or identifier is not."

   The model is a RELATION, not a state machine.  A packet (request or candidate reply) is a record

       [link, net, upper, type, eth_src, eth_dst, vid, ip_src, ip_dst, sport, dport, id, seq, dnsid, quote]

   link   "eth" | "vlan"             Ethernet II, optionally one 802.1Q tag           ("Ethernet, 802.1Q")
   net    "ip4" | "ip6"                                                                ("IPv4 or IPv6")
   upper  "tcp" | "udp" | "echo" | "tstamp" | "mask" | "echo6" | "dns"               ("TCP, UDP with a payload, ICMP or
          ICMPv6 echo/timestamp/address-mask queries, or DNS" -- DNS travels in UDP; ICMPv6 has only the echo query)
          "unreach"  (candidate replies only) an ICMP / ICMPv6 destination-unreachable error message
   type   ICMP / ICMPv6 type octet (RFC 792, RFC 950, RFC 4443), 0 for the other uppers
   quote  "none"; for "unreach": "own" = the error quotes the request's own IP header, "other" = it quotes an
          unrelated datagram
   Fields a stack does not have are 0.  The operators below never look inside a field value, they only move and
   compare values, so the same operators are applied to the abstract packets TLC enumerates (values 1, 2, 3) and,
   in MirrorTrace, to the field values read off the bytes libtins serialised (byte sequences, 16-bit numbers).

   MATCHED FIELDS per stack (the fields the sentence "(addresses and ports swapped, matching reply type with the
   same identifier and sequence number, same DNS id)" fixes in the reply, and that "differs in any matched address,
   port or identifier" therefore ranges over):
       Ethernet II      eth_src, eth_dst     "addresses ... swapped"
       802.1Q           vid                  the VLAN identifier: a tagged reply travels in the request's VLAN
                                             ("identifier"; libtins' Dot1Q matcher compares exactly this field)
       IPv4 / IPv6      ip_src, ip_dst       "addresses ... swapped"
       TCP, UDP         sport, dport         "ports swapped"
       ICMP / ICMPv6    id, seq              "matching reply type with the same identifier and sequence number"
       DNS (over UDP)   sport, dport, dnsid  "ports swapped", "same DNS id"
   NOT matched (free in a mirrored reply, chosen arbitrarily by the driver): TTL / hop limit, TOS, IP id, flags, TCP
   sequence / acknowledgement numbers, flags and window, 802.1Q priority / DEI, payload bytes and payload length,
   ICMP timestamps and mask, DNS records, checksums.

   WILDCARDS libtins documents (excluded from generation, never used to loosen the oracle): a request whose
   Ethernet destination is broadcast / multicast (ethernetII.cpp: !dst_addr().is_unicast()), whose IPv4
   destination is 255.255.255.255 (ip.cpp: dst_addr().is_broadcast(), also with source 0.0.0.0) or whose IPv6
   destination is an ff02::/16 multicast address (ipv6.cpp) accepts replies from any source.  Concretisation
   (harness/match_resp.cpp) only produces unicast MAC, IPv4 and IPv6 addresses.

   Freedom: the property says nothing about (a) packets of a different shape whose outer addresses all agree with
   the mirror, (b) ICMP error messages that quote the request itself (libtins documents those as answers:
   pdu.h "in some cases, such as ICMP Host Unreachable, there is no need to ask the next layer") -- Expected is
   "silent" there. *)
EXTENDS Naturals, FiniteSets

Links == {"eth", "vlan"}
Nets == {"ip4", "ip6"}
Uppers(net) == IF net = "ip4" THEN {"tcp", "udp", "echo", "tstamp", "mask", "dns"}
                              ELSE {"tcp", "udp", "echo6", "dns"}

(* RFC 792: echo 8 / echo reply 0, timestamp 13 / timestamp reply 14;  RFC 950: address mask request 17 / reply 18;
   RFC 4443: echo request 128 / echo reply 129.  "matching reply type" *)
ReqType(u) == CASE u = "echo" -> 8 [] u = "tstamp" -> 13 [] u = "mask" -> 17 [] u = "echo6" -> 128 [] OTHER -> 0
ReplyType(u) == CASE u = "echo" -> 0 [] u = "tstamp" -> 14 [] u = "mask" -> 18 [] u = "echo6" -> 129 [] OTHER -> 0
UnreachType(net) == IF net = "ip4" THEN 3 ELSE 1      \* RFC 792 type 3, RFC 4443 type 1

HasPorts(u) == u \in {"tcp", "udp", "dns"}
HasIdSeq(u) == u \in {"echo", "tstamp", "mask", "echo6"}

OuterFields == {"eth_src", "eth_dst", "vid", "ip_src", "ip_dst"}
Matched(r) == {"eth_src", "eth_dst"}                                       \* Ethernet: "addresses ... swapped"
              \cup (IF r.link = "vlan" THEN {"vid"} ELSE {})                \* 802.1Q: the VLAN identifier
              \cup {"ip_src", "ip_dst"}                                     \* IPv4 / IPv6: "addresses ... swapped"
              \cup (IF HasPorts(r.upper) THEN {"sport", "dport"} ELSE {})   \* "ports swapped"
              \cup (IF HasIdSeq(r.upper) THEN {"id", "seq"} ELSE {})        \* "same identifier and sequence number"
              \cup (IF r.upper = "dns" THEN {"dnsid"} ELSE {})              \* "same DNS id"

(* "the mirrored reply (addresses and ports swapped, matching reply type with the same identifier and sequence
    number, same DNS id)" *)
MirrorOf(r) == [r EXCEPT !.eth_src = r.eth_dst, !.eth_dst = r.eth_src,
                         !.ip_src = r.ip_dst, !.ip_dst = r.ip_src,
                         !.sport = r.dport, !.dport = r.sport,
                         !.type = ReplyType(r.upper)]

(* "a packet that differs in [a] matched address, port or identifier": exactly field f gets the different value v *)
Perturb(m, f, v) == [m EXCEPT ![f] = v]

IsReplyShape(r, m) == m.link = r.link /\ m.net = r.net /\ m.upper = r.upper /\ m.type = ReplyType(r.upper)
(* the matched fields in which m differs from the mirrored reply (for a packet of another shape only the outer
   fields, which every packet of that link / network type has, are comparable) *)
Diff(r, m) == LET mir == MirrorOf(r)
                  fs == IF IsReplyShape(r, m) THEN Matched(r) ELSE Matched(r) \cap OuterFields
              IN {f \in fs : m[f] # mir[f]}

(* The verdict the property demands of matches_response(r, serialization of m):
     "yes"     m is the mirrored reply                      "is recognised as a response to that request"
     "no"      m differs from it in a matched field         "a packet that differs in any matched address, port or
                                                             identifier is not"
     "silent"  the property does not speak (see Freedom above) *)
Expected(r, m) ==
    IF IsReplyShape(r, m) THEN (IF Diff(r, m) = {} THEN "yes" ELSE "no")
    ELSE IF m.link = r.link /\ m.net = r.net /\ Diff(r, m) # {} /\ ~(m.upper = "unreach" /\ m.quote = "own") THEN "no"
    ELSE "silent"

----------------------------------------------------------------------------
(* The abstract case space.  Values: 1, 2 occur in requests, 3 is fresh.  A perturbed field takes every other value of
   1..3, so both "a stranger's value" (3) and "the peer's own value" (e.g. reply source port := reply destination
   port) are covered.  Requests come with distinct and with equal port pairs / id-seq pairs (DNS 53 <-> 53; id = seq). *)
Vals == 1..3
PairPatterns == {<<1, 2>>, <<1, 1>>}
Shapes == {[link |-> l, net |-> n, upper |-> u] : l \in Links, n \in Nets, u \in {"tcp", "udp", "echo", "tstamp", "mask", "echo6", "dns"}}
Requests == {[link |-> l, net |-> n, upper |-> u, type |-> ReqType(u), eth_src |-> 1, eth_dst |-> 2,
              vid |-> (IF l = "vlan" THEN 1 ELSE 0), ip_src |-> 1, ip_dst |-> 2,
              sport |-> (IF HasPorts(u) THEN p[1] ELSE 0), dport |-> (IF HasPorts(u) THEN p[2] ELSE 0),
              id |-> (IF HasIdSeq(u) THEN p[1] ELSE 0), seq |-> (IF HasIdSeq(u) THEN p[2] ELSE 0),
              dnsid |-> (IF u = "dns" THEN 1 ELSE 0), quote |-> "none"] :
                 l \in Links, n \in Nets, u \in Uppers("ip4") \cup Uppers("ip6"), p \in PairPatterns}
Legal(r) == r.upper \in Uppers(r.net)

(* an ICMP destination-unreachable from host s to host d: "a destination-unreachable from an unrelated host quoting
   an unrelated datagram" is the instance s = 3, q = "other"; it differs from the mirror in the matched address ip_src *)
Unreach(r, s, d, q) == [MirrorOf(r) EXCEPT !.upper = "unreach", !.type = UnreachType(r.net), !.ip_src = s, !.ip_dst = d,
                                           !.sport = 0, !.dport = 0, !.id = 0, !.seq = 0, !.dnsid = 0, !.quote = q]

CasesOf(r) ==
    {[r |-> r, m |-> MirrorOf(r), kind |-> "mirror", field |-> "none", val |-> 0]}
    \cup UNION {{[r |-> r, m |-> Perturb(MirrorOf(r), f, v), kind |-> "perturb", field |-> f, val |-> v] :
                    v \in {w \in Vals : w # MirrorOf(r)[f]}} : f \in Matched(r)}
    \cup {[r |-> r, m |-> Unreach(r, 3, d, q), kind |-> "unreach", field |-> "ip_src", val |-> 3] :
              d \in {r.ip_src, 3}, q \in {"other", "own"}}
Cases == UNION {CasesOf(r) : r \in {x \in Requests : Legal(x)}}
=============================================================================
