SPECIFICATION Spec
CONSTANT Variant = "intended"
INVARIANT MirrorSound
INVARIANT Agree
CHECK_DEADLOCK FALSE
