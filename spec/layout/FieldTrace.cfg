SPECIFICATION Spec
CONSTANT Clause = "all"
CONSTRAINT Mark
CONSTRAINT Skipped
POSTCONDITION AllAccepted
CHECK_DEADLOCK FALSE
