SPECIFICATION Spec
CONSTANT Clause = "rej"
CONSTRAINT Mark
CONSTRAINT Skipped
POSTCONDITION AllAccepted
CHECK_DEADLOCK FALSE
