SPECIFICATION Spec
CONSTANT Clause = "ni"
CONSTRAINT Mark
CONSTRAINT Skipped
POSTCONDITION AllAccepted
CHECK_DEADLOCK FALSE
