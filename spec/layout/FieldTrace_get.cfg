SPECIFICATION Spec
CONSTANT Clause = "get"
CONSTRAINT Mark
CONSTRAINT Skipped
POSTCONDITION AllAccepted
CHECK_DEADLOCK FALSE
