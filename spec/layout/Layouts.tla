------------------------------- MODULE Layouts -------------------------------
(* Property C15 -- bit-exact field tables of the fixed protocol headers, TRANSCRIBED FROM THE RFCs / IEEE STANDARDS
   (the defining document is cited at every class), NOT from libtins' C++ structs, and the abstract semantics of
   "write field f of a header" (Write), "read field f" (Read) and "v does not fit" (TooLarge).

   A class table is   [hdr |-> octets of the fixed header, full |-> the non-alias fields tile it, fields |-> [name |-> F]]
   A field is         [off, w, ord \in {"BE","LE","bytes"}, kind \in {"plain","derived","length","tag"}, alt \in BOOLEAN]

   BIT NUMBERING CONVENTION (used consistently by Pos/Idx below)
     * A header is a sequence of octets hb[1..hdr].  MSB-first position p (0-based) is bit  7 - (p % 8)  of octet
       p \div 8  (0-based), i.e. position 0 is the most significant bit of the first octet -- the way the IETF draws
       headers ("bit 0" leftmost) and the order in which the DESIGN counts offsets.
     * ord = "BE" (network order, all IETF headers): `off` is the MSB-first position of the field's MOST significant
       bit; value bit j (j = 0 is the least significant) lives at MSB-first position  off + w - 1 - j.
     * ord = "bytes" (addresses, opaque octet strings): like "BE", the value is the octet string in wire order;
       off and w are multiples of 8.
     * ord = "LE" (IEEE 802.11 MAC header, radiotap-style fields, DLT_NULL on a little-endian host): IEEE 802.11
       numbers the bits of a field B0, B1, ... starting at the LEAST significant bit and transmits octets in order of
       increasing bit number (IEEE Std 802.11-2012 8.2.2 "Conventions").  For LE fields `off` is therefore the IEEE
       number of the field's LEAST significant bit, counted from B0 = least significant bit of the first octet of the
       header: IEEE bit k is bit (k % 8) of octet (k \div 8), which is MSB-first position 8*(k \div 8) + 7 - (k % 8).
       Value bit j lives at IEEE bit off + j.  For an octet-aligned field of whole octets both numberings name the
       same octets (off = 8 * first octet), so "LE" then simply means "least significant octet first".

   kind:  plain    set by the user, serialised as is
          derived  checksums computed by serialisation (may change when any covered field changes)
          length   lengths / counts computed by serialisation from the object's structure
          tag      next-protocol tags: user value when the payload is opaque, otherwise chosen by serialisation
   alt:   TRUE for an alternative VIEW of bits that other fields already name (TCP's 12-bit flags word, the I/G bit
          inside the DSAP octet, whole seconds of an 802.1D timer ...).  Alias fields are exempt from the
          disjointness / tiling checks; non-interference is only ever demanded between fields with disjoint bits.

   Variants: where the layout after a common prefix depends on a message type (ICMP, ICMPv6, LLC control formats,
   802.11 frame subtypes) each format is its own table, named <Class>_<format>; the harness constructs the object
   with the matching type, which is then not varied. *)
EXTENDS Naturals, Sequences, FiniteSets, TLC

F(o, w, ord, k, a) == [off |-> o, w |-> w, ord |-> ord, kind |-> k, alt |-> a]
P(o, w)   == F(o, w, "BE", "plain", FALSE)          \* plain big-endian field
X(o, w)   == F(o, w, "BE", "plain", TRUE)           \* alias view, big-endian
A(o, w)   == F(o, w, "bytes", "plain", FALSE)       \* address / opaque octets
Lf(o, w)  == F(o, w, "LE", "plain", FALSE)          \* little-endian (IEEE numbering)
Ck(o, w)  == F(o, w, "BE", "derived", FALSE)        \* checksum
Ln(o, w)  == F(o, w, "BE", "length", FALSE)         \* length / count
Tg(o, w)  == F(o, w, "BE", "tag", FALSE)            \* next-protocol tag
C(h, full, fs) == [hdr |-> h, full |-> full, fields |-> fs]

(* ---- IEEE 802.11 MAC header pieces (IEEE Std 802.11-2012 8.2.3 Fig 8-1, 8.2.4.1 Fig 8-2 Frame Control,
        8.2.4.2 Duration/ID, 8.2.4.3 Address fields, 8.2.4.4 Sequence Control Fig 8-3).  IEEE (LSB-first) numbers. *)
Dot11FC == [protocol |-> Lf(0, 2), type |-> Lf(2, 2), subtype |-> Lf(4, 4), to_ds |-> Lf(8, 1), from_ds |-> Lf(9, 1),
            more_frag |-> Lf(10, 1), retry |-> Lf(11, 1), power_mgmt |-> Lf(12, 1), more_data |-> Lf(13, 1),
            wep |-> Lf(14, 1), order |-> Lf(15, 1), duration_id |-> Lf(16, 16), addr1 |-> A(32, 48)]
Dot11Seq == [addr2 |-> A(80, 48), addr3 |-> A(128, 48), frag_num |-> Lf(176, 4), seq_num |-> Lf(180, 12)]
(* Capability Information field (8.4.1.4 Fig 8-38), 16 bits starting at IEEE bit `b` *)
Dot11Cap(b) == [ess |-> Lf(b, 1), ibss |-> Lf(b + 1, 1), cf_poll |-> Lf(b + 2, 1), cf_poll_req |-> Lf(b + 3, 1),
                privacy |-> Lf(b + 4, 1), short_preamble |-> Lf(b + 5, 1), pbcc |-> Lf(b + 6, 1),
                channel_agility |-> Lf(b + 7, 1), spectrum_mgmt |-> Lf(b + 8, 1), qos |-> Lf(b + 9, 1),
                sst |-> Lf(b + 10, 1), apsd |-> Lf(b + 11, 1), radio_measurement |-> Lf(b + 12, 1),
                dsss_ofdm |-> Lf(b + 13, 1), delayed_block_ack |-> Lf(b + 14, 1), immediate_block_ack |-> Lf(b + 15, 1)]
(* ---- ICMP common part (RFC 792: every message starts Type, Code, Checksum) and ICMPv6 (RFC 4443 2.1) *)
IcmpHead == [type |-> P(0, 8), code |-> P(8, 8), checksum |-> Ck(16, 16)]
(* ---- IEEE 802.2 LLC address octets (IEEE Std 802.2-1998 3.2, 3.3: DSAP address field = I/G bit + 7 address bits,
        SSAP = C/R bit + 7 bits; the I/G and C/R bits are the least significant bits of their octets) *)
LlcHead == [dsap |-> P(0, 8), group |-> X(7, 1), ssap |-> P(8, 8), response |-> X(15, 1)]

BootPFields == [opcode |-> P(0, 8), htype |-> P(8, 8), hlen |-> P(16, 8), hops |-> P(24, 8), xid |-> P(32, 32),
        secs |-> P(64, 16), padding |-> P(80, 16), ciaddr |-> A(96, 32), yiaddr |-> A(128, 32), siaddr |-> A(160, 32),
        giaddr |-> A(192, 32), chaddr |-> A(224, 128), sname |-> A(352, 512), file |-> A(864, 1024)]

Layout ==
  (* RFC 791 3.1 "Internet Header Format" (flags: bit 0 reserved, DF, MF; RFC 2474/3168 reuse the TOS octet) *)
  "IP" :> C(20, TRUE, [version |-> P(0, 4), ihl |-> Ln(4, 4), tos |-> P(8, 8), tot_len |-> Ln(16, 16), id |-> P(32, 16),
        flags |-> P(48, 3), frag_off |-> P(51, 13), ttl |-> P(64, 8), protocol |-> Tg(72, 8), checksum |-> Ck(80, 16),
        src |-> A(96, 32), dst |-> A(128, 32)]) @@
  (* RFC 8200 3 "IPv6 Header Format" *)
  "IPv6" :> C(40, TRUE, [version |-> P(0, 4), traffic_class |-> P(4, 8), flow_label |-> P(12, 20),
        payload_length |-> Ln(32, 16), next_header |-> Tg(48, 8), hop_limit |-> P(56, 8), src |-> A(64, 128), dst |-> A(192, 128)]) @@
  (* RFC 9293 3.1 "Header Format": Data Offset 4, Rsrvd 4, CWR ECE URG ACK PSH RST SYN FIN; libtins exposes the
     reserved nibble + the 8 control bits as one 12-bit "flags" word (alias) *)
  "TCP" :> C(20, TRUE, [sport |-> P(0, 16), dport |-> P(16, 16), seq |-> P(32, 32), ack_seq |-> P(64, 32),
        data_offset |-> Ln(96, 4), reserved |-> P(100, 4), cwr |-> P(104, 1), ece |-> P(105, 1), urg |-> P(106, 1),
        ack |-> P(107, 1), psh |-> P(108, 1), rst |-> P(109, 1), syn |-> P(110, 1), fin |-> P(111, 1),
        flags12 |-> X(100, 12), window |-> P(112, 16), checksum |-> Ck(128, 16), urg_ptr |-> P(144, 16)]) @@
  (* RFC 768 *)
  "UDP" :> C(8, TRUE, [sport |-> P(0, 16), dport |-> P(16, 16), length |-> Ln(32, 16), checksum |-> Ck(48, 16)]) @@
  (* RFC 792.  "ICMP" = the part common to all messages; the formats follow *)
  "ICMP" :> C(4, TRUE, IcmpHead) @@
  "ICMP_echo" :> C(8, TRUE, IcmpHead @@ [id |-> P(32, 16), sequence |-> P(48, 16)]) @@            \* RFC 792 Echo / Information
  "ICMP_redirect" :> C(8, TRUE, IcmpHead @@ [gateway |-> A(32, 32)]) @@                          \* RFC 792 Redirect
  (* RFC 792 Parameter Problem: Pointer, unused; RFC 4884 4.1 turns the second octet of the word into "Length" *)
  "ICMP_param" :> C(8, FALSE, IcmpHead @@ [pointer |-> P(32, 8), rfc4884_length |-> Ln(40, 8)]) @@
  (* RFC 1191 4 Destination Unreachable / fragmentation needed: unused(16), Next-Hop MTU(16); RFC 4884 Length octet *)
  "ICMP_mtu" :> C(8, FALSE, IcmpHead @@ [rfc4884_length |-> Ln(40, 8), mtu |-> P(48, 16)]) @@
  (* the same two formats with the RFC 4884 length attribute in use and an original datagram behind the header *)
  "ICMP_mtu_len" :> C(8, FALSE, IcmpHead @@ [rfc4884_length |-> Ln(40, 8), mtu |-> P(48, 16)]) @@
  "ICMP_param_len" :> C(8, FALSE, IcmpHead @@ [pointer |-> P(32, 8), rfc4884_length |-> Ln(40, 8)]) @@
  "ICMP_timestamp" :> C(20, TRUE, IcmpHead @@ [id |-> P(32, 16), sequence |-> P(48, 16), original_timestamp |-> P(64, 32),
        receive_timestamp |-> P(96, 32), transmit_timestamp |-> P(128, 32)]) @@                 \* RFC 792 Timestamp
  "ICMP_mask" :> C(12, TRUE, IcmpHead @@ [id |-> P(32, 16), sequence |-> P(48, 16), address_mask |-> A(64, 32)]) @@   \* RFC 950 App. I
  (* RFC 4443 2.1 common part; 4.1/4.2 Echo; RFC 4861 4.2 RA (RFC 4191 2.2 Prf, RFC 6275 7.1 H), 4.3 NS, 4.4 NA,
     4.5 Redirect; RFC 2710 3 MLD; RFC 3810 5.1 MLDv2 query (Resv 4, S, QRV 3, QQIC, Number of Sources) *)
  "ICMPv6" :> C(4, TRUE, IcmpHead) @@
  "ICMPv6_echo" :> C(8, TRUE, IcmpHead @@ [identifier |-> P(32, 16), sequence |-> P(48, 16)]) @@
  "ICMPv6_ra" :> C(16, FALSE, IcmpHead @@ [hop_limit |-> P(32, 8), managed |-> P(40, 1), other |-> P(41, 1), home_agent |-> P(42, 1),
        router_pref |-> P(43, 2), router_lifetime |-> P(48, 16), reachable_time |-> P(64, 32), retransmit_timer |-> P(96, 32)]) @@
  "ICMPv6_ns" :> C(24, FALSE, IcmpHead @@ [target_addr |-> A(64, 128)]) @@
  "ICMPv6_na" :> C(24, FALSE, IcmpHead @@ [router |-> P(32, 1), solicited |-> P(33, 1), override |-> P(34, 1), target_addr |-> A(64, 128)]) @@
  "ICMPv6_redirect" :> C(40, FALSE, IcmpHead @@ [target_addr |-> A(64, 128), dest_addr |-> A(192, 128)]) @@
  "ICMPv6_mld" :> C(24, FALSE, IcmpHead @@ [maximum_response_code |-> P(32, 16), multicast_addr |-> A(64, 128)]) @@
  "ICMPv6_mld2" :> C(28, FALSE, IcmpHead @@ [maximum_response_code |-> P(32, 16), multicast_addr |-> A(64, 128),
        supress |-> P(196, 1), qrv |-> P(197, 3), qqic |-> P(200, 8), sources_count |-> Ln(208, 16)]) @@
  (* RFC 826 "Packet format", with Ethernet hardware (hln 6) and IPv4 protocol (pln 4) addresses as in RFC 826's example *)
  "ARP" :> C(28, TRUE, [hw_addr_format |-> P(0, 16), prot_addr_format |-> P(16, 16), hw_addr_length |-> P(32, 8),
        prot_addr_length |-> P(40, 8), opcode |-> P(48, 16), sender_hw_addr |-> A(64, 48), sender_ip_addr |-> A(112, 32),
        target_hw_addr |-> A(144, 48), target_ip_addr |-> A(192, 32)]) @@
  (* RFC 894 / IEEE Std 802.3-2018 3.1.1: destination, source, length/type *)
  "EthernetII" :> C(14, TRUE, [dst_addr |-> A(0, 48), src_addr |-> A(48, 48), payload_type |-> Tg(96, 16)]) @@
  "Dot3" :> C(14, TRUE, [dst_addr |-> A(0, 48), src_addr |-> A(48, 48), length |-> Ln(96, 16)]) @@
  (* IEEE Std 802.1Q-2018 9.6 "VLAN Tag Control Information": PCP 3, DEI 1 (formerly CFI), VID 12; then the EtherType *)
  "Dot1Q" :> C(4, TRUE, [priority |-> P(0, 3), cfi |-> P(3, 1), id |-> P(4, 12), payload_type |-> Tg(16, 16)]) @@
  (* RFC 3032 2.1 label stack entry: Label 20, Exp 3 (RFC 5462: Traffic Class), S 1, TTL 8 *)
  "MPLS" :> C(4, TRUE, [label |-> P(0, 20), experimental |-> P(20, 3), bottom_of_stack |-> P(23, 1), ttl |-> P(24, 8)]) @@
  (* RFC 1035 4.1.1 header; AD and CD: RFC 4035 3.1.6 / 3.2.1-3.2.2 (RFC 2535 6.1 bit positions: Z, AD, CD) *)
  "DNS" :> C(12, TRUE, [id |-> P(0, 16), qr |-> P(16, 1), opcode |-> P(17, 4), aa |-> P(21, 1), tc |-> P(22, 1), rd |-> P(23, 1),
        ra |-> P(24, 1), z |-> P(25, 1), ad |-> P(26, 1), cd |-> P(27, 1), rcode |-> P(28, 4),
        qdcount |-> Ln(32, 16), ancount |-> Ln(48, 16), nscount |-> Ln(64, 16), arcount |-> Ln(80, 16)]) @@
  (* RFC 7348 5 "VXLAN Frame Format": flags 8 (I bit), reserved 24, VNI 24, reserved 8 *)
  "VXLAN" :> C(8, FALSE, [flags |-> P(0, 8), vni |-> P(32, 24)]) @@
  (* IEEE Std 802.2 LLC (DSAP, SSAP, Control) + RFC 1042 SNAP: OUI 24, EtherType 16 *)
  "SNAP" :> C(8, TRUE, [dsap |-> P(0, 8), ssap |-> P(8, 8), control |-> P(16, 8), org_code |-> P(24, 24), eth_type |-> Tg(48, 16)]) @@
  (* IEEE Std 802.2-1998 5.2 control field formats.  The standard numbers control bits 1.. from the LEAST significant bit
     of the first control octet: I format: bit 1 = 0, bits 2-8 N(S), bit 9 P/F, bits 10-16 N(R); S format: bits 1-2 = 1 0,
     bits 3-4 S S, bits 5-8 reserved, bit 9 P/F, bits 10-16 N(R); U format (one octet): bits 1-2 = 1 1, bits 3-4 M M,
     bit 5 P/F, bits 6-8 M M M.  Translated to MSB-first positions inside octets 2 (and 3) of the LLC header.
     `format` names the bits that select the control format (no accessor: the harness fixes them by constructing the
     variant); they are assigned bits, so a parsed prior state never has other values in them. *)
  "LLC_info" :> C(4, FALSE, LlcHead @@ [send_seq_number |-> P(16, 7), format |-> P(23, 1), receive_seq_number |-> P(24, 7), poll_final |-> P(31, 1)]) @@
  "LLC_super" :> C(4, FALSE, LlcHead @@ [supervisory_function |-> P(20, 2), format |-> P(22, 2), receive_seq_number |-> P(24, 7), poll_final |-> P(31, 1)]) @@
  "LLC_unnumbered" :> C(3, FALSE, LlcHead @@ [poll_final |-> P(19, 1), format |-> P(22, 2)]) @@
  (* LINKTYPE_LINUX_SLL (tcpdump.org/linktypes/LINKTYPE_LINUX_SLL.html): packet type, ARPHRD_ type, address length,
     address (8 octets), protocol -- all big-endian *)
  "SLL" :> C(16, TRUE, [packet_type |-> P(0, 16), lladdr_type |-> P(16, 16), lladdr_len |-> P(32, 16), address |-> A(48, 64),
        protocol |-> Tg(112, 16)]) @@
  (* RFC 2516 4 "Payload": VER 4, TYPE 4, CODE 8, SESSION_ID 16, LENGTH 16 *)
  "PPPoE" :> C(6, TRUE, [version |-> P(0, 4), type |-> P(4, 4), code |-> P(8, 8), session_id |-> P(16, 16), payload_length |-> Ln(32, 16)]) @@
  (* IEEE Std 802.1X-2004 7.5 EAPOL header (version, packet type, body length) + 7.6 RC4 Key Descriptor:
     descriptor type 1, key length 2, replay counter 8, key IV 16, key index 1 (bit 8 = unicast flag, bits 1-7 index),
     key signature 16 *)
  "RC4EAPOL" :> C(48, TRUE, [version |-> P(0, 8), packet_type |-> P(8, 8), length |-> Ln(16, 16), type |-> P(32, 8),
        key_length |-> P(40, 16), replay_counter |-> P(56, 64), key_iv |-> A(120, 128), key_flag |-> P(248, 1), key_index |-> P(249, 7),
        key_sign |-> A(256, 128)]) @@
  (* IEEE Std 802.11-2012 11.6.2 Fig 11-24 EAPOL-Key frame, Fig 11-25 Key Information (a big-endian 16-bit word whose
     bits are numbered B0 = least significant): B0-2 descriptor version, B3 key type, B4-5 reserved (WPA: key index),
     B6 install, B7 key ack, B8 key MIC, B9 secure, B10 error, B11 request, B12 encrypted key data, B13-15 reserved.
     Bit Bk of the word at MSB-first offset 40 is position 40 + 15 - k. *)
  "RSNEAPOL" :> C(99, FALSE, [version |-> P(0, 8), packet_type |-> P(8, 8), length |-> Ln(16, 16), type |-> P(32, 8),
        encrypted |-> P(43, 1), request |-> P(44, 1), error |-> P(45, 1), secure |-> P(46, 1), key_mic |-> P(47, 1),
        key_ack |-> P(48, 1), install |-> P(49, 1), key_index |-> P(50, 2), key_t |-> P(52, 1), key_descriptor |-> P(53, 3),
        key_length |-> P(56, 16), replay_counter |-> P(72, 64), nonce |-> A(136, 256), key_iv |-> A(392, 128), rsc |-> A(520, 64),
        id |-> A(584, 64), mic |-> A(648, 128), wpa_length |-> Ln(776, 16)]) @@
  (* the same frame with Key Data present (libtins then derives the Key Data Length): same header layout *)
  "RSNEAPOL_key" :> C(99, FALSE, [version |-> P(0, 8), packet_type |-> P(8, 8), length |-> Ln(16, 16), type |-> P(32, 8),
        encrypted |-> P(43, 1), request |-> P(44, 1), error |-> P(45, 1), secure |-> P(46, 1), key_mic |-> P(47, 1),
        key_ack |-> P(48, 1), install |-> P(49, 1), key_index |-> P(50, 2), key_t |-> P(52, 1), key_descriptor |-> P(53, 3),
        key_length |-> P(56, 16), replay_counter |-> P(72, 64), nonce |-> A(136, 256), key_iv |-> A(392, 128), rsc |-> A(520, 64),
        id |-> A(584, 64), mic |-> A(648, 128), wpa_length |-> Ln(776, 16)]) @@
  (* RFC 3550 5.1 "RTP Fixed Header Fields": V 2, P 1, X 1, CC 4, M 1, PT 7, sequence number 16, timestamp 32, SSRC 32.
     P and CC describe structure (padding octets / CSRC list present) and are computed: kind length *)
  "RTP" :> C(12, TRUE, [version |-> P(0, 2), padding_bit |-> Ln(2, 1), extension_bit |-> P(3, 1), csrc_count |-> Ln(4, 4),
        marker_bit |-> P(8, 1), payload_type |-> P(9, 7), sequence_number |-> P(16, 16), timestamp |-> P(32, 32), ssrc_id |-> P(64, 32)]) @@
  (* RFC 951 3 "Packet Format" (RFC 1542 2.2 names the "unused" halfword "flags"); vend is variable in DHCP (RFC 2131) *)
  "BootP" :> C(236, TRUE, BootPFields) @@
  "DHCP" :> C(236, TRUE, BootPFields) @@          \* RFC 2131 2: the BOOTP header, then the magic cookie and options
  (* IEEE Std 802.1D-2004 9.3.1 Configuration BPDU, 9.2.5 bridge identifier = priority 4 + system-ID extension 12 +
     address 48, 9.2.8 timer values: 16-bit count of 1/256 s -- libtins' accessors take whole seconds, which is the most
     significant octet of that count (alias views *_sec) *)
  "STP" :> C(35, TRUE, [proto_id |-> P(0, 16), proto_version |-> P(16, 8), bpdu_type |-> P(24, 8), bpdu_flags |-> P(32, 8),
        root_priority |-> P(40, 4), root_ext_id |-> P(44, 12), root_addr |-> A(56, 48), root_path_cost |-> P(104, 32),
        bridge_priority |-> P(136, 4), bridge_ext_id |-> P(140, 12), bridge_addr |-> A(152, 48), port_id |-> P(200, 16),
        msg_age |-> P(216, 16), max_age |-> P(232, 16), hello_time |-> P(248, 16), fwd_delay |-> P(264, 16),
        msg_age_sec |-> X(216, 8), max_age_sec |-> X(232, 8), hello_time_sec |-> X(248, 8), fwd_delay_sec |-> X(264, 8)]) @@
  (* RFC 4302 2 Authentication Header: next header, payload len, reserved 16, SPI, sequence number, ICV (variable) *)
  "IPSecAH" :> C(12, FALSE, [next_header |-> Tg(0, 8), length |-> Ln(8, 8), spi |-> P(32, 32), seq_number |-> P(64, 32)]) @@
  (* RFC 4303 2 ESP: SPI, sequence number *)
  "IPSecESP" :> C(8, TRUE, [spi |-> P(0, 32), seq_number |-> P(32, 32)]) @@
  (* LINKTYPE_NULL (tcpdump.org/linktypes.html): 4-octet protocol family "in the host byte order of the machine on which
     the capture was done"; the verification host is little-endian *)
  "Loopback" :> C(4, TRUE, [family |-> Lf(0, 32)]) @@
  (* RFC 8415 8 client/server message: msg-type 8, transaction-id 24; 9 relay message: msg-type, hop-count, link-address,
     peer-address *)
  "DHCPv6" :> C(4, TRUE, [msg_type |-> P(0, 8), transaction_id |-> P(8, 24)]) @@
  "DHCPv6_relay" :> C(34, TRUE, [msg_type |-> P(0, 8), hop_count |-> P(8, 8), link_address |-> A(16, 128), peer_address |-> A(144, 128)]) @@
  (* the other relay message type (Relay-reply, 13) and a client message whose type number is an option code elsewhere (Decline, 9) *)
  "DHCPv6_relay_reply" :> C(34, TRUE, [msg_type |-> P(0, 8), hop_count |-> P(8, 8), link_address |-> A(16, 128), peer_address |-> A(144, 128)]) @@
  "DHCPv6_decline" :> C(4, TRUE, [msg_type |-> P(0, 8), transaction_id |-> P(8, 24)]) @@
  (* IEEE Std 802.11-2012: generic header (frame control, duration, address 1) *)
  "Dot11" :> C(10, TRUE, Dot11FC) @@
  "Dot11Data" :> C(24, TRUE, Dot11FC @@ Dot11Seq) @@                                              \* 8.3.2.1 Fig 8-30
  "Dot11QoSData" :> C(26, TRUE, Dot11FC @@ Dot11Seq @@ [qos_control |-> Lf(192, 16)]) @@             \* 8.2.4.5 QoS Control
  "Dot11ManagementFrame" :> C(24, TRUE, Dot11FC @@ Dot11Seq) @@                                   \* 8.3.3.1 Fig 8-34
  "Dot11Beacon" :> C(36, TRUE, Dot11FC @@ Dot11Seq @@ [timestamp |-> Lf(192, 64), interval |-> Lf(256, 16)] @@ Dot11Cap(272)) @@     \* 8.3.3.2
  "Dot11ProbeResponse" :> C(36, TRUE, Dot11FC @@ Dot11Seq @@ [timestamp |-> Lf(192, 64), interval |-> Lf(256, 16)] @@ Dot11Cap(272)) @@  \* 8.3.3.10
  "Dot11AssocRequest" :> C(28, TRUE, Dot11FC @@ Dot11Seq @@ Dot11Cap(192) @@ [listen_interval |-> Lf(208, 16)]) @@                 \* 8.3.3.5
  "Dot11AssocResponse" :> C(30, TRUE, Dot11FC @@ Dot11Seq @@ Dot11Cap(192) @@ [status_code |-> Lf(208, 16), aid |-> Lf(224, 16)]) @@  \* 8.3.3.6
  "Dot11ReAssocRequest" :> C(34, TRUE, Dot11FC @@ Dot11Seq @@ Dot11Cap(192) @@ [listen_interval |-> Lf(208, 16), current_ap |-> A(224, 48)]) @@  \* 8.3.3.7
  "Dot11ReAssocResponse" :> C(30, TRUE, Dot11FC @@ Dot11Seq @@ Dot11Cap(192) @@ [status_code |-> Lf(208, 16), aid |-> Lf(224, 16)]) @@  \* 8.3.3.8
  "Dot11Authentication" :> C(30, TRUE, Dot11FC @@ Dot11Seq @@ [auth_algorithm |-> Lf(192, 16), auth_seq_number |-> Lf(208, 16),
        status_code |-> Lf(224, 16)]) @@                                                          \* 8.3.3.11
  "Dot11Deauthentication" :> C(26, TRUE, Dot11FC @@ Dot11Seq @@ [reason_code |-> Lf(192, 16)]) @@   \* 8.3.3.12
  "Dot11Disassoc" :> C(26, TRUE, Dot11FC @@ Dot11Seq @@ [reason_code |-> Lf(192, 16)]) @@           \* 8.3.3.4
  (* control frames 8.3.1: RTS (RA, TA), PS-Poll (BSSID, TA), CF-End / CF-End+CF-Ack (RA, BSSID): second address at octet 10 *)
  "Dot11RTS" :> C(16, TRUE, Dot11FC @@ [target_addr |-> A(80, 48)]) @@
  "Dot11PSPoll" :> C(16, TRUE, Dot11FC @@ [target_addr |-> A(80, 48)]) @@
  "Dot11CFEnd" :> C(16, TRUE, Dot11FC @@ [target_addr |-> A(80, 48)]) @@
  "Dot11EndCFAck" :> C(16, TRUE, Dot11FC @@ [target_addr |-> A(80, 48)]) @@
  "Dot11Ack" :> C(10, TRUE, Dot11FC) @@
  "Dot11Control" :> C(10, TRUE, Dot11FC) @@                                                        \* 8.3.1.3 CTS / 8.3.1.4 ACK shape: RA only
  "Dot11ControlTA" :> C(16, TRUE, Dot11FC @@ [target_addr |-> A(80, 48)]) @@
  "Dot11ProbeRequest" :> C(24, TRUE, Dot11FC @@ Dot11Seq) @@                                       \* 8.3.3.9: no fixed parameters
  (* 8.3.1.8 BlockAckReq: BAR Control 16 (Fig 8-21: B0 BAR Ack Policy, B1 Multi-TID, B2 Compressed Bitmap, B3-B11 reserved,
     B12-15 TID_INFO) -- libtins' 4-bit "bar_control" accessor is bound to B0-B3, the rest of the word has no accessor;
     Block Ack Starting Sequence Control (Fig 8-22): B0-3 fragment number, B4-15 starting sequence number.
     8.3.1.9 BlockAck: the same two words + the Block Ack Bitmap; libtins' class carries the 8-octet bitmap of the
     compressed variant (8.3.1.9.3), which is the variant tabulated here *)
  "Dot11BlockAckRequest" :> C(20, FALSE, Dot11FC @@ [target_addr |-> A(80, 48), bar_control |-> Lf(128, 4),
        fragment_number |-> Lf(144, 4), start_sequence |-> Lf(148, 12)]) @@
  "Dot11BlockAck" :> C(28, FALSE, Dot11FC @@ [target_addr |-> A(80, 48), bar_control |-> Lf(128, 4),
        fragment_number |-> Lf(144, 4), start_sequence |-> Lf(148, 12), bitmap |-> A(160, 64)])

Classes == DOMAIN Layout
FieldsOf(c) == DOMAIN Layout[c].fields

(* ------------------------------------------------------------------ positions *)
Pos(L, j) == IF L.ord = "LE" THEN LET k == L.off + j IN 8 * (k \div 8) + 7 - (k % 8)
             ELSE L.off + L.w - 1 - j
\* the value bit stored at MSB-first position p (only meaningful for p \in BitsOf(L))
Idx(L, p) == IF L.ord = "LE" THEN (8 * (p \div 8) + 7 - (p % 8)) - L.off
             ELSE L.off + L.w - 1 - p
BitsOf(L) == {Pos(L, j) : j \in 0..(L.w - 1)}
FirstOctet(L) == L.off \div 8                      \* 0-based; the same formula for both numberings
LastOctet(L) == (L.off + L.w - 1) \div 8
Touches(L, i) == i - 1 >= FirstOctet(L) /\ i - 1 <= LastOctet(L)      \* i: 1-based octet index
Has(L, p) == LET j == Idx(L, p) IN j >= 0 /\ j < L.w /\ Pos(L, j) = p
DisjointF(L1, L2) == \/ LastOctet(L1) < FirstOctet(L2) \/ LastOctet(L2) < FirstOctet(L1)
                     \/ \A j \in 0..(L1.w - 1) : ~Has(L2, Pos(L1, j))

(* ------------------------------------------------------------------ values
   A value is logged / modelled as the big-endian octet list of the number (for "bytes" fields: the octets in wire
   order, which is the same thing), ceil(w/8) octets for an in-range value, the carrier type's size for a probe. *)
NBytes(w) == (w + 7) \div 8
VBit(vb, j) == LET n == Len(vb) IN IF j \div 8 >= n THEN 0 ELSE (vb[n - (j \div 8)] \div (2 ^ (j % 8))) % 2
BitAt(hb, p) == (hb[(p \div 8) + 1] \div (2 ^ (7 - (p % 8)))) % 2
(* C15: "values too large for a sub-byte or odd-width field" *)
TooLarge(vb, w) == \E j \in w..(8 * Len(vb) - 1) : VBit(vb, j) = 1
OddWidth(w) == w \notin {8, 16, 32, 64}          \* "sub-byte or odd-width": anything that is not a whole machine word

(* C15: "In the serialization only the bits that the protocol specification assigns to that field ... change, and they
   hold the value in the specified byte and bit order": the header after writing value vb into field L *)
Write(hb, L, vb) ==
    [i \in 1..Len(hb) |->
        IF ~Touches(L, i) THEN hb[i]
        ELSE LET bit(k) == LET p == 8 * (i - 1) + k IN IF Has(L, p) THEN VBit(vb, Idx(L, p)) ELSE BitAt(hb, p)
             IN 128 * bit(0) + 64 * bit(1) + 32 * bit(2) + 16 * bit(3) + 8 * bit(4) + 4 * bit(5) + 2 * bit(6) + bit(7)]
(* the field's value read from a header, as big-endian octets *)
Read(hb, L) ==
    LET n == NBytes(L.w)
        vbit(j) == IF j < L.w THEN BitAt(hb, Pos(L, j)) ELSE 0
    IN [m \in 1..n |-> LET b == 8 * (n - m) IN
            vbit(b) + 2 * vbit(b + 1) + 4 * vbit(b + 2) + 8 * vbit(b + 3) + 16 * vbit(b + 4) + 32 * vbit(b + 5) + 64 * vbit(b + 6) + 128 * vbit(b + 7)]

(* ------------------------------------------------------------------ well-formedness of the tables *)
Orders == {"BE", "LE", "bytes"}
Kinds == {"plain", "derived", "length", "tag"}
FieldOK(T, c, f) == LET L == T[c].fields[f] IN
    /\ L.w > 0 /\ L.ord \in Orders /\ L.kind \in Kinds
    /\ L.off + L.w <= 8 * T[c].hdr                                          \* "inside the fixed header"
    /\ (L.ord = "bytes" => L.off % 8 = 0 /\ L.w % 8 = 0)
Primary(T, c) == {f \in DOMAIN T[c].fields : ~T[c].fields[f].alt}
ClassOK(T, c) ==
    /\ \A f \in DOMAIN T[c].fields : FieldOK(T, c, f)
    /\ \A f, g \in Primary(T, c) : f # g => DisjointF(T[c].fields[f], T[c].fields[g])        \* "pairwise disjoint"
    /\ T[c].full => UNION {BitsOf(T[c].fields[f]) : f \in Primary(T, c)} = 0..(8 * T[c].hdr - 1)   \* "they tile it"
    /\ \A f \in DOMAIN T[c].fields : T[c].fields[f].alt =>                                 \* an alias names bits a primary field names
          \E g \in Primary(T, c) : ~DisjointF(T[c].fields[f], T[c].fields[g])
=============================================================================
