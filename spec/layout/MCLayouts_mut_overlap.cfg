SPECIFICATION Spec
CONSTANTS
  Variant = "overlap"
  HdrLen = 2
INVARIANTS TablesWellFormed NonInterferenceAbstract NonInterferenceTables RangeRule
CHECK_DEADLOCK FALSE
