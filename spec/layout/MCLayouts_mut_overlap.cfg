SPECIFICATION Spec
CONSTANTS
  Variant = "overlap"
  HdrLen = 1
INVARIANTS TablesWellFormed
CHECK_DEADLOCK FALSE
