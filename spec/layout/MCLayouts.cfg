SPECIFICATION Spec
CONSTANTS
  Variant = "code"
  HdrLen = 2
INVARIANTS TablesWellFormed NonInterferenceAbstract NonInterferenceTables RangeRule
CHECK_DEADLOCK FALSE
