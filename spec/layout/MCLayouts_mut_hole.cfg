SPECIFICATION Spec
CONSTANTS
  Variant = "hole"
  HdrLen = 2
INVARIANTS TablesWellFormed NonInterferenceAbstract NonInterferenceTables RangeRule
CHECK_DEADLOCK FALSE
