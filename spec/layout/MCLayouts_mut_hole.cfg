SPECIFICATION Spec
CONSTANTS
  Variant = "hole"
  HdrLen = 1
INVARIANTS TablesWellFormed
CHECK_DEADLOCK FALSE
