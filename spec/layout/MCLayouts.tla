------------------------------ MODULE MCLayouts ------------------------------
(* Model checking of the C15 layout tables and of the Write/Read semantics (DESIGN.md section 4, C15).

   (1) the tables themselves: every field lies inside its class's fixed header, the (non-alias) fields of a class are
       pairwise disjoint, classes documented as fully covered are tiled by their fields, every alias view names bits
       some primary field names               ............ invariants TablesWellFormed
   (2) theorem-as-invariant NonInterference: after  h' = Write(h, L, v)
          Read(h', L) = v                                    ("the getter returns that value")
          Read(h', L2) = Read(h, L2) for every L2 disjoint from L   ("every other getter keeps its previous value")
          every bit outside BitsOf(L) is unchanged              ("only the bits the specification assigns to that field change")
       checked (a) over a small ABSTRACT header of HdrLen octets for EVERY layout (offset, width, order) that fits
       and every other layout, and (b) over every class of the real table for every pair of its fields.
   (3) Export: the table as JSON (one PrintT line), consumed by the replay driver (value domains, header sizes,
       pre-filter of the exhaustive sweeps) and by tools/families/c15.py (scenario enumeration).

   Variant selects model-level mutants, each of which TLC must refute:
      "code"        the tables and semantics as specified
      "overlap"     IPv4 flags widened to 4 bits (runs into the fragment offset)          -> TablesWellFormed fails
      "le_as_be"    Write treats IEEE little-endian fields as big-endian                -> NonInterference fails
      "hole"        the DEI bit removed from the 802.1Q table (class documented as full) -> TablesWellFormed fails *)
EXTENDS Layouts, Json
CONSTANTS Variant, HdrLen

Tab == CASE Variant = "overlap" -> [Layout EXCEPT !["IP"].fields.flags = P(48, 4)]
         [] Variant = "hole" -> [Layout EXCEPT !["Dot1Q"].fields = [f \in (DOMAIN Layout["Dot1Q"].fields) \ {"cfi"} |-> Layout["Dot1Q"].fields[f]]]
         [] OTHER -> Layout
WriteV(hb, L, vb) == IF Variant = "le_as_be" /\ L.ord = "LE" THEN Write(hb, [L EXCEPT !.ord = "BE"], vb) ELSE Write(hb, L, vb)


(* ---- abstract header: all layouts that fit into HdrLen octets *)
AbsLayouts == {F(o, w, ord, "plain", FALSE) : o \in 0..(8 * HdrLen - 1), w \in 1..(8 * HdrLen), ord \in {"BE", "LE"}}
FitLayouts == {L \in AbsLayouts : L.off + L.w <= 8 * HdrLen}
Patterns(n) == {[i \in 1..n |-> 0], [i \in 1..n |-> 255], [i \in 1..n |-> IF i % 2 = 1 THEN 165 ELSE 60],
                [i \in 1..n |-> IF i % 2 = 1 THEN 90 ELSE 195]}
\* values of width w as big-endian octet lists: all of them for w <= 5, boundary / alternating / single bits otherwise
Num2Bytes(x, w) == [m \in 1..NBytes(w) |-> (x \div (256 ^ (NBytes(w) - m))) % 256]
Max(w) == 2 ^ w - 1
Alt(w, first) == LET RECURSIVE S(_) S(j) == IF j >= w THEN 0 ELSE (IF j % 2 = first THEN 2 ^ j ELSE 0) + S(j + 1) IN S(0)
Values(w) == IF w <= 5 THEN {Num2Bytes(x, w) : x \in 0..Max(w)}
             ELSE {Num2Bytes(x, w) : x \in {0, 1, Max(w), Max(w) - 1, Alt(w, 0), Alt(w, 1)} \cup {2 ^ j : j \in 0..(w - 1)}}

NI(h, L, v, Others) ==
    LET h2 == WriteV(h, L, v) IN
    /\ Len(h2) = Len(h)
    /\ Read(h2, L) = v
    /\ \A L2 \in Others : DisjointF(L, L2) => Read(h2, L2) = Read(h, L2)
    /\ \A p \in 0..(8 * Len(h) - 1) : ~Has(L, p) => BitAt(h2, p) = BitAt(h, p)
    /\ ~TooLarge(v, L.w)

VARIABLES phase, item          \* one state per proof obligation: an abstract layout, or a class of the real table
vars == <<phase, item>>
Buckets == 16          \* obligations are spread over Buckets initial states so that TLC's workers share them
Init == phase = "start" /\ item \in 0..(Buckets - 1)
Next == /\ phase = "start"
        /\ \/ phase' = "abstract" /\ item' \in {L \in FitLayouts : (L.off + 3 * L.w + (IF L.ord = "LE" THEN 7 ELSE 0)) % Buckets = item}
           \/ phase' = "tables" /\ item' \in {c \in DOMAIN Tab : (Tab[c].hdr + Cardinality(DOMAIN Tab[c].fields)) % Buckets = item}
Spec == Init /\ [][Next]_vars

TablesWellFormed == phase = "tables" => ClassOK(Tab, item)
NonInterferenceAbstract == phase = "abstract" => \A h \in Patterns(HdrLen) : \A v \in Values(item.w) : NI(h, item, v, FitLayouts)
\* the same theorem on the real tables, for every pair of fields of every class (values: zero, all ones, 0101.., 1010..)
Top(w) == IF w % 8 = 0 THEN 256 ELSE 2 ^ (w % 8)
ClassNI(c) == LET fs == Tab[c].fields
                  Ls == {fs[f] : f \in DOMAIN fs} IN
              \A f \in DOMAIN fs : \A h \in Patterns(Tab[c].hdr) :
                 \A b \in {0, 255, 85, 170} :
                    NI(h, fs[f], [m \in 1..NBytes(fs[f].w) |-> IF m = 1 THEN b % Top(fs[f].w) ELSE b], Ls)
NonInterferenceTables == phase = "tables" => ClassNI(item)
RangeRule == \A w \in 1..16 : /\ TooLarge(Num2Bytes(2 ^ w, w + 8), w) /\ TooLarge(Num2Bytes(2 ^ w + 1, w + 8), w)
                              /\ ~TooLarge(Num2Bytes(Max(w), w + 8), w) /\ ~TooLarge(Num2Bytes(0, w), w)

Export(tag) == PrintT(tag \o ToJson(Layout))
ASSUME Variant # "code" \/ Export("LAYOUT ")
=============================================================================
