----------------------------- MODULE FieldTrace -----------------------------
(* Trace specification for C15: validates executions of harness/field_set.cpp (setters and getters of the real libtins
   header classes) against the layout tables and the Write semantics of Layouts.tla.

   One execution = one (class, field) pair in one mode; its Reset record carries
        cls, field, mode ("set" | "sweep" | "range"), bound, getters (names, in the order of the logged getter lists), hdr
   events
        set    {"v":[big-endian octets of the value], "rej":bool, "gb":[[..],..], "ga":[[..],..], "hb":[..], "ha":[..]}
                 gb/ga: every registered getter of the object before/after the setter call (big-endian octets),
                 hb/ha: the class's own fixed-header octets of serialize() before/after
        probe  {"v":[octets of the setter parameter's type], "rej":bool}      an out-of-range value was offered
        unbound / noprobe    nothing to check (counted by tools/families/c15.py as not covered / not applicable)

   Sentences of C15 and the clauses that carry them (a rejected event prints <<"FAIL", line, {violated clauses}>>,
   which tools/families/c15.py turns into the kind of the finding):
     "setting any representable value makes the getter return that value" ............ CAccepted, CGetter
     "while every other getter of the object keeps its previous value" ............ CNeighbours
     "values too large for a sub-byte or odd-width field are rejected with an error instead of being truncated" ... ProbeEv
     "In the serialization only the bits that the protocol specification assigns to that field (and checksums or
      lengths covering it) change, and they hold the value in the specified byte and bit order" ............ CBytes
   Freedom: bits of kind derived / length may take any value in the serialization and their getters may change;
   getters of alias views that share bits with the written field are unconstrained; reserved bits without a field
   in the table must keep their value (they are "bits the specification does not assign to that field"). *)
EXTENDS TraceIO, Layouts
VARIABLE dummy
vars == <<ex, l, dummy>>
Init == \E s \in Starts : TraceInit(s) /\ dummy = 0

Tbl == Layout[Cfg.cls]
Fld == Tbl.fields[Cfg.field]
Free(L) == L.kind \in {"derived", "length"}
\* octet masks of the bits serialisation may compute by itself, per class (constant, evaluated once per class by TLC)
FreeBit(c, p) == \E f \in DOMAIN Layout[c].fields : Free(Layout[c].fields[f]) /\ Has(Layout[c].fields[f], p)
FreeTab == [c \in DOMAIN Layout |-> [i \in 1..Layout[c].hdr |-> [k \in 0..7 |-> FreeBit(c, 8 * (i - 1) + k)]]]
AllFree(c, i) == \A k \in 0..7 : FreeTab[c][i][k]
NoneFree(c, i) == \A k \in 0..7 : ~FreeTab[c][i][k]
FreeSummary == [c \in DOMAIN Layout |-> [i \in 1..Layout[c].hdr |-> IF AllFree(c, i) THEN 2 ELSE IF NoneFree(c, i) THEN 0 ELSE 1]]

CAccepted(e) == ~e.rej
CGetter(e) == \A i \in 1..Len(Cfg.getters) : Cfg.getters[i] = Cfg.field => e.ga[i] = e.v
CNeighbours(e) == \A i \in 1..Len(Cfg.getters) :
    LET g == Tbl.fields[Cfg.getters[i]] IN
    (Cfg.getters[i] # Cfg.field /\ ~Free(g) /\ DisjointF(g, Fld)) => e.ga[i] = e.gb[i]
CBytes(e) ==
    /\ Len(e.hb) = Tbl.hdr /\ Len(e.ha) = Tbl.hdr
    /\ LET want == Write(e.hb, Fld, e.v) IN
       \A i \in 1..Tbl.hdr :
          CASE FreeSummary[Cfg.cls][i] = 0 -> e.ha[i] = want[i]
            [] FreeSummary[Cfg.cls][i] = 2 -> TRUE
            [] OTHER -> \A k \in 0..7 : FreeTab[Cfg.cls][i][k] \/ BitAt(e.ha, 8 * (i - 1) + k) = BitAt(want, 8 * (i - 1) + k)

Holds(c, e) == CASE c = "spurious_reject" -> CAccepted(e)
                 [] c = "getter_mismatch" -> CGetter(e)
                 [] c = "neighbour_changed" -> CNeighbours(e)
                 [] c = "bytes_mismatch" -> CBytes(e)
Report(bad) == IF bad = {} THEN TRUE ELSE PrintT(<<"FAIL", l, bad>>) /\ FALSE
SetEv == /\ IsEvent("set")
         /\ Cfg.bound /\ Cfg.cls \in DOMAIN Layout /\ Cfg.field \in DOMAIN Tbl.fields
         /\ Len(Ev.v) = NBytes(Fld.w) /\ ~TooLarge(Ev.v, Fld.w)          \* the harness offers representable values only
         /\ Report({c \in {"spurious_reject", "getter_mismatch", "neighbour_changed", "bytes_mismatch"} : ~Holds(c, Ev)})
         /\ UNCHANGED dummy
ProbeEv == /\ IsEvent("probe")
           /\ Cfg.bound /\ OddWidth(Fld.w)
           /\ Report(IF TooLarge(Ev.v, Fld.w) /\ ~Ev.rej THEN {"truncated_not_rejected"} ELSE {})
           /\ UNCHANGED dummy
\* nothing to check: the pair has no setter binding (c15.py reports it as not covered) / the parameter type cannot carry
\* a too-large value or the field is a whole machine word (range rule not applicable)
NoCheck == /\ (IsEvent("unbound") \/ IsEvent("noprobe"))
           /\ UNCHANGED dummy
Next == SetEv \/ ProbeEv \/ NoCheck
Spec == Init /\ [][Next]_vars
Skipped == NoteSkipped(Cfg.mode = "set" /\ ~Cfg.bound)
=============================================================================
