SPECIFICATION Spec
CONSTANTS
  Variant = "le_as_be"
  HdrLen = 2
INVARIANTS TablesWellFormed NonInterferenceAbstract NonInterferenceTables RangeRule
CHECK_DEADLOCK FALSE
