SPECIFICATION Spec
CONSTANTS
  Variant = "le_as_be"
  HdrLen = 1
INVARIANTS NonInterferenceAbstract
CHECK_DEADLOCK FALSE
