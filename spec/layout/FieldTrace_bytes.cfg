SPECIFICATION Spec
CONSTANT Clause = "bytes"
CONSTRAINT Mark
CONSTRAINT Skipped
POSTCONDITION AllAccepted
CHECK_DEADLOCK FALSE
