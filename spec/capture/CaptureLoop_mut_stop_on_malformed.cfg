SPECIFICATION Spec
CONSTANT MaxFrames = 3
CONSTANT Classes = {"Good", "Malformed", "Empty"}
CONSTANT Variant = "stop_on_malformed"
INVARIANT NoEscape
INVARIANT Order
INVARIANT OwnTimestamp
INVARIANT NoGap
INVARIANT CallCorrect

CHECK_DEADLOCK FALSE
