------------------------------ MODULE CaptureTrace ------------------------------
(* Trace specification for C17: validates executions of the real Tins::PacketWriter / Tins::FileSniffer /
   Tins::OfflinePacketFilter (recorded by harness/capture_file.cpp) against the reference reader CaptureAbs.

   One execution = one capture file and one reader:
     {"e":"file","flt":<link type of the written file as libpcap reports it>,"fok":<libpcap compiles the filter
        for that link type>,"filt":<a filter is installed>,
        "fr":[{"cls","m","sec","usec","w"}, ...]}       the file, frame by frame: cls from calling the link type's
                                                        top-level parser directly, m from pcap_offline_filter
     {"e":"open","ok":bool,"exc":"none"|type}           FileSniffer constructed (with the filter)
     {"e":"next","idx","same","sec","usec","exc"}       next_packet(); idx = originating frame, 0 = null packet
     {"e":"loop","api":"loop"|"loopmax"|"iter","k","got":[[idx,same,has_ts,sec,usec],...],"exc"}
     {"e":"setfilter","which":<index into fr[i].mm / fokl>,"ok","exc"}   BaseSniffer::set_filter on the open reader
     {"e":"offline","buf":[[lib,ref],...],"pdu":[[lib,ref],...]}   OfflinePacketFilter vs pcap_offline_filter
   An event with exc # "none" (an exception left the call) is accepted by no action: the execution is rejected. *)
EXTENDS TraceIO, Integers
VARIABLES frames, filt, out,
          phase,     \* "new" -> "file" -> "open";  "outside" = outside the property's quantifier (see File)
          cur,       \* which of the execution's filters is in force (index into every frame's mm; 1 = the one the reader was opened with)
          pos        \* number of file records the reader has consumed (set_filter() acts on what has not been read yet)
vars == <<ex, l, frames, filt, out, phase, cur, pos>>
A == INSTANCE CaptureAbs

\* "for every supported link type" -- the property's quantifier
Supported == {"EN10MB", "IEEE802_11", "IEEE802_11_RADIO", "NULL", "LINUX_SLL", "RAW", "PPI"}

Init == \E s \in Starts : /\ TraceInit(s)
                          /\ frames = <<>> /\ filt = FALSE /\ out = <<>> /\ phase = "new" /\ cur = 1 /\ pos = 0

(* The property quantifies over the supported link types and over filter expressions libpcap accepts; a file
   whose link type is outside that set, or a filter libpcap itself refuses for the link type, is outside the
   quantifier: the oracle is silent on that execution (counted, see MarkSilent). *)
File == /\ IsEvent("file") /\ phase = "new"
        /\ frames' = Ev.fr /\ filt' = Ev.filt
        /\ phase' = IF Ev.flt \in Supported /\ Ev.fok THEN "file" ELSE "outside"
        /\ UNCHANGED <<out, cur, pos>>
Outside == /\ phase = "outside" /\ l <= EndOf(ex) /\ l' = l + 1
           /\ UNCHANGED <<ex, frames, filt, out, phase, cur, pos>>

\* "Reading any capture file ..." of a supported link type: the reader can be constructed
Open == /\ IsEvent("open") /\ phase = "file"
        /\ Ev.ok /\ Ev.exc = "none"
        /\ phase' = "open"
        /\ UNCHANGED <<frames, filt, out, cur, pos>>

\* the file as the filter in force sees it, and "everything up to record pos has been consumed" in CaptureAbs' terms
\* with set_extract_raw_pdus(true) no record is parsed: every one of them "parses" (it comes back as its bytes)
Now == [i \in 1..Len(frames) |-> [cls |-> IF Log[ex + 1].raw THEN "Good" ELSE frames[i].cls, m |-> frames[i].mm[cur]]]
Consumed == IF pos = 0 THEN <<>> ELSE <<pos>>

\* a delivered packet: its frame's bytes and microsecond timestamp
\*   "come back ... with identical bytes and microsecond timestamps"; "return the first that parses with its timestamp"
GoodPacket(idx, same, hasts, sec, usec) ==
    /\ same
    /\ hasts => (sec = frames[idx].sec /\ usec = frames[idx].usec)

\* next_packet(): "yields, in order, exactly the frames that parse, skips malformed ones, ends cleanly at end of file"
NextPkt == /\ IsEvent("next") /\ phase = "open"
           /\ Ev.exc = "none"                                  \* "never lets an exception ... escape"
           /\ Ev.idx = A!NextIdx(Now, TRUE, Consumed)
           /\ Ev.idx # 0 => GoodPacket(Ev.idx, Ev.same, TRUE, Ev.sec, Ev.usec)
           /\ out' = IF Ev.idx = 0 THEN out ELSE Append(out, Ev.idx)
           /\ pos' = IF Ev.idx = 0 THEN Len(frames) ELSE Ev.idx           \* read up to the packet handed out / to the end of the file
           /\ UNCHANGED <<frames, filt, phase, cur>>

\* sniff_loop (functor returning false at its k-th call / max_packets = k) and begin()..end() iteration (break after k)
Loop == /\ IsEvent("loop") /\ phase = "open"
        /\ Ev.exc = "none"                                     \* "... from the per-packet loop or range iteration"
        /\ LET exp == A!Deliveries(Now, TRUE, Consumed, Ev.k) IN
           /\ Len(Ev.got) = Len(exp)                           \* exactly the selected frames, none more, none fewer
           /\ \A j \in 1..Len(exp) :
                /\ Ev.got[j][1] = exp[j]                       \* in order
                /\ GoodPacket(exp[j], Ev.got[j][2] = 1, Ev.got[j][3] = 1, Ev.got[j][4], Ev.got[j][5])
           /\ out' = out \o exp
           \* the user stopped the loop at its k-th packet: nothing after it has been read; otherwise the loop ran to the end of the file
           /\ pos' = IF Ev.k > 0 /\ Len(exp) = Ev.k THEN exp[Ev.k] ELSE Len(frames)
        /\ UNCHANGED <<frames, filt, phase, cur>>

\* "a BPF filter applied ... offline selects exactly the frames libpcap says match"
Offline == /\ IsEvent("offline") /\ phase = "open"
           /\ Ev.exc = "none"
           /\ \A j \in 1..Len(Ev.buf) : Ev.buf[j][1] = Ev.buf[j][2]
           /\ \A j \in 1..Len(Ev.pdu) : Ev.pdu[j][1] = Ev.pdu[j][2]
           /\ UNCHANGED <<frames, filt, out, phase, cur, pos>>

\* set_filter() on an open reader: "a BPF filter applied by the sniffer ... selects exactly the frames libpcap says match" - from the
\* records not yet read on; an expression libpcap refuses for the link type is refused (FALSE) and the filter in force stays
SetFilter == /\ IsEvent("setfilter") /\ phase = "open"
             /\ Ev.exc = "none"
             /\ Ev.ok = Log[ex + 1].fokl[Ev.which]
             /\ cur' = IF Ev.ok THEN Ev.which ELSE cur
             /\ UNCHANGED <<frames, filt, out, phase, pos>>

Next == File \/ Open \/ Outside \/ NextPkt \/ Loop \/ Offline \/ SetFilter
MarkSilent == NoteSkipped(phase = "outside")
Spec == Init /\ [][Next]_vars
=============================================================================
