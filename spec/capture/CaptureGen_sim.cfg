SPECIFICATION Spec
CONSTANT LTs = {"EN10MB", "IEEE802_11", "IEEE802_11_RADIO", "NULL", "LINUX_SLL", "RAW", "PPI"}
CONSTANT Filters = {0, 1, 2, 3, 4, 5, 6, 7, 8, 9, 10, 11, 12, 13}
CONSTANT Classes = {"Good", "Malformed", "Empty", "Arb"}
CONSTANT Secs = {0, 1, 1234567890, 2147483647}
CONSTANT Usecs = {0, 1, 999999}
CONSTANT Pkts = {0, 1, 2, 3, 4, 5, 6, 7, 8}
CONSTANT MaxFrames = 8
CONSTANT MaxCalls = 3
CONSTANT KMax = 8
CONSTANT Refilters = {0, 1, 2, 9, 12}
CONSTRAINT Emit
CHECK_DEADLOCK FALSE
