------------------------------- MODULE CaptureAbs -------------------------------
(* Property C17 -- reference semantics of reading a capture file, property level.

   A capture file is a sequence of frames.  Of a frame the property only uses
       cls   "Good" iff the frame parses with the top-level parser of the file's link type
             (anything else -- "Malformed", "Empty", "Unknown", "Foreign" -- does not parse),
       m     TRUE iff libpcap says the installed filter matches the frame (only read when a filter is installed),
       sec, usec   the frame's timestamp in the file (not used by the selection).
   Frames are referred to by their index 1..Len(frames).

   The only abstract state of a reader is  out : the indices handed to the user so far, in order.
   Everything the property demands of a call is a function of (frames, filt, out):

     "yields, in order, exactly the frames that parse, skips malformed ones"    Selected / Remaining / Sorted
     "a BPF filter applied by the sniffer ... selects exactly the frames libpcap says match"   the m conjunct
       (quantifier of the property: frames_out = [f in frames_in | parses(f) and filter(f)])
     "ends cleanly at end of file"                                              NextIdx = 0 / Deliveries ends
     "come back in the same order"                                              Sorted, InOrder
     "after a stop the next call continues with the next frame"                 Remaining starts after Last(out):
       nothing already delivered is delivered again and nothing selected in between is lost.
   End of file is absorbing by construction: once every selected frame is in out, Remaining is empty for ever.

   Freedom (deliberately not specified here): how many file records the implementation has consumed, how it
   loops internally, what it does with frames that do not parse (beyond not delivering them), the value of
   the timestamp handed back with a null packet. *)
EXTENDS Naturals, Integers, Sequences, FiniteSets

Parses(f) == f.cls = "Good"

\* frames_out = [f in frames_in | parses(f) and filter(f)]   (as a set of indices; the order is the index order)
Selected(frames, filt) == {i \in 1..Len(frames) : Parses(frames[i]) /\ (filt => frames[i].m)}

Last(out) == IF out = <<>> THEN 0 ELSE out[Len(out)]
Remaining(frames, filt, out) == {i \in Selected(frames, filt) : i > Last(out)}
Min(S) == CHOOSE x \in S : \A y \in S : x <= y
\* ascending sequence of the members of S, S a subset of 1..n
Sorted(S, n) == SelectSeq([i \in 1..n |-> i], LAMBDA i : i \in S)

\* next_packet(): the first remaining frame that parses (and matches); 0 = the null packet at end of file
NextIdx(frames, filt, out) ==
    LET r == Remaining(frames, filt, out) IN IF r = {} THEN 0 ELSE Min(r)

\* a loop (sniff_loop with a functor, sniff_loop with max_packets, begin()..end() iteration) that the user stops
\* after its k-th delivery (k = 0: never): every remaining selected frame in order, cut after k
Deliveries(frames, filt, out, k) ==
    LET r == Sorted(Remaining(frames, filt, out), Len(frames)) IN
    IF k > 0 /\ k < Len(r) THEN SubSeq(r, 1, k) ELSE r

(* Invariants of any reader state (used by the implementation-shaped model CaptureLoop) *)
InOrder(out) == \A a, b \in 1..Len(out) : a < b => out[a] < out[b]               \* same order, none twice
OnlySelected(frames, filt, out) == \A a \in 1..Len(out) : out[a] \in Selected(frames, filt)
\* between calls nothing selected has been passed over: out is exactly the selected frames up to Last(out)
NoGap(frames, filt, out) == {out[a] : a \in 1..Len(out)} = {i \in Selected(frames, filt) : i <= Last(out)}
=============================================================================
