------------------------------- MODULE CaptureGen -------------------------------
(* Scenario generator for C17: file descriptions and the program of public calls that reads them.
   Exported as
     {"lt": link type, "filter": filter id (0 = none),
      "frames": [{"cls": "Good"|"Malformed"|"Empty"|"Arb", "ts": [sec, usec], "pkt": packet-shape id}],
      "calls":  [{"api": "next"|"loop"|"loopmax"|"iter", "k": stop after the k-th packet (0 = never)} | {"api": "setfilter", "k": filter id}]}
   "Arb" asks the driver for seeded arbitrary bytes; their class is whatever the top-level parser says.
   BFS (small constants; tools/families/c17.py rotates link type, filter, timestamps and packet shapes over the
   exported structures) and -simulate (full constants, longer files). *)
EXTENDS Naturals, Sequences, FiniteSets, TLC, Json
CONSTANTS LTs, Filters, Classes, Secs, Usecs, Pkts, MaxFrames, MaxCalls, KMax, Refilters
VARIABLES lt, flt, frames, calls, done,
          nf, nc        \* file length and number of calls, chosen up front (so that -simulate is not biased to short files)
vars == <<lt, flt, frames, calls, done, nf, nc>>

Calls == {[api |-> "next", k |-> 0]}
         \cup {[api |-> "loop", k |-> k] : k \in 0..KMax}
         \cup {[api |-> "loopmax", k |-> k] : k \in 1..KMax}
         \cup {[api |-> "iter", k |-> k] : k \in 0..KMax}
         \cup {[api |-> "setfilter", k |-> f] : f \in Refilters}      \* BaseSniffer::set_filter(expression f) between two reads

Init == /\ lt \in LTs /\ flt \in Filters /\ frames = <<>> /\ calls = <<>> /\ done = FALSE
        /\ nf \in 0..MaxFrames /\ nc \in 1..MaxCalls
AddFrame == /\ ~done /\ Len(frames) < nf
            /\ \E c \in Classes, s \in Secs, u \in Usecs, p \in Pkts :      \* pkt: shape of a Good frame / the frame a bad one is derived from
                    frames' = Append(frames, [cls |-> c, ts |-> <<s, u>>, pkt |-> p])
            /\ UNCHANGED <<lt, flt, calls, done, nf, nc>>
AddCall == /\ ~done /\ Len(frames) = nf /\ Len(calls) < nc
           /\ \E c \in Calls : calls' = Append(calls, c)
           /\ UNCHANGED <<lt, flt, frames, done, nf, nc>>
Finish == /\ ~done /\ Len(calls) = nc /\ done' = TRUE /\ UNCHANGED <<lt, flt, frames, calls, nf, nc>>
Next == AddFrame \/ AddCall \/ Finish
Spec == Init /\ [][Next]_vars
Emit == done => PrintT("SCN " \o ToJson([lt |-> lt, filter |-> flt, frames |-> frames, calls |-> calls]))
=============================================================================
