SPECIFICATION Spec
CONSTANT MaxFrames = 3
CONSTANT Classes = {"Good", "Malformed", "Empty"}
CONSTANT Variant = "code"
INVARIANT NoEscape
INVARIANT Order
INVARIANT OwnTimestamp
INVARIANT NoGap
INVARIANT CallCorrect
PROPERTY Terminates
CHECK_DEADLOCK FALSE
