SPECIFICATION Spec
CONSTANT MaxFrames = 6
CONSTANT Classes = {"Good", "Malformed", "Empty"}
CONSTANT Variant = "code"
INVARIANT NoEscape
INVARIANT Order
INVARIANT OwnTimestamp
INVARIANT NoGap
INVARIANT CallCorrect

CHECK_DEADLOCK FALSE
