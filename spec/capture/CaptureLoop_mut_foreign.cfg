SPECIFICATION Spec
CONSTANT MaxFrames = 3
CONSTANT Classes = {"Good", "Malformed", "Empty", "Foreign"}
CONSTANT Variant = "code"
INVARIANT NoEscape
INVARIANT Order
INVARIANT OwnTimestamp
INVARIANT NoGap
INVARIANT CallCorrect

CHECK_DEADLOCK FALSE
