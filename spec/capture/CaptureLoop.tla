------------------------------- MODULE CaptureLoop -------------------------------
(* Implementation-shaped model of Tins::BaseSniffer reading a capture file (src/sniffer.cpp,
   include/tins/sniffer.h), checked by TLC against the property-level operators of CaptureAbs for every
   file of at most MaxFrames frames, with and without a filter, and every sequence of public calls.

   Mirrors the code:
     libpcap        keeps the read cursor fpos; pcap_loop(handle, 1, handler, &data) advances to the next
                    record the installed filter accepts and invokes the handler on it, or returns 0 at end
                    of file WITHOUT invoking the handler.
     handler        sniff_loop_*_handler: data->packet_processed = true; data->tv = h->ts;
                    data->pdu = safe_alloc<T>(...)   -- 0 when the constructor throws malformed_packet.
                    Any other exception type is not caught and unwinds through pcap_loop ("Foreign" frames;
                    they exist only if a parser violates C01, see the cfg CaptureLoop_mut_foreign).
     next_packet    sniff_data data;  while (data.pdu == 0 && data.packet_processed) {
                        data.packet_processed = false;  if (pcap_loop(...) < 0) return null; }
                    return PtrPacket(data.pdu, data.tv);
     iterator       begin() = iterator(this) -> advance();  advance(): pkt_ = next_packet(); if (!pkt_) sniffer_ = 0;
     sniff_loop     for (it = begin(); it != end(); ++it) { if (!functor(PACKET(it))) return;
                                                            if (max_packets && --max_packets == 0) return; }
   Public calls (one action each, the loops as pc-labelled micro-steps):
     CallNext            next_packet()
     CallLoop(k)         sniff_loop(functor) whose functor returns false at its k-th invocation (k = 0: never)
     CallLoopMax(k)      sniff_loop(functor, max_packets = k), functor always true
     CallIter(k)         for (it = begin(); it != end(); ++it) with a break after the k-th packet (k = 0: none)

   Variant "code" is the code as written.  Model-level mutants (each must be refuted by TLC):
     "stop_on_malformed"   the while loop of next_packet is an if: a frame that does not parse yields null
     "ignore_functor"      sniff_loop ignores the functor's result
     "tv_first"            the handler records the timestamp only of the first record seen by one next_packet
   and the cfg CaptureLoop_mut_foreign adds the frame class "Foreign" to the unchanged code. *)
EXTENDS Naturals, Integers, Sequences, FiniteSets, TLC
CONSTANTS MaxFrames, Classes, Variant

A == INSTANCE CaptureAbs

VARIABLES frames, filt,    \* the file and whether a filter is installed (fixed in a behaviour)
          fpos,            \* libpcap's cursor: number of records consumed
          pc,              \* "idle" | "np" (inside next_packet's while loop)
          caller,          \* the public call in progress / last completed: [api, k, cnt, base]
          data,            \* sniff_data: [pdu, tv, processed]; pdu/tv are frame indices, 0 = null
          out,             \* every packet handed to the user, in order: [i |-> frame, t |-> frame whose timestamp it carries]
          escaped          \* an exception left a public call
vars == <<frames, filt, fpos, pc, caller, data, out, escaped>>

FrameSet == [cls : Classes, m : BOOLEAN]
Fresh == [pdu |-> 0, tv |-> 0, processed |-> TRUE]
Idx(o) == [a \in 1..Len(o) |-> o[a].i]

Init == /\ filt \in BOOLEAN
        /\ \E n \in 0..MaxFrames : frames \in [1..n -> FrameSet]
        /\ ~filt => \A i \in 1..Len(frames) : frames[i].m        \* m is not read without a filter
        /\ fpos = 0 /\ pc = "idle" /\ data = Fresh /\ out = <<>> /\ escaped = FALSE
        /\ caller = [api |-> "none", k |-> 0, cnt |-> 0, base |-> 0]

Start(api, k) == /\ pc = "idle" /\ ~escaped
                 /\ pc' = "np" /\ data' = Fresh
                 /\ caller' = [api |-> api, k |-> k, cnt |-> 0, base |-> Len(out)]
                 /\ UNCHANGED <<frames, filt, fpos, out, escaped>>
CallNext    == Start("next", 0)
CallLoop    == \E k \in 0..MaxFrames : Start("loop", k)
CallLoopMax == \E k \in 1..MaxFrames : Start("loopmax", k)
CallIter    == \E k \in 0..MaxFrames : Start("iter", k)

\* one turn of  while (data.pdu == 0 && data.packet_processed) { data.packet_processed = false; pcap_loop(.., 1, ..) }
NpIter == /\ pc = "np" /\ data.pdu = 0 /\ data.processed
          /\ LET cand == {i \in (fpos + 1)..Len(frames) : ~filt \/ frames[i].m} IN
             IF cand = {}
             THEN /\ fpos' = Len(frames)                                      \* end of file: handler not invoked
                  /\ data' = [data EXCEPT !.processed = FALSE]
                  /\ UNCHANGED <<pc, escaped>>
             ELSE LET i == A!Min(cand)
                      cls == frames[i].cls IN
                  /\ fpos' = i
                  /\ IF cls = "Foreign"
                     THEN escaped' = TRUE /\ pc' = "idle" /\ UNCHANGED data   \* unwinds through pcap_loop and the caller
                     ELSE /\ UNCHANGED <<pc, escaped>>
                          /\ data' = [pdu |-> IF cls = "Good" THEN i ELSE 0,
                                      tv  |-> IF Variant = "tv_first" /\ data.tv # 0 THEN data.tv ELSE i,
                                      processed |-> IF Variant = "stop_on_malformed" THEN cls = "Good" ELSE TRUE]
          /\ UNCHANGED <<frames, filt, caller, out>>

\* next_packet returns PtrPacket(data.pdu, data.tv) to whoever called it
NpExit == /\ pc = "np" /\ ~(data.pdu = 0 /\ data.processed)
          /\ LET p == data.pdu
                 n == caller.cnt + 1
                 stop == CASE caller.api = "loop"    -> Variant # "ignore_functor" /\ caller.k > 0 /\ n = caller.k
                           [] caller.api = "loopmax" -> n = caller.k
                           [] caller.api = "iter"    -> caller.k > 0 /\ n = caller.k
                           [] OTHER -> TRUE IN
             IF p = 0
             THEN pc' = "idle" /\ UNCHANGED <<out, caller, data>>            \* null: the caller / iterator == end()
             ELSE /\ out' = Append(out, [i |-> p, t |-> data.tv])            \* the user (functor, loop body) gets it
                  /\ caller' = [caller EXCEPT !.cnt = n]
                  /\ IF stop THEN pc' = "idle" /\ UNCHANGED data
                     ELSE pc' = "np" /\ data' = Fresh                         \* ++it -> advance() -> next_packet()
          /\ UNCHANGED <<frames, filt, fpos, escaped>>

Next == CallNext \/ CallLoop \/ CallLoopMax \/ CallIter \/ NpIter \/ NpExit
Spec == Init /\ [][Next]_vars /\ WF_vars(NpIter \/ NpExit)

---------------------------------------------------------------------------------
(* What the property demands, evaluated on the model *)
Delivered == Idx(out)

\* "never lets an exception ... escape from the per-packet loop or range iteration"
NoEscape == ~escaped
\* "come back in the same order", none twice; only frames that parse and match
Order == A!InOrder(Delivered) /\ A!OnlySelected(frames, filt, Delivered)
\* "... with microsecond timestamps": a packet carries the timestamp of its own frame
OwnTimestamp == \A a \in 1..Len(out) : out[a].t = out[a].i
\* between public calls nothing that parses (and matches) has been passed over
NoGap == (pc = "idle" /\ ~escaped) => A!NoGap(frames, filt, Delivered)
\* a completed public call delivered exactly what the property says, given what had been delivered before it
CallCorrect ==
    (pc = "idle" /\ ~escaped /\ caller.api # "none") =>
        LET pre == SubSeq(Delivered, 1, caller.base)
            got == SubSeq(Delivered, caller.base + 1, Len(out)) IN
        IF caller.api = "next"
        THEN LET x == A!NextIdx(frames, filt, pre) IN got = (IF x = 0 THEN <<>> ELSE <<x>>)
        ELSE got = A!Deliveries(frames, filt, pre, caller.k)
\* every public call returns (the internal loops terminate)
Terminates == []<>(pc = "idle")
=============================================================================
