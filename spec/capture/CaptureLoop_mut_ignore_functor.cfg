SPECIFICATION Spec
CONSTANT MaxFrames = 3
CONSTANT Classes = {"Good", "Malformed", "Empty"}
CONSTANT Variant = "ignore_functor"
INVARIANT NoEscape
INVARIANT Order
INVARIANT OwnTimestamp
INVARIANT NoGap
INVARIANT CallCorrect

CHECK_DEADLOCK FALSE
