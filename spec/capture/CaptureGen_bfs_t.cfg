SPECIFICATION Spec
CONSTANT LTs = {"EN10MB"}
CONSTANT Filters = {0}
CONSTANT Classes = {"Good", "Malformed", "Empty"}
CONSTANT Secs = {1}
CONSTANT Usecs = {0}
CONSTANT Pkts = {0}
CONSTANT MaxFrames = 5
CONSTANT MaxCalls = 2
CONSTANT KMax = 4
CONSTANT Refilters = {0, 1}
CONSTRAINT Emit
CHECK_DEADLOCK FALSE
