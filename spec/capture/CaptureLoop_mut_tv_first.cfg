SPECIFICATION Spec
CONSTANT MaxFrames = 3
CONSTANT Classes = {"Good", "Malformed", "Empty"}
CONSTANT Variant = "tv_first"
INVARIANT NoEscape
INVARIANT Order
INVARIANT OwnTimestamp
INVARIANT NoGap
INVARIANT CallCorrect

CHECK_DEADLOCK FALSE
