------------------------------ MODULE WifiTrace ------------------------------
(* Trace specification for C09: validates executions of the real Crypto::WEPDecrypter / Crypto::WPA2Decrypter
   (harness/wifi_crypt.cpp) against DecrypterAbs.

   Reset record (Cfg):  kind = "selftest" | "frame" | "hs"
     frame:  cipher, ds, a3, qos, len, fault, cut, keysrc, via        (the descriptor of WifiGen)
     hs:     focus (the station whose data frames carry the verdict in this replay), hclass (class label of the focus
             station's handshake history, from FourWayGen), cipher, given (bssid supplied with the passphrase)
   Events:
     selftest  one boolean per validation item of the independent encryptor                       (kind selftest)
     frame     parsed, ret, flag, snap, got, plain, thrown, pairs, cbhs, cbap, bodylen          (kind frame)
     beacon    own, ret, thrown, pairs, cbap                                                      (kind hs)
     hs        s, m, an, sn, ret, thrown, pairs, cb                                               (kind hs)
     data      s, from, kan, ksn, parsed, ret, flag, snap, got, plain, thrown, pairs             (kind hs)
   ret = return value of decrypt (through DecrypterProxy: "the functor was called"); flag = Protected bit afterwards;
   got = LLC/SNAP header rebuilt from the SNAP getters + serialization of what is above it, plain = the MSDU the
   independent encryptor was given (both logged only when ret = TRUE, else <<>>).

   "no crash ever" (D3) is not an event: a scenario whose process dies is reported by the replay driver itself. *)
EXTENDS TraceIO, Integers, FiniteSets
D == INSTANCE DecrypterAbs
Sta == {"s1", "s2"}
VARIABLE t          \* the DecrypterAbs table of the execution (hs executions)
vars == <<ex, l, t>>

Init == \E s \in Starts : /\ TraceInit(s)
                          /\ t = D!EmptyTable(Sta, IF Log[s].kind = "hs" THEN Log[s].given ELSE FALSE)

\* ---------------- self-test of the encryptor
SelfTest == /\ IsEvent("selftest")
            /\ \A k \in (DOMAIN Ev) \ {"e"} : Ev[k] = TRUE
            /\ UNCHANGED t

\* ---------------- one frame against a fresh decrypter
IsWep(c) == c \in {"WEP40", "WEP104"}
HdrLen(c) == IF IsWep(c) THEN 4 ELSE 8
(* The decrypter holds the key of the frame's pair, the frame was produced with it and is intact (DecrypterAbs!Decrypt):
   no fault at all.  Every fault class of the generator breaks one of the three conjuncts:
     wrong_key / no_key                       the table holds another key / only keys of other pairs
     flip_ciphertext, flip_icv_or_mic, flip_aad, truncate, garbage    the integrity field no longer matches *)
FrameShould(c) == c.fault = "none"
(* unspecified key selection (DESIGN 5 rule 6): four-address frames whose DA/SA are not the link ends, and WEP
   four-address frames (no address of the header names the BSS) *)
FrameSpecified(c) == ~(c.ds = "wds" /\ (c.a3 = "relay" \/ IsWep(c.cipher)))
Frame == /\ IsEvent("frame")
         /\ Cfg.kind = "frame"
         /\ Ev.parsed                                                 \* a complete 802.11 header always parses
         /\ FrameShould(Cfg) => Ev.thrown = ""                        \* D1: a good frame is decrypted, not refused with an exception
         /\ IF FrameSpecified(Cfg)
            THEN D!OutcomeOK(FrameShould(Cfg), Ev.ret, Ev.flag, Ev.got, Ev.plain)
            ELSE D!OutcomeUnspecOK(FrameShould(Cfg), Ev.ret, Ev.flag, Ev.got, Ev.plain)
         /\ Ev.ret => Ev.snap                                         \* D1: what is reported as decrypted has its LLC/SNAP layer
         /\ UNCHANGED t

\* ---------------- handshake histories
Beacon == /\ IsEvent("beacon")
          /\ Cfg.kind = "hs"
          /\ Ev.thrown = ""
          /\ t' = IF Ev.own THEN D!ApSeen(t) ELSE t
Hs == /\ IsEvent("hs")
      /\ Cfg.kind = "hs"
      /\ Ev.thrown = ""
      /\ t' = IF Ev.m = 4 THEN D!Learn(t, Ev.s, <<Ev.an, Ev.sn>>) ELSE t
Data == /\ IsEvent("data")
        /\ Cfg.kind = "hs"
        /\ LET f == [pair |-> Ev.s, key |-> <<Ev.kan, Ev.ksn>>, intact |-> TRUE]
               should == D!Decrypt(t, f) IN
           /\ Ev.parsed
           /\ IF Ev.s = Cfg.focus /\ D!Specified(t, Ev.s)
              THEN /\ D!OutcomeOK(should, Ev.ret, Ev.flag, Ev.got, Ev.plain)
                   /\ should => Ev.thrown = ""
              ELSE D!OutcomeUnspecOK(TRUE, Ev.ret, Ev.flag, Ev.got, Ev.plain)
           /\ Ev.ret => Ev.snap
        /\ UNCHANGED t

Next == SelfTest \/ Frame \/ Beacon \/ Hs \/ Data
Spec == Init /\ [][Next]_vars
\* executions on which the oracle was silent about the decision
Skipped == NoteSkipped(IF Cfg.kind = "frame" THEN ~FrameSpecified(Cfg) ELSE IF Cfg.kind = "hs" THEN ~D!Specified(t, Cfg.focus) ELSE FALSE)
=============================================================================
