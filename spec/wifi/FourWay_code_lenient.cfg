\* EXPECTED TO BE REFUTED (design finding F17): the capturer as written loses the handshake on the sniffer-visible
\* history M1, M2, M1(re-sent), M3, M4 when the authenticator accepts a message 2 that answers an earlier message 1
\* (as hostapd does).  Registered with vlib.expect_violation in tools/families/c09.py: the refutation is reported as a
\* DESIGN finding and does NOT fail the check.
SPECIFICATION Spec
CONSTANT Stations = {"s1", "s2"}
CONSTANT R = 2
CONSTANT First = "s1"
CONSTANT HsFirst = 2
CONSTANT HsRest = 1
CONSTANT MaxData = 1
CONSTANT MaxBeacons = 1
CONSTANT MaxQ = 1
CONSTANT Variant = "code"
CONSTANT Lenient = TRUE
CONSTANT Snonce = "reuse"
CONSTANT ApKnownFirst = TRUE
CONSTANT Record = FALSE
INVARIANTS TypeOK KeySound KeysNeedAp ImplSubAbs PeersAgree AbsHasKeys CapturerHasKeys NoMissedData
CHECK_DEADLOCK FALSE
