\* random walks: two stations, strict authenticator
SPECIFICATION GSpec
CONSTANT Stations = {"s1", "s2"}
CONSTANT R = 2
CONSTANT First = "s1"
CONSTANT HsFirst = 2
CONSTANT HsRest = 1
CONSTANT MaxData = 2
CONSTANT MaxBeacons = 2
CONSTANT MaxQ = 2
CONSTANT Variant = "code"
CONSTANT Lenient = FALSE
CONSTANT Snonce = "reuse"
CONSTANT ApKnownFirst = FALSE
CONSTANT Record = TRUE
CONSTANT MinLen = 10
CONSTANT MaxLen = 26
CONSTRAINT Emit
CHECK_DEADLOCK FALSE
