\* proposed repair of the capturer, lenient authenticator, one SNonce per ANonce, two stations (quick bounds)
SPECIFICATION Spec
CONSTANT Stations = {"s1", "s2"}
CONSTANT R = 2
CONSTANT First = "s1"
CONSTANT HsFirst = 1
CONSTANT HsRest = 1
CONSTANT MaxData = 1
CONSTANT MaxBeacons = 1
CONSTANT MaxQ = 1
CONSTANT Variant = "ideal"
CONSTANT Lenient = TRUE
CONSTANT Snonce = "reuse"
CONSTANT ApKnownFirst = TRUE
CONSTANT Record = FALSE
INVARIANTS TypeOK KeySound KeysNeedAp ImplSubAbs PeersAgree AbsHasKeys CapturerHasKeys NoMissedData
CHECK_DEADLOCK FALSE
