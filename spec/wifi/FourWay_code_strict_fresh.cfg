\* EXPECTED TO BE REFUTED (design finding): with a supplicant that draws a new SNonce for every message 1 (IEEE 802.11-2012
\* 11.6.6.2) even a strict authenticator yields M1, M1(re-sent), M2(SNonce 1), M2(SNonce 2), M3, M4; the capturer's "skip
\* repeated" rule keeps the FIRST message 2, the PTK is derived from the stale SNonce and the MIC of message 4 fails.
SPECIFICATION Spec
CONSTANT Stations = {"s1", "s2"}
CONSTANT R = 2
CONSTANT First = "s1"
CONSTANT HsFirst = 1
CONSTANT HsRest = 1
CONSTANT MaxData = 1
CONSTANT MaxBeacons = 1
CONSTANT MaxQ = 2
CONSTANT Variant = "code"
CONSTANT Lenient = FALSE
CONSTANT Snonce = "fresh"
CONSTANT ApKnownFirst = TRUE
CONSTANT Record = FALSE
INVARIANTS TypeOK KeySound KeysNeedAp ImplSubAbs PeersAgree AbsHasKeys CapturerHasKeys NoMissedData
CHECK_DEADLOCK FALSE
