------------------------- MODULE HandshakeCapturerImpl -------------------------
(* Implementation-shaped model of Tins::RSNHandshakeCapturer (src/handshake_capturer.cpp) for ONE address pair:
   the per-pair vector of collected EAPOL-Key messages and the expected-position rule of do_insert, plus the key
   that WPA2::SessionKeys(handshake, pmk) derives from a completed vector (src/crypto.cpp).

   A message is [m, an, sn]:  m the message number as process_packet classifies it from the key-information bits
   (1: pairwise+ack, no mic; 2: mic, no ack, not secure; 3: ack+mic+install; 4: mic, no ack, secure);
   <<an, sn>> identifies the PTK that keys its MIC (message 1 has no MIC: sn = 0); `an` of message 1 and 3 and `sn`
   of message 2 are also the nonces carried in the clear.

   Variant  "code"      as written: ANY message 1 assigns a fresh one-element vector; do_insert(expected) appends when
                        size = expected, leaves the vector alone when size = expected + 1 ("skip repeated") and CLEARS it
                        otherwise; message 4 at size 3 completes and erases the entry.
                        (An erased / absent entry behaves like an empty vector: nothing can be appended to it.)
            "no_skip"   model-level mutant: without the "skip repeated" rule
            "ideal"     proposed repair: a message 1 whose ANonce equals the stored one is a retransmission and is
                        ignored; out-of-step messages are ignored instead of clearing the vector; a message 2 that brings a
                        new SNonce for the stored ANonce replaces the stored message 2 as long as no message 3 is stored *)
EXTENDS Naturals, Sequences

Strip(msg) == [m |-> msg.m, an |-> msg.an, sn |-> msg.sn]

DoInsert(variant, vec, msg, expected) ==
    IF Len(vec) = expected THEN [vec |-> Append(vec, Strip(msg)), ok |-> TRUE]
    ELSE IF variant = "code" /\ Len(vec) = expected + 1 THEN [vec |-> vec, ok |-> FALSE]       \* skip repeated
    ELSE [vec |-> <<>>, ok |-> FALSE]                                                        \* iter->second.clear()

CodeStep(variant, vec, msg) ==
    CASE msg.m = 1 -> [vec |-> <<Strip(msg)>>, done |-> FALSE, hs |-> <<>>]                  \* handshakes_[addresses].assign(eapol, eapol + 1)
      [] msg.m = 2 -> [vec |-> DoInsert(variant, vec, msg, 1).vec, done |-> FALSE, hs |-> <<>>]
      [] msg.m = 3 -> [vec |-> DoInsert(variant, vec, msg, 2).vec, done |-> FALSE, hs |-> <<>>]
      [] msg.m = 4 -> LET r == DoInsert(variant, vec, msg, 3) IN
                      IF r.ok THEN [vec |-> <<>>, done |-> TRUE, hs |-> r.vec]               \* completed_handshakes_.push_back; erase
                      ELSE [vec |-> r.vec, done |-> FALSE, hs |-> <<>>]

IdealStep(vec, msg) ==
    LET keep == [vec |-> vec, done |-> FALSE, hs |-> <<>>] IN
    CASE msg.m = 1 -> IF vec # <<>> /\ vec[1].an = msg.an THEN keep ELSE [keep EXCEPT !.vec = <<Strip(msg)>>]
      [] msg.m = 2 -> IF vec # <<>> /\ vec[1].an = msg.an /\ Len(vec) <= 2          \* MIC of message 2 verifies under PTK(stored ANonce, its SNonce)
                      THEN [keep EXCEPT !.vec = <<vec[1], Strip(msg)>>] ELSE keep
      [] msg.m = 3 -> IF Len(vec) = 2 /\ vec[1].an = msg.an /\ vec[2].sn = msg.sn THEN [keep EXCEPT !.vec = Append(vec, Strip(msg))] ELSE keep
      [] msg.m = 4 -> IF Len(vec) = 3 /\ vec[3].an = msg.an /\ vec[2].sn = msg.sn
                      THEN [vec |-> <<>>, done |-> TRUE, hs |-> Append(vec, Strip(msg))] ELSE keep

Step(variant, vec, msg) == IF variant = "ideal" THEN IdealStep(vec, msg) ELSE CodeStep(variant, vec, msg)

(* SessionKeys(hs, pmk): the PTK is derived from the nonce of hs[1] (message 2: SNonce) and of hs[2] (message 3: ANonce)
   -- 0-based in the code, hs[2] and hs[3] here -- and accepted iff the MIC of message 4 verifies under it. *)
Derived(hs) == <<hs[3].an, hs[2].sn>>
MicOfLastOK(hs) == <<hs[4].an, hs[4].sn>> = Derived(hs)
=============================================================================
