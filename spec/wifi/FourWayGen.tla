------------------------------ MODULE FourWayGen ------------------------------
(* Scenario generator (a) for C09: sniffer-visible histories of FourWay (Record = TRUE).

   A history ends with an explicit Finish step (taken at a random point of a walk / at every point in breadth-first
   mode); on Finish one protected data frame per installed key is appended (so that every learned key is put to the test)
   and the history is exported as
      {"items": [ {"k":"beacon"} | {"k":"hs","s":station,"m":1..4,"rc":replay counter,"an":ANonce id,"sn":SNonce id}
                | {"k":"data","s":station,"from":"sta"|"ap","key":[an,sn]} ... ],
       "cls":   {station: class label of the station's message-number sequence},
       "lenient": authenticator variant, "snonce": supplicant variant}

   Class labels (per station, over its handshake messages in sniffer order; p = messages of the running handshake
   matched so far):
     in_order                  only 1,2,3,4 (several handshakes in a row allowed)
     adjacent_duplicate        ... with messages repeated directly after themselves (1,1,2,2,3,3,4,4)
     late_retransmission       ... with messages 3 / 4 repeated after the handshake had completed (1,2,3,4,3,4)
     restart_by_m1             ... a message 1 arrives while a handshake is in progress and the handshake is then run
                               again from message 2 (1,2,1,2,3,4 -- re-sent message 1 answered again, or a new ANonce)
     snonce_renewed            ... the supplicant answers a re-sent message 1 with a message 2 carrying a NEW SNonce while
                               the previous message 2 is the last thing seen of the handshake (1,1,2,2',3,4): what IEEE
                               802.11-2012 11.6.6.2 describes ("generates a new nonce SNonce" on every message 1)
     crossing_retransmission   anything else, i.e. a re-sent message crosses the answer to its original
                               (1,2,1,3,4  or  1,1,2,3,2,4): the class of defect F17
   The capturer's comments document the first two ("skip repeated"); the oracle of WifiTrace is the same for all classes
   -- the label only names the class in the scenario signature. *)
EXTENDS FourWay, Json
CONSTANTS MaxLen, MinLen      \* a history is cut at MaxLen items; Finish is possible from MinLen items on
VARIABLE fin
gvars == <<vars, fin>>

GInit == Init /\ fin = FALSE
Quiet == \A s \in Stations : toSta[s] = <<>> /\ toAp[s] = <<>>
Finish == /\ ~fin /\ Quiet /\ Len(hist) >= MinLen /\ fin' = TRUE /\ UNCHANGED vars
GNext == \/ ~fin /\ Len(hist) < MaxLen /\ Next /\ UNCHANGED fin
         \/ Finish
GSpec == GInit /\ [][GNext]_gvars

StepC(c, x) ==
    LET c1 == [c EXCEPT !.last = x.m, !.lastan = x.an, !.lastsn = x.sn] IN
    IF x.m = c.last /\ x.an = c.lastan /\ x.sn = c.lastsn THEN [c1 EXCEPT !.dup = TRUE]
    ELSE IF x.m = 1 THEN (IF c.p \in {0, 4} THEN [c1 EXCEPT !.p = 1] ELSE [c1 EXCEPT !.p = 1, !.restart = TRUE])
    ELSE IF x.m = 2 /\ c.p = 2 /\ x.sn # c.sn2 THEN [c1 EXCEPT !.renewed = TRUE, !.sn2 = x.sn]
    ELSE IF x.m = c.p + 1 THEN [c1 EXCEPT !.p = x.m, !.sn2 = IF x.m = 2 THEN x.sn ELSE @]
    ELSE IF c.p = 4 /\ x.m \in {3, 4} THEN [c1 EXCEPT !.late = TRUE]
    ELSE [c1 EXCEPT !.cross = TRUE]
Classify(s) ==
    LET q == SelectSeq(hist, LAMBDA x : x.k = "hs" /\ x.s = s)
        F[i \in 0..Len(q)] == IF i = 0 THEN [p |-> 0, last |-> 0, lastan |-> 0, lastsn |-> 0, sn2 |-> 0, dup |-> FALSE, restart |-> FALSE,
                                             late |-> FALSE, renewed |-> FALSE, cross |-> FALSE]
                              ELSE StepC(F[i - 1], q[i])
        c == F[Len(q)] IN
    IF q = <<>> THEN "none"
    ELSE IF c.cross THEN "crossing_retransmission"
    ELSE IF c.renewed THEN "snonce_renewed"
    ELSE IF c.restart THEN "restart_by_m1"
    ELSE IF c.late THEN "late_retransmission"
    ELSE IF c.dup THEN "adjacent_duplicate"
    ELSE "in_order"

DataItem(s, from, k) == [k |-> "data", s |-> s, m |-> 0, rc |-> 0, an |-> 0, sn |-> 0, from |-> from, key |-> k]
Probes(s) == (IF sta[s].key # NoKey THEN <<DataItem(s, "sta", sta[s].key)>> ELSE <<>>)
             \o (IF ap[s].key # NoKey THEN <<DataItem(s, "ap", ap[s].key)>> ELSE <<>>)
AllProbes == (IF "s1" \in Stations THEN Probes("s1") ELSE <<>>) \o (IF "s2" \in Stations THEN Probes("s2") ELSE <<>>)

Emit == fin => PrintT("SCN " \o ToJson([items |-> hist \o AllProbes,
                                        cls |-> [s \in Stations |-> Classify(s)],
                                        lenient |-> Lenient, snonce |-> Snonce]))
=============================================================================
