SPECIFICATION Spec
CONSTANT Lens = {1, 8, 15, 16, 17, 24, 32, 1500}
CONSTANT GarbageLens = {1, 4, 7, 8, 9, 12, 15, 16, 17, 20, 21, 22, 64, 2400}
CONSTRAINT Emit
CHECK_DEADLOCK FALSE
