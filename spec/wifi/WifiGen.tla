------------------------------- MODULE WifiGen -------------------------------
(* Scenario generator (b) for C09: descriptors of ONE protected 802.11 data frame and of the state of the decrypter it
   meets.  Every descriptor is one initial state; TLC enumerates the whole set and exports it.

     cipher   WEP40 | WEP104 | TKIP | CCMP
     ds       "to" (ToDS=1, station -> AP) | "from" (FromDS=1, AP -> station) | "wds" (both: four addresses)
     a3       third address: "bss" the AP itself | "third" a host behind the AP | "peer" ANOTHER STATION of the same BSS
              whose key the decrypter also holds;   for wds: "self" (DA/SA are the two link ends) | "relay" (third parties)
     qos      QoS data frame (TID enters the CCMP nonce and AAD and the Michael header)
     len      octets after the 8-octet LLC/SNAP header: 1, 15, 16, 17, 32, 1500 and 8, 24 (total MSDU = 16, 32: a multiple
              of the AES block)
     fault    none | flip_ciphertext | flip_icv_or_mic | flip_aad (CCMP: cut = 0 addr3, 1 fragment number, 2 TID, 3 PN)
              | truncate (protected body cut to `cut` octets, cut = 0 .. IV + MIC/ICV + 1) | garbage (`cut` random octets)
              | wrong_key | no_key (the decrypter holds keys, but for another pair / BSS)
     keysrc   "direct" (add_password / add_decryption_keys) | "handshake" (passphrase + network name + beacon or bssid +
              the four messages in order)
     via      "wire" (exact-size heap block -> Dot11::from_bytes) | "api" (frame object built with the setters)
              | "proxy" (through Crypto::DecrypterProxy)
     pn       IV / TSC / PN of the frame: "high" all six octets distinct and non-zero (a byte-order slip in the upper
              octets shows) | "low" below 2^16 (a young session: the upper four octets are zero)
   The expected outcome is NOT part of the descriptor: it is computed by the trace specification (WifiTrace). *)
EXTENDS Naturals, Sequences, FiniteSets, TLC, Json
CONSTANTS Lens,         \* payload length classes used for the fault-free / key-fault part
          GarbageLens   \* lengths of arbitrary protected bodies

Ciphers == {"WEP40", "WEP104", "TKIP", "CCMP"}
IsWep(c) == c \in {"WEP40", "WEP104"}
HdrMic(c) == IF IsWep(c) THEN 8 ELSE IF c = "TKIP" THEN 20 ELSE 16          \* IV + ICV | IV/ExtIV + MIC + ICV | CCMP header + MIC
DsA3 == {<<"to", "bss">>, <<"to", "third">>, <<"to", "peer">>, <<"from", "bss">>, <<"from", "third">>, <<"from", "peer">>,
         <<"wds", "self">>, <<"wds", "relay">>}
KeySrc(c) == IF IsWep(c) THEN {"direct"} ELSE {"direct", "handshake"}
DescP(c, d, q, n, f, cut, ks, via, pn) ==
    [kind |-> "frame", cipher |-> c, ds |-> d[1], a3 |-> d[2], qos |-> q, len |-> n, fault |-> f, cut |-> cut, keysrc |-> ks, via |-> via, pn |-> pn]
Desc(c, d, q, n, f, cut, ks, via) == DescP(c, d, q, n, f, cut, ks, via, "high")

\* A: fault-free frames over the full header / length / key-source / access-path product
GoodSet == {Desc(c, d, q, n, "none", 0, ks, via) : c \in Ciphers, d \in DsA3, q \in BOOLEAN, n \in Lens, ks \in {"direct", "handshake"}, via \in {"wire", "api", "proxy"}}
           \cup {DescP(c, d, q, n, "none", 0, ks, "wire", "low") : c \in Ciphers, d \in DsA3, q \in BOOLEAN, n \in Lens, ks \in {"direct", "handshake"}}
\* B: integrity and key faults
\*    (small packet numbers: a slip in the handling of the upper IV octets must not make the integrity faults vacuous)
FaultSet == {DescP(c, d, q, n, f, 0, ks, "wire", "low") : c \in Ciphers, d \in DsA3, q \in BOOLEAN, n \in Lens, ks \in {"direct", "handshake"},
                                                   f \in {"flip_ciphertext", "flip_icv_or_mic", "wrong_key", "no_key"}}
AadSet == {Desc("CCMP", d, q, n, "flip_aad", cut, "direct", "wire") : d \in {<<"to", "third">>, <<"from", "third">>, <<"wds", "relay">>, <<"wds", "self">>},
                                                   q \in BOOLEAN, n \in {16, 17}, cut \in 0..3}
\* C: truncated and arbitrary bodies meeting a decrypter that HOLDS the key of the pair
HostileHdr == {<<<<"to", "bss">>, FALSE, "direct">>, <<<<"from", "third">>, TRUE, "direct">>, <<<<"wds", "self">>, TRUE, "handshake">>}
TruncSet == {Desc(c, v[1], v[2], 16, "truncate", cut, IF IsWep(c) THEN "direct" ELSE v[3], "wire") : c \in Ciphers, v \in HostileHdr, cut \in 0..22}
GarbageSet == {Desc(c, v[1], v[2], 16, "garbage", cut, "direct", "wire") : c \in Ciphers, v \in {<<<<"to", "bss">>, FALSE>>, <<<<"from", "bss">>, TRUE>>},
                                                   cut \in GarbageLens}
Valid(x) == /\ x.keysrc \in KeySrc(x.cipher)
            /\ x.fault = "truncate" => x.cut <= HdrMic(x.cipher) + 1
            /\ (x.fault = "flip_aad" /\ x.cut = 2) => x.qos                  \* a TID exists only in QoS frames
            /\ (x.fault = "flip_aad" /\ x.cut = 0) => x.a3 # "self"         \* addr3 must not be one of the link ends (key look-up)
All == {x \in GoodSet \cup FaultSet \cup AadSet \cup TruncSet \cup GarbageSet : Valid(x)}

VARIABLE d
Init == d \in All
Next == FALSE /\ UNCHANGED d
Spec == Init /\ [][Next]_d
Emit == PrintT("SCN " \o ToJson(d))
=============================================================================
