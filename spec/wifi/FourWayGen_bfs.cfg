\* breadth-first: EVERY history of one station, one re-send, one handshake, the AP known first
SPECIFICATION GSpec
CONSTANT Stations = {"s1"}
CONSTANT R = 1
CONSTANT First = "s1"
CONSTANT HsFirst = 1
CONSTANT HsRest = 1
CONSTANT MaxData = 1
CONSTANT MaxBeacons = 1
CONSTANT MaxQ = 1
CONSTANT Variant = "code"
CONSTANT Lenient = TRUE
CONSTANT Snonce = "reuse"
CONSTANT ApKnownFirst = TRUE
CONSTANT Record = TRUE
CONSTANT MinLen = 1
CONSTANT MaxLen = 12
CONSTRAINT Emit
CHECK_DEADLOCK FALSE
