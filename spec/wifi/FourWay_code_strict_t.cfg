\* capturer as written, strict authenticator (thorough bounds)
SPECIFICATION Spec
CONSTANT Stations = {"s1", "s2"}
CONSTANT R = 2
CONSTANT First = "s1"
CONSTANT HsFirst = 2
CONSTANT HsRest = 1
CONSTANT MaxData = 1
CONSTANT MaxBeacons = 1
CONSTANT MaxQ = 2
CONSTANT Variant = "code"
CONSTANT Lenient = FALSE
CONSTANT Snonce = "reuse"
CONSTANT ApKnownFirst = TRUE
CONSTANT Record = FALSE
INVARIANTS TypeOK KeySound KeysNeedAp ImplSubAbs PeersAgree AbsHasKeys CapturerHasKeys NoMissedData
CHECK_DEADLOCK FALSE
