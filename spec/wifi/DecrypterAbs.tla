------------------------------ MODULE DecrypterAbs ------------------------------
(* Property C09 -- abstract key table of an 802.11 decrypter and the outcome of Decrypt.

   Identities (the numeric cipher work is done by the independent encryptor of the replay driver, not by TLC):
     key       <<an, sn>>   the pairwise key of a four-way handshake = the pair (ANonce identity, SNonce identity);
               NoKey = <<0,0>>: no key;   directly supplied keys and WEP keys use the same shape
     pair      a (bssid, station) pair -- in the models one AP, so a pair is named by its station
     frame     [pair, key, intact]: the pair it travels on, the key its sender encrypted it with, and whether its
               integrity field (ICV / CCM MIC) still matches its contents

   Table t = [known, keys, uk]
     known     the decrypter can map the AP's bssid to a passphrase: it has the (passphrase, ssid) and has seen a beacon of
               that ssid from the bssid, or was given the bssid explicitly  ("pmk per ssid, ap per bssid")
     keys      pair -> key | NoKey | Unspec
     uk        pair -> the key whose handshake completed while the AP was still unknown (see Learn)

   Clauses of C09:
     D1 "a frame encrypted by an independent implementation ... is decrypted by libtins to exactly the original
         LLC/SNAP payload and marked unprotected once the matching key is available - supplied directly, or for WPA2
         learned from the passphrase, the network name and any valid ordering of the four-way handshake including
         retransmitted messages" ............................ Learn / AddKeys make the key available; Decrypt = TRUE;
                                                              FrameOutcome: ret, flag cleared, payload equal
     D2 "Frames whose integrity check fails, or for which no key or a different key is known, are never reported as
         decrypted" ......................................... Decrypt = FALSE; FrameOutcome: ~ret and still marked protected
     D3 "decrypting arbitrary truncated, corrupted or hostile protected frames is memory-safe" ... observed by the
         sanitizers; in the trace: the event exists at all (no crash) and the outcome is D2's
   Freedom / unspecified (DESIGN 5 rule 6), the oracle is silent there:
     * a handshake that completes BEFORE the bssid is associated with the network name (beacon not yet seen): the
       property does not say whether the key must be recovered later -> keys = Unspec until another key is learned;
     * which address pair selects the key of a 4-address (WDS) frame whose DA/SA are not the two link ends, and which
       address names the BSS of a WEP 4-address frame;
     * the return value for unprotected frames (beacons, EAPOL). *)
EXTENDS Naturals, Integers, Sequences, FiniteSets

NoKey  == <<0, 0>>
Unspec == <<-1, -1>>

EmptyTable(Pairs, known) == [known |-> known, keys |-> [p \in Pairs |-> NoKey], uk |-> [p \in Pairs |-> NoKey]]

\* a beacon of the configured network name from the AP (or add_ap_data with an explicit bssid)
ApSeen(t) == [t EXCEPT !.known = TRUE]

\* D1 "supplied directly"
AddKeys(t, p, k) == [t EXCEPT !.keys[p] = k]

\* D1 "learned from ... the four-way handshake": message 4 of a handshake with key k has been seen on pair p.
\* (In a valid history message 4 is preceded by the messages 1-3 it answers, so every nonce is on the air by then.)
Learn(t, p, k) ==
    IF t.known
    THEN IF t.keys[p] = Unspec /\ t.uk[p] = k THEN t          \* a repeated message 4 of the handshake that was missed
         ELSE [t EXCEPT !.keys[p] = k]
    ELSE [t EXCEPT !.keys[p] = Unspec, !.uk[p] = k]

Specified(t, p) == t.keys[p] # Unspec

\* D1 / D2: the decision
Decrypt(t, f) == t.keys[f.pair] = f.key /\ f.key # NoKey /\ f.intact

(* Outcome of one decrypt call as recorded by the replay driver:
     ret    return value;  flag  the Protected ("wep") bit afterwards;  got / plain  recovered and original
     LLC/SNAP payload (got is <<>> unless the frame has an LLC/SNAP layer afterwards)
   expected = Decrypt(...) for the frame. *)
OutcomeOK(expected, ret, flag, got, plain) ==
    /\ ret = expected                                       \* D1 "is decrypted" / D2 "never reported as decrypted"
    /\ ret => (~flag /\ got = plain)                        \* D1 "to exactly the original LLC/SNAP payload and marked unprotected"
    /\ ~ret => flag                                         \* D2: a frame that was not decrypted is not marked unprotected
\* where the property does not fix the decision, whatever is reported as decrypted must still be right
OutcomeUnspecOK(mayBeTrue, ret, flag, got, plain) ==
    /\ ret => (mayBeTrue /\ ~flag /\ got = plain)
    /\ ~ret => flag

(* key-table invariants (checked by TLC on FourWay):
     issued[p] = the keys the supplicant of pair p has installed so far *)
KeySound(t, issued) == \A p \in DOMAIN t.keys : t.keys[p] \in {NoKey, Unspec} \cup issued[p]
KeysNeedAp(t) == (\E p \in DOMAIN t.keys : t.keys[p] \notin {NoKey, Unspec}) => t.known
=============================================================================
