------------------------------- MODULE FourWay -------------------------------
(* RSN four-way handshake between one authenticator (AP) and the supplicants of a set of stations over a lossy
   medium, observed by a sniffer that sees EVERY transmission in the order it is put on the air
   (IEEE 802.11-2012 11.6.6; DESIGN.md section 4 C09, Appendix D.6).

   Authenticator, per station:  idle -> m1 (message 1 sent) -> m3 (valid message 2 received, message 3 sent) -> done
     (message 4 received, keys installed).  Every transmission carries a replay counter one larger than the last.  A
     timer may re-send message 1 / 3 with an incremented counter (at most R re-sends per handshake); the station may
     (re-)associate at any time -- the AP gave up on the running handshake, or the station comes back after a completed
     one: frames in flight are flushed, both ends drop keys and handshake state, and the AP starts a new handshake
     with a new ANonce; at most MaxHs(s) handshakes per station.
     Lenient = TRUE : a message 2 / 4 is accepted if it echoes the counter of ANY message 1 / 3 still outstanding
                      for this handshake (hostapd keeps the last few counters valid for exactly this reason);
     Lenient = FALSE: only the counter of the latest transmission is accepted.
   Supplicant: answers EVERY message 1 with message 2 and every valid message 3 with message 4 (and installs the key
     when it sends message 4); drops messages whose counter is not larger than the last one it accepted.
     Snonce = "reuse": one SNonce per ANonce (wpa_supplicant);  "fresh": a new SNonce for every message 1.
   Medium: a transmission is heard by the sniffer and is then either queued towards its receiver (FIFO, at most
     MaxQ in flight) or lost.
   Sniffer: beacons (the AP becomes `known`), protected data frames of either direction (encrypted with the key the
     sender has installed, or with a key nobody in the model knows), and the handshake messages.  It runs
       impl : HandshakeCapturerImpl (Variant) feeding the key table as WPA2Decrypter::decrypt/try_add_keys do, and
       abs  : DecrypterAbs, the property-level table (a key is learned when message 4 is on the air),
     side by side.

   Checked by TLC:
     TypeOK, KeySound (abs and impl only ever hold keys the supplicant installed), KeysNeedAp, ImplSubAbs
     CapturerHasKeys   Completed(s) => the capturer-fed table holds the AP's key         (design property)
     NoMissedData      every data frame that DecrypterAbs decrypts is decrypted by the capturer-fed table
   Results (cfg files of this directory; tools/families/c09.py):
     Variant "code",  Lenient, reuse   REFUTED (F17): M1, M2, M1(re-sent), M3, M4 -- the re-sent message 1 restarts the
                                       capture and message 3 then clears it                  (FourWay_code_lenient.cfg)
     Variant "code",  strict,  fresh   REFUTED: M1, M1(re-sent), M2(SNonce 1), M2(SNonce 2), M3, M4 -- "skip repeated"
                                       keeps the first message 2, the MIC of message 4 fails   (FourWay_code_strict_fresh.cfg)
     Variant "code",  strict,  reuse   holds                                                  (FourWay_code_strict_*.cfg)
     Variant "no_skip" (model mutant)  REFUTED                                                (FourWay_noskip_strict.cfg)
     Variant "ideal"  (proposed repair) holds for lenient/strict authenticators and both supplicants (FourWay_ideal_*.cfg)

   The same module is the scenario generator for conformance (Record = TRUE keeps the sniffer-visible history; see
   FourWayGen). *)
EXTENDS Naturals, Integers, Sequences, FiniteSets, TLC
CONSTANTS Stations,      \* e.g. {"s1", "s2"}
          R,             \* re-sends per handshake
          First, HsFirst, HsRest,   \* handshakes the AP may start: HsFirst with station First, HsRest with every other one
          MaxData,       \* data frames per station
          MaxBeacons,
          MaxQ,
          Variant,       \* capturer variant: "code" | "no_skip" | "ideal"
          Lenient,       \* BOOLEAN
          Snonce,        \* "reuse" | "fresh"
          ApKnownFirst,  \* TRUE: no handshake starts before the sniffer knows the AP (the documented way to use the decrypter)
          Record         \* TRUE: keep the history (generation)

D == INSTANCE DecrypterAbs
C == INSTANCE HandshakeCapturerImpl

VARIABLES ap, sta, toSta, toAp, impl, abs, vec, issued, missed, ndata, nbeacon, hist
vars == <<ap, sta, toSta, toAp, impl, abs, vec, issued, missed, ndata, nbeacon, hist>>

NoKey == D!NoKey
MaxHs(s) == IF s = First THEN HsFirst ELSE HsRest
OldKey == <<9, 9>>          \* a key of an earlier session that nobody in the model holds

Init == /\ ap = [s \in Stations |-> [st |-> "idle", rc |-> 0, retr |-> 0, an |-> 0, sn |-> 0, hs |-> 0, lo |-> 0, key |-> NoKey]]
        /\ sta = [s \in Stations |-> [an |-> 0, sn |-> 0, nsn |-> 0, rc |-> 0, key |-> NoKey]]
        /\ toSta = [s \in Stations |-> <<>>] /\ toAp = [s \in Stations |-> <<>>]
        /\ impl = D!EmptyTable(Stations, FALSE) /\ abs = D!EmptyTable(Stations, FALSE)
        /\ vec = [s \in Stations |-> <<>>]
        /\ issued = [s \in Stations |-> {}]
        /\ missed = FALSE /\ ndata = [s \in Stations |-> 0] /\ nbeacon = 0 /\ hist = <<>>

Rec(item) == IF Record THEN Append(hist, item) ELSE hist

(* the sniffer hears handshake message msg of station s *)
SniffHs(s, msg) ==
    LET r == C!Step(Variant, vec[s], msg) IN
    /\ vec' = [vec EXCEPT ![s] = r.vec]
    /\ impl' = IF r.done /\ impl.known /\ C!MicOfLastOK(r.hs)          \* try_add_keys: find_ap, SessionKeys, MIC of message 4
               THEN D!AddKeys(impl, s, C!Derived(r.hs)) ELSE impl
    /\ abs' = IF msg.m = 4 THEN D!Learn(abs, s, <<msg.an, msg.sn>>) ELSE abs
    /\ hist' = Rec([k |-> "hs", s |-> s, m |-> msg.m, rc |-> msg.rc, an |-> msg.an, sn |-> msg.sn, from |-> "", key |-> NoKey])

(* put msg on the air towards the receiver's queue q: heard, then queued or lost *)
TransmitToSta(q, s, msg) == /\ SniffHs(s, msg)
                            /\ \/ Len(q[s]) < MaxQ /\ toSta' = [q EXCEPT ![s] = Append(@, msg)]
                               \/ toSta' = q
TransmitToAp(q, s, msg) == /\ SniffHs(s, msg)
                           /\ \/ Len(q[s]) < MaxQ /\ toAp' = [q EXCEPT ![s] = Append(@, msg)]
                              \/ toAp' = q

M(m, rc, an, sn) == [m |-> m, rc |-> rc, an |-> an, sn |-> sn]

(* a new handshake with a new ANonce: the first one, or after the station has (re-)associated -- the AP gave up on the
   running handshake or the station comes back after a completed one.  (Re-)association flushes what is in flight,
   and both ends delete the keys and the handshake state of the old association. *)
ApStart(s) == /\ ap[s].hs < MaxHs(s)
              /\ ApKnownFirst => abs.known
              /\ LET a == ap[s]  rc == a.rc + 1  an == a.hs + 1 IN
                 /\ ap' = [ap EXCEPT ![s] = [a EXCEPT !.st = "m1", !.rc = rc, !.retr = 0, !.an = an, !.sn = 0, !.hs = an, !.lo = rc, !.key = NoKey]]
                 /\ sta' = [sta EXCEPT ![s] = [@ EXCEPT !.an = 0, !.sn = 0, !.key = NoKey]]
                 /\ toAp' = [toAp EXCEPT ![s] = <<>>]
                 /\ TransmitToSta([toSta EXCEPT ![s] = <<>>], s, M(1, rc, an, 0))
              /\ UNCHANGED <<issued, missed, ndata, nbeacon>>

ApTimeout(s) == /\ ap[s].st \in {"m1", "m3"} /\ ap[s].retr < R
                /\ LET a == ap[s]  rc == a.rc + 1 IN
                   /\ ap' = [ap EXCEPT ![s] = [a EXCEPT !.rc = rc, !.retr = @ + 1]]
                   /\ TransmitToSta(toSta, s, IF a.st = "m1" THEN M(1, rc, a.an, 0) ELSE M(3, rc, a.an, a.sn))
                /\ UNCHANGED <<sta, toAp, issued, missed, ndata, nbeacon>>

RcOK(a, rc) == IF Lenient THEN rc \in a.lo .. a.rc ELSE rc = a.rc

ApRecv(s) == /\ toAp[s] # <<>>
             /\ LET a == ap[s]  msg == Head(toAp[s]) IN
                IF a.st = "m1" /\ msg.m = 2 /\ msg.an = a.an /\ RcOK(a, msg.rc)           \* MIC of message 2 verifies under PTK(ANonce, its SNonce)
                THEN /\ ap' = [ap EXCEPT ![s] = [a EXCEPT !.st = "m3", !.rc = @ + 1, !.retr = 0, !.sn = msg.sn, !.lo = a.rc + 1]]
                     /\ toAp' = [toAp EXCEPT ![s] = Tail(@)]
                     /\ TransmitToSta(toSta, s, M(3, a.rc + 1, a.an, msg.sn))
                ELSE /\ ap' = IF a.st = "m3" /\ msg.m = 4 /\ msg.an = a.an /\ msg.sn = a.sn /\ RcOK(a, msg.rc)
                              THEN [ap EXCEPT ![s] = [a EXCEPT !.st = "done", !.key = <<a.an, a.sn>>]] ELSE ap
                     /\ toAp' = [toAp EXCEPT ![s] = Tail(@)]
                     /\ UNCHANGED <<toSta, impl, abs, vec, hist>>
             /\ UNCHANGED <<sta, issued, missed, ndata, nbeacon>>

StaRecv(s) == /\ toSta[s] # <<>>
              /\ LET t == sta[s]  msg == Head(toSta[s]) IN
                 IF msg.rc > t.rc /\ msg.m = 1
                 THEN LET reuse == Snonce = "reuse" /\ msg.an = t.an
                          sn == IF reuse THEN t.sn ELSE t.nsn + 1 IN
                      /\ sta' = [sta EXCEPT ![s] = [t EXCEPT !.an = msg.an, !.sn = sn, !.nsn = IF reuse THEN @ ELSE sn, !.rc = msg.rc]]
                      /\ toSta' = [toSta EXCEPT ![s] = Tail(@)]
                      /\ TransmitToAp(toAp, s, M(2, msg.rc, msg.an, sn))
                      /\ UNCHANGED issued
                 ELSE IF msg.rc > t.rc /\ msg.m = 3 /\ msg.an = t.an /\ msg.sn = t.sn   \* MIC of message 3 verifies under the station's PTK
                 THEN /\ sta' = [sta EXCEPT ![s] = [t EXCEPT !.rc = msg.rc, !.key = <<t.an, t.sn>>]]
                      /\ issued' = [issued EXCEPT ![s] = @ \cup {<<t.an, t.sn>>}]
                      /\ toSta' = [toSta EXCEPT ![s] = Tail(@)]
                      /\ TransmitToAp(toAp, s, M(4, msg.rc, t.an, t.sn))
                 ELSE /\ toSta' = [toSta EXCEPT ![s] = Tail(@)]
                      /\ UNCHANGED <<sta, toAp, impl, abs, vec, hist, issued>>
              /\ UNCHANGED <<ap, missed, ndata, nbeacon>>

Beacon == /\ nbeacon < MaxBeacons
          /\ nbeacon' = nbeacon + 1
          /\ impl' = D!ApSeen(impl) /\ abs' = D!ApSeen(abs)
          /\ hist' = Rec([k |-> "beacon", s |-> "", m |-> 0, rc |-> 0, an |-> 0, sn |-> 0, from |-> "", key |-> NoKey])
          /\ UNCHANGED <<ap, sta, toSta, toAp, vec, issued, missed, ndata>>

(* a protected data frame on the pair of station s, encrypted with key k by `from` *)
Data(s, from, k) ==
    LET f == [pair |-> s, key |-> k, intact |-> TRUE] IN
    /\ ndata[s] < MaxData
    /\ ndata' = [ndata EXCEPT ![s] = @ + 1]
    /\ missed' = (missed \/ (D!Specified(abs, s) /\ D!Decrypt(abs, f) /\ ~D!Decrypt(impl, f)))
    /\ hist' = Rec([k |-> "data", s |-> s, m |-> 0, rc |-> 0, an |-> 0, sn |-> 0, from |-> from, key |-> k])
    /\ UNCHANGED <<ap, sta, toSta, toAp, impl, abs, vec, issued, nbeacon>>
DataStep(s) == \/ sta[s].key # NoKey /\ Data(s, "sta", sta[s].key)
               \/ ap[s].key # NoKey /\ Data(s, "ap", ap[s].key)
               \/ Data(s, "sta", OldKey)

Next == \/ Beacon
        \/ \E s \in Stations : ApStart(s) \/ ApTimeout(s) \/ ApRecv(s) \/ StaRecv(s) \/ DataStep(s)
Spec == Init /\ [][Next]_vars

----------------------------------------------------------------------------
StaOK(s) == /\ ap[s].st \in {"idle", "m1", "m3", "done"} /\ ap[s].retr \in 0..R /\ ap[s].hs \in 0..MaxHs(s)
            /\ Len(toSta[s]) <= MaxQ /\ Len(toAp[s]) <= MaxQ /\ Len(vec[s]) <= 3
            /\ \A i \in 1..Len(toSta[s]) : toSta[s][i].m \in {1, 3}
            /\ \A j \in 1..Len(toAp[s]) : toAp[s][j].m \in {2, 4}
TypeOK == /\ \A s \in Stations : StaOK(s)
          /\ impl.known \in BOOLEAN /\ abs.known = impl.known
KeySound == D!KeySound(abs, issued) /\ D!KeySound(impl, issued)
KeysNeedAp == D!KeysNeedAp(abs) /\ D!KeysNeedAp(impl)
\* the capturer-fed table never knows more than the property-level one
ImplSubAbs == \A s \in Stations : impl.keys[s] # NoKey => (impl.keys[s] = abs.keys[s] \/ ~D!Specified(abs, s))
\* both ends only ever install the same key, and the AP's key is one the station installed
PeersAgree == \A s \in Stations : ap[s].st = "done" => (ap[s].key \in issued[s] /\ ap[s].key = <<ap[s].an, ap[s].sn>>)

Completed(s) == ap[s].st = "done"
CapturerHasKeys == \A s \in Stations : (Completed(s) /\ D!Specified(abs, s)) => impl.keys[s] = ap[s].key
AbsHasKeys      == \A s \in Stations : (Completed(s) /\ D!Specified(abs, s)) => abs.keys[s] = ap[s].key
NoMissedData == ~missed
=============================================================================
