\* proposed repair, two stations, re-association of the first (thorough bounds)
SPECIFICATION Spec
CONSTANT Stations = {"s1", "s2"}
CONSTANT R = 2
CONSTANT First = "s1"
CONSTANT HsFirst = 2
CONSTANT HsRest = 1
CONSTANT MaxData = 1
CONSTANT MaxBeacons = 1
CONSTANT MaxQ = 1
CONSTANT Variant = "ideal"
CONSTANT Lenient = TRUE
CONSTANT Snonce = "reuse"
CONSTANT ApKnownFirst = TRUE
CONSTANT Record = FALSE
INVARIANTS TypeOK KeySound KeysNeedAp ImplSubAbs PeersAgree AbsHasKeys CapturerHasKeys NoMissedData
CHECK_DEADLOCK FALSE
