\* proposed repair, one station, STRICT authenticator, one SNonce per ANonce
SPECIFICATION Spec
CONSTANT Stations = {"s1"}
CONSTANT R = 2
CONSTANT First = "s1"
CONSTANT HsFirst = 3
CONSTANT HsRest = 1
CONSTANT MaxData = 2
CONSTANT MaxBeacons = 1
CONSTANT MaxQ = 2
CONSTANT Variant = "ideal"
CONSTANT Lenient = FALSE
CONSTANT Snonce = "reuse"
CONSTANT ApKnownFirst = TRUE
CONSTANT Record = FALSE
INVARIANTS TypeOK KeySound KeysNeedAp ImplSubAbs PeersAgree AbsHasKeys CapturerHasKeys NoMissedData
CHECK_DEADLOCK FALSE
