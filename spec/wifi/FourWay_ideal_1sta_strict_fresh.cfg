\* proposed repair, one station, STRICT authenticator, fresh SNonce per message 1
SPECIFICATION Spec
CONSTANT Stations = {"s1"}
CONSTANT R = 2
CONSTANT First = "s1"
CONSTANT HsFirst = 3
CONSTANT HsRest = 1
CONSTANT MaxData = 2
CONSTANT MaxBeacons = 1
CONSTANT MaxQ = 2
CONSTANT Variant = "ideal"
CONSTANT Lenient = FALSE
CONSTANT Snonce = "fresh"
CONSTANT ApKnownFirst = TRUE
CONSTANT Record = FALSE
INVARIANTS TypeOK KeySound KeysNeedAp ImplSubAbs PeersAgree AbsHasKeys CapturerHasKeys NoMissedData
CHECK_DEADLOCK FALSE
