SPECIFICATION Spec
CONSTANT Depth = 2
CONSTANT Mode = "parsed"
CONSTANT K = 2
CONSTRAINT Emit
CHECK_DEADLOCK FALSE
