-------------------------- MODULE RadioTapParserSpec --------------------------
(* The read side: a present-word driven cursor that aligns before every field (RadioTapParser's rule,
   Utils::RadioTapParser::skip_to_field / advance_field) is the inverse of RadioTapAbs!Canonical.
   Checked for every subset of the 22 defined fields (thorough) or of the 14 settable ones (quick):
   every field is found at the offset the parser computes, holds its bytes, and the parser consumes the
   payload exactly. *)
EXTENDS RadioTapAbs, TLC
CONSTANT Universe
VARIABLE pres
Init == pres \in SUBSET Universe
Next == UNCHANGED pres
Spec == Init /\ [][Next]_pres
\* parser: offset (in the options payload, 0-based) of each present field
ParsePos(bits) == LET RECURSIVE P(_, _, _)
                      P(b, off, acc) == IF b > MaxBit THEN [pos |-> acc, end |-> off]
                                        ELSE IF b \in bits
                                             THEN LET o == off + Pad(AlignOf(b), off + 4) IN P(b + 1, o + SizeOf(b), acc @@ (b :> o))
                                             ELSE P(b + 1, off, acc)
                  IN P(0, 4, <<>>)
Inverse == LET val == InitVal(pres)  bytes == Canonical(val)  pp == ParsePos(pres) IN
           /\ pp.end = Len(bytes)
           /\ SubSeq(bytes, 1, 4) = PresentWord(pres)
           /\ \A b \in pres : SubSeq(bytes, pp.pos[b] + 1, pp.pos[b] + SizeOf(b)) = val[b]
           /\ \A b \in pres : (pp.pos[b] + 4) % AlignOf(b) = 0
=============================================================================
