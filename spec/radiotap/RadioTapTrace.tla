----------------------------- MODULE RadioTapTrace -----------------------------
(* Trace specification for C11: validates executions of the real RadioTap class (harness/radiotap_set.cpp)
   against RadioTapAbs.
     init  {"start":"default"|"parsed","bits":[..],"present":[..],"get":[[bit,"ok"|"absent"|"error",bytes],..],"payload":[..]}
     set   {"f":bit,"v":[bytes],"present":[..],"get":[..],"payload":[..],"len_field":n,
            "rt":{"ok":bool,"get":[..],"inner_ok":bool,"present":[..]}}
   Sentences of C11:
     "each getter returns the value most recently set for its field, fields never set report 'not present',
      previously set fields keep their values" ......... GetOK
     "the present-flags word lists exactly the fields that were set" ......... present = DOMAIN val
     "places each present field in bit order at its naturally aligned offset ..." ......... payload = Canonical(val)
     "with the header-length field covering exactly those bytes" ......... len_field = 4 + Len(payload)
     "parsing the bytes yields the same field values and the same inner 802.11 frame" ......... rt *)
EXTENDS TraceIO, RadioTapAbs
VARIABLE val
vars == <<ex, l, val>>
Init == \E s \in Starts : TraceInit(s) /\ val = <<>>

\* a getter observation is <<bit, "ok", bytes>> | <<bit, "absent", <<>>>> | <<bit, "error", <<>>>>
GetOK(get, v) == \A g \in Range(get) : g[1] \in Settable =>
                     IF g[1] \in DOMAIN v THEN g[2] = "ok" /\ g[3] = v[g[1]] ELSE g[2] = "absent"
AsSet(s) == Range(s)

InitEv == /\ IsEvent("init")
          /\ LET gv == [b \in {g[1] : g \in {x \in Range(Ev.get) : x[2] = "ok"}} |->
                            (CHOOSE g \in Range(Ev.get) : g[1] = b)[3]]
                 v0 == IF Ev.start = "parsed" THEN InitVal(AsSet(Ev.bits)) ELSE gv IN
             /\ val' = v0
             /\ WellFormed(v0)
             /\ AsSet(Ev.present) = DOMAIN v0
             /\ GetOK(Ev.get, v0)
             /\ Ev.payload = Canonical(v0)
SetEv == /\ IsEvent("set")
         /\ LET v2 == Set(val, Ev.f, Ev.v) IN
            /\ val' = v2
            /\ AsSet(Ev.present) = DOMAIN v2
            /\ GetOK(Ev.get, v2)
            /\ Ev.payload = Canonical(v2)
            /\ Ev.len_field = 4 + Len(Ev.payload)
            /\ Ev.rt.ok /\ Ev.rt.inner_ok
            /\ AsSet(Ev.rt.present) = DOMAIN v2
            /\ GetOK(Ev.rt.get, v2)
Next == InitEv \/ SetEv
Spec == Init /\ [][Next]_vars
=============================================================================
