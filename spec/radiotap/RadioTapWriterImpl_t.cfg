SPECIFICATION Spec
CONSTANT Variant = "code"
CONSTANT Depth = 3
CONSTANT StartMax = 2
INVARIANT CanonicalInv
CHECK_DEADLOCK FALSE
