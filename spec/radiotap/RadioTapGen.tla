------------------------------ MODULE RadioTapGen ------------------------------
(* Scenario generator for C11: a starting header (the default-constructed one, or a header PARSED from the
   canonical bytes of a set of present fields -- the bytes are produced here, by RadioTapAbs!Canonical, so the
   specification is the encoder) followed by every sequence of up to Depth setters, with repetitions.
   Values are concretised by the replay driver (boundary and seeded values) and logged, so they are
   validated, not trusted.
   Mode "default": start from RadioTap().   Mode "parsed": start from every set of at most K present fields
   (out of all 22 defined ones) and from a few dense headers, including all 22 fields. *)
EXTENDS RadioTapAbs, TLC, Json
CONSTANTS Depth, Mode, K
VARIABLES start, ops
SmallSets == {s \in SUBSET Bits : Cardinality(s) <= K /\ Cardinality(s) >= 1}
Dense == {Bits, Settable, Bits \ Settable, {0, 4, 8, 13, 18, 20, 21}, {1, 2, 5, 6, 10, 16, 19, 21}}
Init == /\ ops = <<>>
        /\ IF Mode = "default" THEN start = {} ELSE start \in SmallSets \cup Dense
Next == Len(ops) < Depth /\ \E f \in Settable : ops' = Append(ops, f) /\ UNCHANGED start
Spec == Init /\ [][Next]_<<start, ops>>
SetToSeq(S) == LET RECURSIVE Q(_, _) Q(b, acc) == IF b > MaxBit THEN acc ELSE Q(b + 1, IF b \in S THEN Append(acc, b) ELSE acc) IN Q(0, <<>>)
Scenario == IF Mode = "default" THEN [start |-> "default", ops |-> ops]
            ELSE [start |-> "parsed", bits |-> SetToSeq(start), payload |-> Canonical(InitVal(start)), ops |-> ops]
Emit == (Len(ops) = Depth) => PrintT("SCN " \o ToJson(Scenario))
=============================================================================
