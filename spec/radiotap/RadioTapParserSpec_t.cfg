SPECIFICATION Spec
CONSTANT Universe = {0,1,2,3,4,5,6,7,8,9,10,11,12,13,14,15,16,17,18,19,20,21}
INVARIANT Inverse
CHECK_DEADLOCK FALSE
