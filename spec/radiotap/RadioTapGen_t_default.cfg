SPECIFICATION Spec
CONSTANT Depth = 4
CONSTANT Mode = "default"
CONSTANT K = 0
CONSTRAINT Emit
CHECK_DEADLOCK FALSE
