SPECIFICATION Spec
CONSTANT Universe = {0,1,2,3,5,6,7,11,12,14,15,17,18,19}
INVARIANT Inverse
CHECK_DEADLOCK FALSE
