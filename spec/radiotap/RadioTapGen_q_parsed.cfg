SPECIFICATION Spec
CONSTANT Depth = 1
CONSTANT Mode = "parsed"
CONSTANT K = 2
CONSTRAINT Emit
CHECK_DEADLOCK FALSE
