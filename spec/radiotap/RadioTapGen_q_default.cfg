SPECIFICATION Spec
CONSTANT Depth = 3
CONSTANT Mode = "default"
CONSTANT K = 0
CONSTRAINT Emit
CHECK_DEADLOCK FALSE
