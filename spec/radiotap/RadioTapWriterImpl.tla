-------------------------- MODULE RadioTapWriterImpl --------------------------
(* Implementation-shaped specification of Utils::RadioTapWriter::write_option / build_padding_vector /
   update_paddings (src/utils/radiotap_writer.cpp): an in-place editor of the options payload.

   The buffer is a sequence of cells: "P" (present word), "pad", or <<bit, i>> (i-th byte of a field), so the
   layout -- not the values -- is what is modelled.  Checked: after every setter the buffer is
   RadioTapAbs!Canonical of the present set (CanonicalInv), from the default-constructed header and from
   every parsed header with up to StartMax present fields, to depth Depth.

   Variant "code"        update_paddings with a running offset advanced RELATIVELY (as repaired, F9)
   Variant "abs_offset"  update_paddings as originally written: `offset += start` adds the ABSOLUTE index of
                         the padding vector -- refuted at depth 1 (RadioTap().rate(x)), kept as the
                         model-level mutant documenting defect F9
   Variant "no_pad_term" the call update_paddings(paddings, offset + data_size) without `+ padding` *)
EXTENDS RadioTapAbs, TLC
CONSTANTS Variant, Depth, StartMax

Cells(b) == [i \in 1..SizeOf(b) |-> <<b, i>>]
CanonCells(pres) == LET v == [b \in pres |-> Cells(b)]
                        RECURSIVE C(_, _)
                        C(b, acc) == IF b > MaxBit THEN acc
                                     ELSE IF b \in pres THEN C(b + 1, acc \o [i \in 1..Pad(AlignOf(b), Len(acc) + 4) |-> "pad"] \o v[b])
                                     ELSE C(b + 1, acc)
                    IN C(0, <<"P", "P", "P", "P">>)
\* where the parser finds each present field (0-based offsets in the buffer)
Positions(pres) == LET RECURSIVE P(_, _, _)
                       P(b, off, acc) == IF b > MaxBit THEN acc
                                         ELSE IF b \in pres THEN LET o == off + Pad(AlignOf(b), off + 4) IN P(b + 1, o + SizeOf(b), acc @@ (b :> o))
                                         ELSE P(b + 1, off, acc)
                   IN P(0, 4, <<>>)
Ins(buf, at, cells) == SubSeq(buf, 1, at) \o cells \o SubSeq(buf, at + 1, Len(buf))
Del(buf, at, n) == SubSeq(buf, 1, at) \o SubSeq(buf, at + n + 1, Len(buf))
MinOf(S) == CHOOSE x \in S : \A y \in S : x <= y
MaxOf(S) == CHOOSE x \in S : \A y \in S : y <= x

VARIABLES buf, pres, hist, bad
vars == <<buf, pres, hist, bad>>

Write(b) ==
  LET pos == Positions(pres)
      visible == {x \in pres : pos[x] < Len(buf)}              \* has_fields(): current_ptr < end
      lower == {x \in visible : x < b}
      firstPos == IF pres = {} THEN 4 ELSE pos[MinOf(pres)]
      cand == IF lower = {} THEN firstPos ELSE pos[MaxOf(lower)] + SizeOf(MaxOf(lower))   \* candidate_ptr
      rest == {x \in visible : x > b}
      RECURSIVE PV(_, _, _)                                       \* build_padding_vector
      PV(fs, last, acc) == IF fs = {} THEN acc
                           ELSE LET f == MinOf(fs)
                                    gap == IF pos[f] >= last THEN pos[f] - last ELSE 0
                                IN PV(fs \ {f}, pos[f] + SizeOf(f), acc \o [i \in 1..gap |-> 0] \o <<AlignOf(f)>> \o [i \in 1..(SizeOf(f) - 1) |-> 1])
      pv == PV(rest, cand, <<>>)
      padding == Pad(AlignOf(b), cand + 4)
      b1 == Ins(buf, cand, [i \in 1..padding |-> "pad"] \o Cells(b))
      RECURSIVE UP(_, _, _, _)                                    \* update_paddings; i, posn: 1-based indices into pv
      UP(bf, i, off, posn) ==
        LET RECURSIVE Skip(_, _) Skip(j, v) == IF j <= Len(pv) /\ pv[j] = v THEN Skip(j + 1, v) ELSE j
            start == Skip(i, 1)
            j == Skip(start, 0)
        IN IF j > Len(pv) THEN <<bf, TRUE>>
           ELSE LET off1 == IF Variant = "abs_offset" THEN off + (start - 1) ELSE off + (start - posn)
                    needed == Pad(pv[j], off1 + 4)
                    existing == j - start
                    cont(bf2, off2) == UP(bf2, j + 1, off2 + (j - start), j)    \* offset now designates pv[j]
                IN IF off1 > Len(bf) THEN <<bf, FALSE>>          \* iterator past the end: memory error in the real code
                   ELSE IF existing > needed THEN
                        (IF off1 + (existing - needed) > Len(bf) THEN <<bf, FALSE>>
                         ELSE cont(Del(bf, off1, existing - needed), off1 - (existing - needed)))
                   ELSE IF existing < needed THEN cont(Ins(bf, off1, [k \in 1..(needed - existing) |-> "pad"]), off1 + (needed - existing))
                   ELSE cont(bf, off1)
      r == UP(b1, 1, cand + (IF Variant = "no_pad_term" THEN 0 ELSE padding) + SizeOf(b), 1)
  IN IF b \in visible THEN <<buf, TRUE>>                          \* field already there: overwritten in place
     ELSE r

Default == {0, 1, 3, 5, 11, 14}      \* RadioTap(): CHANNEL, FLAGS, TSFT, DBM_SIGNAL, RX_FLAGS, ANTENNA
Starts == {Default} \cup {s \in SUBSET Bits : Cardinality(s) <= StartMax}
Init == /\ pres \in Starts /\ buf = CanonCells(pres) /\ hist = <<>> /\ bad = FALSE
Next == /\ Len(hist) < Depth /\ ~bad
        /\ \E b \in Settable : LET r == Write(b) IN
              /\ buf' = r[1] /\ pres' = pres \cup {b} /\ hist' = Append(hist, b) /\ bad' = ~r[2]
Spec == Init /\ [][Next]_vars
CanonicalInv == ~bad /\ buf = CanonCells(pres)
=============================================================================
