SPECIFICATION Spec
CONSTANT Variant = "abs_offset"
CONSTANT Depth = 2
CONSTANT StartMax = 0
INVARIANT CanonicalInv
CHECK_DEADLOCK FALSE
