SPECIFICATION Spec
CONSTANT Variant = "code"
CONSTANT Depth = 2
CONSTANT StartMax = 1
INVARIANT CanonicalInv
CHECK_DEADLOCK FALSE
