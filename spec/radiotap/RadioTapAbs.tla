----------------------------- MODULE RadioTapAbs -----------------------------
(* Property C11 -- abstract model of a RadioTap header: a partial map from field (bit number) to the field's
   bytes, and the CANONICAL wire layout of such a map.

   Field table transcribed from the radiotap standard (radiotap.org "defined fields"; identical to the table
   in Linux net/wireless/radiotap.c), NOT from libtins' RADIOTAP_METADATA:
      bit  field               size align        bit  field               size align
       0   TSFT                  8    8           11   ANTENNA              1    1
       1   FLAGS                 1    1           12   DB_ANTSIGNAL         1    1
       2   RATE                  1    1           13   DB_ANTNOISE          1    1
       3   CHANNEL               4    2           14   RX_FLAGS             2    2
       4   FHSS                  2    2           15   TX_FLAGS             2    2
       5   DBM_ANTSIGNAL         1    1           16   RTS_RETRIES          1    1
       6   DBM_ANTNOISE          1    1           17   DATA_RETRIES         1    1
       7   LOCK_QUALITY          2    2           18   XCHANNEL             8    4
       8   TX_ATTENUATION        2    2           19   MCS                  3    1
       9   DB_TX_ATTENUATION     2    2           20   AMPDU_STATUS         8    4
      10   DBM_TX_POWER          1    1           21   VHT                 12    2
   "places each present field in bit order at its naturally aligned offset from the start of the RadioTap
   header" -- offsets are counted from the first byte of the header (version byte), i.e. the options payload
   (present word + fields) starts at offset 4. *)
EXTENDS Naturals, Integers, Sequences, FiniteSets
MaxBit == 21
Bits == 0..MaxBit
Size  == <<8,1,1,4,2,1,1,2,2,2,1,1,1,1,2,2,1,1,8,3,8,12>>
Align == <<8,1,1,2,2,1,1,2,2,2,1,1,1,1,2,2,1,1,4,1,4,2>>
SizeOf(b) == Size[b + 1]
AlignOf(b) == Align[b + 1]
\* the fields libtins has setters for: TSFT FLAGS RATE CHANNEL DBM_SIGNAL DBM_NOISE SIGNAL_QUALITY ANTENNA
\* DB_SIGNAL RX_FLAGS TX_FLAGS DATA_RETRIES XCHANNEL MCS
Settable == {0, 1, 2, 3, 5, 6, 7, 11, 12, 14, 15, 17, 18, 19}

Pad(al, off) == LET e == off % al IN IF e = 0 THEN 0 ELSE al - e
Zeros(n) == [i \in 1..n |-> 0]
Pow2(n) == LET RECURSIVE P(_) P(k) == IF k = 0 THEN 1 ELSE 2 * P(k - 1) IN P(n)
\* little-endian 32-bit present word, byte by byte (no 32-bit overflow: each byte is computed separately)
PresentByte(pres, k) == LET RECURSIVE S(_) S(b) == IF b > 7 THEN 0 ELSE (IF (8 * k + b) \in pres THEN Pow2(b) ELSE 0) + S(b + 1) IN S(0)
PresentWord(pres) == <<PresentByte(pres, 0), PresentByte(pres, 1), PresentByte(pres, 2), PresentByte(pres, 3)>>

\* val : [subset of Bits -> byte sequences]; the options payload (present word, then fields)
Canonical(val) ==
    LET RECURSIVE C(_, _)
        C(b, acc) == IF b > MaxBit THEN acc
                     ELSE IF b \in DOMAIN val
                          THEN C(b + 1, acc \o Zeros(Pad(AlignOf(b), Len(acc) + 4)) \o val[b])
                          ELSE C(b + 1, acc)
    IN C(0, PresentWord(DOMAIN val))
WellFormed(val) == \A b \in DOMAIN val : b \in Bits /\ Len(val[b]) = SizeOf(b)
Set(val, f, v) == [b \in (DOMAIN val) \cup {f} |-> IF b = f THEN v ELSE val[b]]      \* last write wins

\* deterministic, non-zero initial bytes for headers that are parsed rather than built (FLAGS avoids the
\* FCS bits 0x10 / 0x40, which change how the frame after the header is delimited)
InitByte(b, i) == IF b = 1 THEN 2 ELSE ((b * 11 + i * 3) % 200) + 17
InitVal(bits) == [b \in bits |-> [i \in 1..SizeOf(b) |-> InitByte(b, i)]]
=============================================================================
