SPECIFICATION Spec
CONSTANT Variant = "no_pad_term"
CONSTANT Depth = 2
CONSTANT StartMax = 2
INVARIANT CanonicalInv
CHECK_DEADLOCK FALSE
