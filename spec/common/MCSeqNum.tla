---- MODULE MCSeqNum ----
EXTENDS SeqNum
ASSUME WindowLemma
ASSUME NotBeyond
VARIABLE x
Init == x = 0
Next == UNCHANGED x
Spec == Init /\ [][Next]_x
====
