------------------------------ MODULE TraceIO ------------------------------
(* Shared idiom for trace validation (DESIGN.md 2.2 step 5, Appendix D.1).

   One ndjson file holds many executions of the real code.  Each execution starts with a line
       {"e":"Reset","n":<number of event lines that follow>,"sid":<scenario id>, ...cfg...}
   so that the bounds of an execution are O(1) to compute.  A trace specification EXTENDS this
   module, starts each behaviour at one (nondeterministically chosen) Reset line and consumes one
   line per step with IsEvent(name) /\ <family action bound to the logged fields>.

   An execution is accepted iff its last line has been consumed.  Accepted executions are collected
   in TLC register 1 (needs -workers 1) by the state constraint Mark; the POSTCONDITION AllAccepted
   prints  <<"REJECTED", {start lines}>>  for the others and fails, which tools/vlib.py turns into
   per-execution verdicts. *)
EXTENDS Naturals, Sequences, FiniteSets, TLC, Json, IOUtils

Log    == ndJsonDeserialize(IOEnv.TRACE)
Starts == {i \in 1..Len(Log) : Log[i].e = "Reset"}
EndOf(s) == s + Log[s].n

VARIABLES ex,   \* line number of the Reset record of the execution being validated
          l     \* next line to consume

TraceInit(s) == ex = s /\ l = s + 1
Cfg     == Log[ex]            \* the execution's configuration record
Ev      == Log[l]             \* the event about to be consumed
IsEvent(name) == /\ l <= EndOf(ex)
                 /\ Log[l].e = name
                 /\ l' = l + 1
                 /\ ex' = ex
Done == l = EndOf(ex) + 1

Mark == Done => TLCSet(1, TLCGet(1) \cup {ex})
(* executions on which the oracle was deliberately silent (outside the property's precondition) are
   counted in register 3, so that evidence can report them and vacuity is visible *)
NoteSkipped(c) == (Done /\ c) => TLCSet(3, TLCGet(3) \cup {ex})
AllAccepted == /\ PrintT(<<"SKIPPED", Cardinality(TLCGet(3))>>)
               /\ IF TLCGet(1) = Starts THEN TRUE
                  ELSE PrintT(<<"REJECTED", Starts \ TLCGet(1)>>) /\ FALSE
ASSUME TLCSet(1, {})
ASSUME TLCSet(3, {})

(* helpers over JSON arrays (sequences) *)
Range(s) == {s[i] : i \in 1..Len(s)}
SumSeq(s) == LET F[i \in 0..Len(s)] == IF i = 0 THEN 0 ELSE F[i-1] + s[i] IN F[Len(s)]
=============================================================================
