------------------------------- MODULE SeqNum -------------------------------
(* Sequence-number arithmetic modulo M, and the RFC 1982 serial comparison exactly as written in
   libtins (src/detail/sequence_number_helpers.cpp, and its copy in src/tcp_stream.cpp):

       if (a == b) return 0;
       if (a < b)  return (b - a <  2^31) ? -1 : 1;
       else        return (a - b >  2^31) ? -1 : 1;

   The implementation-shaped specs are model-checked with a small M (16, 32) for *every* initial
   sequence number; the bridge to the code's M = 2^32 is the window lemma below (checked by TLC
   for small M here, and discharged symbolically for M = 2^32 by Apalache, see spec/common/apa). *)
EXTENDS Naturals, Integers
CONSTANT M
ASSUME M \in Nat /\ M >= 4 /\ M % 2 = 0
H == M \div 2
SeqSpace == 0..(M-1)
Add(a, n) == (a + n) % M
Sub(a, b) == (a - b + M) % M
Cmp(a, b) == IF a = b THEN 0
             ELSE IF a < b THEN (IF b - a < H THEN -1 ELSE 1)
                           ELSE (IF a - b > H THEN -1 ELSE 1)
Embed(isn, x) == (isn + (x % M) + M) % M   \* logical offset x (may be negative, |x| < M) to modular coordinate

Sign(d) == IF d = 0 THEN 0 ELSE IF d > 0 THEN 1 ELSE -1
(* Window lemma: inside a window shorter than half the space, serial comparison is logical order and
   subtraction recovers the distance. *)
WindowLemma == \A a \in SeqSpace : \A d \in 0..(H-1) :
                  /\ Cmp(Add(a, d), a) = Sign(d)
                  /\ Cmp(a, Add(a, d)) = -Sign(d)
                  /\ Sub(Add(a, d), a) = d
(* ... and it is tight: at distance H the comparison is no longer antisymmetric-consistent *)
NotBeyond == \E a \in SeqSpace : Cmp(Add(a, H), a) # 1 \/ Cmp(a, Add(a, H)) # -1
=============================================================================
