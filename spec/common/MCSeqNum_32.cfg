SPECIFICATION Spec
CONSTANT M = 32
