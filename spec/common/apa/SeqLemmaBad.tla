---- MODULE SeqLemmaBad ----
EXTENDS Integers
M == 4294967296
H == 2147483648
VARIABLES
  \* @type: Int;
  a,
  \* @type: Int;
  d
Add(x, n) == (x + n) % M
Sub(x, y) == (x - y + M) % M
Cmp(x, y) == IF x = y THEN 0
             ELSE IF x < y THEN (IF y - x < H THEN -1 ELSE 1)
             ELSE (IF x - y > H THEN -1 ELSE 1)
Init == a \in 0..(M-1) /\ d \in 0..H
Next == UNCHANGED <<a, d>>
\* within a window shorter than half the space, serial comparison agrees with logical order and Sub inverts Add
Lemma == /\ (d = 0 => Cmp(Add(a, d), a) = 0)
         /\ (d > 0 => Cmp(Add(a, d), a) = 1 /\ Cmp(a, Add(a, d)) = -1)
         /\ Sub(Add(a, d), a) = d
====
