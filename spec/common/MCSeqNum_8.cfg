SPECIFICATION Spec
CONSTANT M = 8
