SPECIFICATION Spec
CONSTANT M = 64
