SPECIFICATION Spec
CONSTANT M = 16
