------------------------------- MODULE FragAbs -------------------------------
(* Property C08 -- reference IPv4 fragment reassembler, property level.

   A datagram d has a payload of N[d] units (1 unit = 8 bytes, the granularity of the fragment-offset
   field); unit u of datagram d is the abstract value <<d, u>>.  A fragment is a record
       [d, off, len, mf]     units off..off+len-1 of d; mf = "more fragments"
   and belongs to the reassembly context  Key(d) = <<identification, source, destination>>  (the property:
   "other datagrams (different identification or address pair)").

   seen[k]  = set of fragments received for context k since it was last completed.

   Step(seen, f) gives the required status and, on completion, the required packet:
     - "reports 'fragmented' for every fragment except the one that completes a datagram"
     - "for that one reports 'reassembled' and leaves a packet whose IP header is the first fragment's with
        offset and more-fragments cleared and whose payload ... is byte-identical to the original payload"
     - "no datagram is ever produced from an incomplete set of fragments"
   Preconditions (generators respect them): fragments of one context do not overlap unless identical
   (duplicates are allowed); all fragments of a context come from one datagram. *)
EXTENDS Naturals, Integers, Sequences, FiniteSets

Units(f) == f.off..(f.off + f.len - 1)
Last(s) == {f \in s : ~f.mf}
Total(s) == LET lf == CHOOSE f \in Last(s) : TRUE IN lf.off + lf.len
Complete(s) == /\ Last(s) # {}
               /\ UNION {Units(f) : f \in s} = 0..(Total(s) - 1)

\* a packet with offset 0 and without "more fragments" is a whole datagram, not a fragment
IsFragment(f) == f.mf \/ f.off > 0

\* required result of processing packet f in context k
Step(seen, k, f) ==
    LET s2 == seen[k] \cup {f} IN
    IF ~IsFragment(f) THEN [seen |-> seen, status |-> "NOT_FRAGMENTED", out |-> "untouched"]
    ELSE IF Complete(s2)
    THEN [seen |-> [seen EXCEPT ![k] = {}], status |-> "REASSEMBLED",
          out |-> [payload |-> [u \in 1..Total(s2) |-> <<f.d, u - 1>>],     \* byte-identical payload, in order
                   hdr_off |-> 0,      \* header fields are those of the fragment with offset 0
                   off |-> 0, mf |-> FALSE]]
    ELSE [seen |-> [seen EXCEPT ![k] = s2], status |-> "FRAGMENTED", out |-> "none"]

\* an unfragmented packet: reported as such, left untouched, and no effect on any context
PlainStep(seen) == [seen |-> seen, status |-> "NOT_FRAGMENTED", out |-> "untouched"]
=============================================================================
