SPECIFICATION Spec
CONSTANT NMax = 5
CONSTANT Depth = 9
CONSTRAINT Emit
CHECK_DEADLOCK FALSE
