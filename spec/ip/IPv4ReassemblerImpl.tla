------------------------- MODULE IPv4ReassemblerImpl -------------------------
(* Implementation-shaped specification of Tins::IPv4Reassembler / Internals::IPv4Stream
   (src/ip_reassembler.cpp), checked against FragAbs for all partitions, interleavings and duplicates
   of two concurrent datagrams.

   Mirrors the code: streams_ is a map keyed by (id, (source, destination)) -- CodeKey (Variant
   "sorted_pair" is the key as it was before the repair of F19: the pair was sorted); a stream keeps its
   fragments sorted by offset and silently drops a fragment whose offset equals a stored one; it counts
   received_size_, records total_size_/received_end_ when a fragment without MF arrives, and keeps a copy of
   the offset-0 fragment's header; is_complete = received_end /\ received_size = total_size /\ first stored
   offset = 0; allocate_pdu re-checks contiguity and returns null for a gap ("corrupt": the stream is erased
   and FRAGMENTED is reported).

   The abstract contexts (FragAbs) are keyed by (id, src, dst).  KeyMode selects the pair of datagrams:
     "distinct_id"   same addresses, different identification
     "distinct_pair" same identification, a different host on one side
     "reverse"       same identification, A->B and B->A: DIFFERENT contexts for FragAbs; with the sorted key
                     they collided (defect F19, repaired by a fix: commit in /repo) *)
EXTENDS Naturals, Integers, Sequences, FiniteSets, TLC
CONSTANTS NMax, KeyMode, Variant

A == INSTANCE FragAbs
D == {1, 2}
Id(d)  == IF KeyMode = "distinct_id" THEN d ELSE 7
Src(d) == CASE KeyMode = "reverse" -> (IF d = 1 THEN "A" ELSE "B")
            [] KeyMode = "distinct_pair" -> (IF d = 1 THEN "A" ELSE "C")
            [] OTHER -> "A"
Dst(d) == CASE KeyMode = "reverse" -> (IF d = 1 THEN "B" ELSE "A") [] OTHER -> "B"
AbsKey(d)  == <<Id(d), Src(d), Dst(d)>>
CodeKey(d) == IF Variant = "sorted_pair" THEN <<Id(d), {Src(d), Dst(d)}>>   \* make_key before the F19 fix: (id, SORTED pair)
              ELSE <<Id(d), <<Src(d), Dst(d)>>>>                              \* make_key: (id, (source, destination))
AbsKeys  == {AbsKey(d) : d \in D}
CodeKeys == {CodeKey(d) : d \in D}

\* all partitions of 0..n-1 into consecutive fragments, as sets of [d,off,len,mf]
Cuts(n) == SUBSET (1..(n-1))
PartOf(d, n, cuts) == LET bs == {0} \cup cuts \cup {n}
                          nxt(b) == CHOOSE c \in bs : c > b /\ \A e \in bs : e > b => c <= e
                      IN {[d |-> d, off |-> b, len |-> nxt(b) - b, mf |-> nxt(b) # n] : b \in bs \ {n}}

EmptyStream == [frags |-> <<>>, rsize |-> 0, tsize |-> 0, rend |-> FALSE, first |-> "none"]

VARIABLES n, part,            \* the datagrams in flight: unit count and chosen partition
          streams,            \* the implementation: CodeKey -> stream (absent = no entry)
          aseen,              \* history: the reference reassembler's state
          status, out, steps
vars == <<n, part, streams, aseen, status, out, steps>>

InsertSorted(fr, f) == LET i == CHOOSE j \in 1..(Len(fr) + 1) :
                                    /\ \A x \in 1..(j-1) : fr[x].off < f.off
                                    /\ (j = Len(fr) + 1 \/ fr[j].off >= f.off)
                       IN SubSeq(fr, 1, i - 1) \o <<f>> \o SubSeq(fr, i, Len(fr))
AddFragment(st, f) ==
    IF \E i \in 1..Len(st.frags) : st.frags[i].off = f.off /\ Variant # "no_dup_check" THEN st   \* "No duplicates plx"
    ELSE [frags |-> InsertSorted(st.frags, f),
          rsize |-> st.rsize + f.len,
          tsize |-> IF ~f.mf THEN (IF Variant = "total_no_offset" THEN f.len ELSE f.off + f.len) ELSE st.tsize,
          rend  |-> st.rend \/ ~f.mf,
          first |-> IF f.off = 0 THEN f ELSE st.first]
IsComplete(st) == /\ st.rend
                  /\ st.rsize = st.tsize
                  /\ st.frags[1].off = 0
Contiguous(fr) == \A i \in 1..Len(fr) : fr[i].off = (IF i = 1 THEN 0 ELSE fr[i-1].off + fr[i-1].len)
Payload(fr) == LET RECURSIVE P(_) P(i) == IF i > Len(fr) THEN <<>> ELSE [u \in 1..fr[i].len |-> <<fr[i].d, fr[i].off + u - 1>>] \o P(i + 1) IN P(1)

Init == /\ n \in [D -> 1..NMax]
        /\ \E c1 \in Cuts(n[1]), c2 \in Cuts(n[2]) : part = [d \in D |-> IF d = 1 THEN PartOf(1, n[1], c1) ELSE PartOf(2, n[2], c2)]
        /\ streams = [k \in CodeKeys |-> EmptyStream]
        /\ aseen = [k \in AbsKeys |-> {}]
        /\ status = "none" /\ out = "none" /\ steps = 0

Frag(d, f) ==
    LET k == CodeKey(d)
        st == AddFragment(streams[k], f)
        ref == A!Step(aseen, AbsKey(d), f)
    IN /\ aseen' = ref.seen
       /\ IF ~(f.mf \/ f.off # 0)                                          \* !ip->is_fragmented()
          THEN status' = "NOT_FRAGMENTED" /\ out' = "untouched" /\ UNCHANGED streams
          ELSE IF IsComplete(st)
          THEN /\ streams' = [streams EXCEPT ![k] = EmptyStream]            \* erased either way
               /\ IF Contiguous(st.frags)
                  THEN /\ status' = "REASSEMBLED"
                       /\ out' = [payload |-> Payload(st.frags), hdr_off |-> st.first.off, off |-> 0, mf |-> FALSE]
                  ELSE status' = "FRAGMENTED" /\ out' = "none"
          ELSE streams' = [streams EXCEPT ![k] = st] /\ status' = "FRAGMENTED" /\ out' = "none"
       \* what the reference demands
       /\ status' = ref.status /\ out' = ref.out
Plain == /\ status' = A!PlainStep(aseen).status /\ out' = "untouched" /\ UNCHANGED <<streams, aseen>>

Next == /\ steps' = steps + 1 /\ UNCHANGED <<n, part>>
        /\ \/ \E d \in D : \E f \in part[d] : Frag(d, f)
           \/ Plain
Spec == Init /\ [][Next]_vars

(* The conjunct "status' = ref.status /\ out' = ref.out" makes a disagreeing step impossible, so a
   disagreement shows up as a state in which a fragment is enabled by the environment but has no successor.
   Agree states exactly that: every fragment of every datagram can be processed in every reachable state. *)
CONSTANT MaxSteps
Bound == steps <= MaxSteps
Agree == \A d \in D : \A f \in part[d] : ENABLED Frag(d, f)
=============================================================================
