SPECIFICATION Spec
CONSTANT NMax = 2
CONSTANT Depth = 4
CONSTRAINT Emit
CHECK_DEADLOCK FALSE
