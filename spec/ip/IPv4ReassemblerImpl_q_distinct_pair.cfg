SPECIFICATION Spec
CONSTANT NMax = 3
CONSTANT MaxSteps = 6
CONSTANT KeyMode = "distinct_pair"
CONSTANT Variant = "code"
INVARIANT Agree
CONSTRAINT Bound
CHECK_DEADLOCK FALSE
