------------------------------ MODULE FragTrace ------------------------------
(* Trace specification for C08: validates executions of the real IPv4Reassembler (harness/ip_frag.cpp)
   against the reference reassembler FragAbs.  Contexts are the datagram indices 1..8 (their abstract keys
   -- identification and address pair -- are distinct in every generated mode). *)
EXTENDS TraceIO, Integers, FiniteSets
VARIABLE seen
vars == <<ex, l, seen>>
A == INSTANCE FragAbs
Init == \E s \in Starts : TraceInit(s) /\ seen = [k \in 1..8 |-> {}]

Frag == /\ IsEvent("frag")
        /\ LET f == [d |-> Ev.d, off |-> Ev.off, len |-> Ev.len, mf |-> Ev.mf]
               \* mode same_key: the datagrams follow one another under ONE identification and address pair (the key is reused after
               \* completion), so they share a reassembly context
               ctx == IF Cfg.mode = "same_key" THEN 1 ELSE Ev.d
               ref == A!Step(seen, ctx, f) IN
           /\ seen' = ref.seen
           /\ Ev.status = ref.status
           /\ ref.status = "NOT_FRAGMENTED" => (~("untouched" \in DOMAIN Ev) \/ Ev.untouched)
           /\ ref.status = "REASSEMBLED" =>
                 /\ Ev.out.payload = ref.out.payload         \* byte-identical payload (unit by unit, in order)
                 /\ Ev.out.size_ok                            \* ... and nothing more or less
                 /\ Ev.out.upper_ok                           \* "parsed as the upper-layer protocol"
                 /\ Ev.out.hdr_off = ref.out.hdr_off          \* "IP header is the first fragment's" (ttl marks the fragment)
                 /\ Ev.out.tos_ok
                 /\ Ev.out.off = 0 /\ Ev.out.mf = FALSE       \* "with offset and more-fragments cleared"
Plain == /\ IsEvent("plain")
         /\ Ev.status = A!PlainStep(seen).status              \* "Unfragmented packets are reported as such ..."
         /\ Ev.untouched                                      \* "... and left untouched"
         /\ UNCHANGED seen
Next == Frag \/ Plain
Spec == Init /\ [][Next]_vars
=============================================================================
