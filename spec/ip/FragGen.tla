------------------------------- MODULE FragGen -------------------------------
(* Scenario generator for C08: two concurrent datagrams (unit counts and partitions chosen freely), their
   fragments sent in any order with duplicates, interleaved with unfragmented packets.  Exported as
   {"n":[n1,n2],"pkts":[{"d","off","len","mf"} | {"d":0} for an unfragmented packet]}.
   Used with BFS for small depths and with -simulate for longer behaviours. *)
EXTENDS Naturals, Integers, Sequences, FiniteSets, TLC, Json
CONSTANTS NMax, Depth
D == {1, 2}
Cuts(n) == SUBSET (1..(n-1))
PartOf(d, n, cuts) == LET bs == {0} \cup cuts \cup {n}
                          nxt(b) == CHOOSE c \in bs : c > b /\ \A e \in bs : e > b => c <= e
                      IN {[d |-> d, off |-> b, len |-> nxt(b) - b, mf |-> nxt(b) # n] : b \in bs \ {n}}
VARIABLES n, part, hist
vars == <<n, part, hist>>
Init == /\ n \in [D -> 1..NMax]
        /\ \E c1 \in Cuts(n[1]), c2 \in Cuts(n[2]) : part = [d \in D |-> IF d = 1 THEN PartOf(1, n[1], c1) ELSE PartOf(2, n[2], c2)]
        /\ hist = <<>>
Next == /\ Len(hist) < Depth /\ UNCHANGED <<n, part>>
        /\ \/ \E d \in D : \E f \in part[d] : hist' = Append(hist, f)
           \/ hist' = Append(hist, [d |-> 0, off |-> 0, len |-> 0, mf |-> FALSE])
Spec == Init /\ [][Next]_vars
Emit == (Len(hist) = Depth) => PrintT("SCN " \o ToJson([n |-> n, pkts |-> hist]))
=============================================================================
