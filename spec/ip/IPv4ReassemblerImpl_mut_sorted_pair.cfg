SPECIFICATION Spec
CONSTANT NMax = 3
CONSTANT MaxSteps = 6
CONSTANT KeyMode = "reverse"
CONSTANT Variant = "sorted_pair"
INVARIANT Agree
CONSTRAINT Bound
CHECK_DEADLOCK FALSE
