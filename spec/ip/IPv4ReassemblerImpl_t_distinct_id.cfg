SPECIFICATION Spec
CONSTANT NMax = 4
CONSTANT MaxSteps = 8
CONSTANT KeyMode = "distinct_id"
CONSTANT Variant = "code"
INVARIANT Agree
CONSTRAINT Bound
CHECK_DEADLOCK FALSE
