------------------------------ MODULE AckTrace ------------------------------
(* Trace specification for C19: validates executions of the real AckTracker (recorded by
   harness/tcp_ack.cpp in logical coordinates) against AckAbs.
   Event: {"e":"ack","ackno":n,"blocks":[[l,r),...],   what the receiver sent
           "ack":a,"ivs":[[lo,hi],...],"q":[[s,n,answer],...]}    what the tracker then reports *)
EXTENDS TraceIO, Integers, FiniteSets
VARIABLES told,
          outside    \* TRUE once a packet violated the property's precondition: the oracle is then silent
vars == <<ex, l, told, outside>>
A == INSTANCE AckAbs

Init == \E s \in Starts : TraceInit(s) /\ told = {} /\ outside = FALSE

Ack == /\ IsEvent("ack")
       /\ LET blocks == {<<b[1], b[2]>> : b \in Range(Ev.blocks)}
              t2 == A!Tell(told, Ev.ackno, blocks) IN
          IF outside \/ ~A!Conforming(told, Ev.ackno, blocks)     \* not a conforming receiver: C19 says nothing
          THEN outside' = TRUE /\ told' = told
          ELSE /\ told' = t2 /\ outside' = FALSE
               /\ A!ObsOK(t2, Ev.ack, {<<iv[1], iv[2]>> : iv \in Range(Ev.ivs)}, {<<q[1], q[2], q[3]>> : q \in Range(Ev.q)})
Next == Ack
MarkOutside == NoteSkipped(outside)
Spec == Init /\ [][Next]_vars
=============================================================================
