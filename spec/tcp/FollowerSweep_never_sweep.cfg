SPECIFICATION Spec
CONSTANT KA = 4
CONSTANT Gaps = {0, 1, 3, 4, 5, 9}
CONSTANT MaxT = 40
CONSTANT Variant = "never_sweep"
INVARIANT OnlyIdle
INVARIANT Bounded
CHECK_DEADLOCK FALSE
