SPECIFICATION Spec
CONSTANTS Deltas = {0, 10, 21}
  KeepAlive = 10
  MaxChunks = 2
  MaxBytes = 6
  Cap = 32
  Ignores = {"none"}
  Variant = "sweep_by_create_time"
  Scripts1 = {9}
  Scripts2 = {9}
INVARIANTS Conforms SameLive Bounded
CHECK_DEADLOCK FALSE
