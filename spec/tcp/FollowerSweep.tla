----------------------------- MODULE FollowerSweep -----------------------------
(* Design check for the idle sweep of StreamFollower (C07 P5).  The code sweeps at the end of process_packet when
   last_cleanup + keep_alive <= now, removing every entry with last_seen + keep_alive <= now, and then sets
   last_cleanup = now; last_cleanup starts at 0.  The property fixes no schedule; what must hold is
     OnlyIdle     an entry is timed out only if it has been idle for at least the keep-alive
     Bounded      after any packet at time now, no entry idle for 2 * keep-alive or more survives
   Checked for all packet times with gaps from Gaps and 2 connections.  Variant "never_sweep" / "strict_lt"
   (sweep condition last_cleanup + keep_alive < now ... with the entry test using < as well) are refuted. *)
EXTENDS Naturals, Integers, FiniteSets, TLC
CONSTANTS KA, Gaps, MaxT, Variant
Conn == {1, 2}
VARIABLES now, last, lastCleanup, swept, lastOut
vars == <<now, last, lastCleanup, swept, lastOut>>
Init == now = 0 /\ last = [c \in Conn |-> -1] /\ lastCleanup = 0 /\ swept = {} /\ lastOut = [c \in Conn |-> -1]
\* a packet of connection c arrives at time now + g
Packet(c, g) ==
    LET t == now + g
        last1 == [last EXCEPT ![c] = t]
        doSweep == CASE Variant = "never_sweep" -> FALSE
                     [] Variant = "strict_lt" -> lastCleanup + KA < t
                     [] OTHER -> lastCleanup + KA <= t
        gone == IF doSweep THEN {d \in Conn : last1[d] >= 0 /\ (IF Variant = "strict_lt" THEN last1[d] + KA < t ELSE last1[d] + KA <= t)} ELSE {}
    IN /\ t <= MaxT /\ now' = t
       /\ last' = [d \in Conn |-> IF d \in gone THEN -1 ELSE last1[d]]
       /\ lastCleanup' = IF doSweep THEN t ELSE lastCleanup
       /\ swept' = gone
       /\ lastOut' = [d \in Conn |-> IF d \in gone THEN last1[d] ELSE lastOut[d]]
Next == \E c \in Conn, g \in Gaps : Packet(c, g)
Spec == Init /\ [][Next]_vars
OnlyIdle == \A d \in swept : now - lastOut[d] >= KA
Bounded == \A d \in Conn : last[d] >= 0 => now - last[d] < 2 * KA
=============================================================================
