-------------------------- MODULE ReassemblyTraceH3 --------------------------
(* Trace specification for the DataTracker calls recorded while the repository's own unit tests run (hook H3).
   One execution = the calls on one tracker object between two (re)initialisations of its delivery point, converted to
   logical coordinates (offset from the delivery point at initialisation) by tools/families/c06.py.

   Unlike the replay driver's streams, the byte stream is whatever the test sends; the oracle takes it from the
   execution itself: StreamByte(p) = the byte the FIRST segment covering position p carried (computed by the converter).
   Long executions are validated on a prefix (the property is prefix-closed).  Property C06 speaks of
   segments "all carrying bytes of one underlying stream": an execution in which two segments disagree on a byte is
   outside the premise and is not judged (oracle silent, counted). *)
EXTENDS TraceIO, Integers, FiniteSets
VARIABLES arrived, k
vars == <<ex, l, arrived, k>>

\* the stream and the premise are prepared by the converter (tools/h3.py) from the execution itself and carried by its Reset record
StreamByte(p) == IF p < 0 \/ p >= Len(Cfg.stream) THEN 0 ELSE Cfg.stream[p + 1]
InPremise == Cfg.onestream /\ Cfg.halfspace

R == INSTANCE ReassemblyAbs WITH L <- 0, ByteAt <- LAMBDA q : 0,      \* only the ...B operators are used (the stream depends on the execution)
         delivered <- <<>>, buffered <- {}, reported <- 0

Init == \E s \in Starts : TraceInit(s) /\ arrived = {} /\ k = 0

Seg == /\ IsEvent("seg")
       /\ IF InPremise
          THEN /\ R!ArriveOKB(StreamByte, arrived, k, Ev.off, Len(Ev.b), arrived', k', Ev.deliv, Range(Ev.buf), Ev.total)
               /\ Ev.k = k'
          ELSE arrived' = arrived /\ k' = k
Next == Seg
Spec == Init /\ [][Next]_vars
Silent == NoteSkipped(~InPremise)
=============================================================================
