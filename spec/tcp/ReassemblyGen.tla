---------------------------- MODULE ReassemblyGen ----------------------------
(* Scenario generator for C06: every arrival sequence of depth D over the segment alphabet of an L-byte
   stream (the same alphabet as DataTrackerImpl!Segments: in-stream segments plus stale / straddling ones).
   Each complete behaviour is exported as one JSON line  [[off,len],...]  (DESIGN 2.2 step 3). *)
EXTENDS Naturals, Integers, Sequences, TLC, Json
CONSTANTS L, D
VARIABLE h
Segments == {s \in ((0 - 2)..(L-1)) \X (1..L) : s[1] + s[2] <= L}
Init == h = <<>>
Next == Len(h) < D /\ \E s \in Segments : h' = Append(h, s)
Spec == Init /\ [][Next]_h
Emit == (Len(h) = D) => PrintT("SCN " \o ToJson(h))
=============================================================================
