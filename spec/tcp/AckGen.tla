------------------------------- MODULE AckGen -------------------------------
(* Scenario generator for C19: histories of ACK packets emitted by a conforming SACK receiver (the same
   receiver model as AckTrackerImpl) while the segments of an L-byte stream arrive in any order, with
   optional loss of ACK packets.  Exports the packets the tracker gets to see, in logical coordinates:
       [ {"ack": n, "blocks": [[l, r], ...]}, ... ]        blocks are half-open [l, r), most recent first *)
EXTENDS Naturals, Integers, Sequences, FiniteSets, TLC, Json
CONSTANTS L, D, MaxBlocks, MaxLen
VARIABLES received, recent, hist, n
vars == <<received, recent, hist, n>>
Cum(t) == CHOOSE k \in 0..Cardinality(t) : (\A p \in 0..(k-1) : p \in t) /\ k \notin t
Runs(r) == {b \in (0..L) \X (0..L) : b[1] < b[2] /\ (\A p \in b[1]..(b[2]-1) : p \in r)
                                     /\ (b[1] = 0 \/ (b[1]-1) \notin r) /\ (b[2] = L \/ b[2] \notin r)}
Init == received = {} /\ recent = <<>> /\ hist = <<>> /\ n = 0
Arrive == \E off \in 0..(L-1), len \in 1..MaxLen, lost \in BOOLEAN :
   /\ n < D /\ off + len <= L
   /\ LET r2 == received \cup (off..(off+len-1))
          fm == Cum(r2)
          above == {b \in Runs(r2) : b[1] > fm}
          cur == {b \in above : b[1] <= off /\ off < b[2]}
          olds == SelectSeq(recent, LAMBDA st : \E b \in above : b[1] <= st /\ st < b[2] /\ b \notin cur)
          startsNew == (IF cur = {} THEN <<>> ELSE <<off>>) \o olds
          RECURSIVE Mk(_, _, _)
          Mk(i, seen, acc) == IF i > Len(startsNew) \/ Len(acc) = MaxBlocks THEN acc
                              ELSE LET b == CHOOSE x \in above : x[1] <= startsNew[i] /\ startsNew[i] < x[2] IN
                                   IF b \in seen THEN Mk(i+1, seen, acc) ELSE Mk(i+1, seen \cup {b}, Append(acc, b))
          blocksL == Mk(1, {}, <<>>)
      IN /\ received' = r2 /\ recent' = startsNew /\ n' = n + 1
         /\ hist' = IF lost THEN hist ELSE Append(hist, [ack |-> fm, blocks |-> blocksL])
Next == Arrive
Spec == Init /\ [][Next]_vars
Emit == (n = D /\ Len(hist) >= 2) => PrintT("SCN " \o ToJson(hist))
=============================================================================
