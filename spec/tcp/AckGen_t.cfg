SPECIFICATION Spec
CONSTANT L = 7
CONSTANT D = 4
CONSTANT MaxBlocks = 4
CONSTANT MaxLen = 2
CONSTRAINT Emit
CHECK_DEADLOCK FALSE
