SPECIFICATION Spec
CONSTANT L = 8
CONSTANT D = 5
CONSTANT MaxBlocks = 4
CONSTANT MaxLen = 2
CONSTRAINT Emit
CHECK_DEADLOCK FALSE
