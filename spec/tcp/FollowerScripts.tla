---------------------------- MODULE FollowerScripts ----------------------------
(* The per-connection packet scripts of C07 (handshake, data both ways with reordering / duplication / overlap,
   FIN/FIN or RST close, mid-stream attach, buffer-limit overflow in one or both directions, reuse of the 4-tuple),
   shared by the scenario generator (FollowerGen) and the implementation-shaped model (FollowerImpl). *)
EXTENDS Naturals, Sequences
P(from, syn, ack, fin, rst, off, len) == [from |-> from, syn |-> syn, ack |-> ack, fin |-> fin, rst |-> rst, off |-> off, len |-> len, ackoff |-> 0, inc |-> FALSE,
                                        x |-> 0]      \* x: further TCP flag bits the segment carries (ECE = 64, CWR = 128, URG = 32): they change nothing in C07
Syn == [P("c", TRUE, FALSE, FALSE, FALSE, 0, 0) EXCEPT !.inc = TRUE]     \* inc: first SYN of a new incarnation (fresh ISNs)
SynDup == P("c", TRUE, FALSE, FALSE, FALSE, 0, 0)                            \* a retransmitted SYN
SynAck == P("s", TRUE, TRUE, FALSE, FALSE, 0, 0)
Ack(e) == P(e, FALSE, TRUE, FALSE, FALSE, 0, 0)
D(e, off, len) == P(e, FALSE, TRUE, FALSE, FALSE, off, len)
Fin(e) == P(e, FALSE, TRUE, TRUE, FALSE, 0, 0)
FinD(e, off, len) == P(e, FALSE, TRUE, TRUE, FALSE, off, len)
Rst(e) == P(e, FALSE, FALSE, FALSE, TRUE, 0, 0)
RstAck(e) == P(e, FALSE, TRUE, FALSE, TRUE, 0, 0)                            \* RST|ACK
H == <<Syn, SynAck, Ack("c")>>
\* an ECN-setup handshake (RFC 3168: SYN carries ECE|CWR, SYN+ACK carries ECE), later segments with ECE / CWR / URG
HE == << [Syn EXCEPT !.x = 192], [SynAck EXCEPT !.x = 64], Ack("c") >>
SA == H \o <<D("c", 0, 2), D("s", 0, 2), Fin("c"), Fin("s")>>
Scripts == <<
  SA,
  H \o <<D("c", 2, 2), D("c", 0, 2), D("c", 0, 4), Rst("s")>>,
  H \o <<D("c", 1, 1), D("c", 3, 1), D("c", 5, 1), D("c", 0, 1)>>,                 \* third out-of-order chunk exceeds maxChunks = 2
  <<D("c", 0, 2), D("s", 0, 1), D("c", 2, 2), Fin("c"), Fin("s")>>,                \* no handshake: only followed when attaching
  H \o <<D("s", 0, 3), Fin("s"), D("c", 0, 1), Rst("c")>>,
  H \o <<D("c", 2, 4), D("c", 8, 3), D("c", 0, 2)>>,                                 \* 7 buffered bytes exceed maxBytes = 6
  <<Syn, SynDup, SynAck, Ack("c"), FinD("c", 0, 1), Ack("s"), Fin("s")>>,
  SA \o SA,                                                                          \* the 4-tuple is reused after close
  H \o <<D("c", 0, 1), D("s", 0, 1)>>,                                               \* stays open: left to the idle sweep
  H \o <<D("s", 1, 2), D("s", 0, 1), D("c", 0, 3), Fin("c"), Rst("c")>>,
  H \o <<D("s", 2, 4), D("s", 8, 3), D("s", 0, 2)>>,                                 \* the server direction alone exceeds maxBytes
  H \o <<D("c", 2, 3), D("s", 2, 4), D("c", 0, 2)>>,                                 \* only both directions together exceed maxBytes
  H \o <<D("s", 1, 1), D("c", 1, 1), D("s", 3, 1), D("c", 0, 1)>>,                   \* chunks of both directions together exceed maxChunks
  <<Syn, SynAck, RstAck("s")>>,                                                      \* accept, then abort: the server's first segment after its SYN|ACK is RST|ACK
  <<Syn, SynAck, RstAck("c"), D("s", 0, 1)>>,                                        \* the client's first ACK-bearing segment after its SYN is RST|ACK
  HE \o <<[D("c", 0, 2) EXCEPT !.x = 128], [D("s", 0, 2) EXCEPT !.x = 64], [D("c", 2, 1) EXCEPT !.x = 32], [Fin("c") EXCEPT !.x = 64], Fin("s")>>,
  H \o <<D("s", 0, 2), D("c", 0, 1), D("s", 2, 2), D("c", 1, 2), D("s", 4, 1), Fin("s"), Fin("c")>>    \* several deliveries in each direction, in order
>>
=============================================================================
