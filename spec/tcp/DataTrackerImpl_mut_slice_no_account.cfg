SPECIFICATION Spec
CONSTANT M = 16
CONSTANT L = 5
CONSTANT Variant = "slice_no_account"
INVARIANT Inv
PROPERTY AbsSpec
CHECK_DEADLOCK FALSE
