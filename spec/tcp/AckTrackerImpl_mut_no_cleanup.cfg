SPECIFICATION Spec
CONSTANT M = 16
CONSTANT L = 4
CONSTANT MaxBlocks = 3
CONSTANT Variant = "no_cleanup"
INVARIANT Inv
CHECK_DEADLOCK FALSE
