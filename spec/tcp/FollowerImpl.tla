----------------------------- MODULE FollowerImpl -----------------------------
(* Implementation-shaped model of TCPIP::StreamFollower (src/tcp_ip/stream_follower.cpp, stream.cpp, flow.cpp,
   data_tracker.cpp), checked by TLC against the reference connection table FollowerAbs for EVERY interleaving of
   two scripted connections and every choice of capture-time increments.

   Transcribed:
     StreamFollower::process_packet   look-up, creation on the client's SYN or (attach mode) on data, limit check over
                                      both flows, erase when finished or over the limits, idle sweep when
                                      last_cleanup + keep_alive <= ts (cleanup_streams erases entries with
                                      last_seen + keep_alive <= now and reports TIMEOUT)
     Stream::Stream / process_packet  flows from the creating packet (client flow = what the creator sends), last_seen,
                                      routing by destination, closed callback when is_finished()
     Flow::update_state               FIN -> FIN_SENT; else RST -> RST_SENT; else SYN_SENT + ACK -> ESTABLISHED;
                                      else UNKNOWN + SYN -> SYN_SENT and the delivery point moves behind the SYN
     DataTracker::process_payload     in LOGICAL coordinates (offset from the sender's first data byte): ignore what ends
                                      before the delivery point, slice what straddles it, store (keep the longer chunk on
                                      an equal start), drain from the chunk AT the delivery point.  Sequence-number
                                      wrap-around is the subject of DataTrackerImpl (C06) and is not repeated here.
   Time is kept relative to the current packet (all stored times <= 0, saturated at -Cap), which makes the state space
   finite without changing any comparison the code makes.

   The observation of each step (callbacks in order, live set, buffered chunks) is judged by FollowerAbs!Judge - the
   same operator that judges the traces of the real code.  Variant selects "code" or a mutant that must be refuted:
     "limit_client_only"   the limit check looks at the client flow only
     "finish_any_fin"      the stream counts as finished when either side has sent FIN
     "state_frozen_after_fin"  update_state returns early once the flow is finished (an RST after a FIN is ignored)
     "sweep_by_create_time"    the idle sweep compares the creation time, not the time of the last packet
     "announce_on_any_syn"     a SYN+ACK for an unknown connection creates an entry too
     "ignore_before_state"     a flow told to ignore data returns before update_state (its FIN / RST is never seen) *)
EXTENDS FollowerScripts, Integers, FiniteSets, TLC
CONSTANTS Deltas, KeepAlive, MaxChunks, MaxBytes, Cap, Variant, Ignores,
          Scripts1, Scripts2      \* script numbers the two connections may follow

Conn == {"c1", "c2"}
SByte(c, e, q) == IF q < 0 THEN 0 ELSE ((q * 7 + (IF e = "c" THEN 3 ELSE 11)) % 250) + 1
A == INSTANCE FollowerAbs WITH ByteOf <- SByte

VARIABLES sc, pos, attach, ignore,      \* environment: script of each connection, position in it, attach mode, ignored direction
          table,                \* conn -> [client, cf, sf, last, created]   (cf: what the creator sends, sf: the other direction)
          lastCleanup,          \* relative time of the last sweep (<= 0)
          conns,                \* the reference table (FollowerAbs), updated by Judge
          ok                    \* verdict on the last step
vars == <<sc, pos, attach, ignore, table, lastCleanup, conns, ok>>

Flow0(k0) == [st |-> "UNKNOWN", k |-> k0, buf |-> {}]       \* buf: set of <<off, len>>, at most one per off
Init == /\ sc \in [Conn -> Scripts1 \cup Scripts2] /\ sc["c1"] \in Scripts1 /\ sc["c2"] \in Scripts2
        /\ pos = [c \in Conn |-> 0] /\ attach \in BOOLEAN /\ ignore \in Ignores
        /\ table = << >> /\ lastCleanup = -Cap /\ conns = << >> /\ ok = TRUE

\* ---- DataTracker::process_payload in logical coordinates: returns [k, buf, added] ----
Store(buf, off, len) == IF \E ch \in buf : ch[1] = off
                        THEN LET old == CHOOSE ch \in buf : ch[1] = off IN IF old[2] < len THEN (buf \ {old}) \cup {<<off, len>>} ELSE buf
                        ELSE buf \cup {<<off, len>>}
RECURSIVE Drain(_, _, _)
\* the loop starts at find(seq_number_): only if a chunk is keyed exactly at the delivery point; the std::map iterator then
\* runs over the following keys (and wraps to begin(): keys below the point, which logical coordinates order first)
Drain(k, buf, added) ==
    IF \E ch \in buf : ch[1] = k
    THEN LET ch == CHOOSE x \in buf : x[1] = k IN Drain(k + ch[2], buf \ {ch}, TRUE)
    ELSE IF added /\ \E ch \in buf : ch[1] < k          \* reached while iterating after a delivery
         THEN LET ch == CHOOSE x \in buf : x[1] < k /\ \A y \in buf : y[1] < k => x[1] <= y[1] IN
              IF ch[1] + ch[2] > k THEN Drain(k, Store(buf \ {ch}, k, ch[1] + ch[2] - k), added)
              ELSE Drain(k, buf \ {ch}, added)
         ELSE [k |-> k, buf |-> buf, added |-> added]
ProcessPayload(fl, off, len) ==
    IF off + len < fl.k THEN [k |-> fl.k, buf |-> fl.buf, added |-> FALSE]
    ELSE LET o2 == IF off < fl.k THEN fl.k ELSE off
             l2 == off + len - o2 IN
         Drain(fl.k, Store(fl.buf, o2, l2), FALSE)

\* ---- Flow::update_state ----
Frozen(st) == Variant = "state_frozen_after_fin" /\ st \in {"FIN", "RST"}
UpdateState(fl, p) ==
    IF Frozen(fl.st) THEN fl
    ELSE IF p.fin THEN [fl EXCEPT !.st = "FIN"]
    ELSE IF p.rst THEN [fl EXCEPT !.st = "RST"]
    ELSE IF fl.st = "SYN_SENT" /\ p.ack THEN [fl EXCEPT !.st = "EST"]
    ELSE IF fl.st = "UNKNOWN" /\ p.syn THEN [fl EXCEPT !.st = "SYN_SENT", !.k = 0]      \* sequence_number(seq + 1): the first data byte
    ELSE fl
IsFinished(s) ==
    IF Variant = "finish_any_fin" THEN s.cf.st \in {"FIN", "RST"} \/ s.sf.st \in {"FIN", "RST"}
    ELSE s.cf.st = "RST" \/ s.sf.st = "RST" \/ (s.cf.st = "FIN" /\ s.sf.st = "FIN")

Bytes(c, e, off, len) == [i \in 1..len |-> SByte(c, e, off + i - 1)]
ChunkRecs(c, e, buf) == LET RECURSIVE Q(_) Q(b) == IF b = {} THEN << >> ELSE LET x == CHOOSE y \in b : \A z \in b : y[1] <= z[1] IN
                                                      << [off |-> x[1], b |-> Bytes(c, e, x[1], x[2])] >> \o Q(b \ {x}) IN Q(buf)
SumBytes(buf) == LET RECURSIVE S(_) S(b) == IF b = {} THEN 0 ELSE LET x == CHOOSE y \in b : TRUE IN x[2] + S(b \ {x}) IN S(buf)
SetToSeq(S) == LET RECURSIVE Q(_) Q(s) == IF s = {} THEN << >> ELSE LET x == CHOOSE y \in s : TRUE IN << x >> \o Q(s \ {x}) IN Q(S)
Cb(kind, c, b, r, client) == [k |-> kind, c |-> c, b |-> b, r |-> r, client |-> client]
Sat(t) == IF t < -Cap THEN -Cap ELSE t

\* cleanup_streams(now = 0 after the shift): entries idle for at least keep_alive
SweepSet(tb) == {d \in DOMAIN tb : (IF Variant = "sweep_by_create_time" THEN tb[d].created ELSE tb[d].last) + KeepAlive <= 0}

Step(c, d) ==
  LET raw == Scripts[sc[c]][pos[c] + 1]
      \* time: the packet arrives d after the previous one; everything stored is shifted so that "now" is 0
      tb0 == [x \in DOMAIN table |-> [table[x] EXCEPT !.last = Sat(@ - d), !.created = Sat(@ - d)]]
      lc0 == Sat(lastCleanup - d)
      cn0 == [x \in DOMAIN conns |-> [conns[x] EXCEPT !.last = Sat(@ - d)]]
      p == raw @@ [conn |-> c, ts |-> 0]
      found == c \in DOMAIN tb0
      isSyn == p.syn /\ (~p.ack \/ Variant = "announce_on_any_syn")
      creates == ~found /\ (isSyn \/ (attach /\ p.len > 0))
      sweepDue == lc0 + KeepAlive <= 0
  IN
  IF ~found /\ ~creates
  THEN \* no stream found and no stream was created: maybe sweep, return
       LET gone == IF sweepDue THEN SweepSet(tb0) ELSE {}
           tb2 == [x \in (DOMAIN tb0) \ gone |-> tb0[x]]
           obs == p @@ [cb |-> [i \in 1..Cardinality(gone) |-> Cb("term", SetToSeq(gone)[i], << >>, "TIMEOUT", "?")],
                        live |-> SetToSeq(DOMAIN tb2), chunks |-> 0, bytes |-> 0, buf |-> [c |-> << >>, s |-> << >>], thrown |-> ""]
           j == A!Judge(cn0, [attach |-> attach, keepAlive |-> KeepAlive, maxChunks |-> MaxChunks, maxBytes |-> MaxBytes, ignore |-> ignore, termcb |-> TRUE], obs)
       IN /\ table' = tb2 /\ lastCleanup' = (IF sweepDue THEN 0 ELSE lc0)
          /\ ok' = j.ok /\ conns' = j.next
  ELSE LET s0 == IF found THEN tb0[c]
                 ELSE LET s == [client |-> p.from,
                                cf |-> Flow0(IF p.syn THEN -1 ELSE p.off),         \* Flow(dst, dport, tcp.seq())
                                sf |-> Flow0(IF p.syn THEN -1 ELSE p.ackoff),      \* Flow(src, sport, tcp.ack_seq())
                                last |-> 0, created |-> 0] IN
                      IF isSyn THEN s ELSE [s EXCEPT !.cf.st = "EST", !.sf.st = "EST"]      \* "assume the connection is established"
           newCb == IF found THEN << >> ELSE << Cb("new", c, << >>, "", p.from) >>
           \* Stream::process_packet: routed by destination = by sender
           role == IF p.from = s0.client THEN "cf" ELSE "sf"
           fl0 == IF role = "cf" THEN s0.cf ELSE s0.sf
           fl1 == IF Variant = "ignore_before_state" /\ ((ignore = "client" /\ role = "cf") \/ (ignore = "server" /\ role = "sf")) THEN fl0 ELSE UpdateState(fl0, p)
           \* Flow::process_packet: the state is updated first, then flags_.ignore_data_packets ends the call
           ignored == (ignore = "client" /\ role = "cf") \/ (ignore = "server" /\ role = "sf")
           r == IF p.len > 0 /\ ~ignored THEN ProcessPayload(fl1, p.off, p.len) ELSE [k |-> fl1.k, buf |-> fl1.buf, added |-> FALSE]
           fl2 == [fl1 EXCEPT !.k = r.k, !.buf = r.buf]
           s1 == IF role = "cf" THEN [s0 EXCEPT !.cf = fl2, !.last = 0] ELSE [s0 EXCEPT !.sf = fl2, !.last = 0]
           dataCb == IF r.added THEN << Cb(IF role = "cf" THEN "cdata" ELSE "sdata", c, Bytes(c, p.from, fl1.k, r.k - fl1.k), "", "?") >> ELSE << >>
           finished == IsFinished(s1)
           closedCb == IF finished THEN << Cb("closed", c, << >>, "", "?") >> ELSE << >>
           chunks == Cardinality(s1.cf.buf) + (IF Variant = "limit_client_only" THEN 0 ELSE Cardinality(s1.sf.buf))
           bytes == SumBytes(s1.cf.buf) + (IF Variant = "limit_client_only" THEN 0 ELSE SumBytes(s1.sf.buf))
           terminate == chunks > MaxChunks \/ bytes > MaxBytes
           termCb == IF terminate THEN << Cb("term", c, << >>, "BUFFERED_DATA", "?") >> ELSE << >>
           tb1 == IF finished \/ terminate THEN [x \in (DOMAIN tb0) \ {c} |-> tb0[x]]
                  ELSE [x \in (DOMAIN tb0) \cup {c} |-> IF x = c THEN s1 ELSE tb0[x]]
           gone == IF sweepDue THEN SweepSet(tb1) ELSE {}
           tb2 == [x \in (DOMAIN tb1) \ gone |-> tb1[x]]
           sweepCb == [i \in 1..Cardinality(gone) |-> Cb("term", SetToSeq(gone)[i], << >>, "TIMEOUT", "?")]
           other == IF p.from = "c" THEN "s" ELSE "c"
           bufOf(e) == IF e = s1.client THEN s1.cf.buf ELSE s1.sf.buf
           obs == p @@ [cb |-> newCb \o dataCb \o closedCb \o termCb \o sweepCb,
                        live |-> SetToSeq(DOMAIN tb2),
                        chunks |-> Cardinality(s1.cf.buf) + Cardinality(s1.sf.buf), bytes |-> SumBytes(s1.cf.buf) + SumBytes(s1.sf.buf),
                        buf |-> [c |-> ChunkRecs(c, "c", bufOf("c")), s |-> ChunkRecs(c, "s", bufOf("s"))], thrown |-> ""]
           j == A!Judge(cn0, [attach |-> attach, keepAlive |-> KeepAlive, maxChunks |-> MaxChunks, maxBytes |-> MaxBytes, ignore |-> ignore, termcb |-> TRUE], obs)
       IN /\ table' = tb2 /\ lastCleanup' = (IF sweepDue THEN 0 ELSE lc0)
          /\ ok' = j.ok /\ conns' = j.next

Remaining(c) == Len(Scripts[sc[c]]) - pos[c]
Next == \E c \in Conn, d \in Deltas :
           /\ Remaining(c) > 0
           /\ pos' = [pos EXCEPT ![c] = @ + 1]
           /\ Step(c, d)
           /\ UNCHANGED <<sc, attach, ignore>>
Spec == Init /\ [][Next]_vars

\* every clause of C07 holds at every step of every interleaving
Conforms == ok = TRUE
\* the model table and the reference table agree on what is live
SameLive == DOMAIN table = DOMAIN conns
\* "so the memory held per connection is bounded"
Bounded == \A x \in DOMAIN table : /\ Cardinality(table[x].cf.buf) + Cardinality(table[x].sf.buf) <= MaxChunks
                                   /\ SumBytes(table[x].cf.buf) + SumBytes(table[x].sf.buf) <= MaxBytes
\* non-vacuity: both scripts can be played to the end
NotAllDone == \E c \in Conn : Remaining(c) > 0
=============================================================================
