SPECIFICATION Spec
CONSTANT M = 16
CONSTANT L = 5
CONSTANT Variant = "code"
INVARIANT Inv
PROPERTY AbsSpec
CHECK_DEADLOCK FALSE
