SPECIFICATION Spec
CONSTANT L = 4
CONSTANT D = 3
CONSTRAINT Emit
CHECK_DEADLOCK FALSE
