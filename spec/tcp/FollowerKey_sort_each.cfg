SPECIFICATION Spec
CONSTANT Variant = "sort_each"
