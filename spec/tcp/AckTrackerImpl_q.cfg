SPECIFICATION Spec
CONSTANT M = 16
CONSTANT L = 4
CONSTANT MaxBlocks = 3
CONSTANT Variant = "code"
INVARIANT Inv
CHECK_DEADLOCK FALSE
