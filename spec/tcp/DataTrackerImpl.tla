-------------------------- MODULE DataTrackerImpl --------------------------
(* Implementation-shaped specification of Tins::TCPIP::DataTracker (src/tcp_ip/data_tracker.cpp), in
   *modular* coordinates 0..M-1, for every initial sequence number.

   Mirrors the code:  process_payload = ignore-if-stale / slice-front / store_payload / drain loop from
   find(seq_number_) with erase_iterator wrapping to begin();  store_payload keeps the longer chunk (the
   older on ties) and maintains total_buffered_bytes_ by hand;  the std::map iterates in *numeric* key
   order, which is not sequence order once keys wrap.  `Variant` selects "code" (DataTracker), "legacy" (the same algorithm as
   written a second time in src/tcp_stream.cpp, TCPStream::generic_process, whose only algorithmic
   difference is safe_insert's tie rule) or deliberately broken versions of the algorithm (model-level
   mutants) used to show that the checked properties are not vacuous.

   Checked by TLC: refinement of ReassemblyAbs (PROPERTY AbsSpec) under the mapping
       k = Sub(seq, isn), buffered = {[off |-> Sub(key, isn), b |-> buf[key]]}, reported = total
   plus termination of the drain loop (fuel) and the invariants of the abstract level in every state.
   Also modelled (implementation level only, outside C06): advance_sequence and the application
   consuming `payload`. *)
EXTENDS Naturals, Integers, Sequences, FiniteSets, TLC, SeqNum
CONSTANTS L, Variant

Stream == [i \in 1..L |-> i]
ByteAtI(p) == IF p >= 0 /\ p < L THEN Stream[p + 1] ELSE 0

VARIABLES isn, seq, buf, total, payload,     \* the object
          arrived, delivered                 \* history: what has been sent to it / what the application took
vars == <<isn, seq, buf, total, payload, arrived, delivered>>

Drop(s, n) == SubSeq(s, n + 1, Len(s))
Remove(b, key) == [x \in (DOMAIN b) \ {key} |-> b[x]]
MinOf(S) == CHOOSE x \in S : \A y \in S : x <= y
End == M   \* the end() iterator

\* store_payload
Store(b, t, key, d) ==
    IF key \notin DOMAIN b THEN <<(key :> d) @@ b, t + Len(d)>>
    ELSE IF (CASE Variant = "keep_shorter" -> Len(b[key]) > Len(d)
                  [] Variant = "legacy" -> Len(b[key]) <= Len(d)     \* TCPStream::safe_insert: keep the larger, replace on ties
                  [] OTHER -> Len(b[key]) < Len(d))
         THEN <<[b EXCEPT ![key] = d], t + Len(d) - Len(b[key])>>
         ELSE <<b, t>>

\* erase_iterator: <<map, total, next iterator>>
EraseIt(b, t, key) ==
    LET b2 == Remove(b, key)
        bigger == {x \in DOMAIN b2 : x > key}
        nx == IF bigger # {} THEN MinOf(bigger)
              ELSE IF DOMAIN b2 # {} /\ Variant # "no_wrap" THEN MinOf(DOMAIN b2)   \* wrap to begin()
              ELSE End
    IN <<b2, t - Len(b[key]), nx>>

RECURSIVE Drain(_, _, _, _, _, _)
Drain(b, t, s, pl, it, fuel) ==
    IF it = End \/ it \notin DOMAIN b \/ Cmp(it, s) > 0 THEN <<b, t, s, pl>>
    ELSE IF fuel = 0 THEN Assert(FALSE, "drain loop did not terminate")
    ELSE IF Cmp(it, s) < 0 THEN
         IF Cmp(Add(it, Len(b[it])), s) > 0
         THEN \* slice: total -= size; erase the front; store at s; the moved-from vector stays (empty) until erased
              LET sliced == Drop(b[it], Sub(s, it))
                  t1 == IF Variant = "slice_no_account" THEN t ELSE t - Len(b[it])
                  st == Store([b EXCEPT ![it] = <<>>], t1, s, sliced)
                  er == EraseIt(st[1], st[2], it)
              IN Drain(er[1], er[2], s, pl, er[3], fuel - 1)
         ELSE LET er == EraseIt(b, t, it) IN Drain(er[1], er[2], s, pl, er[3], fuel - 1)
    ELSE LET er == EraseIt(b, t, it)
         IN Drain(er[1], er[2], Add(s, Len(b[it])), pl \o b[it], er[3], fuel - 1)

Process(sq, data) ==
    LET cend == Add(sq, Len(data)) IN
    IF (IF Variant = "stale_le" THEN Cmp(cend, seq) <= 0 ELSE Cmp(cend, seq) < 0)
    THEN UNCHANGED <<seq, buf, total, payload>>
    ELSE LET sl == IF Cmp(sq, seq) < 0 THEN <<seq, Drop(data, Sub(seq, sq))>> ELSE <<sq, data>>
             st == Store(buf, total, sl[1], sl[2])
             it0 == IF seq \in DOMAIN st[1] THEN seq ELSE End
             r == Drain(st[1], st[2], seq, payload, it0, 2 * M)
         IN buf' = r[1] /\ total' = r[2] /\ seq' = r[3] /\ payload' = r[4]

Seg(off, len) == [i \in 1..len |-> ByteAtI(off + i - 1)]
\* property precondition: segments carry bytes of the one stream (or stale bytes before it) and lie
\* within half the sequence space of the current position
Segments == {s \in ((0 - 2)..(L-1)) \X (1..L) : s[1] + s[2] <= L}
\* ... which bounds the configurations that are meaningful: positions span -2..L around a delivery point in 0..L
ASSUME L + 2 < M \div 2

Init == /\ isn \in SeqSpace /\ seq = isn /\ buf = << >> /\ total = 0 /\ payload = <<>>
        /\ arrived = {} /\ delivered = <<>>
Arrive == \E s \in Segments :
            /\ Process(Embed(isn, s[1]), Seg(s[1], s[2]))
            /\ arrived' = arrived \cup {p \in s[1]..(s[1] + s[2] - 1) : p >= 0}
            /\ UNCHANGED <<isn, delivered>>
\* the application takes what has been assembled (Stream / user code clears payload())
Consume == /\ payload # <<>> /\ delivered' = delivered \o payload /\ payload' = <<>>
           /\ UNCHANGED <<isn, seq, buf, total, arrived>>
Next == Arrive \/ Consume
Spec == Init /\ [][Next]_vars

------------------------------------------------------------------------------
(* refinement mapping to the abstract level *)
Chunks == {[off |-> Sub(key, isn), b |-> buf[key]] : key \in DOMAIN buf}
Abs == INSTANCE ReassemblyAbs WITH ByteAt <- ByteAtI, arrived <- arrived, k <- Sub(seq, isn),
           delivered <- delivered \o payload, buffered <- Chunks, reported <- total
AbsSpec == Abs!ASpec
Inv == /\ Abs!Exact /\ Abs!Prompt /\ Abs!NothingBelow /\ Abs!Accounting
       /\ \A key \in DOMAIN buf : Len(buf[key]) > 0                   \* no empty chunk survives a call
=============================================================================
