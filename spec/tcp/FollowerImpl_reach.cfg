SPECIFICATION Spec
CONSTANTS Deltas = {0, 10, 21}
  KeepAlive = 10
  MaxChunks = 2
  MaxBytes = 6
  Cap = 32
  Ignores = {"none"}
  Variant = "code"
  Scripts1 = {1}
  Scripts2 = {1, 9}
INVARIANTS NotAllDone
CHECK_DEADLOCK FALSE
