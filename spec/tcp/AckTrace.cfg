SPECIFICATION Spec
CONSTRAINT Mark
CONSTRAINT MarkOutside
POSTCONDITION AllAccepted
CHECK_DEADLOCK FALSE
