SPECIFICATION Spec
CONSTANTS Deltas = {0, 10, 21}
  KeepAlive = 10
  MaxChunks = 2
  MaxBytes = 6
  Cap = 32
  Ignores = {"none"}
  Variant = "announce_on_any_syn"
  Scripts1 = {1, 7}
  Scripts2 = {9}
INVARIANTS Conforms SameLive Bounded
CHECK_DEADLOCK FALSE
