--------------------------- MODULE ReassemblyTrace ---------------------------
(* Trace specification for C06: validates executions of the real DataTracker / Flow / legacy TCPStream
   (recorded by harness/tcp_reasm.cpp in logical coordinates) against ReassemblyAbs.

   Events (one per public call):
     seg   {"off","len","seq","deliv":[bytes],"buf":[{"off","b":[bytes]}],"total"}   tracker and flow objects
     lseg  {"off","len","deliv":[bytes]}        legacy TCPStream: only the delivery guarantee is observable
   The stream is ByteAt(p) = (p % 251) + 1; its length is not needed by the oracle. *)
EXTENDS TraceIO, Integers, FiniteSets
VARIABLES arrived, k
vars == <<ex, l, arrived, k>>

StreamByte(p) == IF p >= 0 THEN (p % 251) + 1 ELSE 0
R == INSTANCE ReassemblyAbs WITH L <- 0, ByteAt <- StreamByte,
         delivered <- <<>>, buffered <- {}, reported <- 0      \* history variables are not needed here

Init == \E s \in Starts : TraceInit(s) /\ arrived = {} /\ k = 0

Seg == /\ IsEvent("seg")
       /\ R!ArriveOK(arrived, k, Ev.off, Ev.len, arrived', k', Ev.deliv, Range(Ev.buf), Ev.total)
       /\ Ev.seq = k'                           \* the reported delivery point is the prefix length

LegacySeg == /\ IsEvent("lseg")
             /\ R!ArriveOK(arrived, k, Ev.off, Ev.len, arrived', k', Ev.deliv, {}, 0)

Next == Seg \/ LegacySeg
Spec == Init /\ [][Next]_vars
=============================================================================
