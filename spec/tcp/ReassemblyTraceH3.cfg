SPECIFICATION Spec
CONSTRAINT Mark
CONSTRAINT Silent
POSTCONDITION AllAccepted
CHECK_DEADLOCK FALSE
