---- MODULE FollowerImpl_TTrace_1791090553 ----
EXTENDS Sequences, TLCExt, Toolbox, Naturals, TLC, FollowerImpl

_expression ==
    LET FollowerImpl_TEExpression == INSTANCE FollowerImpl_TEExpression
    IN FollowerImpl_TEExpression!expression
----

_trace ==
    LET FollowerImpl_TETrace == INSTANCE FollowerImpl_TETrace
    IN FollowerImpl_TETrace!trace
----

_inv ==
    ~(
        TLCGet("level") = Len(_TETrace)
        /\
        conns = (<<>>)
        /\
        sc = ([c1 |-> 11, c2 |-> 1])
        /\
        lastCleanup = (0)
        /\
        pos = ([c1 |-> 5, c2 |-> 0])
        /\
        attach = (FALSE)
        /\
        ok = (FALSE)
        /\
        table = ([c1 |-> [cf |-> [st |-> "EST", k |-> 0, buf |-> {}], sf |-> [st |-> "EST", k |-> 0, buf |-> {<<2, 4>>, <<8, 3>>}], client |-> "c", created |-> 0, last |-> 0]])
    )
----

_init ==
    /\ conns = _TETrace[1].conns
    /\ attach = _TETrace[1].attach
    /\ ok = _TETrace[1].ok
    /\ pos = _TETrace[1].pos
    /\ sc = _TETrace[1].sc
    /\ lastCleanup = _TETrace[1].lastCleanup
    /\ table = _TETrace[1].table
----

_next ==
    /\ \E i,j \in DOMAIN _TETrace:
        /\ \/ /\ j = i + 1
              /\ i = TLCGet("level")
        /\ conns  = _TETrace[i].conns
        /\ conns' = _TETrace[j].conns
        /\ attach  = _TETrace[i].attach
        /\ attach' = _TETrace[j].attach
        /\ ok  = _TETrace[i].ok
        /\ ok' = _TETrace[j].ok
        /\ pos  = _TETrace[i].pos
        /\ pos' = _TETrace[j].pos
        /\ sc  = _TETrace[i].sc
        /\ sc' = _TETrace[j].sc
        /\ lastCleanup  = _TETrace[i].lastCleanup
        /\ lastCleanup' = _TETrace[j].lastCleanup
        /\ table  = _TETrace[i].table
        /\ table' = _TETrace[j].table

\* Uncomment the ASSUME below to write the states of the error trace
\* to the given file in Json format. Note that you can pass any tuple
\* to `JsonSerialize`. For example, a sub-sequence of _TETrace.
    \* ASSUME
    \*     LET J == INSTANCE Json
    \*         IN J!JsonSerialize("FollowerImpl_TTrace_1791090553.json", _TETrace)

=============================================================================

 Note that you can extract this module `FollowerImpl_TEExpression`
  to a dedicated file to reuse `expression` (the module in the 
  dedicated `FollowerImpl_TEExpression.tla` file takes precedence 
  over the module `FollowerImpl_TEExpression` below).

---- MODULE FollowerImpl_TEExpression ----
EXTENDS Sequences, TLCExt, Toolbox, Naturals, TLC, FollowerImpl

expression == 
    [
        \* To hide variables of the `FollowerImpl` spec from the error trace,
        \* remove the variables below.  The trace will be written in the order
        \* of the fields of this record.
        conns |-> conns
        ,attach |-> attach
        ,ok |-> ok
        ,pos |-> pos
        ,sc |-> sc
        ,lastCleanup |-> lastCleanup
        ,table |-> table
        
        \* Put additional constant-, state-, and action-level expressions here:
        \* ,_stateNumber |-> _TEPosition
        \* ,_connsUnchanged |-> conns = conns'
        
        \* Format the `conns` variable as Json value.
        \* ,_connsJson |->
        \*     LET J == INSTANCE Json
        \*     IN J!ToJson(conns)
        
        \* Lastly, you may build expressions over arbitrary sets of states by
        \* leveraging the _TETrace operator.  For example, this is how to
        \* count the number of times a spec variable changed up to the current
        \* state in the trace.
        \* ,_connsModCount |->
        \*     LET F[s \in DOMAIN _TETrace] ==
        \*         IF s = 1 THEN 0
        \*         ELSE IF _TETrace[s].conns # _TETrace[s-1].conns
        \*             THEN 1 + F[s-1] ELSE F[s-1]
        \*     IN F[_TEPosition - 1]
    ]

=============================================================================



Parsing and semantic processing can take forever if the trace below is long.
 In this case, it is advised to uncomment the module below to deserialize the
 trace from a generated binary file.

\*
\*---- MODULE FollowerImpl_TETrace ----
\*EXTENDS IOUtils, TLC, FollowerImpl
\*
\*trace == IODeserialize("FollowerImpl_TTrace_1791090553.bin", TRUE)
\*
\*=============================================================================
\*

---- MODULE FollowerImpl_TETrace ----
EXTENDS TLC, FollowerImpl

trace == 
    <<
    ([conns |-> <<>>,sc |-> [c1 |-> 11, c2 |-> 1],lastCleanup |-> -32,pos |-> [c1 |-> 0, c2 |-> 0],attach |-> FALSE,ok |-> TRUE,table |-> <<>>]),
    ([conns |-> [c1 |-> [fin |-> [c |-> FALSE, s |-> FALSE], rst |-> FALSE, client |-> "c", last |-> 0, dir |-> [c |-> [k |-> 0, arrived |-> {}], s |-> [k |-> 0, arrived |-> {}]]]],sc |-> [c1 |-> 11, c2 |-> 1],lastCleanup |-> 0,pos |-> [c1 |-> 1, c2 |-> 0],attach |-> FALSE,ok |-> TRUE,table |-> [c1 |-> [cf |-> [st |-> "SYN_SENT", k |-> 0, buf |-> {}], sf |-> [st |-> "UNKNOWN", k |-> -1, buf |-> {}], client |-> "c", created |-> 0, last |-> 0]]]),
    ([conns |-> [c1 |-> [fin |-> [c |-> FALSE, s |-> FALSE], rst |-> FALSE, client |-> "c", last |-> 0, dir |-> [c |-> [k |-> 0, arrived |-> {}], s |-> [k |-> 0, arrived |-> {}]]]],sc |-> [c1 |-> 11, c2 |-> 1],lastCleanup |-> 0,pos |-> [c1 |-> 2, c2 |-> 0],attach |-> FALSE,ok |-> TRUE,table |-> [c1 |-> [cf |-> [st |-> "SYN_SENT", k |-> 0, buf |-> {}], sf |-> [st |-> "SYN_SENT", k |-> 0, buf |-> {}], client |-> "c", created |-> 0, last |-> 0]]]),
    ([conns |-> [c1 |-> [fin |-> [c |-> FALSE, s |-> FALSE], rst |-> FALSE, client |-> "c", last |-> 0, dir |-> [c |-> [k |-> 0, arrived |-> {}], s |-> [k |-> 0, arrived |-> {}]]]],sc |-> [c1 |-> 11, c2 |-> 1],lastCleanup |-> 0,pos |-> [c1 |-> 3, c2 |-> 0],attach |-> FALSE,ok |-> TRUE,table |-> [c1 |-> [cf |-> [st |-> "EST", k |-> 0, buf |-> {}], sf |-> [st |-> "SYN_SENT", k |-> 0, buf |-> {}], client |-> "c", created |-> 0, last |-> 0]]]),
    ([conns |-> [c1 |-> [fin |-> [c |-> FALSE, s |-> FALSE], rst |-> FALSE, client |-> "c", last |-> 0, dir |-> [c |-> [k |-> 0, arrived |-> {}], s |-> [k |-> 0, arrived |-> {2, 3, 4, 5}]]]],sc |-> [c1 |-> 11, c2 |-> 1],lastCleanup |-> 0,pos |-> [c1 |-> 4, c2 |-> 0],attach |-> FALSE,ok |-> TRUE,table |-> [c1 |-> [cf |-> [st |-> "EST", k |-> 0, buf |-> {}], sf |-> [st |-> "EST", k |-> 0, buf |-> {<<2, 4>>}], client |-> "c", created |-> 0, last |-> 0]]]),
    ([conns |-> <<>>,sc |-> [c1 |-> 11, c2 |-> 1],lastCleanup |-> 0,pos |-> [c1 |-> 5, c2 |-> 0],attach |-> FALSE,ok |-> FALSE,table |-> [c1 |-> [cf |-> [st |-> "EST", k |-> 0, buf |-> {}], sf |-> [st |-> "EST", k |-> 0, buf |-> {<<2, 4>>, <<8, 3>>}], client |-> "c", created |-> 0, last |-> 0]]])
    >>
----


=============================================================================

---- CONFIG FollowerImpl_TTrace_1791090553 ----
CONSTANTS
    Deltas = { 0 , 10 , 21 }
    KeepAlive = 10
    MaxChunks = 2
    MaxBytes = 6
    Cap = 32
    Variant = "limit_client_only"
    Scripts1 = { 1 , 2 , 3 , 4 , 5 , 6 , 7 , 8 , 9 , 10 , 11 , 12 , 13 }
    Scripts2 = { 1 , 9 }

INVARIANT
    _inv

CHECK_DEADLOCK
    \* CHECK_DEADLOCK off because of PROPERTY or INVARIANT above.
    FALSE

INIT
    _init

NEXT
    _next

CONSTANT
    _TETrace <- _trace

ALIAS
    _expression
=============================================================================
\* Generated on Sun Oct 04 05:09:28 UTC 2026