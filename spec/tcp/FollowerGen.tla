------------------------------ MODULE FollowerGen ------------------------------
(* Scenario generator for C07: two connections, each following a script (handshake, data both ways with
   reordering / duplication / overlap, FIN/FIN or RST close, mid-stream attach, buffer-limit overflow, reuse of
   the 4-tuple after close), all interleavings, capture times advancing by 0 / a little / a keep-alive / more
   than two keep-alives.  Exported: {"attach": bool, "pkts": [packet records of FollowerAbs]}.
   The endpoint relation between the two connections (same ports on swapped hosts, one port differing, same
   4-tuple in the other address family, ...) is chosen by the replay driver. *)
EXTENDS Naturals, Integers, Sequences, FiniteSets, TLC, Json
CONSTANTS Deltas, MaxLen
P(from, syn, ack, fin, rst, off, len) == [from |-> from, syn |-> syn, ack |-> ack, fin |-> fin, rst |-> rst, off |-> off, len |-> len, ackoff |-> 0, inc |-> FALSE]
Syn == [P("c", TRUE, FALSE, FALSE, FALSE, 0, 0) EXCEPT !.inc = TRUE]     \* inc: first SYN of a new incarnation (fresh ISNs)
SynDup == P("c", TRUE, FALSE, FALSE, FALSE, 0, 0)                            \* a retransmitted SYN
SynAck == P("s", TRUE, TRUE, FALSE, FALSE, 0, 0)
Ack(e) == P(e, FALSE, TRUE, FALSE, FALSE, 0, 0)
D(e, off, len) == P(e, FALSE, TRUE, FALSE, FALSE, off, len)
Fin(e) == P(e, FALSE, TRUE, TRUE, FALSE, 0, 0)
FinD(e, off, len) == P(e, FALSE, TRUE, TRUE, FALSE, off, len)
Rst(e) == P(e, FALSE, FALSE, FALSE, TRUE, 0, 0)
H == <<Syn, SynAck, Ack("c")>>
SA == H \o <<D("c", 0, 2), D("s", 0, 2), Fin("c"), Fin("s")>>
Scripts == <<
  SA,
  H \o <<D("c", 2, 2), D("c", 0, 2), D("c", 0, 4), Rst("s")>>,
  H \o <<D("c", 1, 1), D("c", 3, 1), D("c", 5, 1), D("c", 0, 1)>>,                 \* third out-of-order chunk exceeds maxChunks = 2
  <<D("c", 0, 2), D("s", 0, 1), D("c", 2, 2), Fin("c"), Fin("s")>>,                \* no handshake: only followed when attaching
  H \o <<D("s", 0, 3), Fin("s"), D("c", 0, 1), Rst("c")>>,
  H \o <<D("c", 2, 4), D("c", 8, 3), D("c", 0, 2)>>,                                 \* 7 buffered bytes exceed maxBytes = 6
  <<Syn, SynDup, SynAck, Ack("c"), FinD("c", 0, 1), Ack("s"), Fin("s")>>,
  SA \o SA,                                                                          \* the 4-tuple is reused after close
  H \o <<D("c", 0, 1), D("s", 0, 1)>>,                                               \* stays open: left to the idle sweep
  H \o <<D("s", 1, 2), D("s", 0, 1), D("c", 0, 3), Fin("c"), Rst("c")>>,
  H \o <<D("s", 2, 4), D("s", 8, 3), D("s", 0, 2)>>,                                 \* the server direction alone exceeds maxBytes
  H \o <<D("c", 2, 3), D("s", 2, 4), D("c", 0, 2)>>,                                 \* only both directions together exceed maxBytes
  H \o <<D("s", 1, 1), D("c", 1, 1), D("s", 3, 1), D("c", 0, 1)>>                    \* chunks of both directions together exceed maxChunks
>>
VARIABLES sc, pos, now, hist, attach
vars == <<sc, pos, now, hist, attach>>
Conn == {"c1", "c2"}
Init == /\ sc \in [Conn -> 1..Len(Scripts)] /\ pos = [c \in Conn |-> 0] /\ now = 10 /\ hist = <<>> /\ attach \in BOOLEAN
Remaining(c) == Len(Scripts[sc[c]]) - pos[c]
Next == /\ Len(hist) < MaxLen
        /\ \E c \in Conn, d \in Deltas :
             /\ Remaining(c) > 0
             /\ pos' = [pos EXCEPT ![c] = @ + 1]
             /\ now' = now + d
             /\ hist' = Append(hist, Scripts[sc[c]][pos[c] + 1] @@ [conn |-> c, ts |-> now + d])
             /\ UNCHANGED <<sc, attach>>
Spec == Init /\ [][Next]_vars
AllDone == \A c \in Conn : Remaining(c) = 0
Emit == (AllDone \/ Len(hist) = MaxLen) => PrintT("SCN " \o ToJson([attach |-> attach, pkts |-> hist]))
=============================================================================
