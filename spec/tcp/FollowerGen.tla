------------------------------ MODULE FollowerGen ------------------------------
(* Scenario generator for C07: two connections, each following a script (handshake, data both ways with
   reordering / duplication / overlap, FIN/FIN or RST close, mid-stream attach, buffer-limit overflow, reuse of
   the 4-tuple after close), all interleavings, capture times advancing by 0 / a little / a keep-alive / more
   than two keep-alives.  Exported: {"attach": bool, "pkts": [packet records of FollowerAbs]}.
   The endpoint relation between the two connections (same ports on swapped hosts, one port differing, same
   4-tuple in the other address family, ...) is chosen by the replay driver. *)
EXTENDS FollowerScripts, Integers, FiniteSets, TLC, Json
CONSTANTS Deltas, MaxLen
VARIABLES sc, pos, now, hist, attach
vars == <<sc, pos, now, hist, attach>>
Conn == {"c1", "c2"}
Init == /\ sc \in [Conn -> 1..Len(Scripts)] /\ pos = [c \in Conn |-> 0] /\ now = 10 /\ hist = <<>> /\ attach \in BOOLEAN
Remaining(c) == Len(Scripts[sc[c]]) - pos[c]
Next == /\ Len(hist) < MaxLen
        /\ \E c \in Conn, d \in Deltas :
             /\ Remaining(c) > 0
             /\ pos' = [pos EXCEPT ![c] = @ + 1]
             /\ now' = now + d
             /\ hist' = Append(hist, Scripts[sc[c]][pos[c] + 1] @@ [conn |-> c, ts |-> now + d])
             /\ UNCHANGED <<sc, attach>>
Spec == Init /\ [][Next]_vars
AllDone == \A c \in Conn : Remaining(c) = 0
Emit == (AllDone \/ Len(hist) = MaxLen) => PrintT("SCN " \o ToJson([attach |-> attach, pkts |-> hist]))
=============================================================================
