SPECIFICATION Spec
CONSTANT Variant = "zero_pad"
