--------------------------- MODULE ReassemblyAbs ---------------------------
(* Property C06 -- abstract, property-level specification of TCP stream reassembly for ONE direction
   of one connection, in *logical coordinates*: position p is the offset from the first stream byte
   (initial sequence number), so stale data has negative positions and nothing here wraps.

   State (only what the property talks about):
     arrived    set of stream positions carried by some segment seen so far
     k          number of bytes handed to the application so far
     delivered  the bytes handed to the application so far (everything, in order)
     buffered   out-of-order chunks currently held:  set of [off, bytes]
     reported   what the implementation reports as "total buffered bytes"

   Freedom left to an implementation (DESIGN 5 rule 2) -- this spec does NOT constrain:
     * which chunks are held and how they are split/merged, as long as every held byte really arrived
       and lies strictly above the delivery point  ("nothing at or below it stays buffered");
     * which of several copies of a byte is kept (all copies are equal: one underlying stream);
     * whether the application is notified when no new byte is delivered.

   Clauses of C06 and where they are:
     "at every moment a prefix of that stream, each byte exactly once" ........ Exact, PrefixMonotone
     "as soon as every byte up to some position has arrived everything up to it
      has been delivered" ....................................................... Prompt  (k = Prefix(arrived))
     "nothing at or below it stays buffered" ..................................... NothingBelow
     "reported amount of buffered data equals what is actually held" ............. Accounting
     "for any initial sequence number including ones that wrap" .................. DataTrackerImpl refines
                                                                                   this spec for every ISN mod M *)
EXTENDS Naturals, Integers, Sequences, FiniteSets

CONSTANTS L,          \* bound on the stream length -- used ONLY to make ANext's quantifiers finite
          ByteAt(_)   \* the underlying stream: byte at logical position p >= 0; negative positions are 'stale'

\* stream positions carried by a segment (the property's precondition: segments carry bytes of the one stream)
Covers(off, len) == {p \in off..(off + len - 1) : p >= 0}
\* longest prefix 0..n-1 contained in a   (a is finite, so the answer is at most Cardinality(a))
Prefix(a) == CHOOSE n \in 0..Cardinality(a) : (\A p \in 0..(n-1) : p \in a) /\ n \notin a

\* a chunk is a record [off |-> position of its first byte, b |-> its bytes]
\* (the ...B forms take the stream's byte function as an argument, for callers that track several streams)
ChunkOKB(B(_), c, a2, k2) ==
    /\ c.off > k2                                              \* strictly above the delivery point
    /\ \A j \in 1..Len(c.b) : /\ (c.off + j - 1) \in a2        \* every held byte really arrived ...
                              /\ c.b[j] = B(c.off + j - 1)      \* ... and is the stream's byte
ChunkOK(c, a2, k2) == ChunkOKB(ByteAt, c, a2, k2)
SumLen(chunks) == LET RECURSIVE S(_)
                      S(cs) == IF cs = {} THEN 0 ELSE LET c == CHOOSE x \in cs : TRUE IN Len(c.b) + S(cs \ {c})
                  IN S(chunks)

(* The step relation as a predicate over (old state, segment, new observation); used by the standalone
   spec below, by the refinement check of DataTrackerImpl and by the trace specification. *)
ArriveOKB(B(_), arrived0, k0, off, len, arrived2, k2, newBytes, chunks, rep) ==
    /\ arrived2 = arrived0 \cup Covers(off, len)
    /\ k2 = Prefix(arrived2)                                                \* prompt
    /\ newBytes = [i \in 1..(k2 - k0) |-> B(k0 + i - 1)]                   \* exactly the next bytes, once
    /\ \A c \in chunks : ChunkOKB(B, c, arrived2, k2)
    /\ \A c, d \in chunks : c.off = d.off => c = d                          \* chunks are identified by position
    /\ rep = SumLen(chunks)                                                  \* accounting
ArriveOK(arrived0, k0, off, len, arrived2, k2, newBytes, chunks, rep) ==
    ArriveOKB(ByteAt, arrived0, k0, off, len, arrived2, k2, newBytes, chunks, rep)

VARIABLES arrived, k, delivered, buffered, reported
avars == <<arrived, k, delivered, buffered, reported>>

AInit == arrived = {} /\ k = 0 /\ delivered = <<>> /\ buffered = {} /\ reported = 0

AArrive(off, len) ==
    /\ ArriveOK(arrived, k, off, len, arrived', k', SubSeq(delivered', Len(delivered) + 1, Len(delivered')), buffered', reported')
    /\ Len(delivered') >= Len(delivered)
    /\ SubSeq(delivered', 1, Len(delivered)) = delivered

ANext == \E off \in (0 - L)..(L-1), len \in 1..(2*L) : AArrive(off, len)
ASpec == AInit /\ [][ANext]_avars

(* Invariants -- consequences of ASpec, listed because the implementation-shaped specs check them state by state *)
Exact        == delivered = [i \in 1..Len(delivered) |-> ByteAt(i - 1)]
Prompt       == k = Prefix(arrived) /\ Len(delivered) = k
NothingBelow == \A c \in buffered : ChunkOK(c, arrived, k)
Accounting   == reported = SumLen(buffered)
PrefixMonotone == [][Len(delivered') >= Len(delivered) /\ SubSeq(delivered', 1, Len(delivered)) = delivered]_avars
=============================================================================
