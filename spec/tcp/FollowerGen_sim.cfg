SPECIFICATION Spec
CONSTANT Deltas = {0, 3, 10, 25}
CONSTANT MaxLen = 30
CONSTRAINT Emit
CHECK_DEADLOCK FALSE
