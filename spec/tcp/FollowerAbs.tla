------------------------------ MODULE FollowerAbs ------------------------------
(* Property C07 -- reference connection table for a TCP stream follower.

   A packet is a record
      [conn, from, syn, ack, fin, rst, off, len, ackoff, ts]
   conn   the connection (an address/port 4-tuple INCLUDING the address family; generators only use distinct ones)
   from   "c" | "s": which of the connection's two endpoints sent it (endpoint "c" opens the connection in scripts
          that contain a handshake)
   off,len   position of its payload in the sender's byte stream (logical coordinates, see ReassemblyAbs); len = 0: no data
   ackoff    what it acknowledges of the peer's stream (used only when a connection is attached mid-stream)
   ts        the capture time

   conns : connection -> [client, dir, fin, rst, last]
      client  which endpoint the follower regards as the client (the sender of the packet that created the entry)
      dir     per endpoint: [arrived, k]  -- one ReassemblyAbs state per direction
      fin     per endpoint: has sent FIN;   rst: either has sent RST;   last: time of its last packet

   Clauses of C07:
     P1 "announces each connection exactly once (on its initial SYN, or on first data when attaching to running
         flows is enabled)" ..................................... Creates, cb "new"
     P2 "routes every segment to the connection and direction identified by its address/port 4-tuple, delivers
         each direction's bytes as the reassembly guarantee demands" ........ DataOK (ReassemblyAbs!ArriveOK per direction)
     P3 "forgets the connection exactly when both sides have sent FIN or either has sent RST" ..... Finished, cb "closed", live
     P4 "A connection that buffers more out-of-order chunks or bytes than the configured limits ... is terminated
         with the corresponding reason reported exactly once" ............ Over, cb "term BUFFERED_DATA"
     P5 "... or stays idle longer than the keep-alive" ............ TIMEOUT only for entries idle >= keep-alive, and no
         entry idle >= 2*keep-alive survives a packet (the property fixes no sweep schedule inside that window)
   Freedom: when exactly inside [keepAlive, 2*keepAlive) an idle entry is swept; which chunks a direction buffers. *)
EXTENDS Naturals, Integers, Sequences, FiniteSets
CONSTANT ByteOf(_, _, _)     \* ByteOf(conn, endpoint, position): the byte streams (fixed by the generator)

Other(e) == IF e = "c" THEN "s" ELSE "c"
IsInitialSyn(p) == p.syn /\ ~p.ack
Live(conns, c) == c \in DOMAIN conns
Creates(conns, cfg, p) == ~Live(conns, p.conn) /\ (IsInitialSyn(p) \/ (cfg.attach /\ p.len > 0))

R == INSTANCE ReassemblyAbs WITH L <- 0, ByteAt <- LAMBDA q : 0,        \* only the ...B operators are used, with
         arrived <- {}, k <- 0, delivered <- <<>>, buffered <- {}, reported <- 0   \* the stream of (connection, endpoint)

NewConn(p) == [client |-> p.from,
               dir |-> IF IsInitialSyn(p) THEN [e \in {"c", "s"} |-> [arrived |-> {}, k |-> 0]]
                       \* attached mid-stream: delivery starts at this packet's position / at what it acknowledges
                       ELSE [e \in {"c", "s"} |-> IF e = p.from THEN [arrived |-> 0..(p.off - 1), k |-> p.off]
                                                  ELSE [arrived |-> 0..(p.ackoff - 1), k |-> p.ackoff]],
               fin |-> [e \in {"c", "s"} |-> FALSE], rst |-> FALSE, last |-> p.ts]

\* the entry after packet p (before deciding whether it is forgotten)
Upd(cn, p) == LET a2 == cn.dir[p.from].arrived \cup (IF p.len > 0 THEN R!Covers(p.off, p.len) ELSE {})
              IN [cn EXCEPT !.dir[p.from] = [arrived |-> a2, k |-> R!Prefix(a2)],
                            !.fin[p.from] = @ \/ p.fin,
                            !.rst = @ \/ (p.rst /\ ~p.fin),          \* a segment with FIN set counts as FIN
                            !.last = p.ts]
Finished(cn) == cn.rst \/ (cn.fin["c"] /\ cn.fin["s"])
Idle(conns, c, now) == now - conns[c].last

(* ---- the verdict on one observed packet step ----
   conns: the reference table before the packet; cfg: [attach, keepAlive, maxChunks, maxBytes, ignore]; ignore = "none" |
   "client" | "server": the user told every new stream to ignore that direction's data (Stream::ignore_client_data /
   ignore_server_data) - no data callbacks and no buffering for it, everything else (announcement, close, time-out) unchanged;
   p: the packet record
   extended with what was OBSERVED while the follower processed it:
      cb     sequence of callbacks [k: "new"|"cdata"|"sdata"|"closed"|"term", c: conn, b: bytes, r: reason, client: endpoint]
      live   the connections the follower still finds afterwards
      chunks, bytes   out-of-order chunks / bytes this connection holds afterwards (both directions together)
      buf    per endpoint the chunks held [off, b]
      thrown ""
   Judge returns [ok |-> every clause of C07 holds for this step, next |-> the reference table after it].
   Used by the trace specification (observations of the real StreamFollower) and by FollowerImpl (observations of the
   implementation-shaped model, for every interleaving). *)
RangeOf(s) == {s[i] : i \in 1..Len(s)}
Judge(conns, cfg, p) ==
    LET Cbs(kind) == {x \in RangeOf(p.cb) : x.k = kind}
        c == p.conn
        live0 == Live(conns, c)
        creates == Creates(conns, cfg, p)
        tracked == live0 \/ creates
        cn0 == IF live0 THEN conns[c] ELSE IF creates THEN NewConn(p) ELSE <<>>
        cn1 == IF tracked THEN Upd(cn0, p) ELSE <<>>
        fin == tracked /\ Finished(cn1)
        \* without a termination callback (cfg.termcb = FALSE) the follower has to drop what it terminates all the same; the driver then
        \* reports a connection that vanished without a closed callback as the termination, but it can no longer look at what the
        \* connection held: the report itself stands for "over the limits" (a connection that is NOT dropped is still looked at)
        over == tracked /\ (p.chunks > cfg.maxChunks \/ p.bytes > cfg.maxBytes
                             \/ (~cfg.termcb /\ \E x \in Cbs("term") : x.c = c /\ x.r = "BUFFERED_DATA"))
        \* entries that MUST be gone (idle >= 2*keepAlive) and entries that MAY be gone (idle >= keepAlive) after this packet
        others == (DOMAIN conns) \ {c}
        mustGo == {d \in others : p.ts - conns[d].last >= 2 * cfg.keepAlive}
        mayGo  == {d \in others : p.ts - conns[d].last >= cfg.keepAlive}
        timedOut == {x.c : x \in {y \in Cbs("term") : y.r = "TIMEOUT"}}
        \* the connection of this packet itself is never swept in the same call: its last = ts
        keep == IF tracked /\ ~fin /\ ~over THEN {c} ELSE {}
        liveAfter == keep \cup (others \ timedOut)
    IN [ok |->
          /\ p.thrown = ""
          \* P1: announced exactly once, with the sender of the first packet as client
          /\ (\E x \in Cbs("new") : x.c = c) <=> creates
          /\ Cardinality(Cbs("new")) = (IF creates THEN 1 ELSE 0)
          /\ \A x \in Cbs("new") : x.client = p.from
          \* P2: data callbacks only for this connection, in the right direction, bytes as ReassemblyAbs demands
          /\ \A x \in Cbs("cdata") \cup Cbs("sdata") : x.c = c /\ tracked
          /\ tracked =>
               LET side == IF p.from = cn0.client THEN "cdata" ELSE "sdata"
                   wrong == IF side = "cdata" THEN "sdata" ELSE "cdata"
                   got == LET xs == Cbs(side) IN IF xs = {} THEN <<>> ELSE (CHOOSE x \in xs : TRUE).b
                   d0 == cn0.dir[p.from]
                   chunks == RangeOf(p.buf[p.from])
               IN /\ Cbs(wrong) = {} /\ Cardinality(Cbs(side)) <= 1
                  /\ IF p.len > 0 /\ ~(cfg.ignore = (IF side = "cdata" THEN "client" ELSE "server"))
                     THEN R!ArriveOKB(LAMBDA q : ByteOf(c, p.from, q), d0.arrived, d0.k, p.off, p.len,
                                      cn1.dir[p.from].arrived, cn1.dir[p.from].k, got, chunks, R!SumLen(chunks))
                     ELSE got = <<>> /\ (p.len > 0 => chunks = {})      \* a direction the user ignores delivers and buffers nothing
          \* P3: forgotten exactly when both sides sent FIN or either sent RST; closed reported once
          /\ (\E x \in Cbs("closed") : x.c = c) <=> fin
          /\ Cardinality(Cbs("closed")) = (IF fin THEN 1 ELSE 0)
          \* P4: over the limits => terminated with BUFFERED_DATA, exactly once, and only then (when the same packet also
          \* closes the connection the property does not say which of the two reports wins: either is accepted)
          /\ (over /\ ~fin) => (\E x \in Cbs("term") : x.c = c /\ x.r = "BUFFERED_DATA")
          /\ (\E x \in Cbs("term") : x.c = c /\ x.r = "BUFFERED_DATA") => over
          /\ \A x \in Cbs("term") : x.r \in {"BUFFERED_DATA", "TIMEOUT"} /\ (x.r = "BUFFERED_DATA" => x.c = c)
          /\ Cardinality({x \in Cbs("term") : x.r = "BUFFERED_DATA"}) <= 1
          \* P5: timeouts only for idle entries, each once; nothing idle for two keep-alive periods survives
          /\ timedOut \subseteq mayGo /\ mustGo \subseteq timedOut
          /\ Cardinality({x \in Cbs("term") : x.r = "TIMEOUT"}) = Cardinality(timedOut)
          \* what find_stream still finds
          /\ RangeOf(p.live) = liveAfter,
        next |-> [d \in liveAfter |-> IF d = c THEN cn1 ELSE conns[d]]]
=============================================================================
