------------------------------ MODULE FollowerAbs ------------------------------
(* Property C07 -- reference connection table for a TCP stream follower.

   A packet is a record
      [conn, from, syn, ack, fin, rst, off, len, ackoff, ts]
   conn   the connection (an address/port 4-tuple INCLUDING the address family; generators only use distinct ones)
   from   "c" | "s": which of the connection's two endpoints sent it (endpoint "c" opens the connection in scripts
          that contain a handshake)
   off,len   position of its payload in the sender's byte stream (logical coordinates, see ReassemblyAbs); len = 0: no data
   ackoff    what it acknowledges of the peer's stream (used only when a connection is attached mid-stream)
   ts        the capture time

   conns : connection -> [client, dir, fin, rst, last]
      client  which endpoint the follower regards as the client (the sender of the packet that created the entry)
      dir     per endpoint: [arrived, k]  -- one ReassemblyAbs state per direction
      fin     per endpoint: has sent FIN;   rst: either has sent RST;   last: time of its last packet

   Clauses of C07:
     P1 "announces each connection exactly once (on its initial SYN, or on first data when attaching to running
         flows is enabled)" ..................................... Creates, cb "new"
     P2 "routes every segment to the connection and direction identified by its address/port 4-tuple, delivers
         each direction's bytes as the reassembly guarantee demands" ........ DataOK (ReassemblyAbs!ArriveOK per direction)
     P3 "forgets the connection exactly when both sides have sent FIN or either has sent RST" ..... Finished, cb "closed", live
     P4 "A connection that buffers more out-of-order chunks or bytes than the configured limits ... is terminated
         with the corresponding reason reported exactly once" ............ Over, cb "term BUFFERED_DATA"
     P5 "... or stays idle longer than the keep-alive" ............ TIMEOUT only for entries idle >= keep-alive, and no
         entry idle >= 2*keep-alive survives a packet (the property fixes no sweep schedule inside that window)
   Freedom: when exactly inside [keepAlive, 2*keepAlive) an idle entry is swept; which chunks a direction buffers. *)
EXTENDS Naturals, Integers, Sequences, FiniteSets
CONSTANT ByteOf(_, _, _)     \* ByteOf(conn, endpoint, position): the byte streams (fixed by the generator)

Other(e) == IF e = "c" THEN "s" ELSE "c"
IsInitialSyn(p) == p.syn /\ ~p.ack
Live(conns, c) == c \in DOMAIN conns
Creates(conns, cfg, p) == ~Live(conns, p.conn) /\ (IsInitialSyn(p) \/ (cfg.attach /\ p.len > 0))

R == INSTANCE ReassemblyAbs WITH L <- 0, ByteAt <- LAMBDA q : 0,        \* only the ...B operators are used, with
         arrived <- {}, k <- 0, delivered <- <<>>, buffered <- {}, reported <- 0   \* the stream of (connection, endpoint)

NewConn(p) == [client |-> p.from,
               dir |-> IF IsInitialSyn(p) THEN [e \in {"c", "s"} |-> [arrived |-> {}, k |-> 0]]
                       \* attached mid-stream: delivery starts at this packet's position / at what it acknowledges
                       ELSE [e \in {"c", "s"} |-> IF e = p.from THEN [arrived |-> 0..(p.off - 1), k |-> p.off]
                                                  ELSE [arrived |-> 0..(p.ackoff - 1), k |-> p.ackoff]],
               fin |-> [e \in {"c", "s"} |-> FALSE], rst |-> FALSE, last |-> p.ts]

\* the entry after packet p (before deciding whether it is forgotten)
Upd(cn, p) == LET a2 == cn.dir[p.from].arrived \cup (IF p.len > 0 THEN R!Covers(p.off, p.len) ELSE {})
              IN [cn EXCEPT !.dir[p.from] = [arrived |-> a2, k |-> R!Prefix(a2)],
                            !.fin[p.from] = @ \/ p.fin,
                            !.rst = @ \/ (p.rst /\ ~p.fin),          \* a segment with FIN set counts as FIN
                            !.last = p.ts]
Finished(cn) == cn.rst \/ (cn.fin["c"] /\ cn.fin["s"])
Idle(conns, c, now) == now - conns[c].last
=============================================================================
