SPECIFICATION Spec
CONSTANT Variant = "code"
