SPECIFICATION Spec
CONSTANTS Deltas = {0, 10, 21}
  KeepAlive = 10
  MaxChunks = 2
  MaxBytes = 6
  Cap = 32
  Ignores = {"none", "client", "server"}
  Variant = "code"
  Scripts1 = {1, 2, 3, 4, 5, 6, 7, 8, 9, 10, 11, 12, 13, 14, 15, 16, 17}
  Scripts2 = {9}
INVARIANTS Conforms SameLive Bounded
CHECK_DEADLOCK FALSE
