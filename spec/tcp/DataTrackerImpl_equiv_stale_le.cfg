SPECIFICATION Spec
CONSTANT M = 16
CONSTANT L = 5
CONSTANT Variant = "stale_le"
INVARIANT Inv
PROPERTY AbsSpec
CHECK_DEADLOCK FALSE
