------------------------------- MODULE AckAbs -------------------------------
(* Property C19 -- abstract model of what an ACK/SACK tracker must know: the SET of byte positions the
   receiver has acknowledged so far, in logical coordinates (offset from the initial sequence number).

   told   positions acknowledged by some processed packet: 0..ackno-1 from cumulative ACKs and l..r-1
          from every SACK block [l, r).

   Obligations after every processed packet (sentences of C19):
     "the tracker's cumulative ACK equals the highest contiguously acknowledged position"
            ackObs = Cum(told)                 (first position not in told)
     "its set of SACKed intervals is exactly the set of selectively acknowledged byte ranges above that
      position"   -- compared AS A SET OF POSITIONS; how the tracker splits or merges intervals is free
            UNION intervals = {p \in told : p > Cum(told)}
     "a segment is reported acknowledged iff every one of its bytes lies below the cumulative ACK or
      inside a SACKed range"
            answer(s, n) <=> \A p \in s..s+n-1 : p < Cum(told) \/ p \in told

   Precondition (the property speaks of a conforming receiver): the cumulative ACK never moves backwards
   and SACK blocks lie strictly above it and are non-empty -- Conforming below.  Generators only produce
   conforming histories; the oracle is not applied outside them. *)
EXTENDS Naturals, Integers, Sequences, FiniteSets

Cum(t) == CHOOSE n \in 0..Cardinality(t) : (\A p \in 0..(n-1) : p \in t) /\ n \notin t
BlockSet(blocks) == UNION {b[1]..(b[2] - 1) : b \in blocks}          \* blocks: set of <<l, r>> meaning [l, r)
Conforming(t, ackno, blocks) == /\ ackno >= Cum(t)
                                /\ \A b \in blocks : b[1] > ackno /\ b[1] < b[2]
Tell(t, ackno, blocks) == t \cup (0..(ackno - 1)) \cup BlockSet(blocks)

AckedPos(t, p) == p < Cum(t) \/ p \in t
\* intervals: set of <<lo, hi>> closed;  queries: set of <<s, n, answer>>
ObsOK(t2, ackObs, intervals, queries) ==
    /\ ackObs = Cum(t2)
    /\ UNION {iv[1]..iv[2] : iv \in intervals} = {p \in t2 : p > Cum(t2)}
    /\ \A q \in queries : q[3] <=> (\A p \in q[1]..(q[1] + q[2] - 1) : AckedPos(t2, p))
=============================================================================
