SPECIFICATION Spec
CONSTANT M = 16
CONSTANT L = 5
CONSTANT Variant = "no_wrap"
INVARIANT Inv
PROPERTY AbsSpec
CHECK_DEADLOCK FALSE
