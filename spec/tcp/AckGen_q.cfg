SPECIFICATION Spec
CONSTANT L = 5
CONSTANT D = 4
CONSTANT MaxBlocks = 3
CONSTANT MaxLen = 2
CONSTRAINT Emit
CHECK_DEADLOCK FALSE
