SPECIFICATION Spec
CONSTANTS Deltas = {0, 10, 21}
  KeepAlive = 10
  MaxChunks = 2
  MaxBytes = 6
  Cap = 32
  Ignores = {"none"}
  Variant = "limit_client_only"
  Scripts1 = {11, 12, 13}
  Scripts2 = {9}
INVARIANTS Conforms SameLive Bounded
CHECK_DEADLOCK FALSE
