SPECIFICATION Spec
CONSTANT M = 32
CONSTANT L = 7
CONSTANT Variant = "code"
INVARIANT Inv
PROPERTY AbsSpec
CHECK_DEADLOCK FALSE
