SPECIFICATION Spec
CONSTANT L = 5
CONSTANT D = 4
CONSTRAINT Emit
CHECK_DEADLOCK FALSE
