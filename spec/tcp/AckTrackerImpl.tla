--------------------------- MODULE AckTrackerImpl ---------------------------
(* Implementation-shaped specification of Tins::TCPIP::AckTracker (src/tcp_ip/ack_tracker.cpp) in modular
   coordinates 0..M-1, driven by a model of a conforming SACK receiver (RFC 2018: ACK = first missing byte,
   up to MaxBlocks maximal runs above it, most recently changed block first; ACK packets may be lost).

   Mirrors the code: AckedRange splits a closed range [first,last] at the numeric wrap point; the interval
   set is a set of numeric positions (boost::icl::interval_set<uint32_t> is exactly that, extensionally);
   a cumulative ACK erases the CLOSED range [old,new]; process_sack inserts each split piece that starts
   above the ACK and otherwise moves the ACK to the piece's last byte; is_segment_acked splits the query
   the same way.  `Variant` selects model-level mutants for non-vacuity.

   Checked: AckAbs!ObsOK in every reachable state for every ISN, all arrival orders, all loss patterns,
   all queries (s, n) inside the stream -- including blocks and queries that straddle the wrap. *)
EXTENDS Naturals, Integers, Sequences, FiniteSets, TLC, SeqNum
CONSTANTS L, MaxBlocks, Variant

A == INSTANCE AckAbs

\* AckedRange(first,last): the closed numeric pieces produced by next() while has_next()
RECURSIVE RangeSeq(_, _, _)
RangeSeq(first, last, fuel) ==
   IF fuel = 0 THEN Assert(FALSE, "AckedRange does not terminate")
   ELSE IF Cmp(first, last) > 0 THEN <<>>
   ELSE IF first <= last THEN <<<<first, last>>>> \o RangeSeq(Add(last, 1), last, fuel - 1)
   ELSE IF Variant = "no_split" THEN <<>>                      \* mutant: wrapped range dropped
   ELSE <<<<first, M - 1>>>> \o RangeSeq(0, last, fuel - 1)
RangeSet(first, last) == LET s == RangeSeq(first, last, 4) IN UNION {s[i][1]..s[i][2] : i \in 1..Len(s)}

VARIABLES isn, received, recent,     \* receiver
          ack, sacked,               \* tracker
          told                       \* history: what the tracker has been told (logical positions)
vars == <<isn, received, recent, ack, sacked, told>>

FirstMissing(r) == A!Cum(r)
Runs(r) == {b \in (0..L) \X (0..L) : b[1] < b[2] /\ (\A p \in b[1]..(b[2]-1) : p \in r)
                                     /\ (b[1] = 0 \/ (b[1]-1) \notin r) /\ (b[2] = L \/ b[2] \notin r)}

ProcSack(a0, s0, blocks) ==
  LET RECURSIVE PB(_, _, _)
      PB(i, a, s) ==
        IF i > Len(blocks) THEN <<a, s>>
        ELSE LET lft == blocks[i][1]  rgt == blocks[i][2]
                 lastB == IF Variant = "no_minus_one" THEN rgt ELSE Sub(rgt, 1) IN
             IF Cmp(lft, rgt) < 0 /\ Cmp(lastB, a) > 0 THEN
                LET ivs == RangeSeq(lft, lastB, 4)
                    RECURSIVE PI(_, _, _)
                    PI(j, aa, ss) == IF j > Len(ivs) THEN <<aa, ss>>
                                     ELSE IF Cmp(ivs[j][1], aa) <= 0 THEN PI(j+1, ivs[j][2], ss)
                                     ELSE PI(j+1, aa, ss \cup (ivs[j][1]..ivs[j][2]))
                    res == PI(1, a, s)
                IN PB(i+1, res[1], res[2])
             ELSE PB(i+1, a, s)
  IN PB(1, a0, s0)

Process(ackno, blocks) ==
  LET adv == Cmp(ackno, ack) > 0
      a1 == IF adv THEN ackno ELSE ack
      s1 == IF adv /\ Variant # "no_cleanup" THEN sacked \ RangeSet(ack, ackno) ELSE sacked
      r == ProcSack(a1, s1, blocks)
  IN ack' = r[1] /\ sacked' = r[2]

Init == /\ isn \in SeqSpace /\ received = {} /\ recent = <<>> /\ ack = isn /\ sacked = {} /\ told = {}

\* a segment [off, off+len) reaches the receiver, which answers with an ACK packet; the packet may be lost
Arrive == \E off \in 0..(L-1), len \in 1..L, lost \in BOOLEAN :
   /\ off + len <= L
   /\ LET r2 == received \cup (off..(off+len-1))
          fm == FirstMissing(r2)
          above == {b \in Runs(r2) : b[1] > fm}
          cur == {b \in above : b[1] <= off /\ off < b[2]}
          olds == SelectSeq(recent, LAMBDA st : \E b \in above : b[1] <= st /\ st < b[2] /\ b \notin cur)
          startsNew == (IF cur = {} THEN <<>> ELSE <<off>>) \o olds
          RECURSIVE Mk(_, _, _)
          Mk(i, seen, acc) == IF i > Len(startsNew) \/ Len(acc) = MaxBlocks THEN acc
                              ELSE LET b == CHOOSE x \in above : x[1] <= startsNew[i] /\ startsNew[i] < x[2] IN
                                   IF b \in seen THEN Mk(i+1, seen, acc) ELSE Mk(i+1, seen \cup {b}, Append(acc, b))
          blocksL == Mk(1, {}, <<>>)
          blocksM == [i \in 1..Len(blocksL) |-> <<Embed(isn, blocksL[i][1]), Embed(isn, blocksL[i][2])>>]
          bset == {blocksL[i] : i \in 1..Len(blocksL)}
      IN /\ received' = r2 /\ recent' = startsNew
         /\ IF lost THEN UNCHANGED <<ack, sacked, told>>
            ELSE /\ Assert(A!Conforming(told, fm, bset), "receiver model is not conforming")
                 /\ Process(Embed(isn, fm), blocksM)
                 /\ told' = A!Tell(told, fm, bset)
   /\ isn' = isn
Next == Arrive
Spec == Init /\ [][Next]_vars

\* is_segment_acked, as written
IsAcked(s, n) ==
   LET ivs == RangeSeq(s, Sub(Add(s, n), 1), 4) IN
   \A j \in 1..Len(ivs) :
       (IF Variant = "query_gt" THEN Cmp(ivs[j][2], ack) > 0 ELSE Cmp(ivs[j][2], ack) >= 0)
           => (ivs[j][1]..ivs[j][2]) \subseteq sacked

Queries == {q \in (0..(L-1)) \X (1..L) : q[1] + q[2] <= L}
Inv == A!ObsOK(told, Sub(ack, isn),
               {<<Sub(p, isn), Sub(p, isn)>> : p \in sacked},
               {<<q[1], q[2], IsAcked(Embed(isn, q[1]), q[2])>> : q \in Queries})
=============================================================================
