----------------------------- MODULE FollowerTrace -----------------------------
(* Trace specification for C07: validates executions of the real StreamFollower (harness/tcp_follower.cpp)
   against the reference connection table FollowerAbs.
   pkt {"conn","from","syn","ack","fin","rst","off","len","ackoff","ts",
        "cb":[{"k":"new"|"cdata"|"sdata"|"closed"|"term","c":conn,"b":[bytes],"r":reason,"client":"c"|"s"|"?"}],
        "live":[conns that find_stream still finds], "chunks":n,"bytes":n (buffered by this connection after the packet),
        "buf":{"c":[{off,b}],"s":[..]}, "thrown":""}
   Reset record: attach, keepAlive, maxChunks, maxBytes, conns (all connections of the scenario). *)
EXTENDS TraceIO, Integers, FiniteSets
VARIABLE conns
vars == <<ex, l, conns>>
\* byte streams: position q of endpoint e of connection c (the driver uses the same formula)
SByte(c, e, q) == IF q < 0 THEN 0 ELSE ((q * 7 + (IF e = "c" THEN 3 ELSE 11) + Len(c) * 0) % 250) + 1
F == INSTANCE FollowerAbs WITH ByteOf <- SByte
Init == \E s \in Starts : TraceInit(s) /\ conns = <<>>

Cbs(kind) == {x \in Range(Ev.cb) : x.k = kind}
Pkt == /\ IsEvent("pkt")
       /\ LET p == Ev
              c == p.conn
              cfg == [attach |-> Cfg.attach]
              live0 == F!Live(conns, c)
              creates == F!Creates(conns, cfg, p)
              tracked == live0 \/ creates
              cn0 == IF live0 THEN conns[c] ELSE IF creates THEN F!NewConn(p) ELSE <<>>
              cn1 == IF tracked THEN F!Upd(cn0, p) ELSE <<>>
              fin == tracked /\ F!Finished(cn1)
              over == tracked /\ (p.chunks > Cfg.maxChunks \/ p.bytes > Cfg.maxBytes)
              \* entries that MUST be gone (idle >= 2*keepAlive) and entries that MAY be gone (idle >= keepAlive) after this packet
              others == (DOMAIN conns) \ {c}
              mustGo == {d \in others : p.ts - conns[d].last >= 2 * Cfg.keepAlive}
              mayGo  == {d \in others : p.ts - conns[d].last >= Cfg.keepAlive}
              timedOut == {x.c : x \in {y \in Cbs("term") : y.r = "TIMEOUT"}}
              \* the connection of this packet itself may be swept in the same call if it was created/kept ... never: its last = ts
              keep == IF tracked /\ ~fin /\ ~over THEN {c} ELSE {}
              liveAfter == keep \cup (others \ timedOut)
          IN /\ p.thrown = ""
             \* P1: announced exactly once, with the sender of the first packet as client
             /\ (\E x \in Cbs("new") : x.c = c) <=> creates
             /\ Cardinality(Cbs("new")) = (IF creates THEN 1 ELSE 0)
             /\ \A x \in Cbs("new") : x.client = p.from
             \* P2: data callbacks only for this connection, in the right direction, bytes as ReassemblyAbs demands
             /\ \A x \in Cbs("cdata") \cup Cbs("sdata") : x.c = c /\ tracked
             /\ tracked =>
                  LET side == IF p.from = cn0.client THEN "cdata" ELSE "sdata"
                      wrong == IF side = "cdata" THEN "sdata" ELSE "cdata"
                      got == LET xs == Cbs(side) IN IF xs = {} THEN <<>> ELSE (CHOOSE x \in xs : TRUE).b
                      d0 == cn0.dir[p.from]
                      chunks == Range(p.buf[p.from])
                  IN /\ Cbs(wrong) = {} /\ Cardinality(Cbs(side)) <= 1
                     /\ IF p.len > 0
                        THEN F!R!ArriveOKB(LAMBDA q : SByte(c, p.from, q), d0.arrived, d0.k, p.off, p.len,
                                             cn1.dir[p.from].arrived, cn1.dir[p.from].k, got, chunks, F!R!SumLen(chunks))
                        ELSE got = <<>>
             \* P3: forgotten exactly when both sides sent FIN or either sent RST; closed reported once
             /\ (\E x \in Cbs("closed") : x.c = c) <=> fin
             /\ Cardinality(Cbs("closed")) = (IF fin THEN 1 ELSE 0)
             \* P4: over the limits => terminated with BUFFERED_DATA, exactly once, and only then
             /\ (\E x \in Cbs("term") : x.c = c /\ x.r = "BUFFERED_DATA") <=> (over /\ ~fin)
             /\ \A x \in Cbs("term") : x.r \in {"BUFFERED_DATA", "TIMEOUT"}
             /\ Cardinality({x \in Cbs("term") : x.r = "BUFFERED_DATA"}) <= 1
             \* P5: timeouts only for idle entries, each once; nothing idle for two keep-alive periods survives
             /\ timedOut \subseteq mayGo /\ mustGo \subseteq timedOut
             /\ Cardinality({x \in Cbs("term") : x.r = "TIMEOUT"}) = Cardinality(timedOut)
             \* what find_stream still finds
             /\ Range(p.live) = liveAfter
             /\ conns' = [d \in liveAfter |-> IF d = c THEN cn1 ELSE conns[d]]
Next == Pkt
Spec == Init /\ [][Next]_vars
=============================================================================
