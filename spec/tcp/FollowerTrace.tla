----------------------------- MODULE FollowerTrace -----------------------------
(* Trace specification for C07: validates executions of the real StreamFollower (harness/tcp_follower.cpp)
   against the reference connection table FollowerAbs.
   pkt {"conn","from","syn","ack","fin","rst","off","len","ackoff","ts",
        "cb":[{"k":"new"|"cdata"|"sdata"|"closed"|"term","c":conn,"b":[bytes],"r":reason,"client":"c"|"s"|"?"}],
        "live":[conns that find_stream still finds], "chunks":n,"bytes":n (buffered by this connection after the packet),
        "buf":{"c":[{off,b}],"s":[..]}, "thrown":""}
   Reset record: attach, keepAlive, maxChunks, maxBytes, conns (all connections of the scenario). *)
EXTENDS TraceIO, Integers, FiniteSets
VARIABLE conns
vars == <<ex, l, conns>>
\* byte streams: position q of endpoint e of connection c (the driver uses the same formula)
SByte(c, e, q) == IF q < 0 THEN 0 ELSE ((q * 7 + (IF e = "c" THEN 3 ELSE 11) + Len(c) * 0) % 250) + 1
F == INSTANCE FollowerAbs WITH ByteOf <- SByte
Init == \E s \in Starts : TraceInit(s) /\ conns = <<>>

Pkt == /\ IsEvent("pkt")
       /\ LET j == F!Judge(conns, [attach |-> Cfg.attach, keepAlive |-> Cfg.keepAlive, maxChunks |-> Cfg.maxChunks, maxBytes |-> Cfg.maxBytes, ignore |-> Cfg.ignore, termcb |-> Cfg.termcb], Ev) IN
          /\ j.ok = TRUE
          /\ conns' = j.next
Next == Pkt
Spec == Init /\ [][Next]_vars
=============================================================================
