------------------------------ MODULE FollowerKey ------------------------------
(* Design check for the connection table's key (Tins::TCPIP::StreamIdentifier): the key of a packet must
   identify the UNORDERED pair of endpoints (family, address, port) -- both directions of a connection map to one
   key, and different connections map to different keys (C07: "routes every segment to the connection ...
   identified by its address/port 4-tuple", "over IPv4 or IPv6").
   Mirrors the code: addresses are stored as 16 bytes (IPv4 in the IPv4-mapped form after the repair of F15),
   the pair is ordered by (address, then port when the addresses are equal), the PORT SWAPS WITH ITS ADDRESS.
     Variant "code"       as repaired
     Variant "zero_pad"   IPv4 zero-padded to 16 bytes: 1.2.3.4 = 0102:0304:: (defect F15)      -- refuted
     Variant "sort_each"  addresses and ports sorted independently of each other               -- refuted *)
EXTENDS Naturals, Integers, Sequences, FiniteSets, TLC
CONSTANT Variant
Fam == {4, 6}   Addr == 0..2   Port == 0..1
Endpoint == [fam : Fam, addr : Addr, port : Port]
\* the 16-byte form as a comparable number: model address a of family 4 as a, of family 6 as a too when zero-padded
Wide(e) == IF Variant = "zero_pad" THEN e.addr ELSE (IF e.fam = 4 THEN 100 + e.addr ELSE e.addr)
Key(src, dst) ==
    LET a == Wide(src)  b == Wide(dst) IN
    IF Variant = "sort_each"
    THEN <<IF a < b THEN a ELSE b, IF a < b THEN b ELSE a, IF src.port < dst.port THEN src.port ELSE dst.port, IF src.port < dst.port THEN dst.port ELSE src.port>>
    ELSE IF a > b THEN <<b, a, dst.port, src.port>>
         ELSE IF a = b /\ src.port > dst.port THEN <<a, b, dst.port, src.port>>
         ELSE <<a, b, src.port, dst.port>>
\* packets only connect endpoints of one family
Pairs == {p \in Endpoint \X Endpoint : p[1].fam = p[2].fam /\ p[1] # p[2]}
KeyOK == \A p, q \in Pairs : (Key(p[1], p[2]) = Key(q[1], q[2])) <=> ({p[1], p[2]} = {q[1], q[2]})
ASSUME KeyOK
VARIABLE x
Spec == x = 0 /\ [][UNCHANGED x]_x
=============================================================================
