-------------------------------- MODULE Stack2 --------------------------------
(* The TLA+ dissector, second part: every link / shim / network / security / control layer libtins derives a field
   for (C05), entered from any capture entry point.  Written from the standards, not from libtins' structs:
     Ethernet II + IEEE 802.1Q/802.1ad, IEEE 802.3 length + 802.2 LLC (+SNAP, RFC 1042), Linux cooked (SLL, LINKTYPE 113),
     BSD loopback (LINKTYPE_NULL), RadioTap (radiotap.org) + IEEE 802.11 data frames, MPLS (RFC 3032), PPPoE (RFC 2516),
     EAPOL (IEEE 802.1X), ARP (RFC 826), IPv4 (RFC 791), IPv6 + extension headers incl. Fragment (RFC 8200), AH (RFC 4302),
     ESP (RFC 4303), TCP, UDP, ICMP + RFC 4884 length / extension structure, ICMPv6 (RFC 4443 + RFC 4884).

   Walk(bs, k, o, lim, ctx, fuel) reads the layer of kind k at offset o (the enclosing region ends at lim) and follows
   the packet's OWN tags for at most `fuel` layers (the number of layers the builder knows: what lies beyond is opaque
   payload and is not interpreted).  It returns the layers found - each with `ok`: every derived field of that layer is right -
   and `end`: where the data governed by length fields ends (what follows in an Ethernet frame must be zero padding).

   Clauses of C05 and where they are checked:
     "every length field equals the number of bytes it governs"            ip4.tot, ip6.plen, udp.len, dot3.len, pppoe.len,
                                                                           eapol.len, ah.len, icmp/icmp6 RFC 4884 length
     "every header-length/offset field points at the true end of its header"   ip4.ihl, tcp.doff, radiotap it_len, ah.len, ext hdr len
     "every next-protocol tag ... names the layer that actually follows"    the kinds found by following the tags are compared
                                                                           with the builder's layer list (CatTrace)
       "802.2 SAPs"  LLC 42/42 <-> STP, AA/AA/03 <-> SNAP;  "loopback family";  "PPPoE/MPLS markers": EtherType 8863 <-> code # 0,
       8864 <-> code = 0; bottom-of-stack bit set exactly on the last label
     "Ethernet frames are zero-padded to the 60-byte minimum"               PadOK
     "Every checksum libtins fills in ... verifies"                         IPv4 header, TCP/UDP/ICMPv6 (pseudo-header), ICMP,
                                                                           ICMP extension structure, RadioTap FCS (CRC-32) *)
EXTENDS Stack, Bitwise

\* ---- CRC-32 (IEEE 802.3, reflected, polynomial EDB88320) on 16-bit halves: TLC integers are 32-bit signed ----
CrcStep(c) ==      \* c = <<hi, lo>>: one shift of the reflected algorithm
    LET lsb == c[2] % 2
        hi == c[1] \div 2
        lo == (c[2] \div 2) + (c[1] % 2) * 32768
    IN IF lsb = 1 THEN << hi ^^ 60856, lo ^^ 33568 >> ELSE << hi, lo >>      \* EDB8 / 8320
CrcByte(c, b) == LET x == << c[1], c[2] ^^ b >> IN CrcStep(CrcStep(CrcStep(CrcStep(CrcStep(CrcStep(CrcStep(CrcStep(x))))))))
Crc32(bs) == LET r == FoldLeft(CrcByte, << 65535, 65535 >>, bs) IN << 65535 - r[1], 65535 - r[2] >>      \* <<high half, low half>>

EtherMPLS == 34887  EtherPPPoED == 34915  EtherPPPoES == 34916  EtherEAPOL == 34958
NextOfEther(t) == CASE t = EtherIP4 -> "ip4" [] t = EtherIP6 -> "ip6" [] t \in {EtherVlan, EtherQinQ} -> "vlan" [] t = EtherARP -> "arp"
                    [] t = EtherMPLS -> "mpls" [] t \in {EtherPPPoED, EtherPPPoES} -> "pppoe" [] t = EtherEAPOL -> "eapol" [] OTHER -> "raw"
NextOfProto(p) == CASE p = 1 -> "icmp" [] p = 6 -> "tcp" [] p = 17 -> "udp" [] p = 4 -> "ip4" [] p = 41 -> "ip6" [] p = 50 -> "esp"
                    [] p = 51 -> "ah" [] p = 58 -> "icmp6" [] OTHER -> "raw"
Ctx0 == [pseudo |-> 0, frag |-> FALSE, ether |-> 0, v6 |-> FALSE, direct |-> TRUE]      \* direct: the transport layer sits directly inside IPv4/IPv6
Nothing(lim) == [layers |-> <<>>, end |-> lim]
Bad(k, o, lim) == [layers |-> << [k |-> k, off |-> o, hlen |-> 0, ok |-> FALSE] >>, end |-> lim]      \* header does not fit

\* ---- ICMP error messages, RFC 4884 ----
\* unit: 4 octets (ICMPv4, length in the 6th octet) / 8 octets (ICMPv6, length in the 5th octet)
Rfc4884OK(bs, o, l4len, lenOctet, unit) ==
    LET L == B(bs, o + lenOctet) * unit IN
    \/ L = 0                                                          \* no length attribute: the rest is the original datagram
    \/ /\ 8 + L <= l4len                                              \* the original-datagram field lies inside the message
       /\ (8 + L < l4len =>                                           \* ... and what follows it is an extension structure:
             /\ L >= 128                                              \* "at least 128 octets" when extensions are appended
             /\ 8 + L + 4 <= l4len
             /\ B(bs, o + 8 + L) \div 16 = 2                          \* version 2
             /\ ChecksumOK(Slice(bs, o + 8 + L, l4len - 8 - L), 0))   \* checksum of the extension structure

RECURSIVE Walk(_, _, _, _, _, _)
Walk(bs, k, o, lim, ctx, fuel) ==
  IF fuel = 0 \/ k = "raw" \/ o >= lim THEN Nothing(lim) ELSE
  CASE k = "eth" ->
         IF o + 14 > lim THEN Bad(k, o, lim) ELSE
         LET t == U16(bs, o + 12)
             r == Walk(bs, NextOfEther(t), o + 14, lim, [ctx EXCEPT !.ether = t], fuel - 1) IN
         [layers |-> << [k |-> k, off |-> o, hlen |-> 14, tag |-> t, ok |-> TRUE] >> \o r.layers, end |-> r.end]
    [] k = "vlan" ->
         IF o + 4 > lim THEN Bad(k, o, lim) ELSE
         LET t == U16(bs, o + 2)
             r == Walk(bs, NextOfEther(t), o + 4, lim, [ctx EXCEPT !.ether = t], fuel - 1) IN
         [layers |-> << [k |-> k, off |-> o, hlen |-> 4, tag |-> t, ok |-> TRUE] >> \o r.layers, end |-> r.end]
    [] k = "dot3" ->      \* IEEE 802.3: the length field counts the LLC PDU that follows
         IF o + 14 > lim THEN Bad(k, o, lim) ELSE
         LET len == U16(bs, o + 12)
             r == Walk(bs, "llc", o + 14, IF o + 14 + len <= lim THEN o + 14 + len ELSE lim, ctx, fuel - 1) IN
         [layers |-> << [k |-> k, off |-> o, hlen |-> 14, len |-> len, ok |-> len <= 1500 /\ o + 14 + len <= lim] >> \o r.layers,
          end |-> o + 14 + len]
    [] k = "llc" ->       \* IEEE 802.2; AA/AA/03 announces SNAP (RFC 1042), 42/42 the spanning tree protocol
         IF o + 3 > lim THEN Bad(k, o, lim) ELSE
         LET dsap == B(bs, o)  ssap == B(bs, o + 1)  c == B(bs, o + 2)
             clen == IF c % 4 = 3 THEN 1 ELSE 2 IN
         IF dsap = 170 /\ ssap = 170 /\ c = 3 THEN Walk(bs, "snap", o, lim, ctx, fuel)
         ELSE LET nxt == IF dsap = 66 /\ ssap = 66 THEN "stp" ELSE "raw"
                  r == Walk(bs, nxt, o + 2 + clen, lim, ctx, fuel - 1) IN
              [layers |-> << [k |-> k, off |-> o, hlen |-> 2 + clen, dsap |-> dsap, ssap |-> ssap, ok |-> o + 2 + clen <= lim] >> \o r.layers, end |-> r.end]
    [] k = "snap" ->      \* LLC AA AA 03 + OUI + EtherType (8 octets: what libtins calls SNAP)
         IF o + 8 > lim THEN Bad(k, o, lim) ELSE
         LET t == U16(bs, o + 6)
             r == Walk(bs, NextOfEther(t), o + 8, lim, [ctx EXCEPT !.ether = t], fuel - 1) IN
         [layers |-> << [k |-> k, off |-> o, hlen |-> 8, tag |-> t, ok |-> B(bs, o) = 170 /\ B(bs, o + 1) = 170 /\ B(bs, o + 2) = 3] >> \o r.layers, end |-> r.end]
    [] k = "stp" -> [layers |-> << [k |-> k, off |-> o, hlen |-> lim - o, ok |-> TRUE] >>, end |-> lim]
    [] k = "sll" ->       \* LINKTYPE_LINUX_SLL: 16 octets, protocol in the last two
         IF o + 16 > lim THEN Bad(k, o, lim) ELSE
         LET t == U16(bs, o + 14)
             r == Walk(bs, NextOfEther(t), o + 16, lim, [ctx EXCEPT !.ether = t], fuel - 1) IN
         [layers |-> << [k |-> k, off |-> o, hlen |-> 16, tag |-> t, ok |-> TRUE] >> \o r.layers, end |-> r.end]
    [] k = "loop" ->      \* LINKTYPE_NULL: 4-octet address family in the byte order of the capturing host (little-endian here)
         IF o + 4 > lim THEN Bad(k, o, lim) ELSE
         LET fam == B(bs, o) + 256 * B(bs, o + 1)
             nxt == IF B(bs, o + 2) # 0 \/ B(bs, o + 3) # 0 THEN "raw"
                    ELSE IF fam = 2 THEN "ip4" ELSE IF fam \in {10, 24, 28, 30} THEN "ip6" ELSE IF fam = 26 THEN "llc" ELSE "raw"
             r == Walk(bs, nxt, o + 4, lim, ctx, fuel - 1) IN
         [layers |-> << [k |-> k, off |-> o, hlen |-> 4, fam |-> fam, ok |-> TRUE] >> \o r.layers, end |-> r.end]
    [] k = "mpls" ->      \* RFC 3032: the bottom-of-stack bit marks the last label; below it an IP datagram is recognised by its version
         IF o + 4 > lim THEN Bad(k, o, lim) ELSE
         LET s == B(bs, o + 2) % 2
             nxt == IF s = 0 THEN "mpls" ELSE IF o + 4 < lim /\ B(bs, o + 4) \div 16 = 4 THEN "ip4" ELSE IF o + 4 < lim /\ B(bs, o + 4) \div 16 = 6 THEN "ip6" ELSE "raw"
             r == Walk(bs, nxt, o + 4, lim, ctx, fuel - 1) IN
         [layers |-> << [k |-> k, off |-> o, hlen |-> 4, s |-> s, ok |-> TRUE] >> \o r.layers, end |-> r.end]
    [] k = "pppoe" ->     \* RFC 2516: version 1 type 1; length counts the payload; discovery (8863) has a code, session (8864) code 0
         IF o + 6 > lim THEN Bad(k, o, lim) ELSE
         LET len == U16(bs, o + 4)  code == B(bs, o + 1) IN
         [layers |-> << [k |-> k, off |-> o, hlen |-> 6, len |-> len, code |-> code,
                         ok |-> /\ B(bs, o) = 17
                                /\ o + 6 + len <= lim                                              \* the payload it announces is there
                                /\ (ctx.ether = EtherPPPoES => code = 0) /\ (ctx.ether = EtherPPPoED => code # 0)] >>,
          end |-> o + 6 + len]
    [] k = "eapol" ->     \* IEEE 802.1X: version, type, body length
         IF o + 4 > lim THEN Bad(k, o, lim) ELSE
         LET len == U16(bs, o + 2) IN
         [layers |-> << [k |-> k, off |-> o, hlen |-> 4, len |-> len, ok |-> o + 4 + len <= lim] >>, end |-> o + 4 + len]
    [] k = "arp" ->
         LET n == 8 + 2 * B(bs, o + 4) + 2 * B(bs, o + 5) IN
         IF o + 8 > lim THEN Bad(k, o, lim) ELSE
         [layers |-> << [k |-> k, off |-> o, hlen |-> n, ok |-> o + n <= lim] >>, end |-> o + n]
    [] k = "radiotap" ->  \* it_len (little-endian) is the length of the whole header; FLAGS bit 0x10: the frame ends with its FCS
         IF o + 8 > lim THEN Bad(k, o, lim) ELSE
         LET itlen == U16LE(bs, o + 2)
             RECURSIVE NWords(_)
             NWords(i) == IF o + 4 + 4 * i > lim \/ i > 8 THEN i ELSE IF B(bs, o + 4 + 4 * i - 1) >= 128 THEN NWords(i + 1) ELSE i
             nw == NWords(1)
             base == o + 4 + 4 * nw
             tsft == B(bs, o + 4) % 2 = 1
             hasFlags == (B(bs, o + 4) \div 2) % 2 = 1
             flagsOff == IF tsft THEN ((base - o + 7) \div 8) * 8 + 8 + o ELSE base
             fcs == hasFlags /\ flagsOff < o + itlen /\ flagsOff < lim /\ (B(bs, flagsOff) \div 16) % 2 = 1
             body == IF fcs THEN lim - 4 ELSE lim
             r == Walk(bs, "dot11", o + itlen, body, ctx, fuel - 1)
             crc == IF fcs /\ o + itlen <= body THEN Crc32(Slice(bs, o + itlen, body - o - itlen)) ELSE << 0, 0 >> IN
         [layers |-> << [k |-> k, off |-> o, hlen |-> itlen, fcs |-> fcs,
                         ok |-> /\ B(bs, o) = 0 /\ itlen >= 8 /\ o + itlen <= body /\ base <= o + itlen
                                /\ (fcs => /\ U16LE(bs, lim - 4) = crc[2] /\ U16LE(bs, lim - 2) = crc[1])] >> \o r.layers,      \* FCS, little-endian
          end |-> lim]
    [] k = "dot11" ->     \* only data frames carry a tagged payload (LLC/SNAP) when not protected
         IF o + 10 > lim THEN Bad(k, o, lim) ELSE
         LET type == (B(bs, o) \div 4) % 4  sub == B(bs, o) \div 16  fl == B(bs, o + 1)
             tods == fl % 2  fromds == (fl \div 2) % 2  prot == (fl \div 64) % 2
             hl == IF type = 2 THEN 24 + (IF tods = 1 /\ fromds = 1 THEN 6 ELSE 0) + (IF sub >= 8 THEN 2 ELSE 0) ELSE lim - o
             nxt == IF type = 2 /\ prot = 0 /\ (sub % 8) < 4 /\ o + hl + 8 <= lim THEN "llc" ELSE "raw"
             r == Walk(bs, nxt, o + hl, lim, ctx, fuel - 1) IN
         [layers |-> << [k |-> k, off |-> o, hlen |-> hl, ok |-> o + hl <= lim] >> \o r.layers, end |-> lim]
    [] k = "ip4" ->
         IF o + 20 > lim THEN Bad(k, o, lim) ELSE
         LET h == IP4(bs, o)
             frag == h.frag # 0 \/ h.flags % 2 = 1                      \* offset # 0 or More Fragments
             endIP == IF o + h.tot <= lim THEN o + h.tot ELSE lim
             nxt == IF h.frag # 0 THEN "raw" ELSE NextOfProto(h.tag)    \* only the first fragment starts with the upper-layer header
             r == IF h.hlen >= 20 /\ o + h.hlen <= endIP
                  THEN Walk(bs, nxt, o + h.hlen, endIP, [ctx EXCEPT !.pseudo = h.pseudo, !.frag = frag, !.v6 = FALSE, !.direct = TRUE], fuel - 1) ELSE Nothing(endIP) IN
         [layers |-> << [k |-> k, off |-> o, hlen |-> h.hlen, tag |-> h.tag, frag |-> frag,
                         ok |-> /\ B(bs, o) \div 16 = 4 /\ h.hlen >= 20 /\ h.hlen <= h.tot /\ o + h.tot <= lim
                                /\ ChecksumOK(Slice(bs, o, h.hlen), 0)] >> \o r.layers,
          end |-> o + h.tot]
    [] k = "ip6" ->
         IF o + 40 > lim THEN Bad(k, o, lim) ELSE
         LET plen == U16(bs, o + 4)
             endIP == IF o + 40 + plen <= lim THEN o + 40 + plen ELSE lim
             pseudo == Sum(Slice(bs, o + 8, 32), 0)
             r == Walk(bs, "ext", o + 40, endIP, [ctx EXCEPT !.pseudo = pseudo, !.frag = FALSE, !.v6 = TRUE, !.direct = TRUE, !.ether = B(bs, o + 6)], fuel - 1) IN
         [layers |-> << [k |-> k, off |-> o, hlen |-> 40, plen |-> plen, ok |-> B(bs, o) \div 16 = 6 /\ o + 40 + plen <= lim] >> \o r.layers,
          end |-> o + 40 + plen]
    [] k = "ext" ->       \* the IPv6 next-header chain; ctx.ether carries the pending Next Header value.  Not a layer of its own.
         LET nh == ctx.ether IN
         IF nh \in ExtHdrs THEN
              IF o + 8 > lim THEN Bad("ip6ext", o, lim) ELSE
              LET len == (B(bs, o + 1) + 1) * 8 IN
              IF o + len > lim THEN Bad("ip6ext", o, lim) ELSE Walk(bs, "ext", o + len, lim, [ctx EXCEPT !.ether = B(bs, o)], fuel)
         ELSE IF nh = 44 THEN      \* Fragment header: 8 octets, offset in the upper 13 bits of octets 2-3, M flag bit 0 of octet 3
              IF o + 8 > lim THEN Bad("ip6ext", o, lim) ELSE
              LET off == (B(bs, o + 2) * 256 + B(bs, o + 3)) \div 8  m == B(bs, o + 3) % 2 IN
              IF off # 0 THEN Nothing(lim) ELSE Walk(bs, "ext", o + 8, lim, [ctx EXCEPT !.ether = B(bs, o), !.frag = (m = 1)], fuel)
         ELSE Walk(bs, NextOfProto(nh), o, lim, ctx, fuel)
    [] k = "ah" ->        \* RFC 4302: Payload Len = length in 32-bit words minus 2; Reserved MUST be zero
         IF o + 12 > lim THEN Bad(k, o, lim) ELSE
         LET len == (B(bs, o + 1) + 2) * 4  nh == B(bs, o)
             c2 == [ctx EXCEPT !.direct = FALSE]      \* "TCP, UDP and ICMPv6 with pseudo-header when directly inside IPv4/IPv6": not below AH
             r == IF ctx.v6 THEN Walk(bs, "ext", o + len, lim, [c2 EXCEPT !.ether = nh], fuel - 1) ELSE Walk(bs, NextOfProto(nh), o + len, lim, c2, fuel - 1) IN
         [layers |-> << [k |-> k, off |-> o, hlen |-> len, tag |-> nh, ok |-> len >= 12 /\ o + len <= lim /\ U16(bs, o + 2) = 0] >> \o
                     (IF o + len <= lim THEN r.layers ELSE <<>>),
          end |-> lim]
    [] k = "esp" -> [layers |-> << [k |-> k, off |-> o, hlen |-> 8, ok |-> o + 8 <= lim] >>, end |-> lim]
    [] k = "tcp" ->
         IF o + 20 > lim THEN Bad(k, o, lim) ELSE
         LET l4 == lim - o  doff == B(bs, o + 12) \div 16 IN
         [layers |-> << [k |-> k, off |-> o, hlen |-> doff * 4,
                         ok |-> doff >= 5 /\ doff * 4 <= l4 /\ (ctx.frag \/ ~ctx.direct \/ ChecksumOK(Slice(bs, o, l4), Pseudo(ctx.pseudo, ProtoTCP, l4)))] >>, end |-> lim]
    [] k = "udp" ->
         IF o + 8 > lim THEN Bad(k, o, lim) ELSE
         LET l4 == lim - o IN
         [layers |-> << [k |-> k, off |-> o, hlen |-> 8,
                         ok |-> ctx.frag \/ (U16(bs, o + 4) = l4 /\ (~ctx.direct \/ (U16(bs, o + 6) # 0 /\ ChecksumOK(Slice(bs, o, l4), Pseudo(ctx.pseudo, ProtoUDP, l4)))))] >>, end |-> lim]
    [] k = "icmp" ->
         IF o + 8 > lim THEN Bad(k, o, lim) ELSE
         LET l4 == lim - o  type == B(bs, o) IN
         [layers |-> << [k |-> k, off |-> o, hlen |-> 8, type |-> type,
                         ok |-> ctx.frag \/ (/\ ChecksumOK(Slice(bs, o, l4), 0)
                                             /\ (type \in {3, 11, 12} => Rfc4884OK(bs, o, l4, 5, 4)))] >>, end |-> lim]
    [] k = "icmp6" ->
         IF o + 4 > lim THEN Bad(k, o, lim) ELSE
         LET l4 == lim - o  type == B(bs, o) IN
         [layers |-> << [k |-> k, off |-> o, hlen |-> 4, type |-> type,
                         ok |-> ctx.frag \/ (/\ (~ctx.direct \/ ChecksumOK(Slice(bs, o, l4), Pseudo(ctx.pseudo, ProtoICMP6, l4)))
                                             /\ (type \in {1, 3} /\ l4 >= 8 => Rfc4884OK(bs, o, l4, 4, 8)))] >>, end |-> lim]
    [] OTHER -> Nothing(lim)

Dissect2(entry, bs, n) == Walk(bs, entry, 0, Len(bs), Ctx0, n)
Kinds2(d) == [i \in 1..Len(d.layers) |-> d.layers[i].k]
AllOK2(d) == \A i \in 1..Len(d.layers) : d.layers[i].ok
NVlan(d) == Cardinality({i \in 1..Len(d.layers) : d.layers[i].k = "vlan"})
\* "Ethernet frames are zero-padded to the 60-byte minimum" (entry point Ethernet II only): whatever follows the governed
\* data is zero padding, and there is only as much of it as the minimum requires (a tagged frame may be padded to 60 or 64)
PadOK2(entry, bs, d) ==
    entry = "eth" => /\ Len(bs) >= 60
                     /\ d.end <= Len(bs) /\ AllZero(bs, d.end, Len(bs))
                     /\ (Len(bs) > d.end => Len(bs) <= 60 + 4 * NVlan(d))
=============================================================================
