------------------------------- MODULE WireGen -------------------------------
(* Generator of packet SHAPES for the wire-format checks (C02, C04, C05; inputs of C03): every combination of link
   layer (plain / one 802.1Q tag / 802.1ad + 802.1Q), network layer with an option or extension-header shape chosen
   to hit every padding class, transport layer with an option shape, and a payload class (empty, one byte, odd,
   even, all-ones / all-zero / carry-heavy words for the one's-complement corner cases, near-MTU, near 64 KiB).
   Field VALUES are concretised by the driver (seeded, boundary-biased) and logged. *)
EXTENDS Naturals, Sequences, TLC, Json
Links == {"eth", "vlan", "qinq"}
IP4Opts == {"none", "nop", "rr", "sec", "nopnop_ts", "odd", "max"}
Exts == {"none", "hbh", "dst", "hbh_dst", "rt", "hbh_rt_dst", "hbh7", "dst3", "dst15_hbh", "hbh7_dst3", "hbh1_dst1_dst9"}
TCPOpts == {"none", "mss", "mss_ws", "ts", "sack", "typical", "nop_raw", "empty_opt"}
Pays == {"empty", "one", "odd", "even", "ones", "zeros", "carry", "cksum0", "big", "huge"}
Shapes == {[link |-> l, net |-> "ip4", ip4opts |-> o, ext |-> "none", tr |-> t, tcpopts |-> (IF t = "tcp" THEN to ELSE "none"), pay |-> p] :
              l \in Links, o \in IP4Opts, t \in {"tcp", "udp", "icmp"}, to \in TCPOpts, p \in Pays}
          \cup {[link |-> l, net |-> "ip6", ip4opts |-> "none", ext |-> x, tr |-> t, tcpopts |-> (IF t = "tcp" THEN to ELSE "none"), pay |-> p] :
              l \in Links, x \in Exts, t \in {"tcp", "udp", "icmp6"}, to \in TCPOpts, p \in Pays}
VARIABLE s
Init == s \in Shapes
Next == UNCHANGED s
Spec == Init /\ [][Next]_s
Emit == PrintT("SCN " \o ToJson(s))
=============================================================================
