------------------------------ MODULE RoundTrip ------------------------------
(* Property C03 -- parse / serialize / parse.   b accepted by entry point E, p = E(b), y = serialize(p), q = E(y),
   y2 = serialize(q).  Required:
     (1) "yields the same stack of layers"                              kinds and header sizes of p and q agree
     (2) "with the same field values, options (order, codes and bytes)"  every header byte of every layer is the same in
         b and in y, EXCEPT the bytes of "fields libtins derives itself (lengths, checksums, alignment padding, and
         next-protocol tags when a recognised payload follows)" -- Derived below, per layer class, transcribed from
         the RFCs.  "a next-protocol tag need only survive when a payload follows it": a tag is exempt when the next
         layer is recognised (not RAW) or when nothing follows; when an UNKNOWN payload follows it must survive.
     (3) "and payload bytes"                                             the innermost RAW layer is byte-identical
     (4) "Serializing that second packet reproduces the first serialization byte for byte whenever the innermost
          payload is non-empty"                                          pay_nonempty => y2 = y
   "an empty payload counts as no payload": a trailing empty RAW layer is dropped before comparing stacks.
   Layer classes without an entry in Known are compared for (1), (3), (4) only (their header bytes are not judged,
   never reported as passing: the trace spec counts them). *)
EXTENDS Bytes, TLC
Known == {"ETHERNET_II", "DOT1Q", "DOT1AD", "IP", "IPv6", "TCP", "UDP", "ICMP", "ICMPv6", "SNAP", "SLL", "LOOPBACK", "IPSEC_AH",
          "IPSEC_ESP", "PPPOE", "IEEE802_3", "LLC", "MPLS", "RADIOTAP", "RSNEAPOL", "RC4EAPOL", "ARP", "DNS", "BOOTP", "DHCP",
          "DHCPv6", "STP", "RTP", "VXLAN", "RAW"}
TagBytes(kind) == CASE kind = "ETHERNET_II" -> {12, 13} [] kind \in {"DOT1Q", "DOT1AD"} -> {2, 3} [] kind = "IP" -> {9}
                    [] kind = "IPv6" -> {6} [] kind = "SNAP" -> {6, 7} [] kind = "SLL" -> {14, 15} [] kind = "LOOPBACK" -> {0, 1, 2, 3}
                    [] kind = "IPSEC_AH" -> {0} [] OTHER -> {}
\* lengths, checksums: always derived
AlwaysDerived(kind) == CASE kind = "IP" -> {2, 3, 10, 11} [] kind = "IPv6" -> {4, 5} [] kind = "TCP" -> {16, 17}
                         [] kind = "UDP" -> {4, 5, 6, 7} [] kind = "ICMP" -> {2, 3} [] kind = "ICMPv6" -> {2, 3}
                         [] kind = "IPSEC_AH" -> {1} [] kind = "PPPOE" -> {4, 5} [] kind = "IEEE802_3" -> {12, 13}
                         [] kind \in {"RADIOTAP", "RSNEAPOL", "RC4EAPOL"} -> {2, 3} [] OTHER -> {}
\* positions (relative to the IPv6 header) of the next-header bytes inside the extension-header chain
RECURSIVE ExtTagPos(_, _, _, _, _)
ExtTagPos(bs, base, rel, hlen, fuel) == IF rel + 2 > hlen \/ fuel = 0 THEN {} ELSE {rel} \cup ExtTagPos(bs, base, rel + (B(bs, base + rel + 1) + 1) * 8, hlen, fuel - 1)
\* In an IPv6 header with extension headers the next-header bytes along the chain are the CODES of the extension
\* headers that follow them ("options (order, codes and bytes)") and must survive; only the LAST one is the tag that
\* names the upper layer.
MaxOf(S) == CHOOSE x \in S : \A y \in S : y <= x
\* the RFC 4884 length attribute is a derived length only in the messages that have one: ICMP Destination Unreachable (3), Time
\* Exceeded (11), Parameter Problem (12) - 6th octet; ICMPv6 Destination Unreachable (1), Time Exceeded (3) - 5th octet.  In every
\* other message those octets belong to fields of their own (echo identifier, Parameter Problem pointer, ...)
Rfc4884Len(bs, base, kind) == IF kind = "ICMP" /\ B(bs, base) \in {3, 11, 12} THEN {5}
                              ELSE IF kind = "ICMPv6" /\ B(bs, base) \in {1, 3} THEN {4} ELSE {}
Derived(bs, base, kind, hlen, nextKind) ==
    AlwaysDerived(kind) \cup Rfc4884Len(bs, base, kind)
    \cup (IF nextKind = "RAW" THEN {}
          ELSE IF kind = "IPv6" /\ hlen > 40 THEN {MaxOf(ExtTagPos(bs, base, 40, hlen, 10) \cup {6})}
          ELSE TagBytes(kind))
\* the MPLS bottom-of-stack bit (bit 0 of byte 2) is derived from what follows
ByteEq(kind, j, x, y) == IF kind = "MPLS" /\ j = 2 THEN x \div 2 = y \div 2 ELSE x = y

Norm(ls) == IF Len(ls) > 0 /\ ls[Len(ls)][1] = "RAW" /\ ls[Len(ls)][2] = 0 THEN SubSeq(ls, 1, Len(ls) - 1) ELSE ls
Offsets(ls) == LET F[i \in 0..Len(ls)] == IF i = 0 THEN 0 ELSE F[i - 1] + ls[i][2] IN [i \in 1..Len(ls) |-> F[i - 1]]
NextKind(ls, i) == IF i < Len(ls) THEN ls[i + 1][1] ELSE "none"
\* "alignment padding ... may differ": when p had to be padded to the Ethernet minimum (a trailer on its first layer)
\* and its innermost layer is an opaque payload, the padding libtins added is indistinguishable from payload when y is
\* parsed again -- q's payload may then be p's payload followed by those zero bytes (and nothing else)
\* (the padding layer is the outermost Ethernet header, or an Ethernet frame carried inside a tunnel such as VXLAN)
Trailers(lp) == LET F[j \in 0..Len(lp)] == IF j = 0 THEN 0 ELSE F[j - 1] + lp[j][3] IN F[Len(lp)]
PaddedTail(lp, lq, i) == /\ i = Len(lp) /\ lp[i][1] = "RAW" /\ Trailers(lp) > 0
                         /\ lq[i][2] >= lp[i][2] /\ lq[i][2] - lp[i][2] <= Trailers(lp)
SameStack(lp, lq) == /\ Len(lp) = Len(lq)
                     /\ \A i \in 1..Len(lp) : lp[i][1] = lq[i][1] /\ (lp[i][2] = lq[i][2] \/ PaddedTail(lp, lq, i))
LayerPreserved(b, y, lp, lq, i) ==
    LET kind == lp[i][1]  hl == lp[i][2]  ob == Offsets(lp)[i]  oy == Offsets(lq)[i]
        mask == Derived(b, ob, kind, hl, NextKind(lp, i)) IN
    kind \in Known =>
        /\ ob + hl <= Len(b) /\ oy + lq[i][2] <= Len(y)
        /\ \A j \in 0..(hl - 1) : j \in mask \/ ByteEq(kind, j, B(b, ob + j), B(y, oy + j))
        /\ \A j \in hl..(lq[i][2] - 1) : B(y, oy + j) = 0            \* (only a padded tail can be longer: zeros)
Unjudged(lp) == {lp[i][1] : i \in 1..Len(lp)} \ Known
RoundTripOK(e) ==
    LET lp == Norm(e.lp)  lq == Norm(e.lq) IN
    /\ e.thrown = ""                                               \* "parsing the serialization ... succeeds"
    /\ SameStack(lp, lq)
    /\ \A i \in 1..Len(lp) : LayerPreserved(e.b, e.y, lp, lq, i)
    /\ (e.pay_nonempty => e.y2 = e.y)
(* For inputs that are DAMAGED packets (a single-octet lie somewhere in a packet of the independent encoder) the byte-level
   comparison of the headers is not applied: what such an input "means" field by field is not fixed by any RFC table of this
   module (e.g. octets behind an End-of-Options octet are padding).  What the property says for ANY accepted byte string still
   is: parsing the serialization succeeds, it yields the same stack of layers, and serializing again reproduces it. *)
WeakRoundTripOK(e) ==
    LET lp == Norm(e.lp)  lq == Norm(e.lq) IN
    /\ e.thrown = ""
    /\ SameStack(lp, lq)
    /\ (e.pay_nonempty => e.y2 = e.y)
=============================================================================
