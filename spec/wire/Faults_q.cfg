SPECIFICATION Spec
CONSTANT MaxLen = 160
CONSTANT MaxPos = 100
CONSTANT ChunkSize = 60
CONSTRAINT Emit
CHECK_DEADLOCK FALSE
