---------------------------- MODULE TypedOptsGen ----------------------------
(* Scenario generator for the typed-option part of C04 (table, shapes and property in TypedOpts.tla).

   A scenario is   [cls, steps |-> << [opt, shape], ... >>, rep]   : the options to set, in order, on one carrier packet
   of class cls, with the structural shape of each value (lengths of every list / string / vector node, value class
   of the leaves), concretised by the seeded replay driver harness/typed_opts.cpp.
     single   every (class, option, value class, structural shape) -- list lengths 0 / 1 / 2 / many, string and vector
              lengths including the empty and the largest representable one; value class "rnd" is repeated Reps times
     pair     every ordered pair of DIFFERENT options (different wire codes) of one class in their typical shapes,
              PairReps times: the second setter must not disturb the first
   Scenarios are exported with CONSTRAINT Emit as "SCN <json>" lines. *)
EXTENDS TypedOpts, Json
CONSTANTS Classes,     \* subset of AllClasses
          Reps,        \* repetitions of every "rnd" shape (each gets its own seed)
          PairReps     \* repetitions of every ordered pair (0 = no pairs)
VARIABLE s
Step(c, o, sh) == [opt |-> o, shape |-> sh]
RepsOf(vc) == IF vc = "rnd" THEN 1..Reps ELSE {1}
Singles == UNION {UNION {UNION {{[cls |-> c, steps |-> <<Step(c, o, sh)>>, rep |-> r] :
                                    sh \in ShapesOf(TypeOf(c, o), VCs[i]), r \in RepsOf(VCs[i])} :
                                 i \in 1..Len(VCs)} : o \in OptNames(c)} : c \in Classes}
DiffPairs(c) == {p \in OptNames(c) \X OptNames(c) : CodeOf(c, p[1]) # CodeOf(c, p[2])}
Pairs == UNION {{[cls |-> c, steps |-> <<Step(c, p[1], TypShape(TypeOf(c, p[1]))), Step(c, p[2], TypShape(TypeOf(c, p[2])))>>, rep |-> r] :
                    p \in DiffPairs(c), r \in 1..PairReps} : c \in Classes}
ASSUME Classes \subseteq AllClasses
\* every table entry yields at least one shape per value class
ASSUME \A c \in AllClasses : \A o \in OptNames(c) : \A i \in 1..Len(VCs) : ShapesOf(TypeOf(c, o), VCs[i]) # {}
Init == s \in Singles \cup Pairs
Next == UNCHANGED s
Spec == Init /\ [][Next]_s
Emit == PrintT("SCN " \o ToJson(s))
=============================================================================
