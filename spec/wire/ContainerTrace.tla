--------------------------- MODULE ContainerTrace ---------------------------
(* Trace specification over the events of harness/containers.cpp; CONSTANT Prop selects the clauses of C02
   (serialisation is total, size-exact, never overwrites the payload -- after EVERY edit) or C04 (getters and look-ups
   equal the shadow list after every edit, and the re-parsed serialisation yields the same list).
   `wired` = the driver serialised after this operation: always in the enumerated histories, only at "ser" operations in the
   lazy histories (edits between two serialisations must show up in the second one). *)
EXTENDS TraceIO, ContainerAbs
CONSTANT Prop
VARIABLE lst
vars == <<ex, l, lst>>
Init == \E s \in Starts : TraceInit(s) /\ lst = <<>>
Capacity(kind) == IF kind = "rtp" THEN 15 ELSE 1000000
Triples(s) == [i \in 1..Len(s) |-> <<s[i][1], s[i][2], s[i][3]>>]
Op == /\ IsEvent("op")
      /\ LET e == Ev
             \* a list that is full refuses a further entry with an error and stays as it was (RTP: the CSRC count is a 4-bit field)
             refused == e.op = "add" /\ Len(lst) >= Capacity(Cfg.kind)
             l2 == CASE refused -> lst
                     [] e.op = "add" /\ e.applied -> Add(lst, e.code, e.data, Len(e.data))
                     [] e.op = "addspoof" /\ e.applied -> Add(lst, e.code, e.data, e.spoof)
                     [] e.op = "remove" /\ e.applied -> Remove(lst, e.code)
                     [] OTHER -> lst IN
         /\ lst' = l2
         /\ (IF Prop = "C02"
             THEN (refused \/ e.thrown = "") /\ (e.wired => SerOK(e.ser))
             ELSE /\ (IF refused THEN e.thrown # "" ELSE e.thrown = "")
                  /\ e.listed => Triples(e.list) = l2                                              \* the list as the getters show it
                  /\ (e.op = "remove" /\ e.applied) => (e.removed = 1) = (FirstIdx(lst, e.code) # 0)  \* reports whether one existed
                  /\ e.listed => (e.found = (FirstIdx(l2, e.code) # 0))
                  /\ (e.listed /\ e.found) => <<e.fitem[1], e.fitem[2], e.fitem[3]>> = l2[FirstIdx(l2, e.code)]   \* the FIRST match
                  \* through the wire (an entry with a spoofed length cannot be expected to come back)
                  /\ (e.listed /\ e.wired /\ ~Spoofed(l2)) => (e.rt.ok /\ [i \in 1..Len(e.rt.list) |-> <<e.rt.list[i][1], e.rt.list[i][2]>>] = [i \in 1..Len(l2) |-> <<l2[i][1], l2[i][2]>>])
            ) = TRUE
Next == Op
Spec == Init /\ [][Next]_vars
=============================================================================
