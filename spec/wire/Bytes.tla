-------------------------------- MODULE Bytes --------------------------------
(* Byte-sequence helpers shared by the wire-format specifications: 0-based access, big-endian words, slices, and
   the Internet checksum (RFC 1071: one's-complement sum of 16-bit big-endian words with end-around carry; an
   odd trailing byte is padded with zero) -- written with folds, independently of libtins' arithmetic. *)
EXTENDS Naturals, Integers, Sequences, FiniteSets, SequencesExt
B(bs, o) == bs[o + 1]
U16(bs, o) == B(bs, o) * 256 + B(bs, o + 1)
U16LE(bs, o) == B(bs, o) + B(bs, o + 1) * 256
Slice(bs, o, n) == SubSeq(bs, o + 1, o + n)
Fold16(s) == IF s > 65535 THEN (s % 65536) + (s \div 65536) ELSE s
Sum(bs, acc) == FoldLeft(LAMBDA a, k : Fold16(a + B(bs, 2 * k - 2) * 256 + (IF 2 * k - 1 < Len(bs) THEN B(bs, 2 * k - 1) ELSE 0)),
                         acc, [k \in 1..((Len(bs) + 1) \div 2) |-> k])
SumWords(ws, acc) == FoldLeft(LAMBDA a, w : Fold16(a + w), acc, ws)
ChecksumOK(bs, acc) == Fold16(Sum(bs, acc)) = 65535
AllZero(bs, from, to) == \A i \in from..(to - 1) : B(bs, i) = 0      \* [from, to)
=============================================================================
