----------------------------- MODULE TypedTrace -----------------------------
(* Trace specification for the typed-option part of C04: validates executions of harness/typed_opts.cpp (typed option
   setters / getters of the real libtins classes, serialisation and re-parse) against TypedOpts!RoundTripOK.

   One execution = one scenario of TypedOptsGen (one or two options set on one carrier packet); Reset record: cls, carrier,
   nsteps.  One event per option that was set:
       {"e":"opt", "cls", "opt", "idx", "val", "set_thrown", "got", "later", "ser_thrown", "size", "back"}
   val = the value handed to the setter; got / later / back = readings [ok, thrown, v] of the typed getter right after the
   setter / after all later setters of the scenario / on the packet parsed from the serialisation.

   Sentences of C04 and the clauses that carry them (a rejected event prints <<"FAIL", line, {clauses}>>, which
   tools/families/typed.py turns into the kind of the finding):
     "typed option setters with any representable argument" -- the scenario only offers representable arguments
          (TypedOpts, head comment), so a setter that throws ................................................ setter_threw
     "getters and option look-ups reflect exactly the accumulated edits" .............. getter_threw, getter_mismatch
     the same after a LATER edit of a DIFFERENT option ("accumulated edits", "first matching option") ....... disturbed
     "Parsing the packet's serialization with libtins yields the same ... options (same order and bytes) ..., so every
      typed option encoder and its decoder are mutual inverses through the wire" .......... wire_threw, wire_mismatch
   The logged value must have the structure the table gives for (cls, opt) (WellTyped): that binds the driver to the
   table; a driver that logs anything else is rejected as "driver_value_not_in_table". *)
EXTENDS TraceIO, TypedOpts
VARIABLE seen       \* number of option events consumed (events arrive in the order the options were set)
vars == <<ex, l, seen>>
Init == \E s \in Starts : TraceInit(s) /\ seen = 0

Clauses == {"driver_value_not_in_table", "setter_threw", "getter_threw", "getter_mismatch", "disturbed", "wire_threw", "wire_mismatch"}
Holds(c, e) ==
  CASE c = "driver_value_not_in_table" -> Known(e.cls, e.opt) /\ e.cls = Cfg.cls /\ e.idx = seen + 1 /\ WellTyped(e.val, TypeOf(e.cls, e.opt))
    [] c = "setter_threw"    -> e.set_thrown = ""
    [] c = "getter_threw"    -> e.got.ok
    [] c = "getter_mismatch" -> e.got.ok => Same(e.cls, e.opt, e.val, e.got.v)
    [] c = "disturbed"       -> (e.got.ok /\ Same(e.cls, e.opt, e.val, e.got.v)) => Reads(e.cls, e.opt, e.val, e.later)
    [] c = "wire_threw"      -> e.back.ok
    [] c = "wire_mismatch"   -> e.back.ok => Same(e.cls, e.opt, e.val, e.back.v)
Report(bad) == bad = {} \/ (PrintT(<<"FAIL", l, bad>>) /\ FALSE)
OptEv == /\ IsEvent("opt")
         /\ seen' = seen + 1
         /\ LET e == Ev
                bad == IF ~Holds("driver_value_not_in_table", e) THEN {"driver_value_not_in_table"}
                       ELSE {c \in Clauses : ~Holds(c, e)} IN
            /\ Report(bad)
            \* the verdict is exactly the property-level predicate (the clauses above only name what failed)
            /\ (bad = {}) = (e.set_thrown = "" /\ RoundTripOK(e.cls, e.opt, e.val, e.got, e.back) /\ Reads(e.cls, e.opt, e.val, e.later))
Next == OptEv
Spec == Init /\ [][Next]_vars
=============================================================================
