SPECIFICATION Spec
CONSTANT NCat = 52
CONSTANT MaxLayer = 5
CONSTRAINT Emit
CHECK_DEADLOCK FALSE
