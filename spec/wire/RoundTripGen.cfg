SPECIFICATION Spec
CONSTANT NCat = 55
CONSTANT MaxLayer = 5
CONSTRAINT Emit
CHECK_DEADLOCK FALSE
