------------------------------ MODULE Containers ------------------------------
(* Wire sizes of option / extension containers, from the RFCs (C02: "size() being the sum of all layers' header and
   trailer sizes"; C04: options come back in order with the same codes and bytes).
     IPv4 options (RFC 791 3.1): End (0) and No-Op (1) are single octets, every other option is type, length, data
       with length = 2 + |data|; the header is padded to a multiple of 4 octets.
     TCP options (RFC 9293 3.1): kinds 0 and 1 single octets, others kind, length, data; padded to a multiple of 4.
     IPv6 extension headers (RFC 8200 4): next header, hdr ext len, data; each a multiple of 8 octets. *)
EXTENDS Naturals, Integers, Sequences
Pad(n, al) == LET e == n % al IN IF e = 0 THEN 0 ELSE al - e
SumF(F(_), s) == LET G[i \in 0..Len(s)] == IF i = 0 THEN 0 ELSE G[i - 1] + F(s[i]) IN G[Len(s)]
\* an option is <<kind, data>>
Single(kind) == kind % 32 \in {0, 1} /\ kind \in {0, 1}
IP4OptSize(o) == IF o[1] \in {0, 1} THEN 1 ELSE 2 + Len(o[2])
TCPOptSize(o) == IF o[1] \in {0, 1} THEN 1 ELSE 2 + Len(o[2])
IP4HeaderSize(opts) == LET n == SumF(IP4OptSize, opts) IN 20 + n + Pad(n, 4)
TCPHeaderSize(opts) == LET n == SumF(TCPOptSize, opts) IN 20 + n + Pad(n, 4)
ExtSize(h) == LET n == 2 + Len(h[2]) IN n + Pad(n, 8)
IP6HeaderSize(ext) == 40 + SumF(ExtSize, ext)
\* the option list encoded in a header's option area (padding = trailing End-of-list octets): parse TLVs
RECURSIVE ParseOpts(_, _, _)
ParseOpts(bs, i, fuel) ==        \* bs: the option area, i: 1-based index
    IF i > Len(bs) \/ fuel = 0 THEN <<>>
    ELSE IF bs[i] = 0 THEN <<>>                                       \* End of option list: the rest is padding
    ELSE IF bs[i] = 1 THEN <<<<1, <<>>>>>> \o ParseOpts(bs, i + 1, fuel - 1)
    ELSE IF i + 1 > Len(bs) \/ bs[i + 1] < 2 \/ i + bs[i + 1] - 1 > Len(bs) THEN <<<<-1, <<>>>>>>       \* malformed
    ELSE <<<<bs[i], SubSeq(bs, i + 2, i + bs[i + 1] - 1)>>>> \o ParseOpts(bs, i + bs[i + 1], fuel - 1)
\* the list a user built, as it must appear: everything up to an explicit End-of-list
RECURSIVE UpToEnd(_)
UpToEnd(opts) == IF opts = <<>> \/ Head(opts)[1] = 0 THEN <<>> ELSE <<Head(opts)>> \o UpToEnd(Tail(opts))
=============================================================================
