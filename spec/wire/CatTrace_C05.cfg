SPECIFICATION Spec
CONSTANT Prop = "C05"
CONSTRAINT Mark
POSTCONDITION AllAccepted
CHECK_DEADLOCK FALSE
