-------------------------------- MODULE Stack --------------------------------
(* The TLA+ dissector: an independent reading of serialized packets (Ethernet II, 802.1Q / 802.1ad tags, IPv4 with
   options, IPv6 with its extension-header chain, TCP with options, UDP, ICMP, ICMPv6), written from the RFCs
   (791, 8200, 793/9293, 768, 792, 4443, IEEE 802.1Q) -- not from libtins' structs.

   Dissect(bs) walks the bytes by their own tags and returns the sequence of layers it finds, each with its offset,
   header length, the fields read, and `ok`: every DERIVED field of that layer is right (C05):
     - "every length field equals the number of bytes it governs"                 tot / plen / udp length / doff / ihl
     - "every header-length/offset field points at the true end of its header"
     - "every next-protocol tag names the layer that actually follows"            (checked against the builder's description)
     - "Ethernet frames are zero-padded to the 60-byte minimum"
     - "Every checksum libtins fills in ... verifies under the standard algorithm"  IPv4 header, TCP/UDP/ICMPv6 with
       pseudo-header, ICMP; "UDP checksum never 0 on the wire" (RFC 768: 0 means 'no checksum') *)
EXTENDS Bytes, TLC

EtherIP4 == 2048  EtherIP6 == 34525  EtherVlan == 33024  EtherQinQ == 34984  EtherARP == 2054
ProtoICMP == 1  ProtoTCP == 6  ProtoUDP == 17  ProtoICMP6 == 58
ExtHdrs == {0, 43, 60}        \* hop-by-hop, routing, destination options (generic TLV-length extension headers)

\* ---- link layer ----
Eth(bs) == [k |-> "eth", off |-> 0, hlen |-> 14, dst |-> Slice(bs, 0, 6), src |-> Slice(bs, 6, 6), tag |-> U16(bs, 12),
            ok |-> Len(bs) >= 60]                                    \* minimum frame size (without FCS)
Vlan(bs, o) == [k |-> "vlan", off |-> o, hlen |-> 4, pcp |-> B(bs, o) \div 32, dei |-> (B(bs, o) \div 16) % 2,
                vid |-> (B(bs, o) % 16) * 256 + B(bs, o + 1), tag |-> U16(bs, o + 2), ok |-> TRUE]

\* ---- IPv4 ----
IP4(bs, o) ==
    LET ihl == B(bs, o) % 16  tot == U16(bs, o + 2)  hl == ihl * 4 IN
    [k |-> "ip4", off |-> o, hlen |-> hl, tot |-> tot, tos |-> B(bs, o + 1), id |-> U16(bs, o + 4),
     flags |-> B(bs, o + 6) \div 32, frag |-> (B(bs, o + 6) % 32) * 256 + B(bs, o + 7),
     ttl |-> B(bs, o + 8), tag |-> B(bs, o + 9), src |-> Slice(bs, o + 12, 4), dst |-> Slice(bs, o + 16, 4),
     opts |-> IF hl > 20 /\ o + hl <= Len(bs) THEN Slice(bs, o + 20, hl - 20) ELSE <<>>,
     pseudo |-> Sum(Slice(bs, o + 12, 8), 0),
     ok |-> /\ B(bs, o) \div 16 = 4 /\ ihl >= 5 /\ hl <= tot /\ o + tot <= Len(bs)
            /\ ChecksumOK(Slice(bs, o, hl), 0)]                      \* header checksum (RFC 791)

\* ---- IPv6 and its extension-header chain ----
RECURSIVE ExtChain(_, _, _, _)
\* returns [hdrs |-> <<[nh, off, len]...>>, tag |-> final next header, end |-> offset after the chain, ok]
ExtChain(bs, o, nh, fuel) ==
    IF nh \notin ExtHdrs \/ fuel = 0 THEN [hdrs |-> <<>>, tag |-> nh, end |-> o, ok |-> fuel > 0]
    ELSE IF o + 8 > Len(bs) THEN [hdrs |-> <<>>, tag |-> nh, end |-> o, ok |-> FALSE]
    ELSE LET len == (B(bs, o + 1) + 1) * 8                           \* Hdr Ext Len counts 8-octet units beyond the first
             r == ExtChain(bs, o + len, B(bs, o), fuel - 1)
         IN [hdrs |-> <<[nh |-> nh, off |-> o, len |-> len, data |-> IF o + len <= Len(bs) THEN Slice(bs, o + 2, len - 2) ELSE <<>>]>> \o r.hdrs,
             tag |-> r.tag, end |-> r.end, ok |-> r.ok /\ o + len <= Len(bs)]
IP6(bs, o) ==
    LET plen == U16(bs, o + 4)
        ch == ExtChain(bs, o + 40, B(bs, o + 6), 8) IN
    [k |-> "ip6", off |-> o, hlen |-> ch.end - o, plen |-> plen, tc |-> (B(bs, o) % 16) * 16 + B(bs, o + 1) \div 16,
     flow |-> <<B(bs, o + 1) % 16, B(bs, o + 2), B(bs, o + 3)>>, hop |-> B(bs, o + 7), nh0 |-> B(bs, o + 6),
     src |-> Slice(bs, o + 8, 16), dst |-> Slice(bs, o + 24, 16), ext |-> ch.hdrs, tag |-> ch.tag,
     pseudo |-> Sum(Slice(bs, o + 8, 32), 0),
     ok |-> B(bs, o) \div 16 = 6 /\ ch.ok /\ o + 40 + plen <= Len(bs) /\ ch.end <= o + 40 + plen]

\* ---- transport; l4len = number of bytes from the transport header to the end of the datagram ----
Pseudo(ipPseudo, proto, l4len) == Fold16(Fold16(ipPseudo + proto) + Fold16((l4len \div 65536) + (l4len % 65536)))
TCPh(bs, o, l4len, ipPseudo) ==
    LET doff == B(bs, o + 12) \div 16  hl == doff * 4 IN
    [k |-> "tcp", off |-> o, hlen |-> hl, sport |-> U16(bs, o), dport |-> U16(bs, o + 2),
     seq |-> Slice(bs, o + 4, 4), ack |-> Slice(bs, o + 8, 4), flags |-> (B(bs, o + 12) % 2) * 256 + B(bs, o + 13),
     win |-> U16(bs, o + 14), urg |-> U16(bs, o + 18),
     opts |-> IF hl > 20 /\ hl <= l4len THEN Slice(bs, o + 20, hl - 20) ELSE <<>>,
     ok |-> doff >= 5 /\ hl <= l4len /\ ChecksumOK(Slice(bs, o, l4len), Pseudo(ipPseudo, ProtoTCP, l4len))]
UDPh(bs, o, l4len, ipPseudo) ==
    [k |-> "udp", off |-> o, hlen |-> 8, sport |-> U16(bs, o), dport |-> U16(bs, o + 2), len |-> U16(bs, o + 4),
     ok |-> U16(bs, o + 4) = l4len                                    \* "every length field equals the bytes it governs"
            /\ U16(bs, o + 6) # 0                                      \* a transmitted checksum is never 0 (RFC 768)
            /\ ChecksumOK(Slice(bs, o, l4len), Pseudo(ipPseudo, ProtoUDP, l4len))]
ICMPh(bs, o, l4len) ==
    [k |-> "icmp", off |-> o, hlen |-> 8, type |-> B(bs, o), code |-> B(bs, o + 1), id |-> U16(bs, o + 4), seqn |-> U16(bs, o + 6),
     ok |-> l4len >= 8 /\ ChecksumOK(Slice(bs, o, l4len), 0)]          \* RFC 792: checksum over the ICMP message
ICMP6h(bs, o, l4len, ipPseudo) ==
    [k |-> "icmp6", off |-> o, hlen |-> 8, type |-> B(bs, o), code |-> B(bs, o + 1), id |-> U16(bs, o + 4), seqn |-> U16(bs, o + 6),
     ok |-> l4len >= 4 /\ ChecksumOK(Slice(bs, o, l4len), Pseudo(ipPseudo, ProtoICMP6, l4len))]   \* RFC 4443 2.3

\* ---- the walk ----
Dissect(bs) ==
    LET e == Eth(bs)
        v1 == IF e.tag \in {EtherVlan, EtherQinQ} THEN <<Vlan(bs, 14)>> ELSE <<>>
        v2 == IF v1 # <<>> /\ v1[1].tag = EtherVlan /\ e.tag = EtherQinQ THEN <<Vlan(bs, 18)>> ELSE <<>>
        tags == v1 \o v2
        o3 == 14 + 4 * Len(tags)
        et == IF tags = <<>> THEN e.tag ELSE tags[Len(tags)].tag
        net == IF et = EtherIP4 THEN <<IP4(bs, o3)>> ELSE IF et = EtherIP6 THEN <<IP6(bs, o3)>> ELSE <<>>
        n == IF net = <<>> THEN [tag |-> -1, hlen |-> 0, pseudo |-> 0, ok |-> FALSE] ELSE net[1]
        o4 == o3 + n.hlen
        endIP == IF net = <<>> THEN o3 ELSE IF n.k = "ip4" THEN o3 + n.tot ELSE o3 + 40 + n.plen
        l4len == endIP - o4
        tr == IF net = <<>> \/ ~n.ok THEN <<>>
              ELSE IF n.tag = ProtoTCP /\ l4len >= 20 THEN <<TCPh(bs, o4, l4len, n.pseudo)>>
              ELSE IF n.tag = ProtoUDP /\ l4len >= 8 THEN <<UDPh(bs, o4, l4len, n.pseudo)>>
              ELSE IF n.tag = ProtoICMP /\ n.k = "ip4" /\ l4len >= 8 THEN <<ICMPh(bs, o4, l4len)>>
              ELSE IF n.tag = ProtoICMP6 /\ n.k = "ip6" /\ l4len >= 8 THEN <<ICMP6h(bs, o4, l4len, n.pseudo)>>
              ELSE <<>>
        oP == IF tr = <<>> THEN o4 ELSE o4 + tr[1].hlen
    IN [layers |-> <<e>> \o tags \o net \o tr,
        payload |-> IF oP <= endIP /\ endIP <= Len(bs) THEN Slice(bs, oP, endIP - oP) ELSE <<>>,
        endIP |-> endIP,
        \* "Ethernet frames are zero-padded to the 60-byte minimum": whatever follows the datagram is zero padding, and
        \* there is only as much of it as the minimum requires (a tagged frame may be padded to 60 or to 64)
        padOK |-> /\ endIP <= Len(bs) /\ AllZero(bs, endIP, Len(bs))
                  /\ (Len(bs) > endIP => Len(bs) <= 60 + 4 * Len(tags))]
Kinds(d) == [i \in 1..Len(d.layers) |-> d.layers[i].k]
AllOK(d) == (\A i \in 1..Len(d.layers) : d.layers[i].ok) /\ d.padOK
Layer(d, kind) == LET idx == {i \in 1..Len(d.layers) : d.layers[i].k = kind} IN d.layers[CHOOSE i \in idx : \A j \in idx : i <= j]
=============================================================================
