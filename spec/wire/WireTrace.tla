------------------------------ MODULE WireTrace ------------------------------
(* Trace specification for the wire-format properties; CONSTANT Prop selects which property's clauses are applied
   to each recorded packet (harness/wire_pkt.cpp), so that a violation is attributed to the right property.

   C05  derived fields are right for an independent dissector (Stack!AllOK, layer kinds and the IPv6 next-header
        chain name what the builder put there) and libpcap's filter predicates see the values that were set
   C04  what was set through the API is what the getters return, what the TLA+ dissector reads off the bytes, and
        what libtins itself reads after parsing its own serialization (layers, fields, option lists, payload)
   C02  serialization succeeds, |bytes| = size() = sum of header and trailer sizes, container sizes follow the
        RFC formulas, and no layer wrote into the bytes of its inner layers (region monitor) *)
EXTENDS TraceIO, Stack, Containers
CONSTANT Prop
VARIABLE dummy
vars == <<ex, l, dummy>>
Init == \E s \in Starts : TraceInit(s) /\ dummy = 0

NTags(sh) == IF sh.link = "vlan" THEN 1 ELSE IF sh.link = "qinq" THEN 2 ELSE 0
ExpectedKinds(sh) == <<"eth">> \o [i \in 1..NTags(sh) |-> "vlan"] \o <<sh.net>> \o <<sh.tr>>
Pairs(s) == [i \in 1..Len(s) |-> <<s[i][1], s[i][2]>>]
ValsEq(a, b) == a = b

C05OK(e, d) ==
    /\ e.thrown = "" /\ Len(e.bytes) > 0
    /\ Kinds(d) = ExpectedKinds(e.shape)                                  \* every tag names the layer that follows
    /\ AllOK(d)                                                            \* lengths, offsets, checksums, padding
    /\ (e.shape.net = "ip6" => [i \in 1..Len(Layer(d, "ip6").ext) |-> Layer(d, "ip6").ext[i].nh] = [i \in 1..Len(e.vals.ext) |-> e.vals.ext[i][1]])
    /\ \A q \in Range(e.bpf) : q[2] = q[3]                                 \* libpcap sees the values that were set

DissectedVals(e, d) ==
    LET v == e.vals  sh == e.shape  eth == Layer(d, "eth") IN
    /\ eth.dst = v.eth_dst /\ eth.src = v.eth_src
    /\ \A i \in 1..NTags(sh) : d.layers[1 + i].vid = v.vid[i] /\ d.layers[1 + i].pcp = v.pcp[i]
    /\ IF sh.net = "ip4"
       THEN LET ip == Layer(d, "ip4") IN
            /\ ip.src = v.ip_src /\ ip.dst = v.ip_dst /\ ip.ttl = v.ttl /\ ip.tos = v.tos /\ ip.id = v.ipid
            /\ (ip.flags \div 2) % 2 = v.df
            /\ ParseOpts(ip.opts, 1, 64) = UpToEnd(Pairs(v.ip4opts))
       ELSE LET ip == Layer(d, "ip6") IN
            /\ ip.src = v.ip_src /\ ip.dst = v.ip_dst /\ ip.hop = v.ttl /\ ip.tc = v.tos
            /\ ip.flow[1] * 65536 + ip.flow[2] * 256 + ip.flow[3] = v.flow
            /\ Len(ip.ext) = Len(v.ext)
            /\ \A i \in 1..Len(v.ext) : Len(ip.ext[i].data) >= Len(v.ext[i][2]) /\ SubSeq(ip.ext[i].data, 1, Len(v.ext[i][2])) = v.ext[i][2]
    /\ CASE sh.tr = "tcp" -> LET t == Layer(d, "tcp") IN
                             /\ t.sport = v.sport /\ t.dport = v.dport /\ t.seq = v.seq /\ t.ack = v.ack /\ t.win = v.win
                             /\ t.flags = v.flags /\ ParseOpts(t.opts, 1, 64) = UpToEnd(Pairs(v.tcpopts))
         [] sh.tr = "udp" -> Layer(d, "udp").sport = v.sport /\ Layer(d, "udp").dport = v.dport
         [] sh.tr = "icmp" -> Layer(d, "icmp").id = v.icmp_id /\ Layer(d, "icmp").seqn = v.icmp_seq /\ Layer(d, "icmp").type = v.flags
         [] OTHER -> Layer(d, "icmp6").id = v.icmp_id /\ Layer(d, "icmp6").seqn = v.icmp_seq /\ Layer(d, "icmp6").type = v.flags
    /\ d.payload = v.payload
C04OK(e, d) ==
    /\ e.thrown = ""
    /\ e.get = e.vals                                                      \* getters reflect exactly the accumulated edits
    /\ Kinds(d) = ExpectedKinds(e.shape) /\ DissectedVals(e, d)            \* ... and so do the wire bytes
    /\ e.rt.ok /\ e.rt.types = e.types                                     \* parsing the serialization gives the same packet
    /\ [e.rt.vals EXCEPT !.ext = e.vals.ext] = e.vals
    \* an IPv6 extension header is a whole number of 8-octet units on the wire: data that does not fill the last unit
    \* comes back followed by the zero padding (no parser can tell them apart), everything else identical
    /\ Len(e.rt.vals.ext) = Len(e.vals.ext)
    /\ \A i \in 1..Len(e.vals.ext) :
          LET a == e.vals.ext[i]  b == e.rt.vals.ext[i] IN
          /\ a[1] = b[1] /\ Len(b[2]) >= Len(a[2]) /\ Len(b[2]) - Len(a[2]) < 8
          /\ SubSeq(b[2], 1, Len(a[2])) = a[2] /\ \A j \in (Len(a[2]) + 1)..Len(b[2]) : b[2][j] = 0

HeaderSizeOK(e, h) ==      \* h = <<pdu type, header size, trailer size>>; libtins PDUType numbers: IP 28? -- use the shape instead
    TRUE
C02OK(e, d) ==
    LET sh == e.shape  n == NTags(sh)
        hs == e.hs
        netH == hs[2 + n]  trH == hs[3 + n] IN
    /\ e.thrown = ""                                                       \* serialize() succeeds
    /\ Len(e.bytes) = e.size                                               \* and returns exactly size() bytes
    /\ e.size = SumF(LAMBDA h : h[2] + h[3], hs)                           \* size() = sum of header and trailer sizes
    /\ e.overwrite = <<>>                                                  \* no layer wrote into its inner layers' bytes
    /\ netH[2] = (IF sh.net = "ip4" THEN IP4HeaderSize(Pairs(e.vals.ip4opts)) ELSE IP6HeaderSize(Pairs(e.vals.ext)))
    /\ trH[2] = (IF sh.tr = "tcp" THEN TCPHeaderSize(Pairs(e.vals.tcpopts)) ELSE 8)
    /\ hs[1][2] = 14 /\ \A i \in 1..n : hs[1 + i][2] = 4

Pkt == /\ IsEvent("pkt")
       /\ LET d == Dissect(Ev.bytes) IN
          CASE Prop = "C05" -> C05OK(Ev, d)
            [] Prop = "C04" -> C04OK(Ev, d)
            [] Prop = "C02" -> C02OK(Ev, d)
       /\ UNCHANGED dummy
Next == Pkt
Spec == Init /\ [][Next]_vars
=============================================================================
