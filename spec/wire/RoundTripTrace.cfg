SPECIFICATION Spec
CONSTRAINT Mark
CONSTRAINT MarkSilent
POSTCONDITION AllAccepted
CHECK_DEADLOCK FALSE
