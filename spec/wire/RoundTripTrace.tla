---------------------------- MODULE RoundTripTrace ----------------------------
(* Trace specification for C03 over the events of harness/wire_rt.cpp. *)
EXTENDS TraceIO, RoundTrip
VARIABLE dummy
vars == <<ex, l, dummy>>
Init == \E s \in Starts : TraceInit(s) /\ dummy = 0
Rt == /\ IsEvent("rt")
      \* inputs libtins rejects (or mutations that do not apply to this packet) are outside the property's "if libtins
      \* accepts a byte string"; a parser that fails with anything but malformed-packet is C01's business
      /\ UNCHANGED dummy
      \* (compared with TRUE so that TLC evaluates the predicate as a value instead of splitting its disjunctions into actions)
      /\ ((Ev.accepted /\ Ev.applied) => (IF Ev.mutk = "lie" THEN WeakRoundTripOK(Ev) ELSE RoundTripOK(Ev))) = TRUE
Next == Rt
Spec == Init /\ [][Next]_vars
MarkSilent == NoteSkipped(~(Log[ex + 1].accepted /\ Log[ex + 1].applied))
=============================================================================
