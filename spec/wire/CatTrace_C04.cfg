SPECIFICATION Spec
CONSTANT Prop = "C04"
CONSTRAINT Mark
POSTCONDITION AllAccepted
CHECK_DEADLOCK FALSE
