SPECIFICATION Spec
CONSTANT Prop = "C02"
CONSTRAINT Mark
POSTCONDITION AllAccepted
CHECK_DEADLOCK FALSE
