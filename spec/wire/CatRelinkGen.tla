---------------------------- MODULE CatRelinkGen ----------------------------
(* Generator for the re-linking histories of the catalogue part (C05, C02): composition `id` is built and serialised, then
   its layers below depth `d` are replaced by those of composition `re`, and the result is serialised again.  What libtins
   derives from the following layer (ethertypes, protocol numbers, the DLT_NULL family word, lengths, checksums, padding)
   has to follow the change; what a layer cached at the first serialisation must not survive it.
   Every triple is emitted; the concretisation (tools/families/wire.py) keeps those for which both compositions have the
   same kind of layer at depth d and different kinds below it - that needs the harness' inventory of the compositions. *)
EXTENDS Naturals, Sequences, TLC, Json
CONSTANTS Ids, Depths
VARIABLE s
Init == s \in {x \in [id : Ids, re : Ids, d : Depths, rep : {0}] : x.id # x.re}
Next == UNCHANGED s
Spec == Init /\ [][Next]_s
Emit == PrintT("SCN " \o ToJson(s))
=============================================================================
